"""U-INFERCTRL: Typer::{infer_if_expr, infer_while_expr, infer_go_expr, infer_tuple_expr, infer_field_expr} (whole) — C03."""
import re
from vlib.gen import Unit, Fn, Adt, Raw
from units.u_localcall import UNIT as LC

C = "crates/compiler/src/typer/check.rs"
VC = (re.compile(r"\.clone\(\)"), ".vclone()", "*")
# every push is followed by the (ghost) observation that the pushed constraint is now recorded — the witness for an existential postcondition, wherever the push stands
PUSHED = (re.compile(r"self\.push_constraint\(((?:[^()]|\((?:[^()]|\([^()]*\))*\))*)\);"), r"{ let __pc = \1; let ghost __pg = __pc; self.push_constraint(__pc); proof { assert(self.recorded().contains(__pg)); } }", "*")
base = [it for it in LC.items if not isinstance(it, Fn) or it.name == "get_ty"]


def has_after(var, stmt_re):
    """ghost steps: after a push_constraint the constraint is recorded (lemma_has_last); after every later elaboration call it still is (lemma_has_grows)"""
    return None


def whole(name, contract, obligation, ghost=(), rewrites=(), loop_fn=None, sigfix=()):
    return Fn(file=C, name=name, container="Typer", ret="r", attrs="#[verifier::loop_isolation(false)]",
              rewrites=[VC] + list(rewrites) + list(sigfix) + [PUSHED], contract=contract, obligation=obligation, ghost=list(ghost), loop_fn=loop_fn)


UNIT = Unit(
    name="U-INFERCTRL",
    properties=["C03", "C05"],
    # C05 only claims the clause about the scope an arm's pattern is checked in
    clause_scope={"C05": {"only": ["top_fresh("]}},
    rules=["attrs", "fmtmsg", ("strip", "tast::"), ("strip", "hir::"), ("strip", "common_defs::"), ("strip", "super::util::"), "for_index"],
    describe="Typer::{infer_if_expr, infer_while_expr, infer_go_expr, infer_tuple_expr, infer_field_expr, infer_unary_expr, infer_binary_expr} (whole): the typing rule of each form is recorded — a builtin operator's operands and result are related as the operator demands (arithmetic: one type; logic: bools; comparison: a bool over one operand type);  an `if`'s condition is "
             "equated with bool and BOTH branches with the type the `if` is given; a `while`'s condition with bool, its body with unit, and it has type unit; the operand of `go` "
             "with `() -> unit`; a tuple's type lists its items' types in order; a field access records the field constraint between the operand's type and the type it is given",
    trusted=["Typer::infer_expr is a stub (inferred: SOME elaboration; nothing recorded is lost); the typer's constraint list is ghost state of the opaque Typer; "
             "that the solver rejects an unsatisfiable equation is the unifier's job (not under contract)"],
    items=base + [
        whole("infer_if_expr",
              "ensures r matches Expr::EIf { cond: c, then_branch: t, else_branch: e, ty } && inferred(cond, *c) && inferred(then_branch, *t) && inferred(else_branch, *e)\n"
              "  && final(self).recorded().contains(Constraint::TypeEqual(expr_ty(*c), Ty::TBool))\n"
              "  && final(self).recorded().contains(Constraint::TypeEqual(expr_ty(*t), ty)) && final(self).recorded().contains(Constraint::TypeEqual(expr_ty(*e), ty)),",
              "if: condition = bool, both branches = the if's type"),
        whole("infer_while_expr",
              "ensures r matches Expr::EWhile { cond: c, body: b, ty } && ty is TUnit && inferred(cond, *c) && inferred(body, *b)\n"
              "  && final(self).recorded().contains(Constraint::TypeEqual(expr_ty(*c), Ty::TBool)) && final(self).recorded().contains(Constraint::TypeEqual(expr_ty(*b), Ty::TUnit)),",
              "while: condition = bool, body = unit, the loop has type unit"),
        whole("infer_unary_expr",
              "ensures r matches Expr::EUnary { op: o, expr: x, ty, resolution: _ } && o == op && inferred(expr, *x)\n"
              "  && (op is Not ==> ty is TBool && final(self).recorded().contains(Constraint::TypeEqual(expr_ty(*x), Ty::TBool))) && (op is Neg ==> ty == expr_ty(*x)),",
              "`!e`: e is a bool and so is the result; `-e`: the result has e's type"),
        whole("infer_binary_expr",
              "ensures r matches Expr::EBinary { op: o, lhs: l, rhs: rr, ty, resolution: _ } && o == op && inferred(lhs, *l) && inferred(rhs, *rr) && binary_rule_ok(op, *l, *rr, ty, final(self).recorded()),",
              "arithmetic: both operands have the result's type; `&&` / `||`: bools; comparison / equality: a bool, both operands of ONE type"),
        Fn(file=C, name="infer_match_expr", container="Typer", ret="r", attrs="#[verifier::loop_isolation(false)]",
           pre_rewrites=[("arms: &[hir::Arm]", "arms: &Vec<HirArm>", 1), ("let mut arms_tast = Vec::new();", "let mut arms_tast: Vec<Arm> = Vec::new();", 1)],
           rewrites=[VC, PUSHED],
           obligation="match: every arm's pattern is checked against the scrutinee's type — in a scope opened for that arm alone — and every arm's body has the type the match is given",
           contract="ensures match_rule_ok(expr, arms@, r, final(self).recorded()),",
           loop_fn=lambda k, header, kw: (lambda mt: (f"invariant {mt.group(1)} <= arms.len(), arms_tast@.len() == {mt.group(1)}, inferred(expr, expr_tast), expr_ty == ty_of_expr(expr_tast),\n"
               f"  forall|j: int| 0 <= j < {mt.group(1)} ==> pat_checked(arms@[j].pat, expr_ty, (#[trigger] arms_tast@[j]).pat) && inferred(arms@[j].body, arms_tast@[j].body) "
               f"&& self.recorded().contains(Constraint::TypeEqual(ty_of_expr(arms_tast@[j].body), arm_ty)),\n decreases arms.len() - {mt.group(1)},") if mt else None)(
               re.search(r"while\s+(__fk\d+)\s*<\s*arms\.len\(\)", header))),
        whole("check_pat_wild",
              "ensures r matches Pat::PWild { ty: t } && final(self).recorded().contains(Constraint::TypeEqual(t, *ty)),",
              "a wildcard pattern has the scrutinee's type"),
        Fn(file=C, name="check_pat_var", container="Typer", ret="r", rewrites=[VC, ("self.hir_table.local_ident_name(name)", "self.local_ident_name(name)", "*"), (re.compile(r"self\.results\.record_"), "self.record_", "*")],
           obligation="a variable pattern binds the variable at the type of the value it is matched against",
           contract="ensures r matches Pat::PVar { name: _, ty: t, astptr: _ } && t == *ty && final(local_env).bound(name) == Some(*ty),"),
        Fn(file="crates/compiler/src/tast.rs", name="get_ty", container="Pat", ret="r", rewrites=[VC], contract="ensures r == pat_ty(*self),", obligation="get_ty returns the carried type"),
        Fn(file=C, name="check_pat_tuple", container="Typer", ret="r", attrs="#[verifier::loop_isolation(false)]",
           rules=["attrs", "fmtmsg", ("strip", "tast::"), ("strip", "hir::"), ("strip", "common_defs::"), ("strip", "super::util::"), "for_zip"],
           pre_rewrites=[("pats: &[hir::PatId]", "pats: &Vec<PatId>", 1), ("(0..pats.len()).map(|_| self.fresh_ty_var()).collect()", "self.fresh_ty_vars(pats.len())", 1),
                         ("self.check_pat(", "self.check_sub_pat(", "*"),
                         ("let mut pats_tast = Vec::new();", "let mut pats_tast: Vec<Pat> = Vec::new();", 1), ("let mut pat_typs = Vec::new();", "let mut pat_typs: Vec<Ty> = Vec::new();", 1)],
           rewrites=[VC, PUSHED],
           obligation="a tuple pattern: item i is checked against component i of the scrutinee's tuple type, in order; the pattern's type lists the items' types and is equated with the scrutinee's",
           contract="ensures tuple_pat_ok(pats@, *ty, r, final(self).recorded()),",
           loop_fn=lambda k, header, kw: (lambda mt: (f"invariant {mt.group(1)} <= pats.len(), {mt.group(1)} <= expected_elem_tys.len(), pats_tast@.len() == {mt.group(1)}, pat_typs@.len() == {mt.group(1)},\n"
               f"  forall|j: int| 0 <= j < {mt.group(1)} ==> sub_elab(#[trigger] pats@[j], pats_tast@[j]),\n"
               f"  forall|j: int| 0 <= j < {mt.group(1)} ==> #[trigger] pat_typs@[j] == pat_ty(pats_tast@[j]),\n decreases pats.len() - {mt.group(1)},") if mt else None)(
               re.search(r"while\s+(__zk\d+)\s*<\s*pats\.len\(\)", header))),
        whole("infer_go_expr",
              "ensures r matches Expr::EGo { expr: x, ty } && ty is TUnit && inferred(expr, *x)\n"
              "  && exists|ft: Ty| #[trigger] final(self).recorded().contains(Constraint::TypeEqual(expr_ty(*x), ft)) && (ft matches Ty::TFunc { params, ret_ty } && params@.len() == 0 && *ret_ty is TUnit),",
              "go: the operand is a function without parameters returning unit",
              rewrites=[("params: vec![],", "params: no_params(),", "*")]),
        whole("infer_tuple_expr",
              "ensures r matches Expr::ETuple { items: a, ty } && a@.len() == items@.len() && (forall|i: int| 0 <= i < items@.len() ==> inferred(#[trigger] items@[i], a@[i]))\n"
              "  && (ty matches Ty::TTuple { typs } && typs@.len() == a@.len() && forall|i: int| 0 <= i < a@.len() ==> #[trigger] typs@[i] == expr_ty(a@[i])),",
              "tuple: the type lists the items' types, in order",
              sigfix=[("items: &[ExprId]", "items: &Vec<ExprId>", 1), ("let mut typs = Vec::new();", "let mut typs: Vec<Ty> = Vec::new();", 1),
                      ("let mut items_tast = Vec::new();", "let mut items_tast: Vec<Expr> = Vec::new();", 1)],
              loop_fn=lambda k, header, kw: (lambda mt: (f"invariant {mt.group(1)} <= items.len(), items_tast@.len() == {mt.group(1)}, typs@.len() == {mt.group(1)},\n"
                                                         f"  forall|j: int| 0 <= j < {mt.group(1)} ==> inferred(#[trigger] items@[j], items_tast@[j]),\n"
                                                         f"  forall|j: int| 0 <= j < {mt.group(1)} ==> #[trigger] typs@[j] == expr_ty(items_tast@[j]),\n decreases items.len() - {mt.group(1)},") if mt else None)(
                                                         re.search(r"while\s+(__fk\d+)\s*<\s*items\.len\(\)", header))),
        whole("infer_array_expr",
              "ensures r matches Expr::EArray { items: a, ty } && a@.len() == items@.len() && (forall|i: int| 0 <= i < items@.len() ==> inferred(#[trigger] items@[i], a@[i]))\n"
              "  && (ty matches Ty::TArray { len: n, elem } && n == items@.len() && forall|i: int| 0 <= i < a@.len() ==> final(self).recorded().contains(Constraint::TypeEqual(expr_ty(#[trigger] a@[i]), *elem))),",
              "array literal: the length is the number of items and EVERY item's type is equated with the element type",
              sigfix=[("items: &[ExprId]", "items: &Vec<ExprId>", 1), ("let mut items_tast = Vec::with_capacity(len);", "let mut items_tast: Vec<Expr> = Vec::with_capacity(len);", 1)],
              loop_fn=lambda k, header, kw: (lambda mt: (f"invariant {mt.group(1)} <= items.len(), items_tast@.len() == {mt.group(1)},\n"
                                                         f"  forall|j: int| 0 <= j < {mt.group(1)} ==> inferred(#[trigger] items@[j], items_tast@[j]),\n"
                                                         f"  forall|j: int| 0 <= j < {mt.group(1)} ==> self.recorded().contains(Constraint::TypeEqual(expr_ty(#[trigger] items_tast@[j]), elem_ty)),\n decreases items.len() - {mt.group(1)},") if mt else None)(
                                                         re.search(r"while\s+(__fk\d+)\s*<\s*items\.len\(\)", header))),
        Fn(file=C, name="infer_closure_expr", container="Typer", ret="r", attrs="#[verifier::loop_isolation(false)]",
           pre_rewrites=[("params: &[hir::ClosureParam]", "params: &Vec<HirClosureParam>", 1), ("self.hir_table.local_ident_name(", "self.local_ident_name(", "*"),
                         (re.compile(r"self\.results\.record_"), "self.record_", "*"), ("&self.hir_table", "self.hir_table_ref()", "*"),
                         ("let mut params_tast = Vec::new();", "let mut params_tast: Vec<ClosureParam> = Vec::new();", 1), ("let mut param_tys = Vec::new();", "let mut param_tys: Vec<Ty> = Vec::new();", 1)],
           rewrites=[VC, PUSHED],
           obligation="closure: one parameter type per parameter, in order (the annotation's type where one is written), the body's type as result type",
           contract="ensures closure_rule_ok(params@, body, r),",
           loop_fn=lambda k, header, kw: (lambda mt: (f"invariant {mt.group(1)} <= params.len(), params_tast@.len() == {mt.group(1)}, param_tys@.len() == {mt.group(1)},\n"
               f"  forall|j: int| 0 <= j < {mt.group(1)} ==> (#[trigger] param_tys@[j]) == params_tast@[j].ty && (params@[j].ty matches Some(h) ==> annot_ty(h, param_tys@[j])),\n decreases params.len() - {mt.group(1)},") if mt else None)(
               re.search(r"while\s+(__fk\d+)\s*<\s*params\.len\(\)", header))),
        Fn(file=C, name="check_closure_expr", container="Typer", ret="r", attrs="#[verifier::loop_isolation(false)]",
           rules=["attrs", "fmtmsg", ("strip", "tast::"), ("strip", "hir::"), "for_zip", "opt_map"],
           pre_rewrites=[("params: &[hir::ClosureParam]", "params: &Vec<HirClosureParam>", 1), ("self.hir_table.local_ident_name(", "self.local_ident_name(", "*"),
                         (re.compile(r"self\.results\.record_"), "self.record_", "*"), ("&self.hir_table", "self.hir_table_ref()", "*"), ("expected_ret.as_ref()", "&**expected_ret", "*"),
                         ("let mut params_tast = Vec::new();", "let mut params_tast: Vec<ClosureParam> = Vec::new();", 1), ("let mut param_tys = Vec::new();", "let mut param_tys: Vec<Ty> = Vec::new();", 1)],
           rewrites=[VC, PUSHED],
           obligation="closure against an expected type: its type is built from its parameters' types (the annotation's where one is written), in order, and its body's type — whatever is done with the expected type",
           contract="ensures check_closure_ok(params@, body, *expected, r, final(self).recorded()),",
           loop_fn=lambda k, header, kw: (lambda mt: (f"invariant {mt.group(1)} <= params.len(), params_tast@.len() == {mt.group(1)}, param_tys@.len() == {mt.group(1)},\n"
               f"  forall|j: int| 0 <= j < {mt.group(1)} ==> (#[trigger] param_tys@[j]) == params_tast@[j].ty && (params@[j].ty matches Some(h) ==> annot_ty(h, param_tys@[j])),\n decreases params.len() - {mt.group(1)},") if mt else None)(
               re.search(r"while\s+(__zk\d+)\s*<\s*params\.len\(\)", header))),
        # ---- blocks: the wrappers open the scope (C05 clause: top_fresh is the precondition of the walkers), the walkers type the block
        whole("infer_block_expr", "ensures block_ok(exprs@, r, None),", "block: empty = unit; otherwise its expressions are elaborated in a scope opened for this block",
              sigfix=[("exprs: &[ExprId]", "exprs: &Vec<ExprId>", 1)]),
        whole("check_block_expr", "ensures block_ok(exprs@, r, Some(*expected)),", "block in checking mode: the same, the last expression checked against the expected type",
              sigfix=[("exprs: &[ExprId]", "exprs: &Vec<ExprId>", 1)]),
        whole("infer_block_exprs", "requires old(local_env).top_fresh(),\nensures block_ok(exprs@, r, None),", "block: every expression inferred in order, the type is the last one's",
              sigfix=[("exprs: &[ExprId]", "exprs: &Vec<ExprId>", 1), ("let mut tast_exprs = Vec::new();", "let mut tast_exprs: Vec<Expr> = Vec::new();", 1),
                      (re.compile(r"tast_exprs\s*\.(last|first)\(\)\s*\.map\(\|e\| e\.get_ty\(\)\)\s*\.unwrap_or\(Ty::TUnit\)"), r"\1_ty(&tast_exprs)", 1)],
              loop_fn=lambda k, header, kw: (lambda mt: (f"invariant {mt.group(1)} <= exprs.len(), tast_exprs@.len() == {mt.group(1)},\n"
                  f"  forall|j: int| 0 <= j < {mt.group(1)} ==> elaborated(#[trigger] exprs@[j], tast_exprs@[j]),\n decreases exprs.len() - {mt.group(1)},") if mt else None)(
                  re.search(r"while\s+(__fk\d+)\s*<\s*exprs\.len\(\)", header))),
        Fn(file=C, name="check_block_exprs", container="Typer", ret="r", attrs="#[verifier::loop_isolation(false)]",
           pre_rewrites=[("exprs: &[hir::ExprId]", "exprs: &Vec<ExprId>", 1), ("let mut tast_exprs = Vec::new();", "let mut tast_exprs: Vec<Expr> = Vec::new();", 1),
                         (re.compile(r"for \((\w+), (\w+)\) in exprs\.iter\(\)\.enumerate\(\) \{"), r"let mut __en: usize = 0; for \2 in exprs.iter() { let \1 = __en; __en += 1;", 1),
                         (re.compile(r"tast_exprs\s*\.(last|first)\(\)\s*\.map\(\|e\| e\.get_ty\(\)\)\s*\.unwrap_or\(tast::Ty::TUnit\)"), r"\1_ty(&tast_exprs)", 1)],
           rewrites=[VC, PUSHED],
           obligation="block in checking mode: all but the last expression inferred, the last one checked against the expected type; the type is the last one's",
           contract="requires old(local_env).top_fresh(),\nensures block_ok(exprs@, r, Some(*expected)),",
           loop_fn=lambda k, header, kw: (lambda mt: (f"invariant {mt.group(1)} <= exprs.len(), tast_exprs@.len() == {mt.group(1)}, __en == {mt.group(1)}, len == exprs.len(), len > 0,\n"
               f"  forall|j: int| 0 <= j < {mt.group(1)} ==> elaborated(#[trigger] exprs@[j], tast_exprs@[j]),\n decreases exprs.len() - {mt.group(1)},") if mt else None)(
               re.search(r"while\s+(__fk\d+)\s*<\s*exprs\.len\(\)", header))),
        Fn(file=C, name="infer_proj_expr", container="Typer", ret="r", attrs="#[verifier::loop_isolation(false)]",
           pre_rewrites=[(re.compile(r"(\w+)\.get\((\w+)\)\.cloned\(\)\.unwrap_or_else\(\|\| \{(.*?)\n(\s*)\}\);", re.S),
                          r"match vec_get_cloned(\1, \2) { Some(__t) => __t, None => {\3\n\4} };", 1),
                         ("diagnostics::Stage::Typer", "Stage::Typer", "*"), ("diagnostics::Severity::Error", "Severity::Error", "*")],
           rewrites=[VC, PUSHED],
           obligation="projection: the component's type for a tuple type that has that component; otherwise an error is reported",
           contract="ensures proj_rule_ok(tuple, index, r, old(diagnostics).errors(), final(diagnostics).errors()),"),
        Fn(file=C, name="infer_let_expr", container="Typer", ret="r", attrs="#[verifier::loop_isolation(false)]",
           rules=["attrs", "fmtmsg", ("strip", "tast::"), ("strip", "hir::"), "opt_map"],
           pre_rewrites=[("annotation: &Option<hir::TypeExpr>", "annotation: &Option<HirTypeExpr>", 1), ("self.check_pat(", "self.check_pat_here(", "*")],
           rewrites=[VC, PUSHED],
           obligation="let: with an annotation the value is checked against it and the pattern takes that type; without, the value is inferred and the pattern takes its type; unit",
           contract="ensures let_rule_ok(pat, *annotation, value, r, final(self).recorded()),"),
        Fn(file=C, name="check_let_expr", container="Typer", ret="r", attrs="#[verifier::loop_isolation(false)]",
           rules=["attrs", "fmtmsg", ("strip", "tast::"), ("strip", "hir::"), "opt_map"],
           pre_rewrites=[("annotation: &Option<hir::TypeExpr>", "annotation: &Option<HirTypeExpr>", 1), ("self.check_pat(", "self.check_pat_here(", "*")],
           rewrites=[VC, PUSHED],
           obligation="let: with an annotation the value is checked against it and the pattern takes that type; without, the value is inferred and the pattern takes its type; unit",
           contract="ensures let_rule_ok(pat, *annotation, value, r, final(self).recorded()),"),
        Fn(file=C, name="infer_struct_literal_expr", container="Typer", as_method_of="Typer", rename="struct_lit_tail", ret="r", attrs="#[verifier::loop_isolation(false)]",
           rules=["attrs", "fmtmsg", ("strip", "tast::"), ("strip", "hir::"), ("strip", "common::"), ("strip", "super::util::"), "iter_map_collect"],
           cut_from="let ret_ty = match &inst_constr_ty {", cut_tail="",
           sig="pub fn struct_lit_tail(&mut self, expr_id: ExprId, constructor: Constructor, inst_constr_ty: Ty, args_tast: Vec<Expr>, elab_args: Vec<StructLitArgElab>) -> Expr",
           pre_rewrites=[(re.compile(r"self\s*\.results\s*\.record_"), "self.record_", "*"),
                         (re.compile(r"!(\w+)\.is_empty\(\)"), r"(\1.len() > 0)", "*")],
           rewrites=[VC, PUSHED, (re.compile(r"params: \{ let mut (__mo\d+) = Vec::new\(\);"), r"params: { let mut \1: Vec<Ty> = Vec::new();", "*")],
           obligation="struct literal: the value has the instantiated constructor's result type, and that instantiated type is equated with (types of the ordered field values) -> (that type)",
           contract="ensures struct_lit_ok(inst_constr_ty, constructor, args_tast@, r, final(self).recorded()),",
           loop_fn=lambda k, header, kw: (lambda mt: (f"invariant __mi{mt.group(1)} <= args_tast.len(), __mo{mt.group(1)}@.len() == __mi{mt.group(1)},\n"
               f"  forall|j: int| 0 <= j < __mi{mt.group(1)} ==> #[trigger] __mo{mt.group(1)}@[j] == expr_ty(args_tast@[j]),\n decreases args_tast.len() - __mi{mt.group(1)},") if mt else None)(
               re.search(r"while\s+__mi(\d+)\s*<\s*args_tast\.len\(\)", header))),
        whole("infer_field_expr",
              "ensures r matches Expr::EField { expr: b, field_name, ty, astptr: _ } && inferred(expr, *b) && field_name@ == field.text()\n"
              "  && exists|f: TastIdent| #[trigger] final(self).recorded().contains(Constraint::StructFieldAccess { expr_ty: expr_ty(*b), field: f, result_ty: ty }) && f.0@ == field.text(),",
              "field access: the field constraint relates the operand's type, the field written and the type the access is given",),
    ],
)
