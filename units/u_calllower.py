"""U-CALLLOWER: the generic-callee branch (`other => { .. }`) of the CallExpr arm of ast::lower::lower_expr_with_args (fragment)."""
import re
from vlib.gen import Unit, Fn, Adt, Raw

LW = "crates/ast/src/lower.rs"
A = "crates/ast/src/ast.rs"

UNIT = Unit(
    name="U-CALLLOWER",
    properties=["C11"],
    rules=["attrs"],
    describe="ast::lower, call expressions (fragment: the generic-callee branch of the CallExpr arm): a callee that is not an operator node — a "
             "parenthesised expression, a call, a closure, a field access, anything else — is lowered as it stands and CALLED with exactly the "
             "call's own arguments (further argument lists are applied to that call); only a prefix operator or a binary operator other than `.` "
             "takes the arguments inward (`-f(x)` reads `-(f(x))`), and then all of them, in order; a call without arguments (`-f()`) is put around "
             "the operand of the lowered operator node (helpers lower_operator_callee, apply_nullary_call)",
    trusted=["FRAGMENT: one branch of one arm of lower_expr_with_args; the recursive lowerings and apply_trailing_args are stubs with uninterpreted results; "
             "cst::Expr is a shim with the node kinds this branch distinguishes; `Vec::extend(Vec)` is a shim (appends)"],
    items=[
        Raw(text="pub mod ast {\nuse vstd::prelude::*;\n"),
        Raw(path="contracts/ast.shim.rs"),
        Adt(file=A, kw="struct", name="AstIdent", rules=["attrs"]),
        Adt(file=A, kw="struct", name="ClosureParam", rules=["attrs"]),
        Adt(file=A, kw="enum", name="Expr", rules=["attrs", ("strip", "common_defs::")]),
        Adt(file=A, kw="struct", name="Arm", rules=["attrs"]),
        Adt(file=A, kw="enum", name="Pat", rules=["attrs"]),
        Raw(text="}\npub use ast::MySyntaxNodePtr;\n"),
        Raw(path="contracts/calllower.shim.rs"),
        Fn(file=LW, name="lower_expr_with_args", rename="lower_call_other", ret="r",
           cut_from=re.compile(r"\n                    other => \{(?=\s*(?://[^\n]*\s*)*if !?matches!\(&other)"), cut_inside=True, cut_before="@block-end", cut_tail="",
           sig="fn lower_call_other(ctx: &mut LowerCtx, it: &CstNode, other: cst::Expr, args: Vec<ast::Expr>, trailing_args: Vec<ast::Expr>, astptr: MySyntaxNodePtr) -> Option<ast::Expr>",
           rewrites=[(re.compile(r"matches!\(\s*bin_expr\.op\(\)\.map\(\|tok\| tok\.kind\(\)\),\s*Some\(MySyntaxKind::Dot\)\s*\)"), "bin_is_dot(bin_expr)", "*"),
                     (re.compile(r"\b(\w+)\.extend\((\w+)\);"), r"vec_extend_exprs(&mut \1, \2);", "*"),
                     (re.compile(r"let func_expr = lower_expr\(ctx, other\)\?;"), "let func_expr = match lower_expr(ctx, other) { Some(v) => v, None => { return None; } };", "*")],
           obligation="a non-operator callee is called with the call's own arguments; an operator node takes all arguments inward, in order — and a "
                      "call WITHOUT arguments is not lost on the way (`-f()` is `-(f())`)",
           contract="ensures call_lowered(r, other, args@, trailing_args@, astptr),"),
        Fn(file=LW, name="apply_nullary_call", ret="r", optional=True,
           obligation="the call without arguments is put around the operand: through prefix operators, into the right operand of binary operators",
           contract="ensures is_nullary_call_of(r, expr, call_astptr),\n decreases expr,"),
        Fn(file=LW, name="lower_operator_callee", ret="r", optional=True,
           rewrites=[(re.compile(r"let (\w+) = lower_expr\(ctx, (\w+)\)\?;"), r"let \1 = match lower_expr(ctx, \2) { Some(v) => v, None => { return None; } };", "*")],
           obligation="an operator node in callee position: arguments travel inward; a call without arguments is put around the lowered node's operand",
           contract="ensures operator_callee_lowered(r, callee, args@, call_astptr),"),
    ],
)
