"""U-CALLLOWER: the generic-callee branch (`other => { .. }`) of the CallExpr arm of ast::lower::lower_expr_with_args (fragment)."""
import re
from units.common import arm_guard
from vlib.gen import Unit, Fn, Adt, Raw

LW = "crates/ast/src/lower.rs"
A = "crates/ast/src/ast.rs"

UNIT = Unit(
    name="U-CALLLOWER",
    properties=["C11"],
    rules=["attrs"],
    describe="ast::lower, call expressions (fragment: the generic-callee branch of the CallExpr arm): a callee that is not an operator node — a "
             "parenthesised expression, a call, a closure, a field access, anything else — is lowered as it stands and CALLED with exactly the "
             "call's own arguments (further argument lists are applied to that call); only a prefix operator or a binary operator other than `.` "
             "takes the arguments inward (`-f(x)` reads `-(f(x))`), and then all of them, in order; a call without arguments (`-f()`) is put around "
             "the operand of the lowered operator node (helpers lower_operator_callee, apply_nullary_call)",
    trusted=["FRAGMENT lower_dot: the `.` arm of the BinaryExpr arm of lower_expr_with_args; its identifier case (field access) is replaced by a stub and not "
             "claimed; SyntaxToken / IntExpr / FloatExpr are shims (token text uninterpreted), str::parse::<usize> is the uninterpreted usize_of, "
             "str::split_once('.') is specified as splitting at the first dot; that the lexer produces a float token for `1.0` after a dot is not part of the unit",
             "FRAGMENT: one branch of one arm of lower_expr_with_args; the recursive lowerings and apply_trailing_args are stubs with uninterpreted results; "
             "cst::Expr is a shim with the node kinds this branch distinguishes; `Vec::extend(Vec)` is a shim (appends)"],
    items=[
        arm_guard("crates/ast/src/lower.rs", "lower_expr_with_args", None, r"match node \{",
                  ['cst::Expr::UnitExpr', 'cst::Expr::BoolExpr', 'cst::Expr::IntExpr', 'cst::Expr::Int8Expr', 'cst::Expr::Int16Expr', 'cst::Expr::Int32Expr', 'cst::Expr::Int64Expr', 'cst::Expr::UInt8Expr', 'cst::Expr::UInt16Expr', 'cst::Expr::UInt32Expr', 'cst::Expr::UInt64Expr', 'cst::Expr::FloatExpr', 'cst::Expr::Float32Expr', 'cst::Expr::Float64Expr', 'cst::Expr::StrExpr', 'cst::Expr::MultilineStrExpr', 'cst::Expr::CallExpr', 'cst::Expr::MatchExpr', 'cst::Expr::GoExpr', 'cst::Expr::IfExpr', 'cst::Expr::WhileExpr', 'cst::Expr::StructLiteralExpr', 'cst::Expr::ArrayLiteralExpr', 'cst::Expr::IdentExpr', 'cst::Expr::TupleExpr', 'cst::Expr::ParenExpr', 'cst::Expr::PrefixExpr', 'cst::Expr::BinaryExpr', 'cst::Expr::ClosureExpr']),
        Raw(text="pub mod ast {\nuse vstd::prelude::*;\n"),
        Raw(path="contracts/ast.shim.rs"),
        Adt(file=A, kw="struct", name="AstIdent", rules=["attrs"]),
        Adt(file=A, kw="struct", name="ClosureParam", rules=["attrs"]),
        Adt(file=A, kw="enum", name="Expr", rules=["attrs", ("strip", "common_defs::")]),
        Adt(file=A, kw="struct", name="Arm", rules=["attrs"]),
        Adt(file=A, kw="enum", name="Pat", rules=["attrs"]),
        Raw(text="}\npub use ast::MySyntaxNodePtr;\n"),
        Raw(path="contracts/calllower.shim.rs"),
        Fn(file=LW, name="lower_expr_with_args", rename="lower_call_other", ret="r",
           cut_from=re.compile(r"\n                    other => \{(?=\s*(?://[^\n]*\s*)*if !?matches!\(&other)"), cut_inside=True, cut_before="@block-end", cut_tail="",
           sig="fn lower_call_other(ctx: &mut LowerCtx, it: &CstNode, other: cst::Expr, args: Vec<ast::Expr>, trailing_args: Vec<ast::Expr>, astptr: MySyntaxNodePtr) -> Option<ast::Expr>",
           rewrites=[(re.compile(r"matches!\(\s*bin_expr\.op\(\)\.map\(\|tok\| tok\.kind\(\)\),\s*Some\(MySyntaxKind::Dot\)\s*\)"), "bin_is_dot(bin_expr)", "*"),
                     (re.compile(r"\b(\w+)\.extend\((\w+)\);"), r"vec_extend_exprs(&mut \1, \2);", "*"),
                     (re.compile(r"let func_expr = lower_expr\(ctx, other\)\?;"), "let func_expr = match lower_expr(ctx, other) { Some(v) => v, None => { return None; } };", "*")],
           obligation="a non-operator callee is called with the call's own arguments; an operator node takes all arguments inward, in order — and a "
                      "call WITHOUT arguments is not lost on the way (`-f()` is `-(f())`)",
           contract="ensures call_lowered(r, other, args@, trailing_args@, astptr),"),
        Fn(file=LW, name="lower_expr_with_args", rename="lower_dot", ret="r", rules=["attrs", "fmtmsg", "msg_to_string", "opt_and_then"],
           cut_from="MySyntaxKind::Dot => match rhs_cst {", cut_inside=True, cut_before="@block-end", cut_tail="}\n",
           sig="fn lower_dot(ctx: &mut LowerCtx, rhs_cst: cst::Expr, lhs: ast::Expr, trailing_args: Vec<ast::Expr>, astptr: MySyntaxNodePtr) -> Option<ast::Expr> { match rhs_cst",
           pre_rewrites=[
               # the identifier case (field access, method call) is handed to a stub: not claimed here
               (re.compile(r"cst::Expr::IdentExpr\(ident_expr\) => \{.*?\n                    \}\n(?=\s*other => \{)", re.S),
                "cst::Expr::IdentExpr(ident_expr) => { lower_field_access(ctx, ident_expr, lhs, trailing_args, astptr) }\n", 1),
               (re.compile(r"(\w+)\s*\.value\(\)\s*\.map\(\|t\| t\.to_string\(\)\)\s*\.unwrap_or_default\(\)"), r"token_text_or_default(\1.value())", "*"),
               (re.compile(r"(\w+)\.split_once\('\.'\)"), r"str_split_once_dot(&\1)", "*"),
               # inside a closure that returns an Option, `x?` is `match x { Some(v) => v, None => return None }`: the pair of two such operands
               (re.compile(r"Some\(\((\w+)\.parse::<usize>\(\)\.ok\(\)\?, (\w+)\.parse::<usize>\(\)\.ok\(\)\?\)\)"),
                r"(match parse_usize(\1) { Some(__x) => (match parse_usize(\2) { Some(__y) => Some((__x, __y)), None => None }), None => None })", "*"),
               (re.compile(r"(\w+)\.parse::<usize>\(\)"), r"parse_usize_res(&\1)", "*"),
           ],
           obligation="after a `.`, an integer token n is the projection of the left operand at n; a float token spelled `a.b` is the projection at b of the "
                      "projection at a (field access is left-associative: `t.1.0` is `(t.1).0`)",
           contract="ensures proj_lowered(r, rhs_cst, lhs, astptr),"),
        Fn(file=LW, name="apply_nullary_call", ret="r", optional=True,
           obligation="the call without arguments is put around the operand: through prefix operators, into the right operand of binary operators",
           contract="ensures is_nullary_call_of(r, expr, call_astptr),\n decreases expr,"),
        Fn(file=LW, name="lower_operator_callee", ret="r", optional=True,
           rewrites=[(re.compile(r"let (\w+) = lower_expr\(ctx, (\w+)\)\?;"), r"let \1 = match lower_expr(ctx, \2) { Some(v) => v, None => { return None; } };", "*")],
           obligation="an operator node in callee position: arguments travel inward; a call without arguments is put around the lowered node's operand",
           contract="ensures operator_callee_lowered(r, callee, args@, call_astptr),"),
    ],
)
