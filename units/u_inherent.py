"""U-INHERENT: the method loop of typer::toplevel::define_inherent_impl (C17: ambiguous method names are rejected, not resolved arbitrarily)."""
import re
from vlib.gen import Unit, Fn, Adt, Raw

T = "crates/compiler/src/typer/toplevel.rs"
M = "old(env).cur.trait_env.inherent_impls.methods(key)"
T0 = "old(env).cur.trait_env.inherent_impls"
E0 = "old(env).cur"


def loops(k, header, kw, body=None):
    if "__fk0 <" not in header:
        return None
    return ("invariant __fk0 <= impl_block.methods@.len(), *env == *old(env), implemented_methods@ == names_upto(hir_table, impl_block, __fk0 as int),\n"
            "  diagnostics.errors() >= old(diagnostics).errors(),\n"
            f"  any_ambiguous({E0}, key, for_ty, hir_table, impl_block, __fk0 as int) ==> diagnostics.errors() > old(diagnostics).errors(),\n"
            f"  forall|n: Seq<char>| methods_to_add@.dom().contains(n) ==> !is_taken({E0}, key, for_ty, n),\n"
            f"  forall|n: Seq<char>| names_upto(hir_table, impl_block, __fk0 as int).contains(n) && !is_taken({E0}, key, for_ty, n) ==> methods_to_add@.dom().contains(n),\n"
            "decreases impl_block.methods@.len() - __fk0,")


UNIT = Unit(
    name="U-INHERENT",
    properties=["C17"],
    rules=["attrs", ("strip", "tast::"), ("strip", "hir::"), ("strip", "env::"), "fmtmsg", "for_index", "opt_is_some_and"],
    describe="typer::toplevel::define_inherent_impl, the loop over the methods of one inherent impl block and the merge into the type's method table: "
             "a method whose name the type already has — from an earlier impl block of the same key, from an earlier entry of this block, or under the "
             "OTHER kind of key for the same type constructor (`impl Box[int32]` vs `impl[T] Box[T]`: the two call forms would resolve differently), or "
             "because it is the name of a variant of the enum the block is for (`T::m(x)` is then the constructor, `x.m()` the method) — is an "
             "error diagnostic, never replaces an existing definition and is not merged; every other method is defined afterwards",
    trusted=["FRAGMENT inherent_methods: define_inherent_impl from `let mut methods_to_add` to its end; the computation of the impl's key and the "
             "orphan test before it are not in this unit. Inside the loop the statements that build the method's type scheme (from "
             "`let mut all_generics` to the `methods_to_add.insert`, with the FnScheme literal) are replaced by the stub method_scheme (arbitrary "
             "scheme, diagnostics may grow); `entry(key).or_default()` + `methods.extend(..)` is the shim inherent_extend (IndexMap::extend: same-name "
             "entries are replaced); hir::ImplBlock / hir::Def / hir::Fn / HirTable, HashSet<String>, IndexMap<String, FnScheme> are shims",
             "toplevel::inherent_method_overlaps is verified (whole function): `impls.iter()` is the shim entries_vec (every key that has a method is among "
             "the entries); toplevel::method_named_like_variant is verified (whole function): `env.current().enums()` is the shim EnumTable (keyed by the TEXT of "
             "the enum's name), `variant.0 == method` is the shim string_eq_str; typer::util::try_constr_name is verified (whole function) against constr_name_of; ASSUMED axiom: the table is keyed by the TEXT of a constructor name (axiom_constr_key_by_text)"],
    items=[
        Adt(file="crates/compiler/src/tast.rs", kw="enum", name="Ty", rules=["attrs"]),
        Adt(file="crates/compiler/src/env.rs", kw="enum", name="InherentImplKey", rules=["attrs", ("strip", "tast::")]),
        Raw(path="contracts/orphan.shim.rs"),
        Raw(path="contracts/inherent.shim.rs"),
        Fn(file="crates/compiler/src/typer/util.rs", name="try_constr_name", ret="r", rules=["attrs", ("strip", "tast::")],
           rewrites=[(re.compile(r'("\w+")\.to_string\(\)'), r"lit_string(\1)", "*"), (re.compile(r"\.clone\(\)"), ".vclone()", "*")],
           obligation="the constructor name of a type: the enum's / struct's own name under any number of applications; Vec; Ref; nothing else has one",
           contract="ensures r matches Some(c) ==> constr_name_of(*ty) == Some(c@), r is None ==> constr_name_of(*ty) is None,\n decreases *ty,"),
        Fn(file=T, name="inherent_method_overlaps", ret="r", optional=True, attrs="#[verifier::loop_isolation(false)]",
           rules=["attrs", ("strip", "tast::"), ("strip", "hir::"), ("strip", "env::"), ("strip", "super::util::"), "opt_is_some_and", "iter_any"],
           pre_rewrites=[("let impls = &env.current().trait_env.inherent_impls;", "let impls = &env.current().trait_env.inherent_impls; let __ents = impls.entries_vec();", 1),
                         ("impls.iter().any(", "__ents.iter().any(", "*"),
                         (re.compile(r"matches!\(other, env::InherentImplKey::Exact\(ty\)\s*if super::util::try_constr_name\(ty\)\.as_deref\(\) == Some\(constr\.as_str\(\)\)\)"),
                          "(match other { InherentImplKey::Exact(ty) => constr_is(ty, constr), _ => false })", "*")],
           rewrites=[(re.compile(r"\.methods\.contains_key\(method\)"), ".methods.contains_str(method)", "*")],
           obligation="true exactly when the method is defined under the OTHER kind of key for the same type constructor — for EVERY instance impl of the "
                      "constructor, not just the first one the table lists",
           contract="ensures r == overlap_defined(env.cur.trait_env.inherent_impls, *key, *for_ty, method@),",
           ghost=[("?Some(constr) =>", "line-after", "proof { assert forall|k: InherentImplKey| k matches InherentImplKey::Constr(cs) && cs@ == constr@ implies "
                   "#[trigger] env.cur.trait_env.inherent_impls.methods(k) == env.cur.trait_env.inherent_impls.methods(InherentImplKey::Constr(constr)) by { "
                   "axiom_constr_key_by_text(env.cur.trait_env.inherent_impls, k, InherentImplKey::Constr(constr)); } }")],
           loop_fn=lambda k, header, kw: ("invariant __i0 <= __ents@.len(),\n"
               "  !__r0 ==> forall|j: int| 0 <= j < __i0 ==> !((#[trigger] __ents@[j]).0 matches InherentImplKey::Exact(ty) && constr_name_of(ty) == Some(constr@) && __ents@[j].1.methods@.dom().contains(method@)),\n"
               "  __r0 ==> exists|j: int| 0 <= j < __ents@.len() && ((#[trigger] __ents@[j]).0 matches InherentImplKey::Exact(ty) && constr_name_of(ty) == Some(constr@) && __ents@[j].1.methods@.dom().contains(method@)),\n"
               "decreases __ents@.len() - __i0," if "__i0 <" in header else None)),
        Fn(file=T, name="method_named_like_variant", ret="r", optional=True, attrs="#[verifier::loop_isolation(false)]",
           rules=["attrs", ("strip", "tast::"), ("strip", "hir::"), ("strip", "env::"), ("strip", "super::util::"), "opt_is_some_and", "iter_any"],
           rewrites=[(re.compile(r"variant\.0 == method"), "string_eq_str(&variant.0, method)", "*")],
           obligation="true exactly when the type is (an instance of) an enum that declares a variant of that name",
           contract="ensures r == variant_named(env.cur, *for_ty, method@),",
           loop_fn=lambda k, header, kw: ("invariant __i0 <= def.variants@.len(),\n"
               "  !__r0 ==> forall|j: int| 0 <= j < __i0 ==> (#[trigger] def.variants@[j]).0.0@ != method@,\n"
               "  __r0 ==> declares_variant(*def, method@),\n"
               "decreases def.variants@.len() - __i0," if "__i0 <" in header else None)),
        Fn(file=T, name="define_inherent_impl", rename="inherent_methods", ret="r",
           cut_from="let mut methods_to_add: IndexMap<String, env::FnScheme> = IndexMap::new();",
           sig="fn inherent_methods(env: &mut PackageTypeEnv, diagnostics: &mut Diagnostics, impl_block: &ImplBlock, hir_table: &HirTable, key: InherentImplKey, for_ty: Ty)",
           pre_rewrites=[(re.compile(r"let mut all_generics = impl_block\.generics\.clone\(\);.*?(?=methods_to_add\.insert\()", re.S),
                          "let __scheme = method_scheme(env, diagnostics);\n        ", 1),
                         (re.compile(r"(methods_to_add\.insert\(\s*\w+,\s*)env::FnScheme \{[^{}]*\}"), r"\1__scheme", 1)],
           rewrites=[("IndexMap<String, FnScheme>", "SchemeMap", "*"), ("IndexMap::new()", "SchemeMap::new()", "*"),
                     ("HashSet<String>", "NameSet", "*"), ("HashSet::new()", "NameSet::new()", "*"),
                     (re.compile(r"diagnostics\.push\(Diagnostic::new\(\s*Stage::Typer,\s*Severity::Error,\s*rt_msg\(\),?\s*\)\);"), "push_error(diagnostics, rt_msg());", "*"),
                     (re.compile(r"let impl_def = env\s*\.current_mut\(\)\s*\.trait_env\s*\.inherent_impls\s*\.entry\((\w+)\)\s*\.or_default\(\);\s*impl_def\.methods\.extend\((\w+)\);"),
                      r"inherent_extend(env, \1, \2);", 1),
                     (re.compile(r"inherent_method_overlaps\(env, &key, &for_ty, &(\w+)\)"), r"inherent_method_overlaps(env, &key, &for_ty, string_as_str(&\1))", "*"),
                     (re.compile(r"method_named_like_variant\(env, &for_ty, &(\w+)\)"), r"method_named_like_variant(env, &for_ty, string_as_str(&\1))", "*"),
                     (re.compile(r"\.clone\(\)"), ".vclone()", "*")],
           loop_fn=loops,
           obligation="a method name the type already has (earlier impl block of the same key, or earlier in this block) is rejected with an error "
                      "diagnostic and the existing definition is never replaced; every method name of the block is defined afterwards",
           contract=f"""ensures
            forall|n: Seq<char>| {M}.dom().contains(n) ==> final(env).cur.trait_env.inherent_impls.methods(key).dom().contains(n)
                && final(env).cur.trait_env.inherent_impls.methods(key)[n] == {M}[n],
            any_ambiguous({E0}, key, for_ty, hir_table, impl_block, impl_block.methods@.len() as int) ==> final(diagnostics).errors() > old(diagnostics).errors(),
            forall|n: Seq<char>| names_upto(hir_table, impl_block, impl_block.methods@.len() as int).contains(n) && !overlap_defined({T0}, key, for_ty, n) && !variant_named({E0}, for_ty, n)
                ==> final(env).cur.trait_env.inherent_impls.methods(key).dom().contains(n),
            forall|n: Seq<char>| overlap_defined({T0}, key, for_ty, n) && !{M}.dom().contains(n) ==> !final(env).cur.trait_env.inherent_impls.methods(key).dom().contains(n),
            forall|n: Seq<char>| variant_named({E0}, for_ty, n) && !{M}.dom().contains(n) ==> !final(env).cur.trait_env.inherent_impls.methods(key).dom().contains(n),
            forall|k: InherentImplKey| k != key ==> final(env).cur.trait_env.inherent_impls.methods(k) == old(env).cur.trait_env.inherent_impls.methods(k),"""),
    ],
)
