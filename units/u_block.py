"""U-BLOCK: compile_match::compile_block_exprs (typed AST block -> nested Core lets), whole function."""
import re
from vlib.gen import Unit, Fn, Adt, Raw
from units.u_rows import UNIT as ROWS

CM = "crates/compiler/src/compile_match.rs"
base = []
for it in ROWS.items:
    base.append(it)
    if isinstance(it, Raw) and getattr(it, "path", None) == "contracts/rows.shim.rs":
        break
MISSING = re.compile(r"ECall \{\s*func: Box::new\(Expr::EVar \{\s*name: \"missing\"\.to_string\(\),.*?\n                    \},\n", re.S)

UNIT = Unit(
    name="U-BLOCK",
    properties=["C09", "C17"],
    # the method-value clause (an inherent method used as a value is the function its call form names) is C17's; the rest is C09's
    clause_scope={"C17": {"only": ["inherent_name("]}, "C09": {"except": ["inherent_name("]}},
    rules=["attrs", ("strip", "tast::"), ("strip", "common_defs::")],
    describe="compile_match::compile_block_exprs: the expressions of a block are evaluated in source order, each exactly once — `{ e }` is e; "
             "`{ first; rest.. }` becomes a let that evaluates `first` (resp. the value of a `let`) BEFORE everything that follows and binds it "
             "(to the let's variable, to a temporary the pattern is matched against, or to a fresh unused name), with the rest of the block as its body",
    trusted=["the recursive calls (compile_expr, compile_block_exprs on the rest, compile_rows) are stubs with uninterpreted results (core_of, block_core, "
             "rows_core); `&exprs[n..]` / `rest.to_vec()` are shims (the sub-sequence from index n / a copy); `vec![..]` are shims; the typed-AST `missing(\"\")` "
             "call of the fallback row is replaced by a stub (its shape is not part of the clause)",
             "gensym returns an arbitrary name (freshness is C19's)"],
    items=base + [
        Raw(path="contracts/blockexprs.shim.rs"),
        Raw(text="use Expr::*;\nuse Pat::*;\n"),
        Fn(file=CM, name="compile_block_exprs", ret="r",
           pre_rewrites=[(MISSING, "missing_call(ty.clone()),\n", 1),
                         (re.compile(r"let rest = &exprs\[(\d+)\.\.\];"), r"let __rest_v = slice_from(exprs, \1); let rest = &__rest_v;", 1),
                         ("exprs: rest.to_vec(),", "exprs: vec_clone_exprs(rest),")],
           rewrites=[("exprs: &[Expr]", "exprs: &Vec<Expr>"), (re.compile(r"\.clone\(\)"), ".vclone()", "*"), ("core::eunit()", "core_eunit2()", "*"),
                     (re.compile(r"compile_block_exprs\(genv, gensym, diagnostics, rest, ty\)"), "compile_block_rest(genv, gensym, diagnostics, rest, ty)", "*"),
                     (re.compile(r"\bcompile_rows\("), "compile_rows_rec(", "*"),
                     (re.compile(r"let rows = vec!\[\s*(Row \{.*?\n                \}),\s*(Row \{.*?\n                \}),\s*\];", re.S), r"let rows = vec_rows2(\1, \2);", "*"),
                     (re.compile(r"columns: vec!\[(Column \{.*?\n                    \})\],", re.S), r"columns: vec_col1(\1),", "*"),
                     (re.compile(r"body: Box::new\(compile_rows_rec\(genv, gensym, diagnostics, rows, ty, None\)\),"),
                      "body: { let ghost rows_g = rows@; let __b = compile_rows_rec(genv, gensym, diagnostics, rows, ty, None); proof { assert(rows_g.len() >= 1); } Box::new(__b) },", "*")],
           obligation="`first` is evaluated once and before the rest of the block; the block's value is the rest's",
           contract="""ensures exprs@.len() == 0 ==> r == eunit_spec(),
            exprs@.len() == 1 ==> r == core_of(exprs@[0]),
            exprs@.len() >= 2 ==> block_step_ok(r, exprs@[0], exprs@.subrange(1, exprs@.len() as int), *ty),"""),
        Fn(file=CM, name="compile_expr", rename="compile_if", ret="r",
           cut_from=re.compile(r"\n        EIf \{\s*cond,\s*then_branch,\s*else_branch,\s*ty,\s*\} => "), cut_inside=True,
           cut_before="EWhile { cond, body, ty } =>", cut_tail="",
           sig="fn compile_if(cond: &Box<Expr>, then_branch: &Box<Expr>, else_branch: &Box<Expr>, ty: &Ty, genv: &GlobalTypeEnv, gensym: &Gensym, diagnostics: &mut Diagnostics) -> core::Expr",
           rewrites=[(re.compile(r"\.clone\(\)"), ".vclone()", "*"), (re.compile(r",\s*\}\s*$"), "\n}", 1)],
           obligation="`if`: condition, then-branch and else-branch keep their places (only the selected branch is evaluated downstream)",
           contract="ensures if_ok(r, **cond, **then_branch, **else_branch, *ty),"),
        Fn(file=CM, name="compile_expr", rename="compile_while_expr", ret="r",
           cut_from=re.compile(r"\n        EWhile \{ cond, body, ty \} => "), cut_inside=True,
           cut_before="EGo { expr, ty } =>", cut_tail="",
           sig="fn compile_while_expr(cond: &Box<Expr>, body: &Box<Expr>, ty: &Ty, genv: &GlobalTypeEnv, gensym: &Gensym, diagnostics: &mut Diagnostics) -> core::Expr",
           rewrites=[(re.compile(r"\.clone\(\)"), ".vclone()", "*"), (re.compile(r",\s*\}\s*$"), "\n}", 1)],
           obligation="`while`: condition and body keep their places",
           contract="ensures while_ok(r, **cond, **body, *ty),"),
        Fn(file=CM, name="compile_expr", rename="compile_tuple_expr", ret="r", attrs="#[verifier::loop_isolation(false)]",
           rules=["attrs", ("strip", "tast::"), ("strip", "common_defs::"), "iter_map_collect"],
           cut_from=re.compile(r"\n        ETuple \{ items, ty \} => \{"), cut_inside=True, cut_before="@block-end", cut_tail="",
           sig="fn compile_tuple_expr(items: &Vec<Expr>, ty: &Ty, genv: &GlobalTypeEnv, gensym: &Gensym, diagnostics: &mut Diagnostics) -> core::Expr",
           rewrites=[(re.compile(r"\.clone\(\)"), ".vclone()", "*"), (re.compile(r"let items = \{ let mut __mo0 = Vec::new\(\);"), "let items = { let mut __mo0: Vec<core::Expr> = Vec::new();", "*")],
           obligation="tuple: the components compiled from the items, in order",
           contract="ensures r matches core::Expr::ETuple { items: out, ty: t } && cores_of(items@, out@) && t == *ty,",
           loop_fn=lambda k, header, kw: ("invariant __mi0 <= items@.len(), __mo0@.len() == __mi0, forall|i: int| 0 <= i < __mi0 ==> #[trigger] __mo0@[i] == core_of(items@[i]),\n"
                                          "decreases items@.len() - __mi0,")),
        Fn(file=CM, name="compile_expr", rename="compile_constr_expr", ret="r", attrs="#[verifier::loop_isolation(false)]",
           rules=["attrs", ("strip", "tast::"), ("strip", "common_defs::"), "iter_map_collect"],
           cut_from=re.compile(r"\n        EConstr \{\s*constructor,\s*args,\s*ty,\s*\} => \{"), cut_inside=True, cut_before="@block-end", cut_tail="",
           sig="fn compile_constr_expr(constructor: &Constructor, args: &Vec<Expr>, ty: &Ty, genv: &GlobalTypeEnv, gensym: &Gensym, diagnostics: &mut Diagnostics) -> core::Expr",
           rewrites=[(re.compile(r"\.clone\(\)"), ".vclone()", "*"), (re.compile(r"let args = \{ let mut __mo0 = Vec::new\(\);"), "let args = { let mut __mo0: Vec<core::Expr> = Vec::new();", "*")],
           obligation="constructor application: the same constructor, the arguments compiled from the arguments, in order",
           contract="ensures r matches core::Expr::EConstr { constructor: c, args: out, ty: t } && c == *constructor && cores_of(args@, out@) && t == *ty,",
           loop_fn=lambda k, header, kw: ("invariant __mi0 <= args@.len(), __mo0@.len() == __mi0, forall|i: int| 0 <= i < __mi0 ==> #[trigger] __mo0@[i] == core_of(args@[i]),\n"
                                          "decreases args@.len() - __mi0,")),
        Fn(file=CM, name="compile_expr", rename="compile_method_value", ret="r",
           cut_from=re.compile(r"\n        EInherentMethod \{\s*receiver_ty,\s*method_name,\s*ty,\s*\.\.\s*\} => "), cut_inside=True,
           cut_before="EToDyn {", cut_tail="",
           sig="fn compile_method_value(receiver_ty: &Ty, method_name: &TastIdent, ty: &Ty) -> core::Expr",
           rewrites=[(re.compile(r"\.clone\(\)"), ".vclone()", "*"), ("&method_name.0", "string_as_str2(&method_name.0)", "*"), (re.compile(r",\s*\}\s*$"), "\n}", 1)],
           obligation="an inherent method used as a value is the function its call form names (inherent_method_fn_name of receiver type and method), at the method's type — no panic",
           contract="ensures r matches core::Expr::EVar { name, ty: t } && name@ == inherent_name(*receiver_ty, method_name.0@) && t == *ty,"),
    ],
)
