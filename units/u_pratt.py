"""U-PRATT: the Pratt loops of the expression and type parsers against the binding-power tables (C11).

expr_bp / type_expr_bp are verified against the uniform grammar contract PLUS the precedence discipline; every other parser
function is present as a contract-only stub (its contract is the one U-PCORE / U-GRAMMAR discharge)."""
import copy

from vlib.gen import Unit, Fn, Raw
from units import u_grammar as G


def stubbed(items):
    out = []
    for it in items:
        if isinstance(it, Fn) and not it.as_spec and it.contract:
            it = copy.copy(it)
            it.contract_only = True
        out.append(it)
    return out


UNIT = Unit(
    name="U-PRATT",
    properties=["C11"],
    rules=G.CORE_RULES,
    describe="expr::expr_bp and file::type_expr_bp (the real Pratt loops): (1) the loop stops only in front of a token that is not a "
             "postfix/infix operator with left binding power >= min_bp (maximal munch at each level), (2) an operator is consumed only if "
             "its left binding power is >= min_bp, (3) its right operand is parsed with exactly that operator's right binding power — "
             "with the table lemmas of U-BP this is the documented precedence and associativity",
    trusted=["every parser function other than expr_bp / type_expr_bp is a contract-only stub here; those contracts are discharged by U-PCORE and "
             "U-GRAMMAR (C04/C12), which this unit relies on",
             "a stalled parser (look-ahead fuel 0) answers Eof to every peek: clause (1) says nothing in that state (fuel == 0 disjunct)",
             "the CST->AST lowering (crates/ast/src/lower.rs: apply_trailing_args) is outside the unit"],
    clause_scope=["pratt_continues", "type_continues", "binding_power_spec"],
    items=G.TYPES + stubbed(G.PCORE_FNS) + [G.GRAMMAR_LEMMAS] + G.build_items("total", pratt=True),
)
