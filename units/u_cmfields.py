"""U-CMFIELDS: compile_match::{substitute_ty_params, instantiate_struct_fields} (whole) — C06, C03."""
import copy, re
from vlib.gen import Unit, Fn, Adt, Raw
from units.u_fieldinst import UNIT as FI, zip_loops

CM = "crates/compiler/src/compile_match.rs"
subst_fn = copy.copy([it for it in FI.items if isinstance(it, Fn) and it.name == "substitute_ty_params"][0])
subst_fn.file = CM
VCLONE = (re.compile(r"\.clone\(\)"), ".vclone()", "*")      # any `.clone()` the specific rewrites did not name: an identical copy
subst_fn.rewrites = list(subst_fn.rewrites) + [VCLONE]


def field_loops(k, header, kw):
    z = zip_loops(k, header, kw)
    if z:
        return z
    mt = re.search(r"while\s+__mi(\d+)\s*<\s*struct_def\s*\.fields\.len\(\)", header)
    if not mt:
        return None
    i = mt.group(1)
    return (f"invariant __mi{i} <= struct_def.fields.len(), __mo{i}@.len() == __mi{i}, subst@ == zipmap(struct_def.generics@, type_args@, type_args@.len() as int),\n"
            f"  forall|j: int| 0 <= j < __mi{i} ==> (#[trigger] __mo{i}@[j]).0@ == struct_def.fields@[j].0.0@ && is_apply(struct_def.fields@[j].1, subst@, __mo{i}@[j].1),\n"
            f" decreases struct_def.fields.len() - __mi{i},")


UNIT = Unit(
    name="U-CMFIELDS",
    properties=["C06", "C03"],
    rules=["attrs", ("strip", "tast::")],
    describe="compile_match::{substitute_ty_params, instantiate_struct_fields} (whole): the field types the match compiler gives the sub-patterns of a struct pattern on a generic "
             "struct are the DECLARED field types, in declaration order and under their names, with every type parameter of the struct replaced simultaneously by the "
             "corresponding type argument — at every depth of the field's type",
    trusted=["the same shims as U-FIELDINST (Subst: a finite map keyed by text; derived Clone: an identical copy); the `panic!` on a wrong number of type arguments is the "
             "precondition `generics.len() == type_args.len()` (ASSUMED of the callers: the typer has checked the arity; reaching it would be a crash, C04, not a wrong type)"],
    items=[it for it in FI.items if not isinstance(it, Fn)] + [
        Raw(text="pub trait VClone: Sized { fn vclone(&self) -> (r: Self) ensures r == *self; }\n" + "".join(
            f"impl VClone for {t} {{ #[verifier::external_body] fn vclone(&self) -> (r: Self) {{ unimplemented!() }} }}\n" for t in ("Ty", "String", "Box<Ty>", "Vec<Ty>", "TastIdent"))),
        subst_fn,
        Fn(file=CM, name="instantiate_struct_fields", ret="r", attrs="#[verifier::loop_isolation(false)]", rules=["attrs", ("strip", "tast::"), "for_zip", "iter_map_collect"],
           pre_rewrites=[(re.compile(r"if struct_def\.generics\.len\(\) != type_args\.len\(\) \{\s*panic!\((?:[^;]|\n)*?\);\s*\}"), "", 1),
                         (re.compile(r"\|\((\w+), (\w+)\)\| (\((?:[^()]|\([^()]*\))*\))"), r"|__nt| { let \1 = &__nt.0; let \2 = &__nt.1; \3 }", "*")],
           rewrites=[("type_args: &[Ty]", "type_args: &Vec<Ty>", 1), ("let mut subst = HashMap::new();", "let mut subst = subst_new();", 1),
                     (re.compile(r"subst\.insert\((\w+)\.0\.clone\(\), (\w+)\.clone\(\)\);"), r"subst.insert(string_clone(&\1.0), ty_clone(\2));", 1),
                     (re.compile(r"\((\w+)\.0\.clone\(\), substitute_ty_params"), r"(string_clone(&\1.0), substitute_ty_params", "*"),
                     (re.compile(r"let mut (__mo\d+) = Vec::new\(\);"), r"let mut \1: Vec<(String, Ty)> = Vec::new();", "*"), VCLONE,
                     # the tail expression (a block after the rules) is named: `let __fields = <the same expression>; __fields` (a block right behind a loop body does not parse inside verus!)
                     (re.compile(r"\n(\s*)(\{ let mut __mo\d+: Vec<\(String, Ty\)> = Vec::new\(\);.*\})\s*\n\}\s*\Z", re.S), r"\n\1let __fields = \2;\n\1__fields\n}", 1)],
           obligation="field i of the result is declared field i: its name, and its declared type with the struct's parameters replaced simultaneously by the type arguments",
           contract="requires struct_def.generics@.len() == type_args@.len(),\n"
                    "ensures r@.len() == struct_def.fields@.len(), forall|i: int| 0 <= i < r@.len() ==> (#[trigger] r@[i]).0@ == struct_def.fields@[i].0.0@ "
                    "&& is_apply(struct_def.fields@[i].1, zipmap(struct_def.generics@, type_args@, type_args@.len() as int), r@[i].1),",
           loop_fn=field_loops),
    ],
)
