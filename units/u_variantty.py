"""U-VARIANTTY: go::compile::{lookup_variant_name, variant_ty_by_index} (whole) — C06."""
import re
from vlib.gen import Unit, Fn, Adt, Raw
from units.u_dcefx import UNIT as DCEFX

G = "crates/compiler/src/go/"
types = [it for it in DCEFX.items if isinstance(it, Adt) and it.name == "GoType"]

UNIT = Unit(
    name="U-VARIANTTY",
    properties=["C06"],
    rules=[("strip", "goast::"), ("strip", "goty::"), ("strip", "tast::"), "fmtmsg"],
    describe="go::compile::{lookup_variant_name, variant_ty_by_index} (whole): the Go struct that stands for variant number i of an enum type — the type of a tag literal, of a "
             "constructed value and of a `case` of the type switch a match compiles to — is variant_struct_name of the enum and of the variant DECLARED at position i, so the "
             "index the match compiler and the A-normal form carry selects the same variant everywhere; the lookup does not panic for a known enum and an index in range",
    trusted=["GlobalGoEnv::get_enum, Ty::get_constr_name_unsafe, variant_struct_name (U-VARNAME), tast_ty_to_go_type (U-GOTYPE) are stubs (uninterpreted functions of their arguments); "
             "PRECONDITION (typing invariant, not proved here): the enum is defined and has a variant of that index"],
    items=types + [
        Adt(file="crates/compiler/src/tast.rs", kw="enum", name="Ty", rules=["attrs"]),
        Adt(file="crates/compiler/src/tast.rs", kw="struct", name="TastIdent", rules=["attrs"]),
        Adt(file="crates/compiler/src/env.rs", kw="struct", name="EnumDef", rules=["attrs", ("strip", "tast::")]),
        Raw(path="contracts/parser.shim.rs"),
        Raw(path="contracts/variantty.shim.rs"),
        Fn(file=G + "compile.rs", name="lookup_variant_name", ret="r",
           rewrites=[(re.compile(r"panic!\((?:[^()]|\([^()]*\))*\);?"), "unreached()", "*")],
           obligation="the struct name of variant number `index` is made from the variant declared at that position; no panic for a known enum and an index in range",
           contract="requires variant_known(*goenv, *ty, index),\nensures r@ == variant_name_at(*goenv, *ty, index),"),
        Fn(file=G + "compile.rs", name="variant_ty_by_index", ret="r",
           obligation="the Go type of variant number `index` is the struct of that name",
           contract="requires variant_known(*goenv, *ty, index),\nensures exists|t: Ty| #[trigger] go_ty_spec(t) == r && (t matches Ty::TStruct { name } && name@ == variant_name_at(*goenv, *ty, index)),"),
    ],
)
