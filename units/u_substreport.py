"""U-SUBSTREPORT: typer::unify::Typer::subst_ty (whole; the recursive calls as the stub subst_sub) — C03."""
import re
from vlib.gen import Unit, Fn, Adt, Raw

U = "crates/compiler/src/typer/unify.rs"


def loops(k, header, kw):
    mt = re.search(r"while\s+__mi(\d+)\s*<\s*(\w+)\.len\(\)", header)
    if not mt:
        return None
    i, c = mt.group(1), mt.group(2)
    return (f"invariant __mi{i} <= {c}.len(), __mo{i}@.len() == __mi{i}, diagnostics.n() >= __d{i}.n(),\n"
            f"  any_tvar(__mo{i}@, __mi{i} as int) ==> diagnostics.n() > __d{i}.n(),\n decreases {c}.len() - __mi{i},")


def snap(mt):
    """a ghost snapshot `__dN` of the diagnostics in front of the N-th map+collect loop — proof-only"""
    return f"let ghost __d{mt.group(2)} = *diagnostics; " + mt.group(0)


UNIT = Unit(
    name="U-SUBSTREPORT",
    properties=["C03"],
    rules=["attrs", "fmtmsg", ("strip", "tast::"), "iter_map_collect"],
    describe="typer::unify::Typer::subst_ty (whole) — the substitution applied to every type of the typed AST after solving: whenever the resulting type still holds an inference "
             "variable, at any depth (tuple items, type arguments and head, array / Vec / Ref elements, parameters and result of a function type), an error diagnostic was pushed — "
             "an accepted program has no unresolved type",
    trusted=["the recursive calls are the stub subst_sub (induction hypothesis: a variable left in the result was reported; diagnostics only grow); ena's probe_value is the stub "
             "probe; derived Clone (`x.clone()` → vclone(x)) is an identical copy; termination is not claimed here (U-NORMTY proves it for the silent twin under the acyclicity assumption)"],
    items=[
        Adt(file="crates/compiler/src/tast.rs", kw="enum", name="Ty", rules=["attrs"]),
        Raw(path="contracts/concrete.shim.rs"),
        Raw(path="contracts/substreport.shim.rs"),
        Fn(file=U, name="subst_ty", container="Typer", ret="r", attrs="#[verifier::loop_isolation(false)]",
           pre_rewrites=[(re.compile(r"self\.subst_ty\("), "self.subst_sub(", "*"), ("self.uni.probe_value(*v)", "self.probe(v)", "*"),
                         (re.compile(r"diagnostics\.push\(Diagnostic::new\(\s*Stage::Typer,\s*Severity::Error,\s*((?:[^()]|\((?:[^()]|\([^()]*\))*\))*?),?\s*\)\);"), r"push_error(diagnostics, \1);", "*"),
                         (re.compile(r"Ty::TVar\(\*v\)"), "Ty::TVar(tv_copy(v))", "*")],
           rewrites=[(re.compile(r"\b(\w+)\.clone\(\)"), r"vclone(\1)", "*"),
                     (re.compile(r"(let mut (__mo(\d+)) = Vec::new\(\);)"), lambda mt: f"let ghost __d{mt.group(3)} = *diagnostics; let mut {mt.group(2)}: Vec<Ty> = Vec::new();", "*"),
                     (re.compile(r"(__mo\d+)\.push\(__e\);"), r"proof { any_tvar_prefix(\1@, \1@.push(__e), \1@.len() as int); } \1.push(__e);", "*")],
           obligation="a variable left anywhere in the substituted type comes with an error diagnostic",
           contract="ensures final(diagnostics).n() >= old(diagnostics).n(), has_tvar(r) ==> final(diagnostics).n() > old(diagnostics).n(),",
           loop_fn=loops),
    ],
)
