"""U-DCEBLK: go::dce::dce_block_with_live (the statement-level dead-code elimination) and effect_stmt."""
import copy
import re
from vlib.gen import Unit, Fn, Adt, Raw
from units.u_dcefx import UNIT as DCEFX

G = "crates/compiler/src/go/"
types = [it for it in DCEFX.items if isinstance(it, (Adt, Raw))]
has_eff = copy.copy([it for it in DCEFX.items if isinstance(it, Fn) and it.name == "expr_has_side_effects"][0])
has_eff.contract_only = True
stmt_eff = copy.copy([it for it in DCEFX.items if isinstance(it, Fn) and it.name == "stmt_has_side_effects"][0])
stmt_eff.contract_only = True

def kw_matches(mt):
    """`matches!(s.as_str(), "a" | "b" | ..)` -> `str_eq(s.as_str(), "a") || ..` (the meaning of a string-literal or-pattern)"""
    lits = re.findall(r'"([^"]*)"', mt.group(2))
    return "(" + " || ".join(f'str_eq({mt.group(1)}.as_str(), "{l}")' for l in lits) + ")"


def bind_filter(mt):
    """`let bind = bind.filter(|bname| { COND });` (Option::filter: keeps the value iff COND) -> `let bind = match bind { Some(bname) => { if COND { Some(bname) } else { None } } None => None };` (COND reads bname by reference)"""
    cond = re.sub(r"\bcontains\(bname\)", "contains(&bname)", mt.group(1).strip())
    return "let bind = match bind { Some(bname) => { if " + cond + " { Some(bname) } else { None } } None => None };"


PRE = [
    ("for stmt in block.stmts.into_iter().rev() {", "let mut __sv = block.stmts; while __sv.len() > 0 { let stmt = __sv.pop().unwrap();"),
    ("for (val, blk) in cases {", "let ghost __c0 = cases@; let mut __cv = cases; while __cv.len() > 0 { let (val, blk) = __cv.remove(0);"),
    ("for (t, blk) in cases {", "let ghost __t0 = cases@; let mut __tv = cases; while __tv.len() > 0 { let (t, blk) = __tv.remove(0);"),
    ("value.as_ref().map(vars_used_in_expr).unwrap_or_default()", "(match value.as_ref() { Some(__u) => vars_used_in_expr(__u), None => HashSet::new() })"),
    (re.compile(r"for u in &used_rhs \{\s*live\.insert\(u\.clone\(\)\);\s*\}"), "live.union_with(&used_rhs);", "*"),
    (re.compile(r"let bind = bind\.filter\(\|bname\| \{(.*?)\n\s*\}\);", re.S), bind_filter, 1),
]
RW = [(re.compile(r"\.clone\(\)"), ".vclone()", "*"), (re.compile(r"\bout\.reverse\(\);"), "vec_reverse(&mut out);", "*"),
      ("let mut new_cases: Vec<(crate::go::goty::GoType, Block)> =", "let mut new_cases: Vec<(GoType, Block)> =")]
INS = "ins0"


def loop_inv(k, header, kw):
    if "__sv.len()" in header:
        return (f"invariant __sv@ == {INS}.subrange(0, __sv@.len() as int), __sv@.len() <= {INS}.len(),\n"
                f"  aligned({INS}, __sv@.len() as int, out@.reverse(), 0),\n"
                f"decreases __sv@.len(),")
    if "__cv.len()" in header:
        return ("invariant new_cases@.len() + __cv@.len() == __c0.len(), __cv@ == __c0.subrange(new_cases@.len() as int, __c0.len() as int),\n"
                "  forall|i: int| 0 <= i < new_cases@.len() ==> (#[trigger] new_cases@[i]).0 == dce_e(__c0[i].0) && aligned(__c0[i].1.stmts@, 0, new_cases@[i].1.stmts@, 0),\n"
                "decreases __cv@.len(),")
    if re.search(r"while\s+__i\d+\s*<", header):      # an `X.iter().any(..)` somewhere (rule iter_any): its answer is not part of the contract
        mt = re.search(r"while\s+(__i\d+)\s*<\s*([\w\.]+)\.len\(\)", header)
        return f"invariant {mt.group(1)} <= {mt.group(2)}.len(),\ndecreases {mt.group(2)}.len() - {mt.group(1)},"
    if "__tv.len()" in header:
        return ("invariant new_cases@.len() + __tv@.len() == __t0.len(), __tv@ == __t0.subrange(new_cases@.len() as int, __t0.len() as int),\n"
                "  forall|i: int| 0 <= i < new_cases@.len() ==> (#[trigger] new_cases@[i]).0 == __t0[i].0 && aligned(__t0[i].1.stmts@, 0, new_cases@[i].1.stmts@, 0),\n"
                "decreases __tv@.len(),")
    return None


UNIT = Unit(
    name="U-DCEBLK",
    properties=["C09", "C02", "C06"],
    rules=[("strip", "ast::"), "opt_map", "opt_filter", "let_chain_rev", "opt_is_some_and", "opt_is_none_or", "iter_any"],
    clause_scope={"C02": {"only": ["go_expr_stmt_ok", "stmt_callee_ok"]}, "C09": {"except": ["go_expr_stmt_ok", "stmt_callee_ok"]}},
    describe="go::dce::dce_block_with_live (statement-level dead-code elimination, all statement kinds, nested blocks) and effect_stmt: the "
             "output block is, in order, the image of each input statement — the statement itself with DCE applied inside it, or, for a "
             "declaration / assignment whose variable is not needed, just the evaluation of its right-hand side, or nothing at all ONLY IF "
             "that right-hand side cannot have an observable effect (calls, go, stores, division, indexing: expr_may_effect). Nothing is "
             "dropped otherwise, nothing is duplicated, nothing is reordered; terminates",
    trusted=["dce_expr (DCE inside function literals) is a stub: its result is an uninterpreted function of the expression",
             "expr_has_side_effects appears with the contract U-DCEFX proves (contract-only stub)",
             "the liveness sets (HashSet<String>) are opaque: WHICH dead declarations are dropped is not specified, only that dropping is "
             "allowed solely for effect-free right-hand sides",
             "`for s in v.into_iter().rev()` is rewritten to popping from the back, `for x in v` (by value) to removing from the front, "
             "`v.reverse()` to a shim (std semantics assumed)"],
    items=types + [
        Raw(path="contracts/dceblk.spec.rs"),
        has_eff,
        stmt_eff,
        Fn(file=G + "dce.rs", name="call_allowed_as_stmt", ret="r", optional=True,
           pre_rewrites=[(re.compile(r"matches!\(\s*(\w+)\.as_str\(\),\s*((?:\"[^\"]*\"\s*\|?\s*)+)\)", re.S), kw_matches, 1)],
           obligation="false exactly for a callee variable named like a value-only Go builtin or a conversion", contract="ensures r == stmt_callee_ok(*func),"),
        Fn(file=G + "dce.rs", name="effect_stmt", ret="r", rewrites=[('"_".to_string()', "underscore()")],
           contract="ensures eff_stmt_ok(v, r), go_expr_stmt_ok(r),",
           obligation="the replacement statement evaluates exactly v — and is a statement Go accepts: a call stands alone only if Go allows that callee as a statement"),
        Fn(file=G + "dce.rs", name="dce_block_with_live", ret="r", attrs="#[verifier::loop_isolation(false)]\n#[verifier::rlimit(60)]",
           pre_rewrites=PRE, rewrites=RW,
           obligation="every input statement is kept (DCE'd inside), reduced to the evaluation of its right-hand side, or — only if "
                      "that cannot have an effect — dropped; order and multiplicity preserved",
           contract="ensures aligned(block.stmts@, 0, r.0.stmts@, 0), r.0.stmts@.len() == 0 ==> aligned(block.stmts@, 0, Seq::<Stmt>::empty(), 0),\n        decreases block,",
           ghost=[("@entry", "", f"let ghost {INS} = block.stmts@;"),
                  ("@loop:0:body", "", "let ghost out_b = out@; let ghost p0 = __sv@.len();"),
                  ("@loop:0:end", "", f"proof {{ let img = out@.subrange(out_b.len() as int, out@.len() as int).reverse(); "
                                      f"assert(out@.reverse() =~= img + out_b.reverse()); lemma_aligned_step({INS}, p0 as int, out_b.reverse(), img); }}"),
                  ("?vec_reverse(&mut out);", "line-after", f"proof {{ assert(out@.reverse().reverse() =~= out@); if out@.len() == 0 {{ assert(out@ =~= Seq::<Stmt>::empty()); }} }}")],
           loop_fn=loop_inv),
    ],
)
