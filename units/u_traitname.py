"""U-TRAITNAME: typer::toplevel::collect_typedefs, the TraitDef arm (fragment) — C17: a trait named like a type of its package is rejected."""
import re
from vlib.gen import Unit, Fn, Adt, Raw

T = "crates/compiler/src/typer/toplevel.rs"

UNIT = Unit(
    name="U-TRAITNAME",
    properties=["C17"],
    rules=["attrs", ("strip", "tast::"), ("strip", "hir::"), ("strip", "env::"), "fmtmsg"],
    describe="typer::toplevel::collect_typedefs: a trait that has the name of an enum or a struct of its package is an error diagnostic — otherwise `Name::m(x)` means the "
             "trait's method while `x.m()` means the type's inherent method, two call forms of `m` on one value that run different code",
    trusted=["FRAGMENT trait_name_gate: collect_typedefs' TraitDef arm, the call of define_trait replaced by a stub (the types of the package are predeclared by "
             "then: predeclare_types, not in this unit); `trait_def.name.to_ident_name()` is the parameter trait_name; the two tables are shims keyed by the name's text",
                          "define_trait itself is the stub define_trait_stub (it reports nothing)"],
    items=[
        Adt(file="crates/compiler/src/tast.rs", kw="enum", name="Ty", rules=["attrs"]),
        Adt(file="crates/compiler/src/env.rs", kw="enum", name="InherentImplKey", rules=["attrs", ("strip", "tast::")]),
        Raw(path="contracts/orphan.shim.rs"),
        Raw(path="contracts/inherent.shim.rs"),
        Raw(text="#[verifier::external_body] pub fn define_trait_stub() { unimplemented!() }\n"),
        Fn(file=T, name="collect_typedefs", rename="trait_name_gate", rules=["attrs", ("strip", "tast::"), ("strip", "hir::"), "fmtmsg"],
           cut_from=re.compile(r"hir::Def::TraitDef\(trait_def\) =>"), cut_before="hir::Def::ImplBlock(impl_block) =>",
           pre_rewrites=[(re.compile(r"hir::Def::TraitDef\(trait_def\) =>"), "", 1), (re.compile(r"define_trait\(env, trait_def\),?"), "define_trait_stub();", 1)],
           sig="fn trait_name_gate(env: &PackageTypeEnv, diagnostics: &mut Diagnostics, trait_name: String)",
           rewrites=[("TastIdent(trait_def.name.to_ident_name())", "TastIdent(trait_name)", "*"),
                     (re.compile(r"diagnostics\.push\(Diagnostic::new\(\s*Stage::Typer,\s*Severity::Error,\s*rt_msg\(\),?\s*\)\);"), "push_error(diagnostics, rt_msg());", "*")],
           obligation="a trait named like an enum or a struct of its package is an error diagnostic (`Name::m(x)` would otherwise mean the trait's method while `x.m()` means the type's)",
           contract="ensures names_a_type(env.cur, trait_name@) ==> final(diagnostics).errors() > old(diagnostics).errors(), final(diagnostics).errors() >= old(diagnostics).errors(),"),
    ],
)
