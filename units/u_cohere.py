"""U-COHERE: the cross-package duplicate-impl check made when a package's exports are merged into the project-wide environment
(three sites: pipeline::typecheck_packages, typecheck_with_packages_and_results, separate::link_cores), as fragments."""
import re
from vlib.gen import Unit, Fn, Adt, Raw

P = "crates/compiler/src/pipeline/pipeline.rs"
S = "crates/compiler/src/pipeline/separate.rs"
DIAG = (re.compile(r"diagnostics::(Diagnostic|Stage|Severity)"), r"\1", "*")


def frag(file, fn_name, new_name, start, end, impls, param, tail_obj):
    def inv(k, header, kw):
        mt = re.search(r"while\s+(__ek\d+)\s*<\s*(__es\d+)\.len\(\)", header)
        if not mt:
            return None
        i, es = mt.group(1), mt.group(2)
        return (f"invariant {i} <= {es}@.len(), genv.trait_env.trait_impls == old(genv).trait_env.trait_impls, diagnostics.errors() >= old(diagnostics).errors(),\n"
                f"  (exists|j: int| 0 <= j < {i} && old(genv).trait_env.trait_impls.has(*(#[trigger] {es}@[j]).0)) ==> diagnostics.errors() > old(diagnostics).errors(),\n"
                f"decreases {es}@.len() - {i},")
    return Fn(file=file, name=fn_name, rename=new_name, attrs="#[verifier::loop_isolation(false)]",
              cut_from=start, cut_before=end, cut_tail="",
              sig=f"fn {new_name}({param}, genv: &mut GlobalTypeEnv, diagnostics: &mut Diagnostics, {tail_obj}: &String)",
              rewrites=[DIAG, ("apply_to(&mut genv)", "apply_to(genv)")],   # genv is a `&mut` parameter of the fragment, a local in the source
              obligation="if an impl of the package being merged is already present project-wide, an error is reported (so the project is rejected); then the exports are merged",
              contract=f"""ensures clashes({impls}, old(genv).trait_env.trait_impls) ==> final(diagnostics).errors() > old(diagnostics).errors(),
            final(diagnostics).errors() >= old(diagnostics).errors(),
            forall|k: (String, Ty)| #[trigger] final(genv).trait_env.trait_impls.has(k) == (old(genv).trait_env.trait_impls.has(k) || {impls}.has(k)),""",
              loop_fn=inv)


UNIT = Unit(
    name="U-COHERE",
    properties=["C16"],
    rules=["attrs", "fmtmsg", "for_entries"],
    describe="the cross-package duplicate-impl check (pipeline::typecheck_packages, typecheck_with_packages_and_results, "
             "separate::link_cores; fragments): whenever a package's exports are merged into the project-wide environment and one of its "
             "(trait, type) impl keys is already present there, an error diagnostic is pushed — so a project with two implementations of one "
             "trait for one type in different packages is rejected, whatever the merge order; afterwards the environment holds both packages' keys",
    trusted=["FRAGMENTS: only the check-and-merge step of the three per-package loops is verified",
             "PackageExports::apply_to is a stub (it merges the impl keys); IndexMap iteration yields every stored key once (order irrelevant here)",
             "that `diagnostics.has_errors()` then turns the diagnostics into a failure is outside the fragments"],
    items=[
        Raw(path="contracts/cohere.shim.rs"),
        frag(P, "typecheck_packages", "merge_a", "for (key, _) in artifact.interface.exports.trait_env.trait_impls.iter() {", "artifacts_by_name.insert(name.clone(), artifact);",
             "artifact.interface.exports.trait_env.trait_impls", "artifact: &PackageArtifact", "name"),
        frag(S, "link_cores", "merge_c", "for (key, _) in unit.interface.exports.trait_env.trait_impls.iter() {", "@block-end",
             "unit.interface.exports.trait_env.trait_impls", "unit: &PackageArtifact", "pkg"),
    ],
)
