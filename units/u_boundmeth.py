"""U-BOUNDMETH: typer::check::lookup_bound_trait_methods (whole) and its call site in Typer::infer_call_expr (fragment) — C17."""
import re
from vlib.gen import Unit, Fn, Adt, Raw

C = "crates/compiler/src/typer/check.rs"


def loops(k, header, kw):
    mt = re.search(r"while\s+(__fk\d+)\s*<\s*bounds\.len\(\)", header)
    if not mt:
        return None
    i = mt.group(1)
    return (f"invariant {i} <= bounds.len(), hits_view(result@) =~= bound_hits(*genv, bounds@, method.0@, {i} as int),\n decreases bounds.len() - {i},")


UNIT = Unit(
    name="U-BOUNDMETH",
    properties=["C17"],
    rules=["attrs", ("strip", "tast::"), ("strip", "super::util::"), "for_index"],
    describe="typer::check::lookup_bound_trait_methods (whole): the candidates for `x.m(..)` on a receiver whose type is a type parameter are, in the order the bounds are written, "
             "one per bound that names a visible trait DECLARING m — the resolved trait with that trait's own scheme for m; a bound whose trait does not declare m, or that names "
             "no visible trait, contributes nothing (so exactly-one / none / ambiguous is decided over the right set)",
    trusted=["util::resolve_trait_name and GlobalTypeEnv::lookup_trait_method are stubs (uninterpreted trait_resolved / method_of); `let Some((a, b)) = E else { continue; };` is read as "
             "the equivalent match; `bounds: &[TastIdent]` is taken as a Vec",
             "FRAGMENT bound_candidates: the three statements of Typer::infer_call_expr (receiver of type-parameter type) that compute the candidates; LocalTypeEnv::tparam_trait_bounds / "
             "HirIdent::to_ident_name are stubs; what is done with the candidates (exactly one => trait-method call, else an error) is NOT covered"],
    items=[
        Adt(file="crates/compiler/src/tast.rs", kw="enum", name="Ty", rules=["attrs"]),
        Raw(path="contracts/boundmeth.shim.rs"),
        Fn(file=C, name="lookup_bound_trait_methods", ret="r", attrs="#[verifier::loop_isolation(false)]",
           pre_rewrites=[(re.compile(r"let Some\(\((\w+), (\w+)\)\) =\s*([^;]*?)\s*else \{\s*continue;\s*\};", re.S),
                          r"let (\1, \2) = match \3 { Some(__p) => __p, None => { continue; } };", "*")],
           rewrites=[("bounds: &[TastIdent]", "bounds: &Vec<TastIdent>", "*"), ("let mut result = Vec::new();", "let mut result: Vec<(TastIdent, Ty)> = Vec::new();", "*")],
           obligation="one candidate per bound that names a visible trait declaring the method, in bound order, each with the resolved trait and that trait's scheme",
           contract="ensures hits_view(r@) =~= bound_hits(*genv, bounds@, method.0@, bounds@.len() as int),",
           loop_fn=loops),
        Fn(file=C, name="infer_call_expr", container="Typer", drop_self_impl=True, rename="bound_candidates", ret="r",
           cut_from=re.compile(r"let method_name = tast::TastIdent\(field\.to_ident_name\(\)\);(?=\s*let bounds = local_env)"), cut_before="match candidates.as_slice()", cut_tail="    candidates",
           sig="fn bound_candidates(genv: &PackageTypeEnv, local_env: &LocalTypeEnv, name: &String, field: &HirIdent) -> Vec<(TastIdent, Ty)>",
           rewrites=[(".unwrap_or(&[])", ".unwrap_or(no_bounds())", "*")],
           obligation="the candidates for `x.m(..)` with x: T are looked up among the bounds of T itself, as the function being checked declares them, for the method written",
           contract="ensures hits_view(r@) =~= bound_hits(*genv, local_env.bounds_of(name@), field.text(), local_env.bounds_of(name@).len() as int),"),
    ],
)
