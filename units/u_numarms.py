"""U-NUMARMS: the two numeric arms of typer::check::Typer::check_expr (negation, arithmetic) as fragments."""
import re
from units.common import arm_guard
from vlib.gen import Unit, Fn, Adt, Raw

C = "crates/compiler/src/typer/check.rs"
T = "crates/compiler/src/tast.rs"
CD = "crates/common-defs/src/lib.rs"
VC = (re.compile(r"\.clone\(\)"), ".vclone()", "*")
ARGS = "genv: &PackageTypeEnv, local_env: &mut LocalTypeEnv, diagnostics: &mut Diagnostics"

UNIT = Unit(
    name="U-NUMARMS",
    properties=["C10", "C03"],
    rules=["attrs", ("strip", "tast::"), ("strip", "common_defs::"), ("strip", "hir::")],
    describe="Typer::check_expr, the arms for `-e` and `a (+|-|*|/) b` checked against a numeric type (fragments): every operand is handed to the "
             "type checker — against the SAME expected type, left before right — and the result is that operator applied to the checked operands at "
             "the expected type. In particular the literal under a minus sign is range-checked on its own (`-128i8` is the negation of the "
             "out-of-range literal `128i8`): no operand reaches the TAST builder (which re-reads literals with `unwrap_or(0)`) unchecked",
    trusted=["FRAGMENTS: two arms of check_expr; the recursive call is a stub carrying the induction hypothesis (checked_as, and the log `visited` of "
             "checked sub-expressions); the guards of the arms (is_numeric_ty, the operator set) are not part of the fragments",
             "what check_expr does for a literal (parse_integer_literal_with_ty: U-INTLIT) is not re-proved here"],
    items=[
        arm_guard("crates/compiler/src/typer/check.rs", "check_expr", "Typer", r"let expr_tast = match expr \{",
                  ['hir::Expr::EUnary if ..', 'hir::Expr::EBinary if ..', 'hir::Expr::EClosure', 'hir::Expr::ELet', 'hir::Expr::EBlock', 'hir::Expr::ETuple if ..', 'hir::Expr::EIf', 'hir::Expr::EMatch', '_']),
        Adt(file=T, kw="enum", name="Ty", rules=["attrs"]),
        Adt(file=T, kw="struct", name="TastIdent", rules=["attrs"]),
        Adt(file=T, kw="enum", name="UnaryResolution", rules=["attrs"]),
        Adt(file=T, kw="enum", name="BinaryResolution", rules=["attrs"]),
        Adt(file=CD, kw="enum", name="BinaryOp", rules=["attrs"]),
        Adt(file=CD, kw="enum", name="UnaryOp", rules=["attrs"]),
        Adt(file=T, kw="enum", name="Expr", rules=["attrs", ("strip", "common_defs::")]),
        Adt(file=T, kw="struct", name="Arm", rules=["attrs"]),
        Adt(file=T, kw="enum", name="Pat", rules=["attrs"]),
        Raw(path="contracts/numarms.shim.rs"),
        Fn(file=C, name="check_expr", container="Typer", as_method_of="Typer", rename="check_neg", ret="r",
           cut_from=re.compile(r"hir::Expr::EUnary \{\s*op: common_defs::UnaryOp::Neg,\s*expr: inner,\s*\} if is_numeric_ty\(expected\) => \{"),
           cut_inside=True, cut_before="@block-end", cut_tail="",
           sig=f"pub fn check_neg(&mut self, {ARGS}, inner: ExprId, expected: &Ty) -> Expr", rewrites=[VC],
           obligation="`-e` against a numeric type: e is type-checked against that type (a literal operand is range-checked on its own) and negated",
           contract="""ensures r matches Expr::EUnary { op, expr, ty, resolution } && op is Neg && checked_as(*expr, inner, *expected) && ty == *expected && resolution is Builtin,
            final(self).visited() == old(self).visited().push((inner, *expected)),"""),
        Fn(file=C, name="check_expr", container="Typer", as_method_of="Typer", rename="check_arith", ret="r",
           cut_from=re.compile(r"hir::Expr::EBinary \{ op, lhs, rhs \}\s*if is_numeric_ty\(expected\)\s*&& matches!\([^{}]*?\) =>\s*\{", re.S),
           cut_inside=True, cut_before="@block-end", cut_tail="",
           sig=f"pub fn check_arith(&mut self, {ARGS}, op: BinaryOp, lhs: ExprId, rhs: ExprId, expected: &Ty) -> Expr", rewrites=[VC],
           obligation="`a op b` (+ - * /) against a numeric type: both operands are type-checked against that type, left first, and combined by op",
           contract="""ensures r matches Expr::EBinary { op: o, lhs: l, rhs: rr, ty, resolution } && o == op && checked_as(*l, lhs, *expected) && checked_as(*rr, rhs, *expected)
                && ty == *expected && resolution is Builtin,
            final(self).visited() == old(self).visited().push((lhs, *expected)).push((rhs, *expected)),"""),
    ],
)
