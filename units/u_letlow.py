"""U-LETLOW: the ALet arms of go::compile::{compile_aexpr, compile_aexpr_assign, compile_aexpr_effect} (fragments)."""
import re
from vlib.gen import Unit, Fn, Adt, Raw
from units.u_ceffect import UNIT as CEFF

G = "crates/compiler/src/go/compile.rs"
base = ([it for it in CEFF.items if isinstance(it, Adt) and it.name != "ClosureApplyFn"] + [Raw(path="contracts/ceffect.shim.rs")]
        + [it for it in CEFF.items if isinstance(it, Adt) and it.name == "ClosureApplyFn"])
EXT = (re.compile(r"\b(\w+)\.extend\(((?:[^()]|\((?:[^()]|\([^()]*\))*\))*)\);"), r"vec_extend(&mut \1, \2);", "*")
HINT = ("proof {{ let a = assign_stmts(goenv, name@, AExpr::ACExpr {{ expr: v_g }}); let p = pre_g.len() as int; let t = {tail}; let r = {out}@; "
        "if cexpr_is_control(v_g) {{ assert(r.subrange(0, p) =~= pre_g); assert(r.subrange(p + 1, p + 1 + a.len()) =~= a); assert(r.subrange(p + 1 + a.len(), r.len() as int) =~= t); }} "
        "else {{ assert(r.subrange(0, p) =~= pre_g); assert(r.subrange(p + 1, r.len() as int) =~= t); }} "
        "assert(let_lowered(r, pre_g, goenv, name@, v_g, t)); }}")
GOHINT = ("proof {{ let p = pre_g.len() as int; let t = {tail}; let r = {out}@; assert(r.subrange(0, p) =~= pre_g); assert(r.subrange(p + 2, r.len() as int) =~= t); "
          "assert(let_lowered(r, pre_g, goenv, name@, v_g, t)); }}")


def frag(fn, new, sig, tail_spec, out, cut_from, cut_tail, obligation, pre="Seq::<Stmt>::empty()"):
    return Fn(file=G, name=fn, rename=new, ret="r", rules=[("strip", "anf::"), ("strip", "goast::"), ("strip", "goty::")],
              cut_from=cut_from, cut_before="@block-end", cut_tail=cut_tail, sig=sig,
              rewrites=[EXT, (re.compile(r"let mut out = Vec::new\(\);"), "let mut out: Vec<Stmt> = Vec::new();", "*"),
                        ("let value_expr = *value;", "let value_expr = *value; let ghost v_g = value_expr; let ghost pre_g = " + out + "@;"),
                        (re.compile(r"\n([ \t]*)return (out|stmts);"), r"\n\1" + GOHINT.format(tail=tail_spec, out=out).replace("\\", "\\\\") + r"\n\1return \2;", 1),
                        (re.compile(r"\n([ \t]*)(out|stmts)\s*\n\}\s*$"), r"\n\1" + HINT.format(tail=tail_spec, out=out).replace("\\", "\\\\") + r"\n\1\2\n}", 1)],
              obligation=obligation,
              contract=f"ensures let_lowered(r@, {pre}, goenv, name@, *value, {tail_spec}),")


UNIT = Unit(
    name="U-LETLOW",
    properties=["C09", "C04"],
    rules=[("strip", "anf::"), ("strip", "goast::")],
    describe="go::compile, the ALet arms of compile_aexpr / compile_aexpr_assign / compile_aexpr_effect (fragments): whatever is done with the "
             "BODY of a let (returned, stored, evaluated for effect), the let-bound VALUE is evaluated in value position, once, before the "
             "body: control flow through a declared variable filled by compile_aexpr_assign, `go` as a go statement, anything else as "
             "`var x T = <value>` — never through the effect-only lowering, which keeps calls only (a discarded division would vanish)",
    trusted=["FRAGMENTS: only the ALet arms; the recursive lowerings (compile_aexpr, compile_aexpr_assign, compile_aexpr_effect), compile_cexpr, "
             "cexpr_ty, compile_go (verified in U-CEFFECT), go_ident are stubs with uninterpreted results; Vec::extend(Vec) is a shim (appends)"],
    items=base + [
        Raw(path="contracts/letlow.shim.rs"),
        frag("compile_aexpr_effect", "let_effect", "fn let_effect(goenv: &GlobalGoEnv, gensym: &Gensym, name: String, value: Box<CExpr>, body: Box<AExpr>) -> Vec<Stmt>",
             "effect_stmts(goenv, *body)", "out", "let mut out = Vec::new();", "",
             "let in effect position: the value is bound in value position, then the body is evaluated for effect"),
        frag("compile_aexpr_assign", "let_assign", "fn let_assign(goenv: &GlobalGoEnv, gensym: &Gensym, target: &String, name: String, value: Box<CExpr>, body: Box<AExpr>) -> Vec<Stmt>",
             "assign_stmts(goenv, target@, *body)", "out", "let mut out = Vec::new();", "",
             "let whose result is stored: the value is bound in value position, then the body's value is stored"),
        frag("compile_aexpr", "let_return", "fn let_return(goenv: &GlobalGoEnv, gensym: &Gensym, mut stmts: Vec<Stmt>, name: String, value: Box<CExpr>, body: Box<AExpr>) -> Vec<Stmt>",
             "return_stmts(goenv, *body)", "stmts", "let value_expr = *value;", "    stmts",
             "let in return position: the value is bound in value position, then the body's value is returned", pre="stmts@"),
    ],
)
