"""U-GOOPS: pprint::go_pprint::{GoUnaryOp::doc, GoBinaryOp::doc} (whole) — C10, C09, C02: an operator of the Go AST is printed as Go's spelling of that operator."""
import re
from vlib.gen import Unit, Fn, Adt, Raw
from units.u_gotypedoc import text_any

GP = "crates/compiler/src/pprint/go_pprint.rs"
GA = "crates/compiler/src/go/goast.rs"
def texts(mt):
    """`RcDoc::text("lit")` -> Doc::text_str("lit") (the text shim)"""
    return text_any(mt.group(0))


SIG = (re.compile(r"-> RcDoc<'_, \(\)>"), "-> Doc", 1)
SPEC = '''// Go's spelling of the operators (The Go Programming Language Specification, Operators)
pub open spec fn go_binop_text(op: GoBinaryOp) -> Seq<char> {
    match op {
        GoBinaryOp::Add => "+"@, GoBinaryOp::Sub => "-"@, GoBinaryOp::Mul => "*"@, GoBinaryOp::Div => "/"@,
        GoBinaryOp::Less => "<"@, GoBinaryOp::Greater => ">"@, GoBinaryOp::LessEq => "<="@, GoBinaryOp::GreaterEq => ">="@,
        GoBinaryOp::Eq => "=="@, GoBinaryOp::NotEq => "!="@, GoBinaryOp::And => "&&"@, GoBinaryOp::Or => "||"@,
    }
}
pub open spec fn go_unop_text(op: GoUnaryOp) -> Seq<char> {
    match op { GoUnaryOp::Neg => "-"@, GoUnaryOp::Not => "!"@, GoUnaryOp::AddrOf => "&"@, GoUnaryOp::Deref => "*"@ }
}
'''

UNIT = Unit(
    name="U-GOOPS",
    properties=["C10", "C09", "C02"],
    rules=["attrs"],
    describe="pprint::go_pprint::{GoUnaryOp::doc, GoBinaryOp::doc} (whole): every operator of the Go AST is printed as Go's own spelling of THAT operator (`<=` for LessEq, `&&` for And ..) — "
             "U-CEXPR maps a goml operator to the Go operator of the same name, this is the last step to the text",
    trusted=["RcDoc is the text shim Doc (U-GOTYPEDOC); the table of Go's operator spellings (go_binop_text / go_unop_text) is written from the Go specification"],
    items=[
        Adt(file="crates/compiler/src/go/goty.rs", kw="enum", name="GoType", rules=["attrs"]),
        Raw(path="contracts/gotypedoc.shim.rs"),
        Adt(file=GA, kw="enum", name="GoUnaryOp", rules=["attrs"]),
        Adt(file=GA, kw="enum", name="GoBinaryOp", rules=["attrs"]),
        Raw(text=SPEC),
        Fn(file=GP, name="doc", container="GoUnaryOp", ret="r", pre_rewrites=[(re.compile(r"(?s)\A.*\Z"), texts, 1)], rewrites=[SIG],
           obligation="a unary operator is printed as Go spells it", contract="ensures r.txt() == go_unop_text(*self),"),
        Fn(file=GP, name="doc", container="GoBinaryOp", ret="r", pre_rewrites=[(re.compile(r"(?s)\A.*\Z"), texts, 1)], rewrites=[SIG],
           obligation="a binary operator is printed as Go spells it", contract="ensures r.txt() == go_binop_text(*self),"),
    ],
)
