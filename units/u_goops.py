"""U-GOOPS: pprint::go_pprint::{GoUnaryOp::doc, GoBinaryOp::doc} (whole) — C10, C09, C02: an operator of the Go AST is printed as Go's spelling of that operator."""
import re
from vlib.gen import Unit, Fn, Adt, Raw
from units.u_gotypedoc import text_any
from units.u_dcefx import UNIT as DCEFX

GP = "crates/compiler/src/pprint/go_pprint.rs"
GA = "crates/compiler/src/go/goast.rs"
def texts(mt):
    """`RcDoc::text("lit")` -> Doc::text_str("lit") (the text shim)"""
    return text_any(mt.group(0))


SIG = (re.compile(r"-> RcDoc<'_, \(\)>"), "-> Doc", 1)
SPEC = '''// Go's spelling of the operators (The Go Programming Language Specification, Operators)
pub open spec fn go_binop_text(op: GoBinaryOp) -> Seq<char> {
    match op {
        GoBinaryOp::Add => "+"@, GoBinaryOp::Sub => "-"@, GoBinaryOp::Mul => "*"@, GoBinaryOp::Div => "/"@,
        GoBinaryOp::Less => "<"@, GoBinaryOp::Greater => ">"@, GoBinaryOp::LessEq => "<="@, GoBinaryOp::GreaterEq => ">="@,
        GoBinaryOp::Eq => "=="@, GoBinaryOp::NotEq => "!="@, GoBinaryOp::And => "&&"@, GoBinaryOp::Or => "||"@,
    }
}
pub open spec fn go_unop_text(op: GoUnaryOp) -> Seq<char> {
    match op { GoUnaryOp::Neg => "-"@, GoUnaryOp::Not => "!"@, GoUnaryOp::AddrOf => "&"@, GoUnaryOp::Deref => "*"@ }
}
'''

def arm_doc(name, start, end, params, contract, obligation):
    return Fn(file=GP, name="to_doc", container="Expr", drop_self_impl=True, rename=name, ret="r",
              cut_from=re.compile(start), cut_inside=True, cut_before=end, cut_tail="",
              sig=f"fn {name}({params}, goenv: &GlobalGoEnv) -> Doc",
              pre_rewrites=[(re.compile(r",\s*\}\s*$"), "\n}", 1), (re.compile(r"(?s)\A.*\Z"), texts, 1), (re.compile(r"RcDoc::space\(\)"), "Doc::space()", "*")],
              contract=contract, obligation=obligation,
              ghost=[("@entry", "", 'proof { reveal_strlit("["); reveal_strlit("]"); }')])


UNIT = Unit(
    name="U-GOOPS",
    properties=["C10", "C09", "C02"],
    rules=["attrs"],
    describe="pprint::go_pprint::{GoUnaryOp::doc, GoBinaryOp::doc} (whole) and the UnaryOp / BinaryOp / Index arms of Expr::to_doc (fragments): every operator of the Go AST is printed as Go's own spelling of THAT operator (`<=` for LessEq, `&&` for And ..) — "
             "U-CEXPR maps a goml operator to the Go operator of the same name, this is the last step to the text; a binary operation is printed left operand, operator, right operand, an index as array[index]",
    trusted=["RcDoc is the text shim Doc (U-GOTYPEDOC); the table of Go's operator spellings (go_binop_text / go_unop_text) is written from the Go specification"],
    items=[
        Adt(file="crates/compiler/src/go/goty.rs", kw="enum", name="GoType", rules=["attrs"]),
        Raw(path="contracts/gotypedoc.shim.rs"),
        Adt(file=GA, kw="enum", name="GoUnaryOp", rules=["attrs"]),
        Adt(file=GA, kw="enum", name="GoBinaryOp", rules=["attrs"]),
        Adt(file=GA, kw="struct", name="Block", rules=["attrs", ("strip", "goty::")]),
        Adt(file=GA, kw="enum", name="Expr", rules=["attrs", ("strip", "goty::")]),
        Adt(file=GA, kw="enum", name="Stmt", rules=["attrs", ("strip", "goty::")]),
        Raw(text=SPEC),
        Fn(file=GP, name="doc", container="GoUnaryOp", ret="r", pre_rewrites=[(re.compile(r"(?s)\A.*\Z"), texts, 1)], rewrites=[SIG],
           obligation="a unary operator is printed as Go spells it", contract="ensures r.txt() == go_unop_text(*self),"),
        Fn(file=GP, name="doc", container="GoBinaryOp", ret="r", pre_rewrites=[(re.compile(r"(?s)\A.*\Z"), texts, 1)], rewrites=[SIG],
           obligation="a binary operator is printed as Go spells it", contract="ensures r.txt() == go_binop_text(*self),"),
        Raw(text="#[verifier::external_body] pub struct GlobalGoEnv { _p: u64 }\n"
                 "pub uninterp spec fn expr_text(e: Expr) -> Seq<char>;      // the text an expression is printed as (Expr::to_doc, recursively)\n"
                 "impl Expr { #[verifier::external_body] pub fn to_doc(&self, goenv: &GlobalGoEnv) -> (r: Doc) ensures r.txt() == expr_text(*self) { unimplemented!() } }\n"),
        arm_doc("unop_doc", r"Expr::UnaryOp \{ op, expr, ty: _ \} => ", "Expr::BinaryOp {", "op: &GoUnaryOp, expr: &Box<Expr>",
                "ensures r.txt() == go_unop_text(*op) + expr_text(**expr),", "a unary operation is printed operator first, then the operand"),
        arm_doc("binop_doc", r"Expr::BinaryOp \{\s*op,\s*lhs,\s*rhs,\s*ty: _,\s*\} => ", "Expr::FieldAccess { obj, field, ty: _ } =>", "op: &GoBinaryOp, lhs: &Box<Expr>, rhs: &Box<Expr>",
                "ensures r.txt() == expr_text(**lhs) + seq![' '] + go_binop_text(*op) + seq![' '] + expr_text(**rhs),", "a binary operation is printed LEFT operand, operator, RIGHT operand"),
        arm_doc("index_doc", r"Expr::Index \{\s*array,\s*index,\s*ty: _,\s*\} => ", "Expr::Cast { expr, ty } =>", "array: &Box<Expr>, index: &Box<Expr>",
                "ensures r.txt() == expr_text(**array) + seq!['['] + expr_text(**index) + seq![']'],", "an index expression is printed array[index]"),
    ],
)
