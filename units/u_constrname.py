"""U-CONSTRNAME: tast::Ty::constr_name (whole) and the receiver's constructor in env::lookup_inherent_method (fragment) — C04 / C20."""
import re
from vlib.gen import Unit, Fn, Adt, Raw

T = "crates/compiler/src/tast.rs"
E = "crates/compiler/src/env.rs"
RW = [(re.compile(r"\bname\.clone\(\)"), "string_clone(name)", "*"), (re.compile(r'"(Vec|Ref)"\.to_string\(\)'), r'str_to_string("\1")', "*"), (re.compile(r"\btast::"), "", "*")]

UNIT = Unit(
    name="U-CONSTRNAME",
    properties=["C04", "C20"],
    rules=["attrs"],
    describe="tast::Ty::constr_name answers Some exactly for the types that have a constructor (nominal types, Vec, Ref, and applications of those) and never panics; "
             "the method lookup env::TraitEnv::lookup_inherent_method asks an applied receiver type for its constructor without panicking — the receiver of "
             "`x.foo()` with `x: T[int32]` (an application of a type parameter, an erroneous program) is diagnosed, not a crash",
    trusted=["FRAGMENT receiver_constr: the `let constr = match receiver_ty {..}` statement of lookup_inherent_method; the two map lookups around it are not part of it",
             "get_constr_name_unsafe is a stub whose PRECONDITION is that the type has a constructor (it panics otherwise): the obligation the pre-fix code fails",
             "the two completion queries (query.rs) use constr_name the same way; their sites are not extracted"],
    items=[
        Adt(file=T, kw="enum", name="Ty", rules=["attrs"]),
        Raw(path="contracts/constrname.shim.rs"),
        Fn(file=T, name="constr_name", container="Ty", as_method_of="Ty", ret="r", rewrites=RW, optional=True,
           obligation="Some exactly when the type has a constructor; never panics; terminates",
           contract="ensures (r is Some) == has_constr(*self),\n decreases *self,"),
        Fn(file=E, name="lookup_inherent_method", container="TraitEnv", rename="receiver_constr", ret="r",
           cut_from="let constr = match receiver_ty {", cut_before=re.compile(r"if let Some\(constr\) = constr").pattern if False else "if let Some(constr) = constr", cut_tail="    constr",
           sig="fn receiver_constr(receiver_ty: &Ty) -> Option<String>", rewrites=RW,
           obligation="never panics, whatever the receiver type is",
           contract="ensures true,"),
    ],
)
