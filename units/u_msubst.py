import re
from vlib.gen import Unit, Fn, Adt, Raw

M = "crates/compiler/src/mono.rs"


def loop_inv(k, header, kw):
    """iter_map_collect loops: `while __mi{k} < LIST.len()` pushing into __mo{k}"""
    mt = re.search(r"while\s+__mi(\d+)\s*<\s*(\w+)\.len\(\)", header)
    if not mt:
        return None
    i, c = mt.group(1), mt.group(2)
    return (f"invariant __mi{i} <= {c}.len(), __mo{i}@.len() == __mi{i},\n"
            f"  forall|j: int| 0 <= j < __mi{i} ==> is_apply(#[trigger] {c}@[j], s@, __mo{i}@[j]),\n"
            f"decreases {c}.len() - __mi{i},")


UNIT = Unit(
    name="U-MSUBST",
    properties=["C07", "C03"],
    rules=["attrs", "iter_map_collect"],
    describe="mono::subst_ty (how a generic definition's types are specialised): the result is the type with every bound type parameter "
             "replaced by its binding and everything else copied, at every depth (tuples, applications, arrays, vectors, references, "
             "function types) — `is_apply`, the same relation U-MUNIFY proves for the substitution a call site derives; terminates. Lemma over "
             "that contract (C03): applying a substitution that binds every parameter of the type to parameter-free types leaves NO type "
             "parameter in the result (lemma_apply_ground)",
    trusted=["derived Clone on Ty and String is an identical copy (shims ty_clone, string_clone)",
             "IndexMap<String, Ty> is a finite map keyed by the key's text"],
    items=[
        Adt(file="crates/compiler/src/tast.rs", kw="enum", name="Ty", rules=["attrs"]),
        Raw(path="contracts/munify.shim.rs"),
        Raw(path="contracts/msubst.spec.rs"),
        Fn(file=M, name="subst_ty", ret="r", attrs="#[verifier::loop_isolation(false)]",
           obligation="r is ty with s applied (is_apply), for all types and substitutions",
           rewrites=[("s.get(name).cloned().unwrap_or_else(|| ty.clone())", "(match s.get(name) { Some(__v) => ty_clone(__v), None => ty_clone(ty) })"),
                     (re.compile(r"=> ty\.clone\(\),"), "=> ty_clone(ty),", "*"),
                     (re.compile(r"\b(name|trait_name): \1\.clone\(\)"), r"\1: string_clone(\1)", "*")],
           contract="ensures is_apply(*ty, s@, r),\n        decreases *ty,",
           loop_fn=loop_inv),
    ],
)
