"""U-MCALL: the generic-callee path of mono::mono_expr's ECall arm, as a fragment (from `let generic_func_name = ...` to the end of
the arm).  The fragment's live variables (ctx, callee, new_func, new_args, new_ty) become parameters."""
import re
from units.common import arm_guard
from vlib.gen import Unit, Fn, Adt, Raw
from units.u_munify import UNIT as MUNIFY

M = "crates/compiler/src/mono.rs"
unify = [it for it in MUNIFY.items if isinstance(it, Fn) and it.name == "unify"][0]
import copy
unify_stub = copy.copy(unify)
unify_stub.contract_only = True

CLONE = (re.compile(r"\b([a-z_][\w]*(?:\.[a-z_]\w*)*)\.clone\(\)"), r"clone_of(&\1)", "*")
SIG = ("fn mono_call_generic(ctx: &mut Ctx, callee: &Fn, new_func: MonoExpr, new_args: Vec<MonoExpr>, new_ty: Ty) -> MonoExpr {")

UNIT = Unit(
    name="U-MCALL",
    properties=["C07"],
    rules=["attrs", "fmtmsg", ("strip", "core::"), ("strip", "common_defs::"), ("strip", "tast::"), "iter_map_collect", "for_zip", "let_chain"],
    describe="mono::mono_expr, generic-callee path of the ECall arm (fragment): when a call to a generic function is rewritten to a "
             "specialised name, that name is the instance of the callee at a substitution under which the callee's result type and "
             "parameter types are EXACTLY the call's result and argument types — so two calls that differ in any of these can never "
             "share an instance; arguments and call type are passed on unchanged. EVar arm (fragment mono_var): a generic function or generic inherent method used "
             "as a VALUE is specialised the same way — the use names the instance at a substitution under which the function's signature is the use "
             "type, and the unspecialised name survives only where no instance can be determined",
    trusted=["FRAGMENT: mono_expr before `let generic_func_name = callee.name.clone();` (translation of func/args, callee lookup, "
             "non-generic shortcut) and all other arms are dropped; live variables become parameters",
             "PARTIAL: the two `panic!`s (unification failure) are not claimed unreachable — reaching them is a crash (C04), not a wrong "
             "instance; they are marked with assume(false) and listed",
             "Ctx::ensure_instance is a stub returning inst_name(name, subst) (uninterpreted: injectivity of spec_name_for/ty_compact is "
             "NOT claimed); Ctx's maps other than the substitution are opaque (AnyMap)",
             "mono::unify appears with the contract U-MUNIFY proves (contract-only stub)",
             "FRAGMENT mono_var (the EVar arm of mono_expr): lookup_callee is a stub (uninterpreted callee_of); subst_ty is opaque here (U-MSUBST); "
             "unify is ASSUMED deterministic there (stub unify_det: the clauses U-MUNIFY proves, plus `succeeds` / `result` as uninterpreted functions of "
             "its arguments) so that 'the bare name survives only where unification fails or leaves a type parameter' can be stated"],
    items=[
        arm_guard("crates/compiler/src/mono.rs", "mono_expr", None, r"match e\.clone\(\) \{",
                  ['core::Expr::EVar', 'core::Expr::EPrim', 'core::Expr::EConstr', 'core::Expr::ETuple', 'core::Expr::EArray', 'core::Expr::EClosure', 'core::Expr::ELet', 'core::Expr::EMatch', 'core::Expr::EIf', 'core::Expr::EWhile', 'core::Expr::EGo', 'core::Expr::EConstrGet', 'core::Expr::EUnary', 'core::Expr::EBinary', 'core::Expr::ECall', 'core::Expr::EToDyn', 'core::Expr::EDynCall', 'core::Expr::ETraitCall', 'core::Expr::EProj']),
        Adt(file="crates/compiler/src/tast.rs", kw="enum", name="Ty", rules=["attrs"]),
        Adt(file="crates/compiler/src/tast.rs", kw="struct", name="TastIdent", rules=["attrs"]),
        Raw(path="contracts/munify.shim.rs"),
        Raw(path="contracts/msubst.spec.rs"),
        Adt(file=M, kw="enum", name="MonoExpr", rules=["attrs", ("strip", "common_defs::"), ("strip", "tast::")]),
        Adt(file=M, kw="struct", name="MonoArm", rules=["attrs"]),
        Adt(file="crates/compiler/src/core.rs", kw="struct", name="Fn", rules=["attrs"]),
        Adt(file=M, kw="struct", name="Ctx", rules=["attrs", "pubfields", ("strip", "core::")],
            rewrites=[(re.compile(r"\bIndexMap<"), "AnyMap<", "*")]),
        Raw(path="contracts/mcall.shim.rs"),
        Raw(path="contracts/box.shim.rs"),
        Raw(text="""impl Ctx {
    #[verifier::external_body]
    pub fn ensure_instance(&mut self, name: &String, s: Subst) -> (r: String)
        ensures r@ == inst_name(name@, s@),
    { unimplemented!() }
}
"""),
        Fn(file=M, name="get_ty", container="MonoExpr", ret="r", rewrites=[(re.compile(r"=> ty\.clone\(\),"), "=> clone_of(ty),", "*")],
           contract="ensures r == mono_ty(*self),", obligation="get_ty returns the carried type"),
        Fn(file=M, name="has_tparam", ret="r", attrs="#[verifier::loop_isolation(false)]", rules=["attrs", "iter_any", "box_as_ref"],
           obligation="true exactly when a type parameter occurs anywhere in the type (every constructor, incl. Vec / Ref / array / function types)",
           contract="ensures r == mentions_tparam(*ty),\n        decreases *ty,",
           ghost=[("@entry", "", "proof { reveal_with_fuel(mentions_tparam, 2); reveal_with_fuel(mt_list, 2); broadcast use lemma_mt_any; }")],
           loop_fn=lambda k, header, kw: ANY_INV(header)),
        Fn(file=M, name="fn_is_generic", ret="r", attrs="#[verifier::loop_isolation(false)]", rules=["attrs", ("strip", "core::"), "iter_any"],
           obligation="a function is treated as generic exactly when it declares generics or its parameter / result types mention a type parameter",
           rewrites=[("!f.generics.is_empty()", "f.generics.len() > 0", "*"), ("f.generics.is_empty()", "f.generics.len() == 0", "*")],
           contract="ensures r == sig_mentions_tparam(*f),",
           loop_fn=lambda k, header, kw: ("invariant __i0 <= f.params@.len(), !__r0 ==> forall|j: int| 0 <= j < __i0 ==> !mentions_tparam((#[trigger] f.params@[j]).1),\n"
                                          "  __r0 ==> exists|j: int| 0 <= j < f.params@.len() && mentions_tparam((#[trigger] f.params@[j]).1),\ndecreases f.params@.len() - __i0,")),
        unify_stub,
        Fn(file=M, name="mono_expr", rename="mono_var", ret="r", attrs="#[verifier::loop_isolation(false)]",
           rules=["attrs", "fmtmsg", ("strip", "core::"), ("strip", "common_defs::"), ("strip", "tast::"), "iter_map_collect", "let_chain_rev", "let_chain"],
           cut_from=re.compile(r"core::Expr::EVar \{ name, ty \} => "), cut_inside=True, cut_before="core::Expr::EPrim { value, ty } => {", cut_tail="",
           sig="fn mono_var(ctx: &mut Ctx, name: String, ty: Ty, s: &Subst) -> MonoExpr",
           pre_rewrites=[(re.compile(r"\},(\s*\}\s*)$"), r"}\1", "*"),      # arm written as an expression (`=> MonoExpr::EVar { .. },`): drop the arm's comma
                         (re.compile(r"\|\(_, (\w+)\)\| \1\.clone\(\)"), r"|(_, \1)| ty_clone(\1)", "*"),
                         (re.compile(r"\bunify\(&template, &new_ty, &mut (\w+)\)"), r"unify_det(&template, &new_ty, &mut \1)", "*"),
                         (re.compile(r"(\w+)\.values\(\)\.any\(has_tparam\)"), r"subst_any_tparam_v(&\1)", "*"),
                         (re.compile(r"let mut (\w+): Subst = IndexMap::new\(\);"), r"let mut \1: Subst = IndexMap::<String, Ty>::new();", "*")],
           rewrites=[CLONE],
           obligation="a generic function (or generic inherent method) used as a VALUE is specialised like a callee: the use names the instance at a "
                      "substitution under which the function's signature is exactly the use type; its bare (unspecialised) name survives only where "
                      "unification with the use type fails or leaves a type parameter",
           contract="ensures r matches MonoExpr::EVar { name: n, ty: t } && t == subst_res(ty, s@) && value_use_ok(old(ctx), name@, n@, t),",
           ghost=[("@entry", "", "let ghost mut tt_g: Ty = ty; let ghost ctx0 = *ctx;"),
                  ("?let mut value_subst: Subst = IndexMap::<String, Ty>::new();", "line-after",
                   "proof { tt_g = template; assert(fn_sig_ty(*callee, template)); }"),
                  ("?let spec = ctx.ensure_instance(", "line-before", "let ghost m_g = value_subst@; let ghost f_g = *callee;"),
                  ("?return MonoExpr::EVar {", "line-before", "proof { assert(renamed_ok(&ctx0, name@, spec@, new_ty, f_g, tt_g, m_g)); }"),
                  ("?MonoExpr::EVar { name, ty: new_ty }", "line-before",
                   "proof { if ctx0.callee_of(name@) is Some && sig_mentions_tparam(ctx0.callee_of(name@)->0) { assert(kept_ok(ctx0.callee_of(name@)->0, new_ty, tt_g)); } }")],
           loop_fn=lambda k, header, kw: VLOOPS(header)),
        Fn(file=M, name="mono_expr", rename="mono_call_generic", ret="r", attrs="#[verifier::loop_isolation(false)]",
           cut_from=re.compile(r"let generic_func_name = callee\.name\.clone\(\);(?!\s*let template\b)"), sig=SIG, cut_before="core::Expr::EToDyn {", cut_tail="",
           obligation="a rewritten call names inst(callee, s) with sig_matches(callee, s, args, call type); args/type unchanged",
           rewrites=[CLONE,
                     (re.compile(r"(let callee_param_tys = \{ let mut __mo\d+)( = Vec::new\(\);)"), r"\1: Vec<&Ty>\2", "*"),
                     (re.compile(r"(let arg_tys = \{ let mut __mo\d+)( = Vec::new\(\);)"), r"\1: Vec<Ty>\2", "*"),
                     (re.compile(r"panic!\((?:[^()]|\([^()]*\))*\);?"), "{ proof { assume(false); } }", "*"),
                     ("call_subst.values().any(has_tparam)", "subst_any_tparam(&call_subst)"),
                     ("let mut call_subst: Subst = IndexMap::new();", "let mut call_subst: Subst = IndexMap::<String, Ty>::new();"),
                     ("ctx.ensure_instance(&generic_func_name, call_subst)", "{ proof { cs = call_subst@; } ctx.ensure_instance(&generic_func_name, call_subst) }")],
           contract="""ensures r matches MonoExpr::ECall { func, args, ty } && args == new_args && ty == new_ty && (
                *func == new_func
                || (*func matches MonoExpr::EVar { name, ty: fty } && fty == mono_ty(new_func)
                    && exists|s: Map<Seq<char>, Ty>| name@ == #[trigger] inst_name(callee.name@, s) && sig_matches(*callee, s, new_args@, new_ty))),""",
           ghost=[("@entry", "", "let ghost mut cs: Map<Seq<char>, Ty> = Map::empty(); proof { broadcast use lemma_extends_trans, lemma_apply_stable_b; }"),
                  (r"@after-loop:__zk\d+\s*<\s*callee_param_tys", "", "let ghost s_loop = call_subst@;"),
                  ("let spec = ", "line-before",
                   "proof { assert forall|i: int| 0 <= i < callee.params@.len() && i < new_args@.len() implies "
                   "is_apply(callee.params@[i].1, call_subst@, mono_ty(new_args@[i])) by { "
                   "assert(*callee_param_tys@[i] == callee.params@[i].1); assert(arg_tys@[i] == mono_ty(new_args@[i])); "
                   "assert(is_apply(*callee_param_tys@[i], s_loop, arg_tys@[i])); "
                   "lemma_apply_stable(*callee_param_tys@[i], s_loop, call_subst@, arg_tys@[i]); } "
                   "assert(sig_matches(*callee, call_subst@, new_args@, new_ty)); }")],
           loop_fn=lambda k, header, kw: LOOPS(k, header)),
    ],
)


def ANY_INV(header):
    mt = re.search(r"while\s+__i(\d+)\s*<\s*(\w+)\.len\(\)", header)
    if not mt:
        return None
    i, r, c = "__i" + mt.group(1), "__r" + mt.group(1), mt.group(2)
    return (f"invariant {i} <= {c}@.len(), !{r} ==> !mt_list({c}@, {i} as int),\n"
            f"  {r} ==> mt_list({c}@, {c}@.len() as int),\ndecreases {c}@.len() - {i},")


def VLOOPS(header):
    mt = re.search(r"while\s+__mi(\d+)\s*<\s*callee\.params\.len\(\)", header)
    if mt:
        i = mt.group(1)
        return (f"invariant __mi{i} <= callee.params.len(), __mo{i}@.len() == __mi{i}, forall|j: int| 0 <= j < __mi{i} ==> #[trigger] __mo{i}@[j] == callee.params@[j].1,\n"
                f"decreases callee.params.len() - __mi{i},")
    return None


def LOOPS(k, header):
    mt = re.search(r"while\s+__mi(\d+)\s*<\s*([\w\.]+)\.len\(\)", header)
    if mt:   # the two map/collect loops: parameter types (references into callee.params) and argument types
        i, c = mt.group(1), mt.group(2)
        if c == "callee.params":
            return (f"invariant __mi{i} <= {c}.len(), __mo{i}@.len() == __mi{i}, forall|j: int| 0 <= j < __mi{i} ==> *(#[trigger] __mo{i}@[j]) == {c}@[j].1,\n"
                    f"decreases {c}.len() - __mi{i},")
        return (f"invariant __mi{i} <= {c}.len(), __mo{i}@.len() == __mi{i}, forall|j: int| 0 <= j < __mi{i} ==> #[trigger] __mo{i}@[j] == mono_ty({c}@[j]),\n"
                f"decreases {c}.len() - __mi{i},")
    mt = re.search(r"while\s+__zk(\d+)\s*<\s*(\w+)\.len\(\)\s*&&\s*__zk\d+\s*<\s*(\w+)\.len\(\)", header)
    if mt:   # the zip loop unifying parameter types with argument types
        z, l, r = mt.group(1), mt.group(2), mt.group(3)
        return (f"invariant __zk{z} <= {l}.len(), __zk{z} <= {r}.len(),\n"
                f"  forall|j: int| #![trigger {l}@[j]] 0 <= j < __zk{z} ==> is_apply(*{l}@[j], call_subst@, {r}@[j]) && covers(*{l}@[j], call_subst@),\n"
                f"decreases {l}.len() - __zk{z},")
    return None
