import copy
from vlib.gen import Unit, Fn, Adt, Raw
from units.common import PAR
from units.u_pcore import TYPES, P, PI, RULES
from units import u_tree, u_grammar

def stub(f):
    g = copy.copy(f)
    g.contract_only = True
    return g

tree_items = [it for it in u_tree.UNIT.items if it not in TYPES]
tree_specs = [it for it in tree_items if isinstance(it, (Raw, Adt))]
build_tree = [it for it in tree_items if isinstance(it, Fn) and it.name == "build_tree"][0]
file_fn = [it for it in u_grammar.UNIT.items if isinstance(it, Fn) and it.name == "file" and not it.as_spec][0]

SHIM = Raw(text="""
// lexer::lex: logos' tokenisation is external.  The token vector is an uninterpreted function of the text; the only
// assumption is its size (TextSize is u32, so texts of 4 GiB or more already fail in the lexer).
pub uninterp spec fn lex_view(input: Seq<char>) -> Seq<(u16, Seq<char>)>;   // (kind, text) of the tokens logos produces
#[verifier::external_body]
pub fn lex_shim<'a>(input: &'a str) -> (r: Vec<Token<'a>>)
    ensures r@.len() <= 0x7fff_fff0, tok_view(r@, r@.len() as int) == lex_view(input@),
{ unimplemented!() }
#[verifier::external_body]
pub struct Path { _p: u64 }
#[verifier::external_body]
pub fn path_into(p: &Path) -> (r: PathBuf) { unimplemented!() }
""")

UNIT = Unit(
    name="U-PARSE",
    properties=["C12", "C04"],
    rules=RULES,
    describe="parser::parse (the public entry point) and Parser::new: composition of the proved contracts of file() and build_tree() — "
             "for every token vector the lexer returns, the green tree's leaves are exactly those tokens, in order, each once",
    trusted=["file() and build_tree() appear here as contract-only stubs; their identical contract text is proved against the real bodies in U-GRAMMAR and U-TREE",
             "lexer::lex is external (logos): its token vector is arbitrary except for the size bound"],
    items=TYPES + tree_specs + [SHIM,
        Raw(text="""
pub proof fn lemma_parse_glue(p: Parser)
    requires p.wf(), at_eof(p), balanced(p.events@),
    ensures events_wf(p.events@), diags_ok(p.input.tokens@, p.diagnostics.view()),
        count_adv(p.events@, p.events@.len() as int) >= nontrivia(p.input.tokens@, p.input.tokens@.len() as int),
{
    reveal(Parser::wf); reveal(at_eof);
    lemma_nontrivia_suffix(p.input.tokens@, p.input.cursor as int);
}
"""),
        Fn(file=PAR + "input.rs", name="new", container="Input", as_method_of="<'t> Input<'t>", ret="r",
           contract="ensures r.tokens == tokens, r.cursor == 0,"),
        Fn(file=P, name="new", container="Parser", as_method_of=PI, ret="r",
           rewrites=[("filename: &Path", "filename: &Path"), ("filename.into()", "path_into(filename)")],
           obligation="a fresh parser satisfies the representation invariant with an empty event stream",
           contract="""requires tokens@.len() <= 0x7fff_fff0,
        ensures r.wf(), r.events@.len() == 0, r.input.tokens == tokens,""",
           ghost=[("@entry", "", "proof { reveal(Parser::wf); assert(Seq::<Option<TextRange>>::empty().len() == 0); }")]),
        stub(file_fn),
        stub(build_tree),
        Fn(file=PAR + "lib.rs", name="parse", ret="r",
           rewrites=[("lexer::lex(input)", "lex_shim(input)"), ("file::file(&mut parser)", "file(&mut parser)")],
           obligation="C12 at the API: parse(text) returns a tree whose leaves are exactly lex(text), in order, each exactly once; parse terminates",
           contract="""ensures r.green_node.leaves() == lex_view(input@),""",
           ghost=[("file(&mut parser)", "line-after", "proof { lemma_parse_glue(parser); }")]),
    ],
)
