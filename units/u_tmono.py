import re
from vlib.gen import Unit, Fn, Adt, Raw

M = "crates/compiler/src/mono.rs"
TM = "<'a> TypeMono<'a>"
KEEP = "final(self).enum_base == old(self).enum_base, final(self).struct_base == old(self).struct_base,"


def minv(k, src):
    return (f"invariant __mi{k} <= {src}.len(), __mo{k}@.len() == __mi{k}, self.enum_base == old(self).enum_base, self.struct_base == old(self).struct_base,\n"
            f"  forall|j: int| 0 <= j < __mi{k} ==> collapsed(#[trigger] __mo{k}@[j], old(self).known()),\n"
            f"decreases {src}.len() - __mi{k},")


UNIT = Unit(
    name="U-TMONO",
    properties=["C07"],
    rules=["attrs", "fmtmsg", ("strip", "tast::"), "iter_map_collect"],
    describe="mono::TypeMono::collapse_type_apps: the result contains no application of a generic enum/struct anywhere in the type "
             "(under tuples, functions, arrays, references AND vectors) — types are fully specialised after monomorphisation; no panic",
    trusted=["TypeMono::ensure_instance is a contract-only stub here (it returns some identifier and leaves the generic definitions unchanged)",
             "termination of the collapse_type_apps / ensure_instance recursion is NOT claimed (it fails for polymorphically recursive types, DESIGN.md §5)",
             "input types are assumed to have plain enum/struct names as application heads (apps_wellformed)"],
    items=[
        Adt(file="crates/compiler/src/tast.rs", kw="enum", name="Ty", rules=["attrs"]),
        Adt(file="crates/compiler/src/tast.rs", kw="struct", name="TastIdent", rules=["attrs"]),
        Adt(file="crates/compiler/src/env.rs", kw="struct", name="EnumDef", rules=["attrs", ("strip", "tast::")]),
        Adt(file="crates/compiler/src/env.rs", kw="struct", name="StructDef", rules=["attrs", ("strip", "tast::")]),
        Adt(file=M, kw="struct", name="TypeMono", rules=["attrs"],
            rewrites=[("IndexMap<(String, Vec<Ty>), TastIdent>", "InstMap"), ("IndexMap<TastIdent, EnumDef>", "DefMap<EnumDef>"),
                      ("IndexMap<TastIdent, StructDef>", "DefMap<StructDef>")]),
        Raw(path="contracts/tmono.shim.rs"),
        Fn(file=M, name="ensure_instance", container="TypeMono", as_method_of=TM, ret="r", contract_only=True,
           rewrites=[("args: &[Ty]", "args: &Vec<Ty>")],
           contract=f"ensures {KEEP}"),
        Fn(file=M, name="collapse_type_apps", container="TypeMono", as_method_of=TM, ret="r",
           attrs="#[verifier::exec_allows_no_decreases_clause]\n#[verifier::loop_isolation(false)]",
           obligation="no application of a generic enum/struct remains anywhere in the result (fully specialised types)",
           rewrites=[("base.get_constr_name_unsafe()", "get_constr_name_unsafe(base)"), ("TastIdent::new(&base_name)", "tast_ident_new(base_name.as_str())"),
                     (re.compile(r"name: new_u\.0\.clone\(\)"), "name: string_clone(&new_u.0)", 2),
                     (re.compile(r"name: name\.clone\(\)"), "name: string_clone(name)", 2),
                     ("_ => ty.clone(),", "_ => ty_clone(ty),")],
           contract=f"""requires apps_wellformed(*ty),
        ensures collapsed(r, old(self).known()), {KEEP}
            (*ty is TEnum || *ty is TStruct) ==> r == *ty,""",
           loops={0: minv(0, "args"), 1: minv(1, "args"), 2: minv(2, "typs"), 3: minv(3, "params")}),
    ],
)
