import re
from vlib.gen import Unit, Fn, Adt, Raw

M = "crates/compiler/src/mono.rs"
TM = "<'a> TypeMono<'a>"
KEEP = "final(self).enum_base == old(self).enum_base, final(self).struct_base == old(self).struct_base, memo_grows(old(self).map, final(self).map),"
WF = "twf({t}, old(self).enum_base, old(self).struct_base)"
BOTH = "#[verifier::exec_allows_no_decreases_clause]\n#[verifier::loop_isolation(false)]"


def minv(k, src):
    return (f"invariant __mi{k} <= {src}.len(), __mo{k}@.len() == __mi{k}, self.enum_base == old(self).enum_base, self.struct_base == old(self).struct_base, memo_grows(old(self).map, self.map),\n"
            f"  forall|j: int| 0 <= j < __mi{k} ==> collapsed(#[trigger] __mo{k}@[j], old(self).known()),\n"
            f"decreases {src}.len() - __mi{k},")


# clones of identifiers / strings / types go through view-preserving shims (derived Clone is an identical copy)
CLONES = [(re.compile(r"\bg\.0\.clone\(\)"), "string_clone(&g.0)", "*"),
          (re.compile(r"\ba\.clone\(\)"), "ty_clone(a)", "*"),
          (re.compile(r"\b(vname|fname)\.clone\(\)"), r"ident_clone(&\1)", "*"),
          (re.compile(r"\bnew_name\.clone\(\)"), "ident_clone(&new_name)", "*")]

ZIP_INV = ("invariant __zk{k} <= generic_def.generics@.len(), __zk{k} <= args@.len(), self.enum_base == old(self).enum_base, self.struct_base == old(self).struct_base, memo_grows(old(self).map, self.map),\n"
           "  binds_params(subst@, generic_def.generics@, args@, __zk{k} as int),\n"
           "decreases generic_def.generics@.len() - __zk{k},")
KEEPINV = "self.enum_base == old(self).enum_base, self.struct_base == old(self).struct_base, memo_grows(old(self).map, self.map), self.map.has(__kv),"

UNIT = Unit(
    name="U-TMONO",
    properties=["C07", "C04", "C03"],
    # the memo-before-descent discipline is C04's (a self-referential generic type must not recurse forever); the rest is C07's
    clause_scope={"C04": {"only": ["map.has("]}, "C07": {"except": ["map.has("]}, "C03": {"except": ["map.has("]}},
    rules=["attrs", "fmtmsg", "msg_to_string", ("strip", "tast::"), "iter_map_collect", "for_zip", "for_into_iter"],
    describe="mono::TypeMono: collapse_type_apps leaves no application of a generic enum/struct anywhere in the type (tuples, functions, arrays, "
             "references and vectors: fully specialised types); ensure_instance builds an instance by binding the definition's parameters to "
             "EXACTLY the instantiation arguments (the table key), never reaches its arity panic!, and only ever hands well-formed types on; "
             "the generic definitions are never modified",
    trusted=["termination of the collapse_type_apps / ensure_instance recursion is NOT claimed (it fails for polymorphically recursive types, DESIGN.md §5); "
             "only the necessary discipline `an instance is memoised before its definition is descended into` is (C04 clause)",
             "input types and generic definitions are assumed well formed (twf / defs_ok: plain names as application heads, declared arity, distinct "
             "parameter names) — that is the typer's job",
             "mono::subst_ty is a stub that preserves well-formedness (assumed); the instance table and monoenv are opaque (their contents are not specified)"],
    items=[
        Adt(file="crates/compiler/src/tast.rs", kw="enum", name="Ty", rules=["attrs"]),
        Adt(file="crates/compiler/src/tast.rs", kw="struct", name="TastIdent", rules=["attrs"]),
        Adt(file="crates/compiler/src/env.rs", kw="struct", name="EnumDef", rules=["attrs", ("strip", "tast::")]),
        Adt(file="crates/compiler/src/env.rs", kw="struct", name="StructDef", rules=["attrs", ("strip", "tast::")]),
        Adt(file=M, kw="struct", name="TypeMono", rules=["attrs"],
            rewrites=[("IndexMap<(String, Vec<Ty>), TastIdent>", "InstMap"), ("IndexMap<TastIdent, EnumDef>", "DefMap<EnumDef>"),
                      ("IndexMap<TastIdent, StructDef>", "DefMap<StructDef>")]),
        Raw(path="contracts/tmono.shim.rs"),
        Raw(text=lambda: f"""
impl<'a> TypeMono<'a> {{
// the recursive descent as made from INSIDE ensure_instance: same contract as collapse_type_apps, plus the termination
// discipline (C04) that the instance under construction is already in the memo table
{BOTH}
pub fn collapse_in_instance(&mut self, Ghost(k): Ghost<(Seq<char>, Seq<Ty>)>, ty: &Ty) -> (r: Ty)
    requires old(self).map.has(k),
        old(self).defs_ok(), {WF.format(t='*ty')},
    ensures collapsed(r, old(self).known()), {KEEP}
        (*ty is TEnum || *ty is TStruct) ==> r == *ty,
{{ self.collapse_type_apps(ty) }}
}}
"""),
        Fn(file=M, name="free_instance_name", container="TypeMono", as_method_of=TM, ret="r", attrs="#[verifier::exec_allows_no_decreases_clause]",
           obligation="a new instance is never named like a type of the program, nor like an instance named before (fix 2b: `struct Box__int32` next to `Box[int32]`)",
           rewrites=[("TastIdent::new(&name)", "tast_ident_new(name.as_str())", 1), (re.compile(r"!self\.map\.values\(\)\.any\(\|n\| \*n == ident\)"), "!self.map.has_name(&ident)", 1),
                     ("name.push('_');", "name = push_underscore(name);", 1)],
           contract="ensures !self.known().contains(r.0@), !self.map.names().contains(r.0@),",
           loop_fn=lambda k, header, kw: "invariant true,"),
        Fn(file=M, name="ensure_instance", container="TypeMono", as_method_of=TM, ret="r", attrs=BOTH,
           obligation="the instance's substitution binds each parameter of the generic definition to exactly the corresponding instantiation argument; "
                      "arity panic unreachable; types handed to collapse_type_apps are well formed",
           rewrites=[("args: &[Ty]", "args: &Vec<Ty>"),
                     ("let key = (name.to_string(), args.to_vec());", "let key = key_of(name, args);"),
                     ("return u.clone();", "return ident_clone(u);"),
                     ("TastIdent::new(&rt_msg())", "tast_ident_new(rt_msg().as_str())", "*"), ("TastIdent::new(name)", "tast_ident_new(name)"),
                     (re.compile(r"self\.map\.insert\(key\.clone\(\), new_name\.clone\(\)\);"), "self.map.insert(key_clone(&key), ident_clone(&new_name));", "*"),
                     (re.compile(r"self\.map\.insert\(key, new_name\.clone\(\)\);"), "self.map.insert(key, ident_clone(&new_name));", "*"),
                     # C04: every recursive descent made while building an instance goes through a wrapper that REQUIRES the
                     # instance's own key to be memoised already (otherwise a self-referential type recurses forever)
                     (re.compile(r"self\.collapse_type_apps\("), "self.collapse_in_instance(Ghost(__kv), ", "*"),
                     ("generic_def.variants.clone()", "enumdef_variants_clone(generic_def)"),
                     ("generic_def.fields.clone()", "structdef_fields_clone(&generic_def)"),
                     ("self.struct_base.get(&ident).cloned()", "(match self.struct_base.get(&ident) { Some(__d) => Some(structdef_clone(__d)), None => None })"),
                     ("let mut subst: IndexMap<String, Ty> = IndexMap::new();", "let mut subst: IndexMap<String, Ty> = IndexMap::<String, Ty>::new();", 2),
                     ] + CLONES,
           contract=f"""requires old(self).defs_ok(),
            forall|i: int| 0 <= i < args@.len() ==> {WF.format(t='#[trigger] args@[i]')},
            arity_of(name@, old(self).enum_base, old(self).struct_base) matches Some(n) ==> args@.len() == n,
        ensures {KEEP}""",
           ghost=[("@entry", "", "let ghost __kv = (name@, args@); proof { broadcast use subst_ty_twf; }")],
           loops={0: ZIP_INV.format(k=0),
                  1: f"invariant {KEEPINV} binds_params(subst@, generic_def.generics@, args@, args@.len() as int),\n"
                     f"  forall|i: int, j: int| 0 <= i < __iv0@.len() && 0 <= j < __iv0@[i].1@.len() ==> {WF.format(t='#[trigger] __iv0@[i].1@[j]')},\n decreases __iv0@.len(),",
                  2: f"invariant {KEEPINV} binds_params(subst@, generic_def.generics@, args@, args@.len() as int),\n"
                     f"  forall|j: int| 0 <= j < __iv1@.len() ==> {WF.format(t='#[trigger] __iv1@[j]')},\n"
                     f"  forall|i: int, j: int| 0 <= i < __iv0@.len() && 0 <= j < __iv0@[i].1@.len() ==> {WF.format(t='#[trigger] __iv0@[i].1@[j]')},\n decreases __iv1@.len(),",
                  3: ZIP_INV.format(k=1),
                  4: f"invariant {KEEPINV} binds_params(subst@, generic_def.generics@, args@, args@.len() as int),\n"
                     f"  forall|i: int| 0 <= i < __iv2@.len() ==> {WF.format(t='(#[trigger] __iv2@[i]).1')},\n decreases __iv2@.len(),"}),
        Fn(file=M, name="collapse_type_apps", container="TypeMono", as_method_of=TM, ret="r", attrs=BOTH,
           obligation="no application of a generic enum/struct remains anywhere in the result (fully specialised types)",
           rewrites=[("base.get_constr_name_unsafe()", "get_constr_name_unsafe(base)"), ("TastIdent::new(&base_name)", "tast_ident_new(base_name.as_str())"),
                     (re.compile(r"name: new_u\.0\.clone\(\)"), "name: string_clone(&new_u.0)", 2),
                     (re.compile(r"name: name\.clone\(\)"), "name: string_clone(name)", 2),
                     ("_ => ty.clone(),", "_ => ty_clone(ty),")],
           contract=f"""requires old(self).defs_ok(), {WF.format(t='*ty')},
        ensures collapsed(r, old(self).known()), {KEEP}
            (*ty is TEnum || *ty is TStruct) ==> r == *ty,""",
           loops={0: minv(0, "args"), 1: minv(1, "args"), 2: minv(2, "typs"), 3: minv(3, "params")}),
        # mono(): the field types of the NON-generic definitions are specialised too (two map expressions of its tail, as fragments)
        Fn(file=M, name="mono", rename="plain_struct_fields", ret="r", attrs=BOTH, optional=False,
           cut_from=re.compile(r"let fields = def\s*\.fields\s*\.iter\(\)"), cut_before="if let Some(slot) = m.monoenv.struct_def_mut(", cut_tail="    fields",
           sig="fn plain_struct_fields<'a>(m: &mut TypeMono<'a>, def: &StructDef) -> Vec<(TastIdent, Ty)>",
           rewrites=[(re.compile(r"\bname\.clone\(\)"), "ident_clone(name)", "*"), (re.compile(r"\bty\.clone\(\)"), "ty_clone(ty)", "*"),
                     (re.compile(r"let fields = \{ let mut (__mo\d+) = Vec::new\(\);"), r"let fields = { let mut \1: Vec<(TastIdent, Ty)> = Vec::new();", 1)],
           obligation="the field types written back into a non-generic struct definition are fully specialised (no application of a generic enum/struct "
                      "remains), one per field, names and order kept",
           contract="""requires old(m).defs_ok(), structdef_ok(*def, old(m).enum_base, old(m).struct_base),
        ensures r@.len() == def.fields@.len(), final(m).enum_base == old(m).enum_base, final(m).struct_base == old(m).struct_base,
            forall|i: int| 0 <= i < r@.len() ==> (#[trigger] r@[i]).0 == def.fields@[i].0 && collapsed(r@[i].1, old(m).known()),""",
           loop_fn=lambda k, header, kw: ("invariant __mi0 <= def.fields.len(), __mo0@.len() == __mi0, m.enum_base == old(m).enum_base, m.struct_base == old(m).struct_base, m.defs_ok(),\n"
                                          "  forall|j: int| 0 <= j < __mi0 ==> (#[trigger] __mo0@[j]).0 == def.fields@[j].0 && collapsed(__mo0@[j].1, old(m).known()),\n"
                                          "decreases def.fields.len() - __mi0,")),
        Fn(file=M, name="mono", rename="plain_enum_variants", ret="r", attrs=BOTH,
           cut_from=re.compile(r"let variants = def\s*\.variants\s*\.iter\(\)"), cut_before="m.monoenv.genv.insert_enum(EnumDef {", cut_tail="    variants",
           sig="fn plain_enum_variants<'a>(m: &mut TypeMono<'a>, def: &EnumDef) -> Vec<(TastIdent, Vec<Ty>)>",
           rewrites=[(re.compile(r"\bname\.clone\(\)"), "ident_clone(name)", "*"), (re.compile(r"\bty\.clone\(\)"), "ty_clone(ty)", "*"),
                     (re.compile(r"let variants = \{ let mut (__mo\d+) = Vec::new\(\);"), r"let variants = { let mut \1: Vec<(TastIdent, Vec<Ty>)> = Vec::new();", 1),
                     (re.compile(r"let tys = \{ let mut (__mo\d+) = Vec::new\(\);"), r"let tys = { let mut \1: Vec<Ty> = Vec::new();", 1)],
           obligation="the payload types written back into a non-generic enum definition are fully specialised, one list per variant, names and order kept",
           contract="""requires old(m).defs_ok(), enumdef_ok(*def, old(m).enum_base, old(m).struct_base),
        ensures r@.len() == def.variants@.len(), final(m).enum_base == old(m).enum_base, final(m).struct_base == old(m).struct_base,
            forall|i: int| 0 <= i < r@.len() ==> (#[trigger] r@[i]).0 == def.variants@[i].0 && r@[i].1@.len() == def.variants@[i].1@.len()
                && forall|j: int| 0 <= j < r@[i].1@.len() ==> collapsed(#[trigger] r@[i].1@[j], old(m).known()),""",
           loop_fn=lambda k, header, kw, body=None: PLAIN_ENUM_LOOPS(header)),
    ],
)



def PLAIN_ENUM_LOOPS(header):
    keep = "m.enum_base == old(m).enum_base, m.struct_base == old(m).struct_base, m.defs_ok(),"
    if re.search(r"while\s+__mi\d+\s*<\s*def\s*\.variants", header):
        mt = re.search(r"__mi(\d+)", header)
        k = mt.group(1)
        return (f"invariant __mi{k} <= def.variants.len(), __mo{k}@.len() == __mi{k}, {keep}\n"
                f"  forall|i: int| 0 <= i < __mi{k} ==> (#[trigger] __mo{k}@[i]).0 == def.variants@[i].0 && __mo{k}@[i].1@.len() == def.variants@[i].1@.len()\n"
                f"    && forall|j: int| 0 <= j < __mo{k}@[i].1@.len() ==> collapsed(#[trigger] __mo{k}@[i].1@[j], old(m).known()),\n"
                f"decreases def.variants.len() - __mi{k},")
    mt = re.search(r"while\s+__mi(\d+)\s*<\s*tys\.len\(\)", header)
    if mt:
        k = mt.group(1)
        return (f"invariant __mi{k} <= tys.len(), __mo{k}@.len() == __mi{k}, {keep}\n"
                f"  forall|j: int| 0 <= j < tys@.len() ==> twf(#[trigger] tys@[j], old(m).enum_base, old(m).struct_base),\n"
                f"  forall|j: int| 0 <= j < __mi{k} ==> collapsed(#[trigger] __mo{k}@[j], old(m).known()),\n"
                f"decreases tys.len() - __mi{k},")
    return None
