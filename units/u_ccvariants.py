"""U-CCVARIANTS: query::colon_colon_items_for_namespace, the variants of an enum (fragment) — C20."""
import re
from vlib.gen import Unit, Fn, Adt, Raw

Q = "crates/compiler/src/query.rs"

UNIT = Unit(
    name="U-CCVARIANTS",
    properties=["C20"],
    rules=["attrs", "fmtmsg", ("strip", "tast::"), "for_index"],
    describe="query::colon_colon_items_for_namespace, the enum case (fragment): the completions offered after `Enum::` are named like variants THAT enum's definition has — "
             "nothing that is not one of its variants is offered (which variants are offered, and the detail text, are not the property's business); the trait case (fragment): "
             "the items offered after `Trait::` name methods the trait's definition has",
    trusted=["FRAGMENT cc_enum_variants: the body of `if let Some(enum_def) = genv.enums().get(..)` up to the inherent methods (U-COMPLMETH's subject); the lookup of the enum, the "
             "other namespaces (traits, structs, packages) are dropped; the detail text (payload pretty-printing, an iterator chain) is the stub payload_text / rt_msg; "
             "String clone / to_string keep the text"],
    items=[
        Adt(file=Q, kw="enum", name="ColonColonCompletionKind", rules=["attrs"]),
        Adt(file=Q, kw="struct", name="ColonColonCompletionItem", rules=["attrs"]),
        Raw(path="contracts/ccvariants.shim.rs"),
        Adt(file="crates/compiler/src/env.rs", kw="struct", name="EnumDef", rules=["attrs", ("strip", "tast::")]),
        Fn(file=Q, name="colon_colon_items_for_namespace", rename="cc_enum_variants", attrs="#[verifier::loop_isolation(false)]",
           cut_from=re.compile(r"if let Some\(enum_def\) = genv\s*\.enums\(\)\s*\.get\(&tast::TastIdent\(namespace\.to_string\(\)\)\)\s*\{"), cut_inside=True,
           cut_before="items.extend(colon_colon_inherent_methods(", cut_tail="",
           sig="fn cc_enum_variants(enum_def: &EnumDef, namespace: &str, items: &mut Vec<ColonColonCompletionItem>)",
           pre_rewrites=[(re.compile(r"for \((\w+), (\w+)\) in &enum_def\.variants \{"), r"for __vp in &enum_def.variants { let (\1, \2) = (&__vp.0, &__vp.1);", 1),
                         (re.compile(r"let payload_str = payload\s*\.iter\(\)\s*\.map\(\|ty\| ty\.to_pretty\(80\)\)\s*\.collect::<Vec<_>>\(\)\s*\.join\(\", \"\);"), "let payload_str = payload_text(payload);", "*"),
                         ("namespace.to_string()", "string_of(namespace)", "*"), (re.compile(r"\b(\w+)\.0\.clone\(\)"), r"string_clone(&\1.0)", "*"),
                         (re.compile(r"\bpayload\.is_empty\(\)"), "(payload.len() == 0)", "*")],
           obligation="every item added names a variant the enum has",
           contract="ensures variants_offered(enum_def.variants@, old(items)@, final(items)@),",
           loop_fn=lambda k, header, kw: (lambda mt: (f"invariant {mt.group(1)} <= enum_def.variants.len(), items@.len() >= old(items)@.len(), items@.subrange(0, old(items)@.len() as int) =~= old(items)@,\n"
               f"  forall|i: int| old(items)@.len() <= i < items@.len() ==> is_variant(enum_def.variants@, (#[trigger] items@[i]).name@),\n decreases enum_def.variants.len() - {mt.group(1)},") if mt else None)(
               re.search(r"while\s+(__fk\d+)\s*<\s*enum_def\.variants\.len\(\)", header))),
        Fn(file=Q, name="colon_colon_items_for_namespace", rename="cc_trait_methods", attrs="#[verifier::loop_isolation(false)]", rules=["attrs", "fmtmsg", ("strip", "tast::"), "for_entries"],
           cut_from=re.compile(r"if let Some\(trait_def\) = genv\.trait_env\.trait_defs\.get\(namespace\) \{"), cut_inside=True, cut_before="@block-end", cut_tail="",
           sig="fn cc_trait_methods(trait_def: &TraitDef, namespace: &str, items: &mut Vec<ColonColonCompletionItem>)",
           pre_rewrites=[(re.compile(r"\b(\w+)\.clone\(\)"), r"string_clone(\1)", "*"), ("scheme.ty.to_pretty(80)", "scheme_text(scheme)", "*")],
           obligation="every item added for a trait names a method of the trait's definition",
           contract="ensures methods_offered(trait_def.methods@, old(items)@, final(items)@),",
           loop_fn=lambda k, header, kw: (lambda mt: (f"invariant {mt.group(1)} <= {mt.group(2)}.len(), items@.len() >= old(items)@.len(), items@.subrange(0, old(items)@.len() as int) =~= old(items)@,\n"
               f"  forall|i: int| 0 <= i < {mt.group(2)}@.len() ==> trait_def.methods@.contains_key((#[trigger] {mt.group(2)}@[i]).0@),\n"
               f"  forall|i: int| old(items)@.len() <= i < items@.len() ==> trait_def.methods@.contains_key((#[trigger] items@[i]).name@),\n decreases {mt.group(2)}.len() - {mt.group(1)},") if mt else None)(
               re.search(r"while\s+(__ek\d+)\s*<\s*(__es\d+)\.len\(\)", header))),
    ],
)
