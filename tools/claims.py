"""Per-property claim texts for MANIFEST.json (kept next to the registry)."""
TODO = "no contract unit built for this property yet in this round (see DESIGN.md §6 for the plan); not claimed until a unit verifies on the unchanged tree"
CLAIMS = {
    "C04": {"text": "Panic-freedom and termination, for all inputs, of the front-end functions under contract (Verus obligations at every index, arithmetic, assert!/unreachable!/unwrap site inside them, decreases on every loop). Fragment only: see level_note.",
            "note": "Covers only the functions listed in evidence.coverage.functions_under_contract; later passes (lower, typer, mono, Go backend) are not covered. Shims for logos/rowan/Diagnostics are assumed."},
    "C12": {"text": "For all token vectors / byte strings: the hand-written multi-line-string scanner bumps a valid byte count; (more units as they land).",
            "note": "logos' regex tokenisation and rowan's green tree are external and assumed to behave as their shim contracts say."},
}
CLAIMS["C12"] = {"text": "For all token vectors / byte strings: build_tree emits every token exactly once, in order, under a single root (given the parser invariant and a balanced event stream), the parser core AND every grammar function keep that invariant and the Advance accounting, file() returns only at end of input, Input's cursor/trivia functions meet their spec functions, the multi-line-string scanner bumps a valid byte count on a char boundary, token kinds share discriminants with syntax kinds. Unbounded Verus proofs on the real function text.",
                 "note": "logos' regex tokenisation and rowan's green tree are external (shim contracts listed in evidence.assumptions); the grammar functions between Parser core and build_tree are covered only as far as evidence.coverage.functions_under_contract lists them."}
CLAIMS["C09"] = {"text": "DCE clause only: dce::{expr,stmt}_has_side_effects over-approximate `may have an observable effect` (calls, go, stores, integer division, indexing) for all Go ASTs, so dead-code elimination never classifies an effectful or possibly failing expression as removable. Unbounded Verus proof on the extracted functions.",
                 "note": "Left-to-right naming in anf, short-circuit of && / ||, while re-evaluation and `go` are NOT decided (CPS over boxed closures and hash maps are outside Verus/Kani reach here; see DESIGN.md C09). Iterator combinators `any` / `as_ref().map().unwrap_or()` are expanded by generic rules with std semantics assumed."}
CLAIMS["C11"] = {"text": "Binding-power tables only: for all token kinds the infix/prefix/postfix/type-infix tables realise the documented grammar (operator set, precedence levels, left associativity, unary tighter than * /, call and field access tightest, -> right-associative). Verus lemmas over spec-mode twins of the real match bodies.",
                 "note": "The Pratt loop itself, postfix-call re-association in lower.rs and literal/escape fidelity are not decided."}

CLAIMS["C04"] = {"text": "Front end only, for ALL token vectors / byte strings (unbounded Verus proofs on the real function text): every grammar function of the parser (file.rs, expr.rs, pattern.rs, stmt.rs, path.rs), the parser core, Input, build_tree and the multi-line-string scanner terminate (decreases on every loop and every recursive cycle via a measure over remaining tokens and look-ahead fuel), never index out of range or overflow, and keep the parser invariant; artifact loaders return Err rather than accept unusable units.",
                 "note": "PARTIAL correctness w.r.t. the in-function `assert!(p.at(..))` / `unreachable!()` sites of the grammar functions: they are assumed to hold where they occur (their freedom from panics depends on exact fuel lower bounds and is NOT claimed; one such panic is known, DESIGN.md §5). Everything after the parser (lower, typer, mono, Go backend) is not covered. Shims for logos/rowan/Diagnostics are assumed."}
CLAIMS["C15"] = {"text": "For all artifact field values: the interface hash covers all six components (format_version, compiler_abi, package, exports, hir_interface, deps); InterfaceUnit::new stores it; InterfaceUnit::validate / CoreUnit::validate accept exactly / only usable units (current versions incl. the embedded interface's, unaltered hash, matching package and deps); load_interface_from_paths and read_core return Ok only for usable units of the requested package.",
                 "note": "serde_json∘sha256∘hex is one uninterpreted deterministic function of the serialised view (collision-freedom and serde field coverage assumed); the hash-comparison loop of link_cores (HashMap iteration inside a 100-line function) and CLI plumbing are not under contract."}

NOT_APPLICABLE = {
    "C01": "whole-pipeline semantic preservation needs formal semantics of goml and Go plus a simulation proof over six passes; no per-function contract within Verus/Kani reach expresses it (function-level pieces are decided under C06/C09/C10/C19)",
    "C14": "relational (2-safety) property between two whole compilation pipelines; no per-function contract carries it",
    "C18": "behaviour of generated goml code through the whole pipeline and of Go's fmt %q at run time; no verifier for Go here and derive::expand only builds AST",
    "C20": "crash-freedom of lower.rs + whole typer on erroneous HIR and relational agreement with the compiler; nothing function-sized carries it",
}
for _p in ["C02", "C03", "C05", "C06", "C07", "C08", "C10", "C13", "C16", "C17", "C19"]:
    NOT_APPLICABLE.setdefault(_p, TODO)
