"""Per-property claim texts for MANIFEST.json (kept next to the registry)."""
TODO = "no contract unit built for this property yet in this round (see DESIGN.md §6 for the plan); not claimed until a unit verifies on the unchanged tree"
CLAIMS = {
    "C04": {"text": "Panic-freedom and termination, for all inputs, of the front-end functions under contract (Verus obligations at every index, arithmetic, assert!/unreachable!/unwrap site inside them, decreases on every loop). Fragment only: see level_note.",
            "note": "Covers only the functions listed in evidence.coverage.functions_under_contract; later passes (lower, typer, mono, Go backend) are not covered. Shims for logos/rowan/Diagnostics are assumed."},
    "C12": {"text": "For all token vectors / byte strings: the hand-written multi-line-string scanner bumps a valid byte count; (more units as they land).",
            "note": "logos' regex tokenisation and rowan's green tree are external and assumed to behave as their shim contracts say."},
}
CLAIMS["C12"] = {"text": "For all token vectors / byte strings: build_tree emits every token exactly once, in order, under a single root (given the parser core's invariant), the parser core keeps that invariant and its Advance accounting, Input's cursor/trivia functions meet their spec functions, the multi-line-string scanner bumps a valid byte count on a char boundary, token kinds share discriminants with syntax kinds. Unbounded Verus proofs on the real function text.",
                 "note": "logos' regex tokenisation and rowan's green tree are external (shim contracts listed in evidence.assumptions); the grammar functions between Parser core and build_tree are covered only as far as evidence.coverage.functions_under_contract lists them."}
CLAIMS["C09"] = {"text": "DCE clause only: dce::{expr,stmt}_has_side_effects over-approximate `may have an observable effect` (calls, go, stores, integer division, indexing) for all Go ASTs, so dead-code elimination never classifies an effectful or possibly failing expression as removable. Unbounded Verus proof on the extracted functions.",
                 "note": "Left-to-right naming in anf, short-circuit of && / ||, while re-evaluation and `go` are NOT decided (CPS over boxed closures and hash maps are outside Verus/Kani reach here; see DESIGN.md C09). Iterator combinators `any` / `as_ref().map().unwrap_or()` are expanded by generic rules with std semantics assumed."}
CLAIMS["C11"] = {"text": "Binding-power tables only: for all token kinds the infix/prefix/postfix/type-infix tables realise the documented grammar (operator set, precedence levels, left associativity, unary tighter than * /, call and field access tightest, -> right-associative). Verus lemmas over spec-mode twins of the real match bodies.",
                 "note": "The Pratt loop itself, postfix-call re-association in lower.rs and literal/escape fidelity are not decided."}

NOT_APPLICABLE = {
    "C01": "whole-pipeline semantic preservation needs formal semantics of goml and Go plus a simulation proof over six passes; no per-function contract within Verus/Kani reach expresses it (function-level pieces are decided under C06/C09/C10/C19)",
    "C14": "relational (2-safety) property between two whole compilation pipelines; no per-function contract carries it",
    "C18": "behaviour of generated goml code through the whole pipeline and of Go's fmt %q at run time; no verifier for Go here and derive::expand only builds AST",
    "C20": "crash-freedom of lower.rs + whole typer on erroneous HIR and relational agreement with the compiler; nothing function-sized carries it",
}
for _p in ["C02", "C03", "C05", "C06", "C07", "C08", "C10", "C13", "C15", "C16", "C17", "C19"]:
    NOT_APPLICABLE.setdefault(_p, TODO)
