#!/bin/sh
# Apply every kept seeded change to /repo in turn, run the property's quick check, undo it. Prints one line per change.
# (never leaves /repo modified: `git checkout -- .` after each)
cd /repo || exit 2
if [ -n "$(git status --porcelain)" ]; then echo "/repo has local changes; refusing"; exit 2; fi
for d in /verif/seeded/*/; do
  n=$(basename "$d")
  prop=$(python3 -c "import json;print(json.load(open('$d/meta.json'))['breaks_property'])")
  if ! git apply "$d/patch.diff" 2>/dev/null; then echo "$n: patch does not apply"; continue; fi
  out=$(cd /verif && ./check "$prop" --no-evidence 2>&1); rc=$?
  git checkout -- .
  first=$(echo "$out" | grep -E "^(VIOLATION|UNDECIDED)" | head -1 | cut -c1-150)
  echo "$n: property=$prop exit=$rc  $first"
done
