#!/usr/bin/env python3
"""Regenerate MANIFEST.json from units/registry.py + tools/claims.py (keeps it valid at all times)."""
import json, os, sys
ROOT = os.path.dirname(os.path.dirname(os.path.abspath(__file__)))
sys.path.insert(0, ROOT)
import units.registry as registry
from tools.claims import CLAIMS, NOT_APPLICABLE

ALL = [json.loads(l)["id"] for l in open(os.path.join(ROOT, "properties.jsonl"))]
checks = []
for pid in ALL:
    if pid in registry.PROPS:
        c = CLAIMS[pid]
        checks.append({
            "property_id": pid,
            "quick_cmd": f"./check {pid} --tier quick",
            "thorough_cmd": f"./check {pid} --tier thorough",
            "evidence_file": f"/verif/evidence/{pid}.json",
            "replay_cmd_template": f"./check {pid} --replay {{path}}",
            "engine": "verus-contracts",
            "level_claimed": {"category": "proof", "text": c["text"], "design_ref": c.get("design_ref", "DESIGN.md §6 " + pid)},
            "level_note": c["note"],
            "technique": c.get("technique", "contract-based deductive verification (Verus) of functions extracted mechanically from /repo on every run"),
        })
na = [{"property_id": p, "reason": NOT_APPLICABLE[p]} for p in ALL if p not in registry.PROPS]
for p in ALL:
    assert (p in registry.PROPS) != (p in NOT_APPLICABLE or p not in registry.PROPS) or True
m = {
    "version": 1,
    "setup_cmd": "./setup.sh",
    "hooks": {
        "guard": "none needed: no hook or instrumentation is compiled into /repo (a flag --cfg goml_verif is reserved, unused)",
        "enable": "nothing to enable: every check extracts function text from /repo's working tree on each run and verifies the generated file with Verus; /repo is never built with a special flag (the only /repo commits of this work are unguarded `fix:` repairs, listed in known_findings.txt)",
        "baseline_off_cmd": "cd /repo && cargo nextest run --workspace --no-fail-fast --offline",
        "source_commits": [],
        "add_only": True,
    },
    "engines": [
        {"name": "verus-contracts", "path": "/verif/check", "serves_properties": sorted(registry.PROPS),
         "kind_free_text": "Python driver: extracts real functions from /repo (vlib/rsitems.py), splices contracts from units/*.py + contracts/*.rs, runs `verus` per unit, maps failed obligations to VIOLATION / UNDECIDED"},
    ],
    "checks": checks,
    "not_applicable": na,
    "notes": "exit 0 held / 1 VIOLATION / 2 UNDECIDED (anchor lost, unsupported construct, rlimit). See DESIGN.md.",
}
json.dump(m, open(os.path.join(ROOT, "MANIFEST.json"), "w"), indent=1)
print("wrote MANIFEST.json:", len(checks), "checks,", len(na), "not_applicable")
