#!/bin/sh
# usage: confirm2.sh TAG demo_test_file(relative to outdir/demo, optional)
t=$1; tf=$2
cd /tmp/mut-$t || exit 2
export CARGO_NET_OFFLINE=true
O=/tmp/mut-$t-out; log=$O/confirm.log; : > $log
git diff > $O/_cur.diff
cmp -s $O/_cur.diff $O/patch.diff && echo "worktree diff == patch.diff" >> $log || echo "worktree diff DIFFERS from patch.diff" >> $log
# remove any untracked test files, run the suite with the patch
for f in $(git status --porcelain | grep '^??' | grep 'tests/.*\.rs$' | awk '{print $2}'); do rm -f $f; done
cargo nextest run --workspace --no-fail-fast --offline > $O/_suite_with.txt 2>&1
grep -E "Summary" $O/_suite_with.txt >> $log
if [ -n "$tf" ]; then
  tn=$(basename $tf .rs)
  cp $O/demo/$tf crates/compiler/tests/$tn.rs
  cargo test -p compiler --offline --test $tn > $O/_demo_with.txt 2>&1; echo "WITH patch: demo $tn exit=$?" >> $log
  git apply -R $O/patch.diff || echo "REVERSE FAILED" >> $log
  cargo test -p compiler --offline --test $tn > $O/_demo_without.txt 2>&1; echo "WITHOUT patch: demo $tn exit=$?" >> $log
  git apply $O/patch.diff
  rm -f crates/compiler/tests/$tn.rs
fi
cat $log
