#!/usr/bin/env python3
"""Compare the Go text the compiler emits for every pipeline test program with the committed golden
`main.gom.go` (the maintainers' expectation).  Used to judge the blast radius of `fix:` commits; the Go
toolchain is absent offline, so the repository's own test_cases cannot do this.
usage: tools/golden.py [repo_dir]   (default /repo; uses <repo>/target/debug/compiler, builds it first)"""
import os, subprocess, sys, glob
repo = sys.argv[1] if len(sys.argv) > 1 else "/repo"
subprocess.run(["cargo", "build", "-q", "-p", "compiler", "--offline"], cwd=repo, check=True)
binp = os.path.join(repo, "target/debug/compiler")
bad = 0
n = 0
for d in sorted(glob.glob(os.path.join(repo, "crates/compiler/src/tests/pipeline/*/"))):
    src = os.path.join(d, "main.gom")
    gold = src + ".go"
    if not (os.path.exists(src) and os.path.exists(gold)):
        continue
    n += 1
    r = subprocess.run([binp, "run", "--dump-go", src], capture_output=True, text=True)
    out = r.stdout
    i = out.find("== Go ==\n")
    got = out[i + len("== Go ==\n"):] if i >= 0 else out
    exp = open(gold).read()
    if got.strip() != exp.strip():
        bad += 1
        print("DIFF", d)
        import difflib
        for l in list(difflib.unified_diff(exp.strip().splitlines(), got.strip().splitlines(), lineterm="", n=1))[:30]:
            print("   ", l)
print(f"{n} programs, {bad} differ from golden")
sys.exit(1 if bad else 0)
