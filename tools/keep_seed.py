#!/usr/bin/env python3
"""keep_seed.py <name> <agent-out-dir> <property> "<detected-by / result text>" "<what I ran>"
copies patch.diff + demo + meta.json into /verif/seeded/<name>/ and extends meta.json with my own confirmation."""
import json, os, shutil, sys
name, out, prop, result, ran = sys.argv[1:6]
dst = os.path.join("/verif/seeded", name)
os.makedirs(dst, exist_ok=True)
shutil.copy(os.path.join(out, "patch.diff"), os.path.join(dst, "patch.diff"))
if os.path.isdir(os.path.join(out, "demo")):
    shutil.copytree(os.path.join(out, "demo"), os.path.join(dst, "demo"), dirs_exist_ok=True)
meta = {}
mp = os.path.join(out, "meta.json")
if os.path.exists(mp):
    try:
        meta = json.load(open(mp))
    except Exception:
        meta = {"raw": open(mp).read()}
meta["breaks_property"] = prop
meta["confirmed_by_me"] = ran
meta["framework_result"] = result
json.dump(meta, open(os.path.join(dst, "meta.json"), "w"), indent=1)
print("kept", dst)
