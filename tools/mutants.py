"""Fixed list of edits for the mutation self-test (tools/mutest.py)."""
L = "crates/lexer/src/lib.rs"
MUTANTS = [
    # ---- U-MLS
    dict(name="mls-no-trim-check", prop="C12", units=["u_mls"], file=L, expect=1,
         old="consumed = line_start.saturating_sub(1);", new="consumed = line_start.saturating_sub(2);"),
    dict(name="mls-off-by-one-bump", prop="C12", units=["u_mls"], file=L, expect=1,
         old="        consumed = idx + 1;\n    }", new="        consumed = idx + 2;\n    }"),
    dict(name="mls-accept-single-line", prop="C12", units=["u_mls"], file=L, expect=1,
         old="    if lines < 2 {\n        return None;\n    }\n\n    lex.bump", new="    if lines < 1 {\n        return None;\n    }\n\n    lex.bump"),
    dict(name="mls-harmless-comment", prop="C12", units=["u_mls"], file=L, expect=0,
         old="// Keep the newline between string lines.", new="// keep newline"),
]
