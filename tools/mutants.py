"""Fixed list of edits for the mutation self-test (tools/mutest.py)."""
L = "crates/lexer/src/lib.rs"
P = "crates/parser/src/parser.rs"
I = "crates/parser/src/input.rs"
MUTANTS = [
    # ---- U-MLS
    dict(name="mls-no-trim-check", prop="C12", units=["u_mls"], file=L, expect=1,
         old="consumed = line_start.saturating_sub(1);", new="consumed = line_start.saturating_sub(2);"),
    dict(name="mls-off-by-one-bump", prop="C12", units=["u_mls"], file=L, expect=1,
         old="        consumed = idx + 1;\n    }", new="        consumed = idx + 2;\n    }"),
    dict(name="mls-accept-single-line", prop="C12", units=["u_mls"], file=L, expect=1,
         old="    if lines < 2 {\n        return None;\n    }\n\n    lex.bump", new="    if lines < 1 {\n        return None;\n    }\n\n    lex.bump"),
    dict(name="mls-harmless-comment", prop="C12", units=["u_mls"], file=L, expect=0,
         old="// Keep the newline between string lines.", new="// keep newline"),
    # ---- U-TREE
    dict(name="tree-always-start-node", prop="C12", units=["u_tree"], file=P, expect=1,
         old="if kind != MySyntaxKind::TombStone {", new="if kind != MySyntaxKind::ErrorTree {"),
    dict(name="tree-advance-skips-token", prop="C12", units=["u_tree"], file=P, expect=1,
         old="                        builder.token(token.kind.to_syntax_kind(), token.text);\n                        cursor += 1;\n                    }\n                }\n                Event::Error",
         new="                        cursor += 1;\n                    }\n                }\n                Event::Error"),
    dict(name="tree-trivia-break-flipped", prop="C12", units=["u_tree"], file=P, expect=1,
         old="if token.kind == T![eof] || !token.kind.is_trivia() {", new="if token.kind == T![eof] || token.kind.is_trivia() {"),
    dict(name="tree-chain-off-by-one", prop="C12", units=["u_tree"], file=P, expect=1,
         old="idx += fwd;", new="idx += fwd + 1;"),
    dict(name="tree-error-range-first-token", prop="C12", units=["u_tree"], file=P, expect=0,
         old=".or_else(|| tokens.last().map(|token| token.range));", new=".or_else(|| tokens.last().map(|token| token.range)); // eof"),
    dict(name="tree-kinds-forward-order", prop="C12", units=["u_tree"], file=P, expect=2,
         old="for kind in kinds.into_iter().rev() {", new="for kind in kinds.into_iter() {"),
    # ---- U-PCORE
    dict(name="pcore-advance-no-fuel-reset", prop="C04", units=["u_pcore"], file=P, expect=1,
         old="        self.fuel.set(256);\n        self.input.skip();", new="        self.input.skip();"),
    dict(name="pcore-peek-no-eof-on-stall", prop="C04", units=["u_pcore"], file=P, expect=1, count=2,
         old="            return T![eof];\n        }\n        self.fuel.set(self.fuel.get() - 1);", new="        }\n        self.fuel.set(self.fuel.get().saturating_sub(1));"),
    dict(name="pcore-precede-wrong-offset", prop="C12", units=["u_pcore"], file=P, expect=1,
         old="*forward_parent = Some(m.index - self.index)", new="*forward_parent = Some(m.index - self.index + 1)"),
    dict(name="pcore-advance-double-skip", prop="C12", units=["u_pcore"], file=P, expect=1,
         old="        self.input.skip();\n        self.stuck_reported.set(false);", new="        self.input.skip();\n        self.input.skip();\n        self.stuck_reported.set(false);"),
    # ---- U-INPUT
    dict(name="input-nth-counts-trivia", prop="C12", units=["u_input"], file=I, expect=1,
         old="            if !kind.is_trivia() {\n                if remaining == 0 {", new="            if true {\n                if remaining == 0 {"),
    dict(name="input-skip-past-end", prop="C04", units=["u_input"], file=I, expect=1,
         old="        if !self.eof() {\n            self.cursor += 1;", new="        if self.eof() {\n            self.cursor += 1;"),
]
