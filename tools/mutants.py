"""Fixed list of edits for the mutation self-test (tools/mutest.py)."""
L = "crates/lexer/src/lib.rs"
P = "crates/parser/src/parser.rs"
I = "crates/parser/src/input.rs"
MUTANTS = [
    # ---- U-MLS
    dict(name="mls-no-trim-check", prop="C12", units=["u_mls"], file=L, expect=1,
         old="consumed = line_start.saturating_sub(1);", new="consumed = line_start.saturating_sub(2);"),
    dict(name="mls-off-by-one-bump", prop="C12", units=["u_mls"], file=L, expect=1,
         old="        consumed = idx + 1;\n    }", new="        consumed = idx + 2;\n    }"),
    dict(name="mls-accept-single-line", prop="C12", units=["u_mls"], file=L, expect=1,
         old="    if lines < 2 {\n        return None;\n    }\n\n    lex.bump", new="    if lines < 1 {\n        return None;\n    }\n\n    lex.bump"),
    dict(name="mls-harmless-comment", prop="C12", units=["u_mls"], file=L, expect=0,
         old="// Keep the newline between string lines.", new="// keep newline"),
    # ---- U-TREE
    dict(name="tree-always-start-node", prop="C12", units=["u_tree"], file=P, expect=1,
         old="if kind != MySyntaxKind::TombStone {", new="if kind != MySyntaxKind::ErrorTree {"),
    dict(name="tree-advance-skips-token", prop="C12", units=["u_tree"], file=P, expect=1,
         old="                        builder.token(token.kind.to_syntax_kind(), token.text);\n                        cursor += 1;\n                    }\n                }\n                Event::Error",
         new="                        cursor += 1;\n                    }\n                }\n                Event::Error"),
    dict(name="tree-trivia-break-flipped", prop="C12", units=["u_tree"], file=P, expect=1,
         old="if token.kind == T![eof] || !token.kind.is_trivia() {", new="if token.kind == T![eof] || token.kind.is_trivia() {"),
    dict(name="tree-chain-off-by-one", prop="C12", units=["u_tree"], file=P, expect=1,
         old="idx += fwd;", new="idx += fwd + 1;"),
    dict(name="tree-error-range-first-token", prop="C12", units=["u_tree"], file=P, expect=0,
         old=".or_else(|| tokens.last().map(|token| token.range));", new=".or_else(|| tokens.last().map(|token| token.range)); // eof"),
    dict(name="tree-kinds-forward-order", prop="C12", units=["u_tree"], file=P, expect=2,
         old="for kind in kinds.into_iter().rev() {", new="for kind in kinds.into_iter() {"),
    # ---- U-PCORE
    dict(name="pcore-advance-no-fuel-reset", prop="C04", units=["u_pcore"], file=P, expect=1,
         old="        self.fuel.set(256);\n        self.input.skip();", new="        self.input.skip();"),
    dict(name="pcore-peek-no-eof-on-stall", prop="C04", units=["u_pcore"], file=P, expect=1, count=2,
         old="            return T![eof];\n        }\n        self.fuel.set(self.fuel.get() - 1);", new="        }\n        self.fuel.set(self.fuel.get().saturating_sub(1));"),
    dict(name="pcore-precede-wrong-offset", prop="C12", units=["u_pcore"], file=P, expect=1,
         old="*forward_parent = Some(m.index - self.index)", new="*forward_parent = Some(m.index - self.index + 1)"),
    dict(name="pcore-advance-double-skip", prop="C12", units=["u_pcore"], file=P, expect=1,
         old="        self.input.skip();\n        self.stuck_reported.set(false);", new="        self.input.skip();\n        self.input.skip();\n        self.stuck_reported.set(false);"),
    # ---- U-INPUT
    dict(name="input-nth-counts-trivia", prop="C12", units=["u_input"], file=I, expect=1,
         old="            if !kind.is_trivia() {\n                if remaining == 0 {", new="            if true {\n                if remaining == 0 {"),
    dict(name="input-skip-past-end", prop="C04", units=["u_input"], file=I, expect=1,
         old="        if !self.eof() {\n            self.cursor += 1;", new="        if self.eof() {\n            self.cursor += 1;"),
    # ---- U-GRAMMAR
    dict(name="gram-double-close", prop="C12", units=["u_grammar"], file="crates/parser/src/file.rs", expect=1,
         old="    p.close(m, MySyntaxKind::PACKAGE);", new="    p.close(m, MySyntaxKind::PACKAGE);\n    p.close(m, MySyntaxKind::PACKAGE);"),
    dict(name="gram-close-as-tombstone", prop="C12", units=["u_grammar"], file="crates/parser/src/file.rs", expect=1,
         old="    p.close(m, MySyntaxKind::IMPORT);", new="    p.close(m, MySyntaxKind::TombStone);"),
    dict(name="gram-variant-list-no-progress", prop="C04", units=["u_grammar"], file="crates/parser/src/file.rs", expect=1,
         old='p.advance_with_error("expected a variant");', new='p.error("expected a variant");'),
    dict(name="gram-file-loop-no-progress", prop="C04", units=["u_grammar"], file="crates/parser/src/file.rs", expect=1,
         old='p.advance_with_error("expected a function")\n', new='p.error("expected a function")\n'),
    dict(name="gram-file-stops-early", prop="C12", units=["u_grammar"], file="crates/parser/src/file.rs", expect=1,
         old="    while !p.eof() {\n        if p.at(T![#]) {", new="    while !p.at(T![eof]) {\n        if p.at(T![#]) {"),
    dict(name="gram-unclosed-marker-harmless", prop="C12", units=["u_grammar"], file="crates/parser/src/file.rs", expect=0,
         old="    p.close(m, MySyntaxKind::PACKAGE);", new="    let _ = m;"),
    dict(name="gram-message-text-harmless", prop="C04", units=["u_grammar"], file="crates/parser/src/file.rs", expect=0,
         old='"expected a package name"', new='"expected package name"'),
    dict(name="gram-block-loop-skips-advance", prop="C04", units=["u_grammar"], file="crates/parser/src/expr.rs", expect=1,
         old='p.advance_with_error("expected `,` or `|` after closure parameter");', new='p.error("expected `,` or `|` after closure parameter");'),
    # ---- U-LINK / U-ART
    dict(name="link-no-hash-compare", prop="C15", units=["u_link"], file="crates/compiler/src/pipeline/separate.rs", expect=1,
         old="            if &dep_unit.interface.interface_hash != expected_hash {", new="            if &dep_unit.interface.package != expected_hash {"),
    dict(name="link-missing-dep-skipped", prop="C15", units=["u_link"], file="crates/compiler/src/pipeline/separate.rs", expect=1,
         old="""            let Some(dep_unit) = by_name.get(dep) else {
                return Err(compile_error(format!(
                    "package {} depends on missing package {}",
                    pkg, dep
                )));
            };""", new="""            let Some(dep_unit) = by_name.get(dep) else {
                continue;
            };"""),
    dict(name="link-duplicate-core-last-wins", prop="C15", units=["u_link"], file="crates/compiler/src/pipeline/separate.rs", expect=1,
         old="        if by_name.contains_key(&core.package) {\n            return Err(", new="        if false {\n            return Err("),
    dict(name="art-hash-wrong-component", prop="C15", units=["u_art"], file="crates/compiler/src/artifact.rs", expect=1,
         old="            compiler_abi: self.compiler_abi,\n            package: &self.package,", new="            compiler_abi: self.format_version,\n            package: &self.package,"),
    dict(name="art-validate-skips-abi", prop="C15", units=["u_art"], file="crates/compiler/src/artifact.rs", expect=1,
         old="        self.format_version == FORMAT_VERSION\n            && self.compiler_abi == COMPILER_ABI\n            && self.validate_hash()", new="        self.format_version == FORMAT_VERSION\n            && self.validate_hash()"),
    dict(name="art-loader-skips-hash-check", prop="C15", units=["u_art"], file="crates/compiler/src/pipeline/separate.rs", expect=1,
         old="        if !unit.validate_hash() {", new="        if false && !unit.validate_hash() {"),
    # ---- U-MUNIFY
    dict(name="munify-drop-string-arm", prop="C07", units=["u_munify"], file="crates/compiler/src/mono.rs", expect=1,
         old="        | (Ty::TFloat64, Ty::TFloat64)\n        | (Ty::TString, Ty::TString) => Ok(()),", new="        | (Ty::TFloat64, Ty::TFloat64) => Ok(()),"),
    dict(name="munify-rebind-overwrites-undecided", prop="C07", units=["u_munify"], file="crates/compiler/src/mono.rs", expect=2,  # the edit sits on a site-rewrite anchor
        
         old="            if let Some(prev) = subst.get(name) {\n                if prev != a {", new="            if let Some(prev) = subst.get(name) {\n                subst.insert(name.clone(), a.clone());\n                if false {"),
    dict(name="munify-drop-vec-arm", prop="C07", units=["u_munify"], file="crates/compiler/src/mono.rs", expect=1,
         old="        (Ty::TVec { elem: le }, Ty::TVec { elem: re })\n        | (Ty::TRef { elem: le }, Ty::TRef { elem: re }) => unify(le, re, subst),", new="        (Ty::TRef { elem: le }, Ty::TRef { elem: re }) => unify(le, re, subst),"),
    # ---- U-DCEFX / U-CEFFECT / U-BP / U-KIND
    dict(name="dce-call-in-cast-pure", prop="C09", units=["u_dcefx"], file="crates/compiler/src/go/dce.rs", expect=1,
         old="        ast::Expr::Cast { expr, .. } => expr_has_side_effects(expr),", new="        ast::Expr::Cast { .. } => false,"),
    dict(name="dce-div-pure-again", prop="C09", units=["u_dcefx"], file="crates/compiler/src/go/dce.rs", expect=1,
         old="            op: ast::GoBinaryOp::Div,\n            ..\n        } => true,", new="            op: ast::GoBinaryOp::Div,\n            ..\n        } => false,"),
    dict(name="dce-go-stmt-pure", prop="C09", units=["u_dcefx"], file="crates/compiler/src/go/dce.rs", expect=1,
         old="        ast::Stmt::Go { call: _ } => true,", new="        ast::Stmt::Go { call: _ } => false,"),
    dict(name="ceffect-drop-go", prop="C09", units=["u_ceffect"], file="crates/compiler/src/go/compile.rs", expect=1,
         old="            vec![compile_go(goenv, closure)]", new="            { let _ = closure; Vec::new() }"),
    dict(name="bp-eq-binds-like-compare", prop="C11", units=["u_bp"], file="crates/parser/src/expr.rs", expect=1,
         old="        T![==] | T![!=] => Some((9, 10)),", new="        T![==] | T![!=] => Some((11, 12)),"),
    dict(name="bp-plus-right-assoc", prop="C11", units=["u_bp"], file="crates/parser/src/expr.rs", expect=1,
         old="        T![+] | T![-] => Some((13, 14)),", new="        T![+] | T![-] => Some((14, 13)),"),
    dict(name="bp-renumber-harmless", prop="C11", units=["u_bp"], file="crates/parser/src/expr.rs", expect=0,
         old="        T![||] => Some((1, 2)),", new="        T![||] => Some((0, 2)),"),
    dict(name="kind-swap-syntax-kinds", prop="C12", units=["u_kind"], file="crates/parser/src/syntax.rs", expect=1,
         old="    Whitespace,\n    Comment,", new="    Comment,\n    Whitespace,"),
    # ---- total mode (entry assertions)
    dict(name="gram-assert-metered-again", prop="C04", units=["u_grammar"], file="crates/parser/src/file.rs", expect=1,
         old="fn func(p: &mut Parser) {\n    assert!(p.at_unmetered(T![fn]));", new="fn func(p: &mut Parser) {\n    assert!(p.at(T![fn]));"),
    dict(name="gram-assert-wrong-token", prop="C04", units=["u_grammar"], file="crates/parser/src/file.rs", expect=1,
         old="fn struct_def(p: &mut Parser) {\n    assert!(p.at_unmetered(T![struct]));", new="fn struct_def(p: &mut Parser) {\n    assert!(p.at_unmetered(T![enum]));"),
    dict(name="gram-caller-skips-check", prop="C04", units=["u_grammar"], file="crates/parser/src/file.rs", expect=1,
         old="    if p.at(T!['{']) {\n        variant_list(p);\n    }", new="    variant_list(p);"),
    dict(name="pattern-unreachable-back", prop="C04", units=["u_grammar"], file="crates/parser/src/pattern.rs", expect=1,
         old="""        _ => {
            let m = p.open();
            p.error("expected a pattern");
            p.close(m, MySyntaxKind::ErrorTree);
            return None;
        }
    })""", new="        _ => unreachable!(),\n    })"),
    # ---- U-INTLIT
    dict(name="intlit-int16-as-int8", prop="C10", units=["u_intlit"], file="crates/compiler/src/typer/check.rs", expect=1,
         old='                .parse_signed_integer(diagnostics, literal, "int16")\n                .map(|value| Prim::Int16 { value }),', new='                .parse_signed_integer(diagnostics, literal, "int16")\n                .map(|value| Prim::Int8 { value }),'),
    dict(name="intlit-silent-reject", prop="C10", units=["u_intlit"], file="crates/compiler/src/typer/check.rs", expect=1,
         old="""        if literal.starts_with('-') {
            diagnostics.push(Diagnostic::new(
                diagnostics::Stage::Typer,
                diagnostics::Severity::Error,
                format!("Integer literal {} does not fit in {}", literal, ty_name),
            ));
            return None;
        }""", new="""        if literal.starts_with('-') {
            return None;
        }"""),
    dict(name="intlit-uint8-via-signed-harmless", prop="C10", units=["u_intlit"], file="crates/compiler/src/typer/check.rs", expect=0,
         old='                .parse_unsigned_integer(diagnostics, literal, "uint8")', new='                .parse_signed_integer(diagnostics, literal, "uint8")'),
    # ---- U-PKGALLOW
    dict(name="pkgallow-everything", prop="C16", units=["u_pkgallow"], file="crates/compiler/src/typer/name_resolution.rs", expect=1,
         old='    package == current_package || package == "Builtin" || imports.contains(package)\n', new='    package == current_package || package == "Builtin" || !imports.contains(package)\n'),
    dict(name="pkgallow-method-drops-imports", prop="C16", units=["u_pkgallow"], file="crates/compiler/src/typer/name_resolution.rs", expect=1,
         old='        package == self.current_package || package == "Builtin" || self.imports.contains(package)', new='        package == self.current_package || package == "Builtin"'),
    # ---- patches: harmless refactorings and the kept seeded changes (seeded/<id>/patch.diff)
    dict(name="link-topo-order-harmless", prop="C15", units=["u_link"], patch="tools/patches/link_topo_order_harmless.diff", expect=0),
    dict(name="seed-C15-memo-1", prop="C15", units=["u_link"], patch="seeded/C15-link-memoized-dep-check/patch.diff", expect=1),
    dict(name="seed-C15-memo-2", prop="C15", units=["u_link"], patch="seeded/C15-link-memoized-dep-check-2/patch.diff", expect=1),
    dict(name="seed-C04-match-arm-hang", prop="C04", units=["u_grammar"], patch="seeded/C04-match-arm-recovery-hang/patch.diff", expect=1),
    dict(name="seed-C04-closure-param-hang", prop="C04", units=["u_grammar"], patch="seeded/C04-closure-param-recovery-hang/patch.diff", expect=1),
    dict(name="seed-C12-eof-fuel", prop="C12", units=["u_pcore"], patch="seeded/C12-eof-through-fuel/patch.diff", expect=1),
    dict(name="seed-C12-last-token-dup", prop="C12", units=["u_tree"], patch="seeded/C12-build-tree-last-token-dup/patch.diff", expect=1),
    dict(name="seed-C09-dyncall", prop="C09", units=["u_ceffect"], patch="seeded/C09-dyncall-effect-dropped/patch.diff", expect=1),
    dict(name="seed-C16-orphan-prefix", prop="C16", units=["u_orphan"], patch="seeded/C16-orphan-prefix-locality/patch.diff", expect=1),
    dict(name="seed-C07-collapsed-args", prop="C07", units=["u_tmono"], patch="seeded/C07-struct-instance-collapsed-args/patch.diff", expect=1),
    # ---- U-TMONO
    dict(name="tmono-drop-vec-arm", prop="C07", units=["u_tmono"], file="crates/compiler/src/mono.rs", expect=1,
         old="            Ty::TVec { elem } => Ty::TVec {\n                elem: Box::new(self.collapse_type_apps(elem)),\n            },\n", new=""),
    dict(name="tmono-ref-arm-dropped", prop="C07", units=["u_tmono"], file="crates/compiler/src/mono.rs", expect=1,
         old="            Ty::TRef { elem } => Ty::TRef {\n                elem: Box::new(self.collapse_type_apps(elem)),\n            },\n            _ => ty.clone(),", new="            _ => ty.clone(),"),
    # ---- harmless refactorings: must never raise an alarm (0 expected; 2 tolerated only where stated)
    dict(name="harmless-advance-reorder", prop="C04", units=["u_pcore"], file="crates/parser/src/parser.rs", expect=0,
         old="        self.fuel.set(256);\n        self.input.skip();\n        self.stuck_reported.set(false);", new="        self.stuck_reported.set(false);\n        self.fuel.set(256);\n        self.input.skip();"),
    dict(name="harmless-import-optional-semi", prop="C04", units=["u_grammar"], file="crates/parser/src/file.rs", expect=0,
         old='        p.advance_with_error("expected an import name");\n    }', new='        p.advance_with_error("expected an import name");\n    }\n    p.eat(T![;]);'),
    dict(name="harmless-dce-arm-order", prop="C09", units=["u_dcefx"], file="crates/compiler/src/go/dce.rs", expect=0,
         old="        ast::Expr::Call { .. } => true,\n", new="        ast::Expr::Call { func: _, .. } => true,\n"),
    dict(name="harmless-hashview-field-order", prop="C15", units=["u_art"], file="crates/compiler/src/artifact.rs", expect=0,
         old="            format_version: self.format_version,\n            compiler_abi: self.compiler_abi,\n            package: &self.package,", new="            package: &self.package,\n            compiler_abi: self.compiler_abi,\n            format_version: self.format_version,"),
    dict(name="harmless-mls-assign-form", prop="C12", units=["u_mls"], file="crates/lexer/src/lib.rs", expect=0,
         old="    // Include the newline separating the first and second lines.\n    consumed += 1;", new="    consumed = consumed + 1;"),
    dict(name="harmless-unify-err-text", prop="C07", units=["u_munify"], file="crates/compiler/src/mono.rs", expect=0,
         old='return Err("tuple length mismatch".to_string());', new='return Err("tuple arity mismatch".to_string());'),
    dict(name="harmless-link-message", prop="C15", units=["u_link"], file="crates/compiler/src/pipeline/separate.rs", expect=0,
         old='"duplicate core provided for package {}"', new='"duplicate core for package {}"'),
    dict(name="harmless-tree-local-rename-undecided", prop="C12", units=["u_tree"], file="crates/parser/src/parser.rs", expect=2, count=5,
         old="kinds", new="ks"),
    dict(name="harmless-input-nth-early-return", prop="C12", units=["u_input"], file="crates/parser/src/input.rs", expect=0,
         old="        let mut idx = self.cursor;\n        let mut remaining = n;", new="        let mut remaining = n;\n        let mut idx = self.cursor;"),
    dict(name="harmless-bp-add-comment", prop="C11", units=["u_bp"], file="crates/parser/src/expr.rs", expect=0,
         old="        T![.] => Some((23, 24)),", new="        // field access\n        T![.] => Some((23, 24)),"),
    dict(name="harmless-grammar-extra-peek", prop="C04", units=["u_grammar"], file="crates/parser/src/file.rs", expect=0,
         old="fn attribute_list(p: &mut Parser) -> MarkerClosed {\n    let m = p.open();", new="fn attribute_list(p: &mut Parser) -> MarkerClosed {\n    let m = p.open();\n    let _ = p.peek();"),
    # ---- U-CAPT
    dict(name="capt-let-not-bound", prop="C08", units=["u_capt"], file="crates/compiler/src/lift.rs", expect=1,
         old="            bound.push(name.clone());\n            collect_captured(body, bound, captured, scope);\n            bound.pop();", new="            collect_captured(body, bound, captured, scope);"),
    dict(name="capt-while-cond-skipped", prop="C08", units=["u_capt"], file="crates/compiler/src/lift.rs", expect=1,
         old="        LiftExpr::EWhile { cond, body, .. } => {\n            collect_captured(cond, bound, captured, scope);", new="        LiftExpr::EWhile { cond: _, body, .. } => {"),
    dict(name="capt-bound-not-popped", prop="C08", units=["u_capt"], file="crates/compiler/src/lift.rs", expect=1,
         old="            collect_captured(body, bound, captured, scope);\n            bound.pop();", new="            collect_captured(body, bound, captured, scope);"),
    dict(name="capt-match-default-skipped", prop="C08", units=["u_capt"], file="crates/compiler/src/lift.rs", expect=1,
         old="            if let Some(default) = default {\n                collect_captured(default, bound, captured, scope);\n            }", new="            let _ = default;"),
    dict(name="capt-harmless-order-of-branches", prop="C08", units=["u_capt"], file="crates/compiler/src/lift.rs", expect=0,
         old="            collect_captured(then_branch, bound, captured, scope);\n            collect_captured(else_branch, bound, captured, scope);", new="            collect_captured(else_branch, bound, captured, scope);\n            collect_captured(then_branch, bound, captured, scope);"),
    # ---- U-DEPREC
    dict(name="deprec-records-empty-hash", prop="C15", units=["u_deprec"], file="crates/compiler/src/pipeline/separate.rs", expect=1,
         old="        dep_hashes.insert(dep, unit.interface_hash.clone());", new="        dep_hashes.insert(dep, String::new());"),
    dict(name="deprec-env-from-other-unit", prop="C15", units=["u_deprec"], file="crates/compiler/src/pipeline/separate.rs", expect=1, count=2,
         old="        let unit = load_interface_from_paths(&dep, &opts.interface_paths)?;\n        deps_envs.insert(dep.clone(), unit.exports.to_genv());",
         new="        let unit = load_interface_from_paths(&dep, &opts.interface_paths)?;\n        let unit2 = load_interface_from_paths(&dep, &opts.interface_paths)?;\n        deps_envs.insert(dep.clone(), unit2.exports.to_genv());"),
    dict(name="deprec-hash-not-recorded", prop="C15", units=["u_deprec"], file="crates/compiler/src/pipeline/separate.rs", expect=1,
         old="        dep_hashes.insert(dep.clone(), unit.interface_hash.clone());\n        dep_units.push(unit);", new="        dep_units.push(unit);"),
    dict(name="seed-C09-dyncall-2", prop="C09", units=["u_ceffect"], patch="seeded/C09-dyncall-effect-dropped-2/patch.diff", expect=1),
    # ---- U-DISCOVER
    dict(name="discover-unsorted-extend", prop="C13", units=["u_discover"], file="crates/compiler/src/pipeline/packages.rs", expect=1,
         old="        imports.sort();\n        imports.reverse();\n        queue.extend(imports);", new="        queue.extend(imports);"),
    dict(name="discover-unsorted-seed", prop="C13", units=["u_discover"], file="crates/compiler/src/pipeline/packages.rs", expect=1,
         old="    queue.sort();\n    queue.reverse();\n", new=""),
    dict(name="discover-sort-without-reverse-harmless", prop="C13", units=["u_discover"], file="crates/compiler/src/pipeline/packages.rs", expect=0,
         old="    queue.sort();\n    queue.reverse();\n", new="    queue.sort();\n"),
    # ---- U-TOPO
    dict(name="topo-missing-import-ignored", prop="C16", units=["u_topo"], file="crates/compiler/src/pipeline/packages.rs", expect=1,
         old="        if !graph.packages.contains_key(&dep) {\n            return Err(", new="        if false {\n            return Err("),
    dict(name="topo-order-before-deps", prop="C16", units=["u_topo"], file="crates/compiler/src/pipeline/packages.rs", expect=1,
         old="    stack.pop();\n    temp.remove(name);\n    perm.insert(name.to_string());\n    order.push(name.to_string());\n    Ok(())", new="    stack.pop();\n    temp.remove(name);\n    Ok(())"),
    dict(name="topo-names-unsorted", prop="C13", units=["u_topo"], file="crates/compiler/src/pipeline/packages.rs", expect=1,
         old="    let mut names: Vec<String> = graph.packages.keys().cloned().collect();\n    names.sort();", new="    let mut names: Vec<String> = graph.packages.keys().cloned().collect();"),
    dict(name="topo-deps-unsorted", prop="C13", units=["u_topo"], file="crates/compiler/src/pipeline/packages.rs", expect=1,
         old="    let mut deps: Vec<String> = package.imports.iter().cloned().collect();\n    deps.sort();\n\n    for dep in deps {\n        if !graph", new="    let mut deps: Vec<String> = package.imports.iter().cloned().collect();\n\n    for dep in deps {\n        if !graph"),
    dict(name="topo-cycle-message-harmless", prop="C16", units=["u_topo"], file="crates/compiler/src/pipeline/packages.rs", expect=0,
         old='"package dependency cycle detected: {}"', new='"import cycle: {}"'),
]
