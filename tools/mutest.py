#!/usr/bin/env python3
"""Mutation self-test: apply one textual edit at a time to a scratch copy of /repo's
sources (outside /repo and /verif), run the unit's check against the copy
(VERIF_REPO=<copy>), and compare the exit code with the expectation.

  expect 1 : property-breaking edit  -> a named obligation must fail (VIOLATION)
  expect 0 : harmless edit           -> must stay green
  expect 2 : edit the extractor cannot follow -> UNDECIDED, never an alarm

usage: tools/mutest.py [name-substring ...]
"""
import os
import shutil
import subprocess
import sys
import tempfile

ROOT = os.path.dirname(os.path.dirname(os.path.abspath(__file__)))
sys.path.insert(0, ROOT)
from tools.mutants import MUTANTS  # noqa: E402


def main():
    sel = sys.argv[1:]
    scratch = tempfile.mkdtemp(prefix="goml-mut-")
    bad = 0
    try:
        dst = os.path.join(scratch, "repo")
        shutil.copytree("/repo/crates", os.path.join(dst, "crates"), ignore=shutil.ignore_patterns("target"))
        for top in ("Cargo.toml", "Cargo.lock"):          # the workspace manifest is part of what the units read (U-COREFLOAT)
            shutil.copy(os.path.join("/repo", top), os.path.join(dst, top))
        for m in MUTANTS:
            if sel and not any(s in m["name"] for s in sel):
                continue
            if m.get("patch"):
                # a unified diff (seeded change or hand-made harmless refactoring) applied with `git apply` semantics via patch(1)
                pf = os.path.join(ROOT, m["patch"])
                r0 = subprocess.run(["patch", "-p1", "-s", "-d", dst, "-i", pf], capture_output=True, text=True)
                if r0.returncode != 0:
                    print(f"SKIP {m['name']}: patch does not apply: {r0.stdout[-200:]}")
                    bad += 1
                    # patch(1) may have applied some hunks: restore every file the patch names from the tree under test
                    for pl in open(pf).read().splitlines():
                        if pl.startswith("+++ "):
                            rel = pl[4:].split("\t")[0].strip()
                            rel = rel[2:] if rel.startswith(("a/", "b/")) else rel
                            srcp = os.path.join("/repo", rel)
                            if os.path.exists(srcp):
                                shutil.copy(srcp, os.path.join(dst, rel))
                            for junk in (os.path.join(dst, rel) + ".rej", os.path.join(dst, rel) + ".orig"):
                                if os.path.exists(junk):
                                    os.remove(junk)
                    continue
                env = dict(os.environ, VERIF_REPO=dst, VERIF_NO_REPLAY_SEARCH="1")
                cmd = [os.path.join(ROOT, "check"), m["prop"], "--no-evidence"]
                for u in m.get("units", []):
                    cmd += ["--unit", u]
                r = subprocess.run(cmd, capture_output=True, text=True, env=env)
                subprocess.run(["patch", "-p1", "-R", "-s", "-d", dst, "-i", pf], capture_output=True, text=True)
                ok = r.returncode == m["expect"]
                lines = [l for l in r.stdout.splitlines() if l.startswith(("VIOLATION", "UNDECIDED", "KNOWN"))]
                print(f"{'ok  ' if ok else 'BAD '} {m['name']}: rc={r.returncode} expected={m['expect']}  {lines[:1]}")
                if not ok:
                    bad += 1
                    print(r.stdout[-1500:], r.stderr[-1500:])
                continue
            p = os.path.join(dst, m["file"])
            orig = open(p).read()
            if orig.count(m["old"]) != m.get("count", 1):
                print(f"SKIP {m['name']}: anchor occurs {orig.count(m['old'])}x")
                bad += 1
                continue
            mutated = orig.replace(m["old"], m["new"])
            for o2, n2 in m.get("also", []):        # further cooperating edits in the same file, applied to the already edited text
                if mutated.count(o2) != 1:
                    print(f"SKIP {m['name']}: second anchor occurs {mutated.count(o2)}x")
                    bad += 1
                    mutated = None
                    break
                mutated = mutated.replace(o2, n2)
            if mutated is None:
                continue
            open(p, "w").write(mutated)
            env = dict(os.environ, VERIF_REPO=dst, VERIF_NO_REPLAY_SEARCH="1")
            cmd = [os.path.join(ROOT, "check"), m["prop"], "--no-evidence"]
            for u in m.get("units", []):
                cmd += ["--unit", u]
            r = subprocess.run(cmd, capture_output=True, text=True, env=env)
            open(p, "w").write(orig)
            ok = r.returncode == m["expect"]
            lines = [l for l in r.stdout.splitlines() if l.startswith(("VIOLATION", "UNDECIDED", "KNOWN"))]
            print(f"{'ok  ' if ok else 'BAD '} {m['name']}: rc={r.returncode} expected={m['expect']}  {lines[:2]}")
            if not ok:
                bad += 1
                print(r.stdout[-1500:], r.stderr[-1500:])
    finally:
        shutil.rmtree(scratch, ignore_errors=True)
    print("mutation self-test:", "all as expected" if not bad else f"{bad} unexpected")
    return 1 if bad else 0


if __name__ == "__main__":
    sys.exit(main())
