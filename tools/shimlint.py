#!/usr/bin/env python3
"""Consistency lint for the hand-written contract files (contracts/*.rs), run by ./check before anything is verified.

Rule G1 (ghost state lives on opaque types): an `uninterp spec fn f(&self, ..)` declared on a TRANSPARENT shim struct is a function of that
struct's visible fields.  A trusted stub (`external_body`) whose postcondition talks about `final(..)...f(` / `old(..)...f(` — i.e. that uses
f as mutable ghost state — can then contradict itself (change f while the fields stay equal), and every obligation after a call to it
verifies vacuously.  Found in round 1 (dynvis.shim.rs: ty_at on TypeckResultsBuilder; a mutant that should have failed verified).
The lint reports such declarations; ./check answers UNDECIDED (exit 2) for every property while one exists."""
import glob, os, re, sys

ROOT = os.path.dirname(os.path.dirname(os.path.abspath(__file__)))


def lint():
    texts = {f: open(f).read() for f in sorted(glob.glob(os.path.join(ROOT, "contracts", "*.rs")))}
    ext, trans = set(), set()
    for f, t in texts.items():
        for m in re.finditer(r"((?:#\[[^\]]*\]\s*)*)pub (?:struct|enum) (\w+)", t):
            (ext if "external_body" in m.group(1) else trans).add(m.group(2))
    problems = []
    for f, t in texts.items():
        for m in re.finditer(r"impl(?:<[^>]*>)?\s+(?:\w+(?:<[^>]*>)?\s+for\s+)?(\w+)(?:<[^>]*>)?\s*\{", t):
            name = m.group(1)
            if name in ext or name not in trans:
                continue
            depth, j = 0, m.end() - 1
            while j < len(t):
                if t[j] == "{":
                    depth += 1
                elif t[j] == "}":
                    depth -= 1
                    if depth == 0:
                        break
                j += 1
            body = t[m.end() - 1:j]
            for g in re.findall(r"uninterp spec fn (\w+)\(&self", body):
                used_as_state = any(re.search(r"(?:final|old)\([^)]*\)[\w\.\(\)@]*\." + re.escape(g) + r"\(", tt) for tt in texts.values())
                if used_as_state:
                    problems.append(f"{os.path.basename(f)}: ghost function `{g}` is declared on the transparent shim type `{name}` and used as mutable "
                                    f"state (final(..)/old(..)) by a stub: declare it on an external_body type")
    return problems


if __name__ == "__main__":
    p = lint()
    for x in p:
        print("SHIMLINT:", x)
    sys.exit(1 if p else 0)
