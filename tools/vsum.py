#!/usr/bin/env python3
"""summarise verus errors of a generated unit by function: tools/vsum.py out/u_x.rs [--full fn]"""
import re, subprocess, sys, json
path = sys.argv[1]
r = subprocess.run(["verus", path, "--triggers-mode", "silent", "--multiple-errors", "10", "--output-json", "--time"] + sys.argv[2:], capture_output=True, text=True)
lines = open(path).read().splitlines()
# map line -> fn name
fnstart = []
for i, l in enumerate(lines):
    m = re.match(r"\s*(pub\s+)?(proof\s+|exec\s+)?fn\s+(\w+)", l)
    if m:
        fnstart.append((i + 1, m.group(3)))
def fn_of(ln):
    name = "?"
    for s, n in fnstart:
        if s <= ln:
            name = n
        else:
            break
    return name
errs = {}
cur = None
for l in r.stderr.splitlines():
    m = re.match(r"^error(\[\w+\])?: (.*)", l)
    if m:
        cur = m.group(2); continue
    m = re.match(r"^\s*--> .*?:(\d+):\d+", l)
    if m and cur:
        ln = int(m.group(1))
        errs.setdefault(fn_of(ln), []).append((cur, ln, lines[ln - 1].strip()[:110]))
        cur = None
for f, es in errs.items():
    if f == "verif_canary": continue
    print(f"== {f}")
    for e in es:
        print(f"   {e[0][:60]:60s} L{e[1]}: {e[2]}")
i = r.stdout.find("{")
try:
    js = json.loads(r.stdout[i:])
    print(js["verification-results"], "total ms", js["times-ms"]["total"])
    fb = []
    for mod in js["times-ms"]["smt"]["smt-run-module-times"]:
        fb += mod.get("function-breakdown", [])
    fb.sort(key=lambda x: -x["time-micros"])
    print("slowest:", [(x["function"].split("::")[-1], x["time-micros"] // 1000, x["success"]) for x in fb[:8]])
except Exception as ex:
    print("no json", ex, r.stderr[-500:])
