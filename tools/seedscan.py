#!/usr/bin/env python3
"""Apply every kept seeded change (seeded/<id>/patch-ported.diff, else patch.diff) to a private scratch copy of /repo's sources
(never to /repo), run the quick check of the property it breaks against the copy (VERIF_REPO), print one line per change.

usage: tools/seedscan.py [-j N] [name-substring ...]
"""
import concurrent.futures as cf
import json
import os
import shutil
import subprocess
import sys
import tempfile

ROOT = os.path.dirname(os.path.dirname(os.path.abspath(__file__)))


def one(name):
    d = os.path.join(ROOT, "seeded", name)
    prop = json.load(open(os.path.join(d, "meta.json")))["breaks_property"]
    pf = os.path.join(d, "patch-ported.diff")
    if not os.path.exists(pf):
        pf = os.path.join(d, "patch.diff")
    scratch = tempfile.mkdtemp(prefix="goml-seedscan-")
    try:
        dst = os.path.join(scratch, "repo")
        shutil.copytree("/repo/crates", os.path.join(dst, "crates"), ignore=shutil.ignore_patterns("target"))
        for top in ("Cargo.toml", "Cargo.lock"):
            shutil.copy(os.path.join("/repo", top), os.path.join(dst, top))
        r0 = subprocess.run(["patch", "-p1", "-s", "-d", dst, "-i", pf], capture_output=True, text=True)
        if r0.returncode != 0:
            return f"{name}: property={prop} patch does not apply"
        env = dict(os.environ, VERIF_REPO=dst, VERIF_NO_REPLAY_SEARCH="1", VERIF_JOBS="4")
        r = subprocess.run([os.path.join(ROOT, "check"), prop, "--no-evidence"], capture_output=True, text=True, env=env)
        lines = [l for l in r.stdout.splitlines() if l.startswith(("VIOLATION", "UNDECIDED"))]
        return f"{name}: property={prop} exit={r.returncode} {(lines[:1] or [''])[0][:170]}"
    finally:
        shutil.rmtree(scratch, ignore_errors=True)


def main():
    args = sys.argv[1:]
    jobs = 4
    if args[:1] == ["-j"]:
        jobs = int(args[1])
        args = args[2:]
    names = sorted(n for n in os.listdir(os.path.join(ROOT, "seeded")) if os.path.exists(os.path.join(ROOT, "seeded", n, "meta.json")))
    if args:
        names = [n for n in names if any(s in n for s in args)]
    with cf.ThreadPoolExecutor(max_workers=jobs) as ex:
        for line in ex.map(one, names):
            print(line, flush=True)


if __name__ == "__main__":
    main()
