// ---- shims / specification for U-RESERVED (C19: a user-chosen name cannot take the place of a builtin the compiler recognises BY NAME) ----
#[verifier::external_body] pub fn str_eq(a: &str, b: &str) -> (r: bool) ensures r == (a@ == b@) { unimplemented!() }
#[verifier::external_body] pub fn str_ne(a: &str, b: &str) -> (r: bool) ensures r == (a@ != b@) { unimplemented!() }
#[verifier::external_body] pub fn rt_msg() -> (r: String) { unimplemented!() }
// the builtins that the typer (`ref`) and the Go backend (compile.rs: array_get, ref, ref_get, ..) special-case by the callee's NAME
pub open spec fn name_keyed_builtin(n: Seq<char>) -> bool {
    n == "array_get"@ || n == "array_set"@ || n == "ref"@ || n == "ref_get"@ || n == "ref_set"@ || n == "vec_new"@ || n == "vec_push"@
    || n == "vec_get"@ || n == "vec_len"@
}
// the runtime function the match compiler calls BY NAME for a non-exhaustive match (compile_match.rs emits a call of `missing`)
pub open spec fn runtime_called_by_name(n: Seq<char>) -> bool { n == "missing"@ }
#[verifier::external_body] pub fn string_is(a: &String, lit: &str) -> (r: bool) ensures r == (a@ == lit@) { unimplemented!() }          // `a == "lit"`
// name resolution: only its error count matters here
#[verifier::external_body] pub struct NameResolution { _p: u64 }
impl NameResolution {
    pub uninterp spec fn errors(&self) -> nat;
    #[verifier::external_body] pub fn error(&mut self, msg: String) ensures final(self).errors() == old(self).errors() + 1 { unimplemented!() }
}
// full_def_name(package, name): the global name of a definition — the bare name in package Main (and Builtin), `Pkg::name` elsewhere
pub open spec fn full_name_of(package: Seq<char>, name: Seq<char>) -> Seq<char> {
    if package == "Builtin"@ || package == "Main"@ { name } else { package + "::"@ + name }
}
#[verifier::external_body] pub fn str_to_string(s: &str) -> (r: String) ensures r@ == s@ { unimplemented!() }                      // s.to_string()
#[verifier::external_body] pub fn join_colons(a: &str, b: &str) -> (r: String) ensures r@ == a@ + "::"@ + b@ { unimplemented!() }    // format!("{}::{}", a, b)
// none of the nine names contains a `:`, so a qualified name `Pkg::f` is never one of them
pub proof fn lemma_builtin_names_unqualified(p: Seq<char>, n: Seq<char>)
    ensures !name_keyed_builtin(p + "::"@ + n), !runtime_called_by_name(p + "::"@ + n),
{
    reveal_strlit("missing"); reveal_strlit("::"); reveal_strlit("array_get"); reveal_strlit("array_set"); reveal_strlit("ref"); reveal_strlit("ref_get"); reveal_strlit("ref_set");
    reveal_strlit("vec_new"); reveal_strlit("vec_push"); reveal_strlit("vec_get"); reveal_strlit("vec_len");
    let s = p + "::"@ + n;
    assert(s[p.len() as int] == ':');
    assert(s.len() >= p.len() + 2);
}
#[verifier::external_body] pub fn string_as_str(a: &String) -> (r: &str) ensures r@ == a@ { unimplemented!() }
