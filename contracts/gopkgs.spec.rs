// ---- shims / specification for U-GOPKGS (C02: the emitted Go file imports exactly the packages its code refers to) ----
#[verifier::external_body]
#[verifier::reject_recursive_types(K)]
pub struct HashSet<K> { _k: core::marker::PhantomData<K> }
impl HashSet<String> {
    pub uninterp spec fn view(&self) -> Set<Seq<char>>;
    #[verifier::external_body] pub fn new() -> (r: Self) ensures r@ == Set::<Seq<char>>::empty() { unimplemented!() }
    #[verifier::external_body] pub fn contains(&self, k: &str) -> (r: bool) ensures r == self@.contains(k@) { unimplemented!() }
    #[verifier::external_body] pub fn insert(&mut self, k: String) -> (r: bool) ensures final(self)@ == old(self)@.insert(k@) { unimplemented!() }
    #[verifier::external_body] pub fn is_empty(&self) -> (r: bool) ensures r == (self@ == Set::<Seq<char>>::empty()) { unimplemented!() }
}
#[verifier::external_body] pub fn str_to_string(s: &str) -> (r: String) ensures r@ == s@ { unimplemented!() }      // s.to_string()
// `name.split_once('.')`: the text before the first `.` of a qualified Go name `pkg.Name` (None when there is no `.`)
pub uninterp spec fn call_pkg(name: Seq<char>) -> Option<Seq<char>>;
#[verifier::external_body]
pub fn str_split_once_dot(name: &String) -> (r: Option<(&str, &str)>)
    ensures r is Some ==> call_pkg(name@) == Some((r->0).0@), r is None ==> call_pkg(name@) is None,
{ unimplemented!() }

// THE NOTION: package `p` is referred to inside the expression — some call anywhere in it (callee, arguments, operands, literals, nested
// blocks and their statements) has a callee variable spelled `p.Name`.  (The emitted code reaches a foreign package only through such calls; the one
// other place a package is named is the target of a type alias, see item_refs.)
pub open spec fn head_ref(f: Expr, p: Seq<char>) -> bool {
    match f { Expr::Var { name, .. } => call_pkg(name@) == Some(p), _ => false }
}
pub open spec fn expr_refs(e: Expr, p: Seq<char>) -> bool
    decreases e,
{
    match e {
        Expr::Call { func, args, .. } => head_ref(*func, p) || expr_refs(*func, p) || exists|i: int| 0 <= i < args.len() && expr_refs(#[trigger] args[i], p),
        Expr::FieldAccess { obj, .. } => expr_refs(*obj, p),
        Expr::Index { array, index, .. } => expr_refs(*array, p) || expr_refs(*index, p),
        Expr::Cast { expr, .. } => expr_refs(*expr, p),
        Expr::StructLiteral { fields, .. } => exists|i: int| 0 <= i < fields.len() && expr_refs((#[trigger] fields[i]).1, p),
        Expr::ArrayLiteral { elems, .. } => exists|i: int| 0 <= i < elems.len() && expr_refs(#[trigger] elems[i], p),
        Expr::Block { stmts, expr, .. } => stmts_refs(stmts@, p) || (expr is Some && expr_refs(*expr->0, p)),
        Expr::UnaryOp { expr, .. } => expr_refs(*expr, p),
        Expr::BinaryOp { lhs, rhs, .. } => expr_refs(*lhs, p) || expr_refs(*rhs, p),
        _ => false,
    }
}
pub open spec fn stmts_refs(ss: Seq<Stmt>, p: Seq<char>) -> bool
    decreases ss,
{
    exists|i: int| 0 <= i < ss.len() && stmt_refs(#[trigger] ss[i], p)
}
pub open spec fn stmt_refs(s: Stmt, p: Seq<char>) -> bool
    decreases s,
{
    match s {
        Stmt::Expr(e) => expr_refs(e, p),
        Stmt::Go { call } => expr_refs(call, p),
        Stmt::VarDecl { value, .. } => value is Some && expr_refs(value->0, p),
        Stmt::Assignment { value, .. } => expr_refs(value, p),
        Stmt::IndexAssign { array, index, value } => expr_refs(array, p) || expr_refs(index, p) || expr_refs(value, p),
        Stmt::PointerAssign { pointer, value } => expr_refs(pointer, p) || expr_refs(value, p),
        Stmt::FieldAssign { target, value } => expr_refs(target, p) || expr_refs(value, p),
        Stmt::Return { expr } => expr is Some && expr_refs(expr->0, p),
        Stmt::Loop { body } => stmts_refs(body.stmts@, p),
        Stmt::Break => false,
        Stmt::If { cond, then, else_ } => expr_refs(cond, p) || stmts_refs(then.stmts@, p) || (else_ is Some && stmts_refs(else_->0.stmts@, p)),
        Stmt::SwitchExpr { expr, cases, default } => expr_refs(expr, p)
            || (exists|i: int| 0 <= i < cases.len() && (expr_refs((#[trigger] cases[i]).0, p) || stmts_refs(cases[i].1.stmts@, p)))
            || (default is Some && stmts_refs(default->0.stmts@, p)),
        Stmt::SwitchType { expr, cases, default, .. } => expr_refs(expr, p)
            || (exists|i: int| 0 <= i < cases.len() && stmts_refs((#[trigger] cases[i]).1.stmts@, p))
            || (default is Some && stmts_refs(default->0.stmts@, p)),
    }
}
// the traversal's contract: `used` gains exactly the imported names the visited code refers to, and loses nothing
pub open spec fn grown(u0: Set<Seq<char>>, u1: Set<Seq<char>>, imports: Set<Seq<char>>, r: spec_fn(Seq<char>) -> bool) -> bool {
    forall|p: Seq<char>| #[trigger] u1.contains(p) <==> (u0.contains(p) || (imports.contains(p) && r(p)))
}
// ---- the file level ----
// the name an import spec binds (its alias, else the last path segment): import_spec_binding, a deterministic function of the spec (string code, trusted)
pub uninterp spec fn import_binding(s: ImportSpec) -> Seq<char>;
#[verifier::external_body] pub fn import_spec_binding(spec: &ImportSpec) -> (r: String) ensures r@ == import_binding(*spec) { unimplemented!() }
pub open spec fn item_refs(it: Item, p: Seq<char>) -> bool {
    match it {
        Item::Fn(f) => stmts_refs(f.body.stmts@, p),
        Item::Struct(s) => exists|i: int| 0 <= i < s.methods@.len() && stmts_refs((#[trigger] s.methods@[i]).body.stmts@, p),
        // `type Time = time.Time`: the alias's target names its package (fix cec87b0: an extern type whose functions are never called)
        Item::TypeAlias(a) => a.ty matches GoType::TName { name } && call_pkg(name@) == Some(p),
        _ => false,
    }
}
pub open spec fn items_refs(its: Seq<Item>, p: Seq<char>) -> bool { exists|i: int| 0 <= i < its.len() && item_refs(#[trigger] its[i], p) }
// (i, j) addresses the j-th spec of the import declaration that is the i-th item
pub open spec fn is_spec(its: Seq<Item>, i: int, j: int) -> bool {
    0 <= i < its.len() && (its[i] matches Item::Import(d) && 0 <= j < d.specs@.len())
}
pub open spec fn spec_at(its: Seq<Item>, i: int, j: int) -> ImportSpec { its[i]->Import_0.specs@[j] }
pub open spec fn has_spec(its: Seq<Item>, s: ImportSpec) -> bool { exists|i: int, j: int| #[trigger] is_spec(its, i, j) && spec_at(its, i, j) == s }
pub open spec fn binds(its: Seq<Item>, p: Seq<char>) -> bool { exists|i: int, j: int| #[trigger] is_spec(its, i, j) && import_binding(spec_at(its, i, j)) == p }
#[verifier::external_body]
pub fn vec_take<T>(v: &mut Vec<T>) -> (r: Vec<T>) ensures r@ == old(v)@, final(v)@ == Seq::<T>::empty() { unimplemented!() }   // rule vec_retain
pub proof fn lemma_items_refs_push(s: Seq<Item>, x: Item, p: Seq<char>)
    ensures items_refs(s.push(x), p) <==> (items_refs(s, p) || item_refs(x, p)),
{
    let t = s.push(x);
    if items_refs(s, p) { let i = choose|i: int| 0 <= i < s.len() && item_refs(#[trigger] s[i], p); assert(t[i] == s[i]); }
    if item_refs(x, p) { assert(t[s.len() as int] == x); }
    if items_refs(t, p) {
        let i = choose|i: int| 0 <= i < t.len() && item_refs(#[trigger] t[i], p);
        if i < s.len() { assert(t[i] == s[i]); }
    }
}
pub proof fn lemma_is_spec_push(s: Seq<Item>, x: Item, i: int, j: int)
    ensures is_spec(s.push(x), i, j) <==> (is_spec(s, i, j) || (i == s.len() && (x matches Item::Import(d) && 0 <= j < d.specs@.len()))),
            is_spec(s, i, j) ==> spec_at(s.push(x), i, j) == spec_at(s, i, j),
            i == s.len() && x is Import ==> spec_at(s.push(x), i, j) == x->Import_0.specs@[j],
{
    let t = s.push(x);
    if 0 <= i < s.len() { assert(t[i] == s[i]); }
    if i == s.len() { assert(t[i] == x); }
}
pub proof fn lemma_has_spec_push(s: Seq<Item>, x: Item, sp: ImportSpec)
    ensures has_spec(s, sp) ==> has_spec(s.push(x), sp),
{
    if has_spec(s, sp) {
        let (i, j) = choose|i: int, j: int| #[trigger] is_spec(s, i, j) && spec_at(s, i, j) == sp;
        lemma_is_spec_push(s, x, i, j);
        assert(is_spec(s.push(x), i, j));
    }
}
// the two earlier stages of eliminate_dead_vars are not specified here (U-DCEBLK covers the statement level): ANY file may come out of them
#[verifier::external_body] pub fn dce_items(toplevels: Vec<Item>) -> (r: Vec<Item>) { unimplemented!() }     // toplevels.into_iter().map(dce_item).collect()
#[verifier::external_body] pub fn prune_dead_functions(file: File) -> (r: File) { unimplemented!() }
