// ---- shims / specification for U-ENCODETY (C19 / C02: the spelling of a tuple type inside vtable, wrapper and helper names carries the tuple's ARITY) ----
#[verifier::external_body] pub struct TypeVar { _p: u32 }
// `typs.iter().map(encode_ty).collect::<Vec<_>>().join("_")`: the components' spellings joined with `_` — an uninterpreted function of the list
pub uninterp spec fn joined(ts: Seq<Ty>) -> Seq<char>;
#[verifier::external_body] pub fn join_encoded(typs: &Vec<Ty>) -> (r: String) ensures r@ == joined(typs@) { unimplemented!() }
// the spelling of a tuple type: a fixed text (tuple_pre, DERIVED), the NUMBER of components, `_`, the components
pub open spec fn tuple_code(n: int, rest: Seq<char>) -> Seq<char> { tuple_pre() + dec(n) + "_"@ + rest }
// two texts `<digits>_<rest>`: equal texts have equal digit parts
pub proof fn first_segment(d1: Seq<char>, x: Seq<char>, d2: Seq<char>, y: Seq<char>)
    requires d1 + seq!['_'] + x == d2 + seq!['_'] + y, !d1.contains('_'), !d2.contains('_'),
    ensures d1 == d2,
{
    let s = d1 + seq!['_'] + x;
    let t = d2 + seq!['_'] + y;
    if d1.len() < d2.len() {
        assert(s[d1.len() as int] == '_');
        assert(t[d1.len() as int] == d2[d1.len() as int]);
        assert(d2.contains(d2[d1.len() as int]));
    } else if d2.len() < d1.len() {
        assert(t[d2.len() as int] == '_');
        assert(s[d2.len() as int] == d1[d2.len() as int]);
        assert(d1.contains(d1[d2.len() as int]));
    } else {
        assert forall|i: int| 0 <= i < d1.len() implies d1[i] == d2[i] by { assert(s[i] == d1[i]); assert(t[i] == d2[i]); }
        assert(d1 =~= d2);
    }
}
// C19: tuple types of different arity never share a spelling, whatever their components are
pub proof fn tuple_codes_tell_arities_apart(n1: int, r1: Seq<char>, n2: int, r2: Seq<char>)
    requires tuple_code(n1, r1) == tuple_code(n2, r2), n1 >= 0, n2 >= 0,
    ensures n1 == n2,
{
    reveal_strlit("_");
    assert("_"@ =~= seq!['_']);
    let p = tuple_pre();
    let a = dec(n1) + seq!['_'] + r1;
    let b = dec(n2) + seq!['_'] + r2;
    assert(tuple_code(n1, r1) =~= p + a);
    assert(tuple_code(n2, r2) =~= p + b);
    assert(a =~= b) by {
        assert((p + a).len() == p.len() + a.len());
        assert((p + b).len() == p.len() + b.len());
        assert forall|i: int| 0 <= i < a.len() implies a[i] == b[i] by { assert((p + a)[p.len() + i] == a[i]); assert((p + b)[p.len() + i] == b[i]); }
    }
    dec_digits(n1); dec_digits(n2);
    first_segment(dec(n1), r1, dec(n2), r2);
    dec_injective(n1, n2);
}
