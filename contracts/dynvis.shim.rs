// ---- shims / specification for U-DYNVIS (C17: a value is coerced to `dyn Tr` only if an impl for its type is visible) ----
#[verifier::external_body] pub struct TypeVar { _p: u32 }
#[verifier::external_body] pub struct Prim { _p: u64 }
#[verifier::external_body] pub struct Constructor { _p: u64 }
#[verifier::external_body] pub struct UnaryOp { _p: u64 }
#[verifier::external_body] pub struct BinaryOp { _p: u64 }
#[verifier::external_body] pub struct ClosureParam { _p: u64 }
#[verifier::external_body] pub struct MySyntaxNodePtr { _p: u64 }
#[verifier::external_body] #[derive(Clone, Copy)] pub struct PackageId { _p: u32 }
#[derive(Clone, Copy)] pub struct ExprId { pub pkg: PackageId, pub idx: u32 }        // hir::ExprId

// env: only what the two functions read — the trait-impl table of the current package and of each imported package.
// trait_impls is an IndexMap<(String, Ty), ImplDef>; only key membership matters.
#[verifier::external_body] pub struct ImplMap { _p: u64 }
impl ImplMap {
    pub uninterp spec fn has(&self, trait_name: Seq<char>, for_ty: Ty) -> bool;
    #[verifier::external_body]
    pub fn contains_key(&self, key: &(String, Ty)) -> (r: bool) ensures r == self.has(key.0@, key.1) { unimplemented!() }
}
pub struct TraitEnv { pub trait_impls: ImplMap }
pub struct GlobalTypeEnv { pub trait_env: TraitEnv }
// HashMap<String, GlobalTypeEnv> of the imported packages' environments: the collection of its values
#[verifier::external_body] pub struct DepEnvs { _p: u64 }
impl DepEnvs {
    pub uninterp spec fn vals(&self) -> Seq<GlobalTypeEnv>;
    // `deps.values()` as a vector (any order; the callers only ask whether SOME environment has the impl)
    #[verifier::external_body]
    pub fn values_vec(&self) -> (r: Vec<&GlobalTypeEnv>)
        ensures r@.len() == self.vals().len(), forall|i: int| 0 <= i < r@.len() ==> *(#[trigger] r@[i]) == self.vals()[i],
    { unimplemented!() }
}
#[verifier::external_body] pub struct EnvRest { _p: u64 }       // everything else PackageTypeEnv holds (package name, current env storage, ..)
pub struct PackageTypeEnv { pub deps: DepEnvs, pub rest: EnvRest }
impl PackageTypeEnv {
    pub uninterp spec fn cur(&self) -> GlobalTypeEnv;
    #[verifier::external_body]
    pub fn current(&self) -> (r: &GlobalTypeEnv) ensures *r == self.cur() { unimplemented!() }
}
// typer::util::resolve_trait_name (name lookup through imports; not verified, no contract needed)
#[verifier::external_body]
pub fn resolve_trait_name<'a>(genv: &'a PackageTypeEnv, trait_name: &String) -> (r: Option<(String, &'a GlobalTypeEnv)>) { unimplemented!() }
#[verifier::external_body]
pub fn is_concrete_dyn_target(ty: &Ty) -> (r: bool) { unimplemented!() }
// typeck results: only the per-expression coercion lists (the TAST builder wraps the expression once PER recorded coercion)
// expr_tys is opaque: its contents are ghost state of an external type (a ghost function of a TRANSPARENT struct would be a function of its
// visible fields, and a stub that changes it while leaving those fields alone would be contradictory)
#[verifier::external_body] pub struct ExprTys { _p: u64 }
impl ExprTys { pub uninterp spec fn at(&self, e: ExprId) -> Ty; }
pub struct TypeckResults { pub coercions: Vec<Vec<Coercion>>, pub expr_tys: ExprTys }
pub struct TypeckResultsBuilder { pub results: TypeckResults }
// representation invariant: an expression carries at most one coercion (a value is wrapped into a dyn object at most once)
pub open spec fn coercions_wf(r: TypeckResultsBuilder) -> bool {
    forall|i: int| 0 <= i < r.results.coercions@.len() ==> (#[trigger] r.results.coercions@[i])@.len() <= 1
}
// the Typer: only its results builder is touched by the function under contract
pub struct Typer { pub results: TypeckResultsBuilder }
// derived Clone: an identical copy (method form, so that auto-deref picks the same impl `.clone()` would)
pub trait VClone: Sized { fn vclone(&self) -> (r: Self) ensures r == *self; }
impl VClone for Ty { #[verifier::external_body] fn vclone(&self) -> (r: Self) { unimplemented!() } }
impl VClone for String { #[verifier::external_body] fn vclone(&self) -> (r: Self) { unimplemented!() } }
impl VClone for TastIdent { #[verifier::external_body] fn vclone(&self) -> (r: Self) { unimplemented!() } }
#[verifier::external_body]
pub fn str_to_string(s: &str) -> (r: String) ensures r@ == s@ { unimplemented!() }

// the type an expression carries (what tast::Expr::get_ty returns)
pub open spec fn expr_ty(e: Expr) -> Ty {
    match e {
        Expr::EVar { ty, .. } => ty, Expr::EPrim { ty, .. } => ty, Expr::EConstr { ty, .. } => ty, Expr::ETuple { ty, .. } => ty,
        Expr::EArray { ty, .. } => ty, Expr::EClosure { ty, .. } => ty, Expr::ELet { ty, .. } => ty, Expr::EBlock { ty, .. } => ty,
        Expr::EMatch { ty, .. } => ty, Expr::EIf { ty, .. } => ty, Expr::EWhile { ty, .. } => ty, Expr::EGo { ty, .. } => ty,
        Expr::ECall { ty, .. } => ty, Expr::EUnary { ty, .. } => ty, Expr::EProj { ty, .. } => ty, Expr::EField { ty, .. } => ty,
        Expr::EBinary { ty, .. } => ty, Expr::ETraitMethod { ty, .. } => ty, Expr::EDynTraitMethod { ty, .. } => ty,
        Expr::EInherentMethod { ty, .. } => ty, Expr::EToDyn { ty, .. } => ty,
    }
}
// an `impl trait_name for for_ty` is visible from the package being checked: it is in the package itself or in an imported one
pub open spec fn visible(genv: PackageTypeEnv, trait_name: Seq<char>, for_ty: Ty) -> bool {
    genv.cur().trait_env.trait_impls.has(trait_name, for_ty)
    || exists|i: int| 0 <= i < genv.deps.vals().len() && (#[trigger] genv.deps.vals()[i]).trait_env.trait_impls.has(trait_name, for_ty)
}

// ---- the tail of Typer::check_expr: what the typing table records for an expression that is coerced to dyn (C17 / C04) ----
impl TypeckResultsBuilder {
    // the type recorded for expression e (TypeckResults::expr_tys); the TAST builder rebuilds e AT this type and then applies the
    // recorded coercions around it
    pub open spec fn ty_at(&self, e: ExprId) -> Ty { self.results.expr_tys.at(e) }
    #[verifier::external_body]
    pub fn record_expr_ty(&mut self, e: ExprId, ty: Ty)
        ensures final(self).ty_at(e) == ty, final(self).results.coercions == old(self).results.coercions,
    { unimplemented!() }
}
#[verifier::external_body] pub struct Constraint { _p: u64 }
#[verifier::external_body] pub fn constraint_type_equal(a: Ty, b: Ty) -> (r: Constraint) { unimplemented!() }     // Constraint::TypeEqual(a, b)
impl Typer {
    #[verifier::external_body] pub fn push_constraint(&mut self, c: Constraint) ensures final(self).results == old(self).results { unimplemented!() }     // the constraint list is not part of the shim
    // record_expr_result: the expression's own type (plus operator resolutions etc., not modelled)
    #[verifier::external_body]
    pub fn record_expr_result(&mut self, e: ExprId, expr: &Expr)
        ensures final(self).results.ty_at(e) == expr_ty(*expr), final(self).results.results.coercions == old(self).results.results.coercions,
    { unimplemented!() }
}
// C17 "the value is coerced once, with ITS OWN type": when check_expr returns the wrapped value EToDyn { expr: inner, .. }, the table entry
// of the expression is the type of `inner` — not the dyn type (the builder would rebuild the constructor / call / literal at type `dyn Tr`
// and the backend panics on it or emits a struct literal of the dyn struct)
pub open spec fn table_type_ok(r: Expr, recorded: Ty) -> bool {
    match r {
        Expr::EToDyn { expr: inner, .. } => recorded == expr_ty(*inner),
        _ => recorded == expr_ty(r),
    }
}

