// ---- shims / specification for U-TUNIFY (C03: the typer's unifier accepts two types only if, level by level, they can be the same type) ----
#[verifier::external_body] #[derive(Clone, Copy)] pub struct TypeVar { _p: u32 }
#[verifier::external_body] pub struct Diagnostics { _p: u64 }
impl Diagnostics { pub uninterp spec fn n(&self) -> nat; }
#[verifier::external_body] pub fn push_error(diagnostics: &mut Diagnostics, msg: String) ensures final(diagnostics).n() == old(diagnostics).n() + 1 { unimplemented!() }     // diagnostics.push(Diagnostic::new(Stage::Typer, Severity::Error, ..))
#[verifier::external_body] pub fn rt_msg() -> (r: String) { unimplemented!() }
pub const ARRAY_WILDCARD_LEN: usize = usize::MAX;      // tast::ARRAY_WILDCARD_LEN
pub trait VClone: Sized { fn vclone(&self) -> (r: Self) ensures r == *self; }
impl VClone for Ty { #[verifier::external_body] fn vclone(&self) -> (r: Self) { unimplemented!() } }
#[verifier::external_body] pub fn string_ne(a: &String, b: &String) -> (r: bool) ensures r == (a@ != b@) { unimplemented!() }
#[verifier::external_body] pub fn box_as_ref(b: &Box<Ty>) -> (r: &Ty) ensures *r == **b { unimplemented!() }
// typer::unify::occurs (U-OCCURS): a rejected binding is reported
#[verifier::external_body]
pub fn occurs(diagnostics: &mut Diagnostics, var: TypeVar, ty: &Ty) -> (r: bool)
    ensures final(diagnostics).n() >= old(diagnostics).n(), !r ==> final(diagnostics).n() > old(diagnostics).n(),
{ unimplemented!() }
// t_n is the normal form of t in the current unification table (Typer::norm: bound variables replaced by what they are bound to)
pub uninterp spec fn normed(t: Ty, t_n: Ty) -> bool;
#[verifier::external_body] pub struct Typer { _p: u64 }
impl Typer {
    // the pairs of types a recursive call of unify has accepted
    pub uninterp spec fn unified(&self) -> Set<(Ty, Ty)>;
    #[verifier::external_body] pub fn norm(&mut self, ty: &Ty) -> (r: Ty) ensures normed(*ty, r), final(self).unified() == old(self).unified() { unimplemented!() }
    #[verifier::external_body] pub fn bind_var_var(&mut self, a: TypeVar, b: TypeVar) -> (err: bool) ensures final(self).unified() == old(self).unified() { unimplemented!() }       // self.uni.unify_var_var(a, b).is_err()
    #[verifier::external_body] pub fn bind_var_value(&mut self, a: TypeVar, t: &Ty) -> (err: bool) ensures final(self).unified() == old(self).unified() { unimplemented!() }        // self.uni.unify_var_value(a, Some(t.clone())).is_err()
    // the recursive call (induction hypothesis): success is recorded, failure is reported
    #[verifier::external_body]
    pub fn unify_sub(&mut self, diagnostics: &mut Diagnostics, l: &Ty, r: &Ty) -> (ok: bool)
        ensures old(self).unified().subset_of(final(self).unified()), ok ==> final(self).unified().contains((*l, *r)),
                final(diagnostics).n() >= old(diagnostics).n(), !ok ==> final(diagnostics).n() > old(diagnostics).n(),
    { unimplemented!() }
}
pub open spec fn all_unified(a: Seq<Ty>, b: Seq<Ty>, u: Set<(Ty, Ty)>) -> bool {
    a.len() == b.len() && forall|i: int| 0 <= i < a.len() ==> u.contains((#[trigger] a[i], b[i]))
}
// one level of "can be the same type": the same head with the same names and the same number of components, every pair of corresponding components accepted by
// a recursive call; an inference variable goes with anything (it is bound); two array lengths agree or one is the wildcard of the array builtins
pub open spec fn level_ok(l: Ty, r: Ty, u: Set<(Ty, Ty)>) -> bool {
    match (l, r) {
        (Ty::TVar(_), _) => true,
        (_, Ty::TVar(_)) => true,
        (Ty::TUnit, Ty::TUnit) => true, (Ty::TBool, Ty::TBool) => true, (Ty::TString, Ty::TString) => true,
        (Ty::TInt8, Ty::TInt8) => true, (Ty::TInt16, Ty::TInt16) => true, (Ty::TInt32, Ty::TInt32) => true, (Ty::TInt64, Ty::TInt64) => true,
        (Ty::TUint8, Ty::TUint8) => true, (Ty::TUint16, Ty::TUint16) => true, (Ty::TUint32, Ty::TUint32) => true, (Ty::TUint64, Ty::TUint64) => true,
        (Ty::TFloat32, Ty::TFloat32) => true, (Ty::TFloat64, Ty::TFloat64) => true,
        (Ty::TTuple { typs: a }, Ty::TTuple { typs: b }) => all_unified(a@, b@, u),
        (Ty::TArray { len: l1, elem: e1 }, Ty::TArray { len: l2, elem: e2 }) => (l1 == l2 || l1 == ARRAY_WILDCARD_LEN || l2 == ARRAY_WILDCARD_LEN) && u.contains((*e1, *e2)),
        (Ty::TRef { elem: e1 }, Ty::TRef { elem: e2 }) => u.contains((*e1, *e2)),
        (Ty::TVec { elem: e1 }, Ty::TVec { elem: e2 }) => u.contains((*e1, *e2)),
        (Ty::TFunc { params: p1, ret_ty: r1 }, Ty::TFunc { params: p2, ret_ty: r2 }) => all_unified(p1@, p2@, u) && u.contains((*r1, *r2)),
        (Ty::TEnum { name: n1 }, Ty::TEnum { name: n2 }) => n1@ == n2@,
        (Ty::TStruct { name: n1 }, Ty::TStruct { name: n2 }) => n1@ == n2@,
        (Ty::TDyn { trait_name: t1 }, Ty::TDyn { trait_name: t2 }) => t1@ == t2@,
        (Ty::TApp { ty: t1, args: a1 }, Ty::TApp { ty: t2, args: a2 }) => u.contains((*t1, *t2)) && all_unified(a1@, a2@, u),
        (Ty::TParam { name: n1 }, Ty::TParam { name: n2 }) => n1@ == n2@,
        _ => false,
    }
}
