// ---- C07: what "the type t with the substitution s applied" means (shared by U-MUNIFY, U-MSUBST, U-MCALL) ----
// relational form (a spec function cannot build a Vec): r is t with every bound type parameter replaced by its binding
// (one step: bindings are not substituted into again, exactly like mono::subst_ty), everything else copied
pub open spec fn is_apply(t: Ty, s: Map<Seq<char>, Ty>, r: Ty) -> bool
    decreases t,
{
    match t {
        Ty::TParam { name } => if s.contains_key(name@) { r == s[name@] } else { r == t },
        Ty::TTuple { typs } => r is TTuple && r->TTuple_typs@.len() == typs@.len()
            && forall|i: int| 0 <= i < typs@.len() ==> is_apply(#[trigger] typs@[i], s, r->TTuple_typs@[i]),
        Ty::TApp { ty, args } => r is TApp && is_apply(*ty, s, *r->TApp_ty) && r->TApp_args@.len() == args@.len()
            && forall|i: int| 0 <= i < args@.len() ==> is_apply(#[trigger] args@[i], s, r->TApp_args@[i]),
        Ty::TArray { len, elem } => r is TArray && r->TArray_len == len && is_apply(*elem, s, *r->TArray_elem),
        Ty::TVec { elem } => r is TVec && is_apply(*elem, s, *r->TVec_elem),
        Ty::TRef { elem } => r is TRef && is_apply(*elem, s, *r->TRef_elem),
        Ty::TFunc { params, ret_ty } => r is TFunc && is_apply(*ret_ty, s, *r->TFunc_ret_ty) && r->TFunc_params@.len() == params@.len()
            && forall|i: int| 0 <= i < params@.len() ==> is_apply(#[trigger] params@[i], s, r->TFunc_params@[i]),
        Ty::TEnum { name } => r is TEnum && r->TEnum_name@ == name@,
        Ty::TStruct { name } => r is TStruct && r->TStruct_name@ == name@,
        Ty::TDyn { trait_name } => r is TDyn && r->TDyn_trait_name@ == trait_name@,
        _ => r == t,
    }
}
// every type parameter of t is bound by s
pub open spec fn covers(t: Ty, s: Map<Seq<char>, Ty>) -> bool
    decreases t,
{
    match t {
        Ty::TParam { name } => s.contains_key(name@),
        Ty::TTuple { typs } => forall|i: int| 0 <= i < typs@.len() ==> covers(#[trigger] typs@[i], s),
        Ty::TApp { ty, args } => covers(*ty, s) && forall|i: int| 0 <= i < args@.len() ==> covers(#[trigger] args@[i], s),
        Ty::TArray { len: _, elem } => covers(*elem, s),
        Ty::TVec { elem } => covers(*elem, s),
        Ty::TRef { elem } => covers(*elem, s),
        Ty::TFunc { params, ret_ty } => covers(*ret_ty, s) && forall|i: int| 0 <= i < params@.len() ==> covers(#[trigger] params@[i], s),
        _ => true,
    }
}
pub open spec fn extends(o: Map<Seq<char>, Ty>, n: Map<Seq<char>, Ty>) -> bool {
    forall|k: Seq<char>| #[trigger] o.contains_key(k) ==> n.contains_key(k) && n[k] == o[k]
}

pub broadcast proof fn lemma_extends_trans(a: Map<Seq<char>, Ty>, b: Map<Seq<char>, Ty>, c: Map<Seq<char>, Ty>)
    requires #[trigger] extends(a, b), #[trigger] extends(b, c),
    ensures extends(a, c),
{
    assert forall|k: Seq<char>| a.contains_key(k) implies c.contains_key(k) && c[k] == a[k] by {
        assert(b.contains_key(k) && b[k] == a[k]);
    }
}

// once all parameters of t are bound, later bindings do not change what t denotes
pub proof fn lemma_apply_stable(t: Ty, s1: Map<Seq<char>, Ty>, s2: Map<Seq<char>, Ty>, r: Ty)
    requires is_apply(t, s1, r), covers(t, s1), extends(s1, s2),
    ensures is_apply(t, s2, r), covers(t, s2),
    decreases t,
{
    match t {
        Ty::TParam { name } => { assert(s1.contains_key(name@)); }
        Ty::TTuple { typs } => {
            assert forall|i: int| 0 <= i < typs@.len() implies is_apply(#[trigger] typs@[i], s2, r->TTuple_typs@[i]) && covers(typs@[i], s2) by {
                lemma_apply_stable(typs@[i], s1, s2, r->TTuple_typs@[i]);
            }
        }
        Ty::TApp { ty, args } => {
            lemma_apply_stable(*ty, s1, s2, *r->TApp_ty);
            assert forall|i: int| 0 <= i < args@.len() implies is_apply(#[trigger] args@[i], s2, r->TApp_args@[i]) && covers(args@[i], s2) by {
                lemma_apply_stable(args@[i], s1, s2, r->TApp_args@[i]);
            }
        }
        Ty::TArray { len: _, elem } => { lemma_apply_stable(*elem, s1, s2, *r->TArray_elem); }
        Ty::TVec { elem } => { lemma_apply_stable(*elem, s1, s2, *r->TVec_elem); }
        Ty::TRef { elem } => { lemma_apply_stable(*elem, s1, s2, *r->TRef_elem); }
        Ty::TFunc { params, ret_ty } => {
            lemma_apply_stable(*ret_ty, s1, s2, *r->TFunc_ret_ty);
            assert forall|i: int| 0 <= i < params@.len() implies is_apply(#[trigger] params@[i], s2, r->TFunc_params@[i]) && covers(params@[i], s2) by {
                lemma_apply_stable(params@[i], s1, s2, r->TFunc_params@[i]);
            }
        }
        _ => {}
    }
}

// the same, as a broadcast rule (fires for every known is_apply fact and every known extension of its substitution)
pub broadcast proof fn lemma_apply_stable_b(t: Ty, s1: Map<Seq<char>, Ty>, s2: Map<Seq<char>, Ty>, r: Ty)
    requires #[trigger] is_apply(t, s1, r), covers(t, s1), #[trigger] extends(s1, s2),
    ensures is_apply(t, s2, r), covers(t, s2),
{
    lemma_apply_stable(t, s1, s2, r);
}

// ---- C03: after specialisation no type parameter remains ----
pub open spec fn no_tparam(t: Ty) -> bool
    decreases t,
{
    match t {
        Ty::TParam { .. } => false,
        Ty::TTuple { typs } => forall|i: int| 0 <= i < typs@.len() ==> no_tparam(#[trigger] typs@[i]),
        Ty::TApp { ty, args } => no_tparam(*ty) && forall|i: int| 0 <= i < args@.len() ==> no_tparam(#[trigger] args@[i]),
        Ty::TArray { len: _, elem } => no_tparam(*elem),
        Ty::TVec { elem } => no_tparam(*elem),
        Ty::TRef { elem } => no_tparam(*elem),
        Ty::TFunc { params, ret_ty } => no_tparam(*ret_ty) && forall|i: int| 0 <= i < params@.len() ==> no_tparam(#[trigger] params@[i]),
        _ => true,
    }
}
// every binding of the substitution is itself free of type parameters (what a call from monomorphic code provides)
pub open spec fn ground_subst(s: Map<Seq<char>, Ty>) -> bool { forall|k: Seq<char>| #[trigger] s.contains_key(k) ==> no_tparam(s[k]) }
// applying a ground substitution that binds every parameter of t leaves no parameter behind
pub proof fn lemma_apply_ground(t: Ty, s: Map<Seq<char>, Ty>, r: Ty)
    requires is_apply(t, s, r), covers(t, s), ground_subst(s),
    ensures no_tparam(r),
    decreases t,
{
    match t {
        Ty::TParam { name } => { assert(s.contains_key(name@)); }
        Ty::TTuple { typs } => {
            assert forall|i: int| 0 <= i < r->TTuple_typs@.len() implies no_tparam(#[trigger] r->TTuple_typs@[i]) by {
                lemma_apply_ground(typs@[i], s, r->TTuple_typs@[i]);
            }
        }
        Ty::TApp { ty, args } => {
            lemma_apply_ground(*ty, s, *r->TApp_ty);
            assert forall|i: int| 0 <= i < r->TApp_args@.len() implies no_tparam(#[trigger] r->TApp_args@[i]) by {
                lemma_apply_ground(args@[i], s, r->TApp_args@[i]);
            }
        }
        Ty::TArray { len: _, elem } => { lemma_apply_ground(*elem, s, *r->TArray_elem); }
        Ty::TVec { elem } => { lemma_apply_ground(*elem, s, *r->TVec_elem); }
        Ty::TRef { elem } => { lemma_apply_ground(*elem, s, *r->TRef_elem); }
        Ty::TFunc { params, ret_ty } => {
            lemma_apply_ground(*ret_ty, s, *r->TFunc_ret_ty);
            assert forall|i: int| 0 <= i < r->TFunc_params@.len() implies no_tparam(#[trigger] r->TFunc_params@[i]) by {
                lemma_apply_ground(params@[i], s, r->TFunc_params@[i]);
            }
        }
        _ => {}
    }
}
