// ---- specification for U-FMTVERB (C10: `*_to_string` renders integers in decimal and floats in a readable decimal form) ----
#[verifier::external_body] pub fn str_to_string(s: &str) -> (r: String) ensures r@ == s@ { unimplemented!() }
#[verifier::external_body] pub fn gotype_clone(t: &GoType) -> (r: GoType) ensures r == *t { unimplemented!() }
// the format verb of a runtime function `func f(x T) string { return fmt.Sprintf(VERB, x) }`
pub open spec fn sprintf_verb(f: Fn) -> Option<Seq<char>> {
    if f.body.stmts@.len() == 1 {
        match f.body.stmts@[0] {
            Stmt::Return { expr: Some(Expr::Call { func, args, .. }) } =>
                if args@.len() == 2 && (*func matches Expr::Var { name, .. } && name@ == "fmt.Sprintf"@) && (args@[1] matches Expr::Var { name, .. } && name@ == "x"@) {
                    match args@[0] { Expr::String { value, .. } => Some(value@), _ => None }
                } else { None },
            _ => None,
        }
    } else { None }
}
pub open spec fn param_ty(f: Fn) -> Option<GoType> { if f.params@.len() == 1 { Some(f.params@[0].1) } else { None } }
// Go: `%d` formats an integer in decimal; applied to a float it is a formatting ERROR (`%!d(float64=27.25)`)
pub open spec fn renders_decimal_int(f: Fn, t: GoType) -> bool { param_ty(f) == Some(t) && sprintf_verb(f) == Some("%d"@) }
pub open spec fn renders_float(f: Fn, t: GoType) -> bool { param_ty(f) == Some(t) && sprintf_verb(f) is Some && sprintf_verb(f)->0 != "%d"@ }
