// ---- shims / specification for U-PATLIT (C03 / C04: a literal pattern is checked against the scrutinee's type) ----
#[verifier::external_body] pub struct TypeVar { _p: u32 }
#[verifier::external_body] pub struct Diagnostics { _p: u64 }
pub enum Constraint { TypeEqual(Ty, Ty), Other(u8) }
// the typer: only its list of pending constraints matters here
#[verifier::external_body] pub struct Typer { _p: u64 }
impl Typer {
    pub uninterp spec fn constraints(&self) -> Seq<Constraint>;
    #[verifier::external_body] pub fn push_constraint(&mut self, c: Constraint) ensures final(self).constraints() == old(self).constraints().push(c) { unimplemented!() }
    // verified in U-INTLIT
    #[verifier::external_body]
    pub fn parse_integer_literal_with_ty(&mut self, diagnostics: &mut Diagnostics, literal: &str, ty: &Ty) -> (r: Option<Prim>)
        ensures final(self).constraints() == old(self).constraints(),
    { unimplemented!() }
}
pub trait VClone: Sized { fn vclone(&self) -> (r: Self) ensures r == *self; }
impl VClone for Ty { #[verifier::external_body] fn vclone(&self) -> (r: Self) { unimplemented!() } }
impl Prim {
    #[verifier::external_body] pub fn boolean(value: bool) -> (r: Prim) ensures r == (Prim::Bool { value }) { unimplemented!() }
    #[verifier::external_body] pub fn string(value: String) -> (r: Prim) ensures r == (Prim::String { value }) { unimplemented!() }
    #[verifier::external_body] pub fn zero_for_int_ty(ty: &Ty) -> (r: Prim) { unimplemented!() }
}
#[verifier::external_body] pub fn string_to_owned(s: &String) -> (r: String) ensures r@ == s@ { unimplemented!() }
pub uninterp spec fn int_target(t: Ty) -> Option<Ty>;
#[verifier::external_body] pub fn integer_literal_target(expected: &Ty) -> (r: Option<Ty>) ensures r == int_target(*expected) { unimplemented!() }
#[verifier::external_body] pub fn prim_or_zero(p: Option<Prim>, ty: &Ty) -> (r: Prim) { unimplemented!() }      // p.unwrap_or_else(|| Prim::zero_for_int_ty(ty))
#[verifier::external_body] pub fn ty_or_int32(o: Option<Ty>) -> (r: Ty) ensures r == (if o is Some { o->0 } else { Ty::TInt32 }) { unimplemented!() }
// checking a literal pattern of type `lit` against a scrutinee of type `ty` records exactly the equation lit = ty
pub open spec fn equates(old_c: Seq<Constraint>, new_c: Seq<Constraint>, lit: Ty, ty: Ty) -> bool {
    new_c == old_c.push(Constraint::TypeEqual(lit, ty))
}
