// ---- U-FLOATLIT (C10 / C11: a suffixed float literal keeps exactly its written digits) ----
// `s.strip_suffix(suf).unwrap_or(&s)` (std, ASSUMED): s without ONE trailing occurrence of suf, s itself when it does not end in suf
pub open spec fn without_suffix(s: Seq<char>, suf: Seq<char>) -> Seq<char> {
    if s.len() >= suf.len() && s.subrange(s.len() - suf.len(), s.len() as int) == suf { s.subrange(0, s.len() - suf.len()) } else { s }
}
#[verifier::external_body] pub fn str_without_suffix<'a>(s: &'a String, suf: &str) -> (r: &'a str) ensures r@ == without_suffix(s@, suf@) { unimplemented!() }
// `s.trim_end_matches(p)` with a string pattern (std, ASSUMED): every trailing repetition of p removed
pub open spec fn trail_str(s: Seq<char>, p: Seq<char>) -> Seq<char> decreases s.len() {
    if p.len() > 0 && s.len() >= p.len() && s.subrange(s.len() - p.len(), s.len() as int) == p { trail_str(s.subrange(0, s.len() - p.len()), p) } else { s }
}
#[verifier::external_body] pub fn str_trim_end_matches_str<'a>(s: &'a str, p: &str) -> (r: &'a str) ensures r@ == trail_str(s@, p@) { unimplemented!() }
