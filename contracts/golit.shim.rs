// ---- shims / specification for U-GOLIT (C10: a literal is printed at its exact value) ----
#[verifier::external_body] pub struct Ty { _p: u64 }            // crate::tast::Ty (only handed to tast_ty_to_go_type)
pub uninterp spec fn go_ty_of(t: Ty) -> GoType;
#[verifier::external_body] pub fn tast_ty_to_go_type(t: &Ty) -> (r: GoType) ensures r == go_ty_of(*t) { unimplemented!() }
// the decimal text of an integer (`<int>::to_string()`, std)
pub uninterp spec fn dec_text(v: int) -> Seq<char>;
pub trait DecString { spec fn as_int(&self) -> int; fn dec_string(&self) -> (r: String) ensures r@ == dec_text(self.as_int()); }
impl DecString for i8 { open spec fn as_int(&self) -> int { *self as int } #[verifier::external_body] fn dec_string(&self) -> (r: String) { unimplemented!() } }
impl DecString for i16 { open spec fn as_int(&self) -> int { *self as int } #[verifier::external_body] fn dec_string(&self) -> (r: String) { unimplemented!() } }
impl DecString for i32 { open spec fn as_int(&self) -> int { *self as int } #[verifier::external_body] fn dec_string(&self) -> (r: String) { unimplemented!() } }
impl DecString for i64 { open spec fn as_int(&self) -> int { *self as int } #[verifier::external_body] fn dec_string(&self) -> (r: String) { unimplemented!() } }
impl DecString for u8 { open spec fn as_int(&self) -> int { *self as int } #[verifier::external_body] fn dec_string(&self) -> (r: String) { unimplemented!() } }
impl DecString for u16 { open spec fn as_int(&self) -> int { *self as int } #[verifier::external_body] fn dec_string(&self) -> (r: String) { unimplemented!() } }
impl DecString for u32 { open spec fn as_int(&self) -> int { *self as int } #[verifier::external_body] fn dec_string(&self) -> (r: String) { unimplemented!() } }
impl DecString for u64 { open spec fn as_int(&self) -> int { *self as int } #[verifier::external_body] fn dec_string(&self) -> (r: String) { unimplemented!() } }
#[verifier::external_body] pub fn str_to_string(s: &str) -> (r: String) ensures r@ == s@ { unimplemented!() }
#[verifier::external_body] pub fn string_as_str(s: &String) -> (r: &str) ensures r@ == s@ { unimplemented!() }
// floats: printing them is outside what a contract can state (no specification of f64's Display); the float tail of the function is a stub
#[verifier::external_body] pub fn go_float_literal(value: &Prim, ty: &Ty) -> (r: Expr) { unimplemented!() }
// the Go literal for a primitive: integers as the decimal text of EXACTLY their value, booleans and strings unchanged, at the Go type of `ty`
pub open spec fn go_lit_ok(p: Prim, ty: Ty, r: Expr) -> bool {
    match p {
        Prim::Unit { .. } => r matches Expr::Unit { ty: t } && t == go_ty_of(ty),
        Prim::Bool { value } => r matches Expr::Bool { value: b, ty: t } && b == value && t == go_ty_of(ty),
        Prim::String { value } => r matches Expr::String { value: s, ty: t } && s@ == value@ && t == go_ty_of(ty),
        Prim::Int8 { value } => r matches Expr::Int { value: s, ty: t } && s@ == dec_text(value as int) && t == go_ty_of(ty),
        Prim::Int16 { value } => r matches Expr::Int { value: s, ty: t } && s@ == dec_text(value as int) && t == go_ty_of(ty),
        Prim::Int32 { value } => r matches Expr::Int { value: s, ty: t } && s@ == dec_text(value as int) && t == go_ty_of(ty),
        Prim::Int64 { value } => r matches Expr::Int { value: s, ty: t } && s@ == dec_text(value as int) && t == go_ty_of(ty),
        Prim::UInt8 { value } => r matches Expr::Int { value: s, ty: t } && s@ == dec_text(value as int) && t == go_ty_of(ty),
        Prim::UInt16 { value } => r matches Expr::Int { value: s, ty: t } && s@ == dec_text(value as int) && t == go_ty_of(ty),
        Prim::UInt32 { value } => r matches Expr::Int { value: s, ty: t } && s@ == dec_text(value as int) && t == go_ty_of(ty),
        Prim::UInt64 { value } => r matches Expr::Int { value: s, ty: t } && s@ == dec_text(value as int) && t == go_ty_of(ty),
        _ => true,
    }
}
