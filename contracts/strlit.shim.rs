// ---- shims / specification for U-STRLIT (C11: string literals denote exactly the characters written) ----
// rowan / cst side: opaque nodes and tokens; a token's text is what the lexer matched
#[verifier::external_body] #[derive(Clone, Copy)] pub struct TextRange { _p: u64 }
#[verifier::external_body] pub struct SyntaxNode { _p: u64 }
impl SyntaxNode { #[verifier::external_body] pub fn text_range(&self) -> (r: TextRange) { unimplemented!() } }
#[verifier::external_body] pub struct SyntaxToken { _p: u64 }
impl SyntaxToken {
    pub uninterp spec fn text(&self) -> Seq<char>;
    #[verifier::external_body] pub fn to_string(&self) -> (r: String) ensures r@ == self.text() { unimplemented!() }
    #[verifier::external_body] pub fn text_range(&self) -> (r: TextRange) { unimplemented!() }
}
#[verifier::external_body] pub struct CstNode { _p: u64 }       // cst::StrExpr / MultilineStrExpr / StringPat (only .syntax() is used)
impl CstNode {
    pub uninterp spec fn tok(&self) -> Option<SyntaxToken>;      // the literal's token, if the node has one
    #[verifier::external_body] pub fn syntax(&self) -> (r: &SyntaxNode) { unimplemented!() }
    #[verifier::external_body] pub fn value(&self) -> (r: Option<SyntaxToken>) ensures r == self.tok() { unimplemented!() }
}
impl ast::MySyntaxNodePtr { #[verifier::external_body] pub fn new(n: &SyntaxNode) -> (r: Self) { unimplemented!() } }
#[verifier::external_body] pub struct LowerCtx { _p: u64 }
impl LowerCtx { #[verifier::external_body] pub fn push_error(&mut self, range: Option<TextRange>, message: &str) { unimplemented!() } }
#[verifier::external_body] pub struct TrailingArg { _p: u64 }
#[verifier::external_body]
pub fn str_to_string(s: &str) -> (r: String) ensures r@ == s@ { unimplemented!() }                   // <str>::to_string

// ---- std str methods used by the lowering (assumed std semantics; first-order specs) ----
pub open spec fn lead1(s: Seq<char>, c: char) -> Seq<char>          // s without its leading c's
    decreases s.len(),
{ if s.len() > 0 && s[0] == c { lead1(s.subrange(1, s.len() as int), c) } else { s } }
pub open spec fn trail1(s: Seq<char>, c: char) -> Seq<char>         // s without its trailing c's
    decreases s.len(),
{ if s.len() > 0 && s[s.len() - 1] == c { trail1(s.subrange(0, s.len() - 1), c) } else { s } }
pub open spec fn lead2(s: Seq<char>, a: char, b: char) -> Seq<char> // s without its leading a's and b's
    decreases s.len(),
{ if s.len() > 0 && (s[0] == a || s[0] == b) { lead2(s.subrange(1, s.len() as int), a, b) } else { s } }
pub uninterp spec fn is_ws(c: char) -> bool;                      // char::is_whitespace
pub open spec fn lead_ws(s: Seq<char>) -> Seq<char>
    decreases s.len(),
{ if s.len() > 0 && is_ws(s[0]) { lead_ws(s.subrange(1, s.len() as int)) } else { s } }
pub open spec fn trail_ws(s: Seq<char>) -> Seq<char>
    decreases s.len(),
{ if s.len() > 0 && is_ws(s[s.len() - 1]) { trail_ws(s.subrange(0, s.len() - 1)) } else { s } }
pub uninterp spec fn lines_of(s: Seq<char>) -> Seq<Seq<char>>;    // str::lines
pub uninterp spec fn join_with(parts: Seq<Seq<char>>, sep: Seq<char>) -> Seq<char>;   // <[&str]>::join
pub open spec fn sviews(v: Seq<&str>) -> Seq<Seq<char>> { Seq::new(v.len(), |i: int| v[i]@) }

#[verifier::external_body]
pub fn str_strip_prefix_char<'a>(s: &'a str, c: char) -> (r: Option<&'a str>)
    ensures r matches Some(t) ==> s@.len() > 0 && s@[0] == c && t@ == s@.subrange(1, s@.len() as int),
            r is None ==> s@.len() == 0 || s@[0] != c,
{ unimplemented!() }
#[verifier::external_body]
pub fn str_strip_suffix_char<'a>(s: &'a str, c: char) -> (r: Option<&'a str>)
    ensures r matches Some(t) ==> s@.len() > 0 && s@[s@.len() - 1] == c && t@ == s@.subrange(0, s@.len() - 1),
            r is None ==> s@.len() == 0 || s@[s@.len() - 1] != c,
{ unimplemented!() }
#[verifier::external_body]
pub fn str_strip_prefix_str<'a>(s: &'a str, p: &str) -> (r: Option<&'a str>)
    ensures r matches Some(t) ==> s@.len() >= p@.len() && s@.subrange(0, p@.len() as int) == p@ && t@ == s@.subrange(p@.len() as int, s@.len() as int),
            r is None ==> !(s@.len() >= p@.len() && s@.subrange(0, p@.len() as int) == p@),
{ unimplemented!() }
#[verifier::external_body]
pub fn str_trim_matches_char<'a>(s: &'a str, c: char) -> (r: &'a str) ensures r@ == trail1(lead1(s@, c), c) { unimplemented!() }
#[verifier::external_body]
pub fn str_trim_start_matches_char<'a>(s: &'a str, c: char) -> (r: &'a str) ensures r@ == lead1(s@, c) { unimplemented!() }
#[verifier::external_body]
pub fn str_trim_end_matches_char<'a>(s: &'a str, c: char) -> (r: &'a str) ensures r@ == trail1(s@, c) { unimplemented!() }
#[verifier::external_body]
pub fn str_trim_start_matches_2<'a>(s: &'a str, a: char, b: char) -> (r: &'a str) ensures r@ == lead2(s@, a, b) { unimplemented!() }
#[verifier::external_body]
pub fn str_trim_end<'a>(s: &'a str) -> (r: &'a str) ensures r@ == trail_ws(s@) { unimplemented!() }
#[verifier::external_body]
pub fn str_trim_start<'a>(s: &'a str) -> (r: &'a str) ensures r@ == lead_ws(s@) { unimplemented!() }
#[verifier::external_body]
pub fn str_trim<'a>(s: &'a str) -> (r: &'a str) ensures r@ == trail_ws(lead_ws(s@)) { unimplemented!() }
#[verifier::external_body]
pub fn str_lines<'a>(s: &'a str) -> (r: Vec<&'a str>) ensures sviews(r@) == lines_of(s@) { unimplemented!() }      // s.lines().collect()
#[verifier::external_body]
pub fn strs_join(parts: &Vec<&str>, sep: &str) -> (r: String) ensures r@ == join_with(sviews(parts@), sep@) { unimplemented!() }

// ---- the specification ----
// a single-line string token as the lexer produces it: opening quote, content, closing quote
pub open spec fn quoted(t: Seq<char>) -> bool { t.len() >= 2 && t[0] == '"' && t[t.len() - 1] == '"' }
// its content: everything strictly between the two delimiting quotes (escapes are kept as written)
pub open spec fn content(t: Seq<char>) -> Seq<char> { t.subrange(1, t.len() - 1) }
// one line of a multi-line string token: indentation (spaces/tabs) is dropped, then the `\\` marker; the rest is the line's text
pub open spec fn ml_line_ok(l: Seq<char>) -> bool {
    let t = lead2(l, ' ', '\t');
    t.len() >= 2 && t[0] == '\\' && t[1] == '\\'
}
pub open spec fn ml_line(l: Seq<char>) -> Seq<char> {
    let t = lead2(l, ' ', '\t');
    t.subrange(2, t.len() as int)
}
pub open spec fn ml_lines(ls: Seq<Seq<char>>, n: int) -> Seq<Seq<char>>
    decreases n,
{ if n <= 0 || n > ls.len() { Seq::empty() } else { ml_lines(ls, n - 1).push(ml_line(ls[n - 1])) } }

pub proof fn lemma_prefix2(t: Seq<char>, p: Seq<char>, a: char, b: char)
    requires p.len() == 2, p[0] == a, p[1] == b,
    ensures (t.len() >= 2 && t.subrange(0, 2) == p) <==> (t.len() >= 2 && t[0] == a && t[1] == b),
{
    if t.len() >= 2 {
        if t[0] == a && t[1] == b { assert(t.subrange(0, 2) =~= p); }
        if t.subrange(0, 2) == p { assert(t.subrange(0, 2)[0] == t[0]); assert(t.subrange(0, 2)[1] == t[1]); }
    }
}
