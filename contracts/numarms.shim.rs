// ---- shims / specification for U-NUMARMS (C10 / C03: the numeric arms of Typer::check_expr hand their operands to the type checker) ----
#[verifier::external_body] pub struct TypeVar { _p: u32 }
#[verifier::external_body] pub struct Prim { _p: u64 }
#[verifier::external_body] pub struct Constructor { _p: u64 }
#[verifier::external_body] pub struct ClosureParam { _p: u64 }
#[verifier::external_body] pub struct MySyntaxNodePtr { _p: u64 }
#[verifier::external_body] #[derive(Clone, Copy)] pub struct ExprId { _p: u64 }        // hir::ExprId
#[verifier::external_body] pub struct PackageTypeEnv { _p: u64 }
#[verifier::external_body] pub struct LocalTypeEnv { _p: u64 }
#[verifier::external_body] pub struct Diagnostics { _p: u64 }
pub trait VClone: Sized { fn vclone(&self) -> (r: Self) ensures r == *self; }
impl VClone for Ty { #[verifier::external_body] fn vclone(&self) -> (r: Self) { unimplemented!() } }
// r is what the type checker made of expression e against the expected type (literals range-checked, the type equation recorded, ..)
pub uninterp spec fn checked_as(r: Expr, e: ExprId, expected: Ty) -> bool;
#[verifier::external_body] pub struct Typer { _p: u64 }
impl Typer {
    // the sub-expressions handed to check_expr so far, with the type each was checked against (in order)
    pub uninterp spec fn visited(&self) -> Seq<(ExprId, Ty)>;
    // the recursive call: the induction hypothesis for sub-expressions
    #[verifier::external_body]
    pub fn check_expr(&mut self, genv: &PackageTypeEnv, local_env: &mut LocalTypeEnv, diagnostics: &mut Diagnostics, e: ExprId, expected: &Ty) -> (r: Expr)
        ensures checked_as(r, e, *expected), final(self).visited() == old(self).visited().push((e, *expected)),
    { unimplemented!() }
}
