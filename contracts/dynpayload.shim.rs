// ---- shims / specification for U-DYNPAYLOAD (C17: a value coerced to `dyn Tr` is stored with the dynamic type the wrapper asserts) ----
#[verifier::external_body] pub struct TypeVar { _p: u32 }
#[verifier::external_body] pub struct GlobalGoEnv { _p: u64 }
#[verifier::external_body] pub struct Prim { _p: u64 }
pub enum ImmExpr { ImmVar { name: String, ty: Ty }, ImmPrim { value: Prim, ty: Ty }, ImmTag { index: usize, ty: Ty } }
pub uninterp spec fn go_of_imm(e: ImmExpr) -> Expr;
#[verifier::external_body] pub fn compile_imm(goenv: &GlobalGoEnv, e: &ImmExpr) -> (r: Expr) ensures r == go_of_imm(*e) { unimplemented!() }
#[verifier::external_body] pub fn tast_ty_to_go_type(t: &Ty) -> (r: GoType) { unimplemented!() }
#[verifier::external_body] pub fn gotype_clone(t: &GoType) -> (r: GoType) ensures r == *t { unimplemented!() }
#[verifier::external_body] pub fn str_to_string(s: &str) -> (r: String) ensures r@ == s@ { unimplemented!() }
// Go: an untyped numeric constant stored in an interface value gets the DEFAULT type (int / float64); the dyn wrapper asserts the type the value was
// checked at (`self.(int32)`), so a numeric literal must be converted explicitly: `T(5)`
pub open spec fn go_num_name(t: Ty) -> Option<Seq<char>> {
    match t {
        Ty::TInt8 => Some("int8"@), Ty::TInt16 => Some("int16"@), Ty::TInt32 => Some("int32"@), Ty::TInt64 => Some("int64"@),
        Ty::TUint8 => Some("uint8"@), Ty::TUint16 => Some("uint16"@), Ty::TUint32 => Some("uint32"@), Ty::TUint64 => Some("uint64"@),
        Ty::TFloat32 => Some("float32"@), Ty::TFloat64 => Some("float64"@),
        _ => None,
    }
}
pub open spec fn is_conversion(r: Expr, tname: Seq<char>, v: Expr) -> bool {
    r matches Expr::Call { func, args, .. } && args@.len() == 1 && args@[0] == v && (*func matches Expr::Var { name, .. } && name@ == tname)
}
pub open spec fn payload_ok(r: Expr, e: ImmExpr, for_ty: Ty) -> bool {
    match go_num_name(for_ty) {
        // a numeric LITERAL must be converted; a variable already has its type (converting it as well is harmless)
        Some(n) => is_conversion(r, n, go_of_imm(e)) || (!(e is ImmPrim) && r == go_of_imm(e)),
        None => r == go_of_imm(e),
    }
}
#[verifier::external_body] pub fn dyn_vtable_struct_go_name(trait_name: &str) -> (r: String) { unimplemented!() }
#[verifier::external_body] pub fn dyn_vtable_ctor_go_name(trait_name: &str, for_ty: &Ty) -> (r: String) { unimplemented!() }
pub struct TastIdent(pub String);
