// ---- shims / specification for U-OVERLOAD (C17 / C16: an overloaded call is resolved to THE one visible implementation for its receiver type) ----
#[verifier::external_body] pub struct TypeVar { _p: u32 }
// one package's environment: only the lookup the resolution makes
#[verifier::external_body] pub struct GlobalTypeEnv { _p: u64 }
impl GlobalTypeEnv {
    // the type scheme of method `m` of `impl tr for ty` in this environment, if it has one
    pub uninterp spec fn impl_of(&self, tr: Seq<char>, ty: Ty, m: Seq<char>) -> Option<Ty>;
    #[verifier::external_body]
    pub fn get_trait_impl(&self, trait_name: &TastIdent, type_name: &Ty, func_name: &TastIdent) -> (r: Option<Ty>)
        ensures r == self.impl_of(trait_name.0@, *type_name, func_name.0@),
    { unimplemented!() }
}
// HashMap<String, GlobalTypeEnv> of the imported packages' environments: the collection of its values (in SOME order)
#[verifier::external_body] pub struct DepEnvs { _p: u64 }
impl DepEnvs {
    pub uninterp spec fn vals(&self) -> Seq<GlobalTypeEnv>;
    #[verifier::external_body]
    pub fn values_vec(&self) -> (r: Vec<&GlobalTypeEnv>)
        ensures r@.len() == self.vals().len(), forall|i: int| 0 <= i < r@.len() ==> *(#[trigger] r@[i]) == self.vals()[i],
    { unimplemented!() }
}
#[verifier::external_body] pub struct EnvRest { _p: u64 }
pub struct PackageTypeEnv { pub deps: DepEnvs, pub rest: EnvRest }
impl PackageTypeEnv {
    pub uninterp spec fn cur(&self) -> GlobalTypeEnv;
    #[verifier::external_body]
    pub fn current(&self) -> (r: &GlobalTypeEnv) ensures *r == self.cur() { unimplemented!() }
}
// typer::util::resolve_type_name: the full name a (possibly package-qualified) name stands for
pub uninterp spec fn resolved_name(genv: PackageTypeEnv, name: Seq<char>) -> Seq<char>;
#[verifier::external_body]
pub fn resolve_type_name<'a>(genv: &'a PackageTypeEnv, name: &String) -> (r: (String, &'a GlobalTypeEnv))
    ensures r.0@ == resolved_name(*genv, name@),
{ unimplemented!() }
// the Typer: instantiation of a type scheme with fresh inference variables (U-INST proves what inst_ty does); t is AN instance of the scheme
#[verifier::external_body] pub struct Typer { _p: u64 }
pub uninterp spec fn is_inst(scheme: Ty, t: Ty) -> bool;
impl Typer {
    #[verifier::external_body]
    pub fn inst_ty(&mut self, ty: &Ty) -> (r: Ty) ensures is_inst(*ty, r) { unimplemented!() }
}
#[verifier::external_body]
pub fn clone_of<T>(x: &T) -> (r: T) ensures r == *x { unimplemented!() }
// `match v.as_slice() { [x] => .., [] => .., _ => .. }`: the three shapes of a slice pattern match
pub enum SliceShape<'a, T> { Zero, One(&'a T), Many(&'a T) }
#[verifier::external_body]
pub fn slice_shape<'a, T>(v: &'a Vec<T>) -> (r: SliceShape<'a, T>)
    ensures v@.len() == 0 ==> r is Zero, v@.len() == 1 ==> (r matches SliceShape::One(x) && *x == v@[0]), v@.len() > 1 ==> (r matches SliceShape::Many(x) && *x == v@[0]),
{ unimplemented!() }

// the implementations of method m of trait tr for type ty that the package being checked can see — its own and those of the packages it imports —
// counted, not listed: in which order they are looked at is the code's business
pub open spec fn own_count(genv: PackageTypeEnv, tr: Seq<char>, ty: Ty, m: Seq<char>) -> nat { if genv.cur().impl_of(tr, ty, m) is Some { 1 } else { 0 } }
pub open spec fn dep_count(vals: Seq<GlobalTypeEnv>, tr: Seq<char>, ty: Ty, m: Seq<char>, n: int) -> nat
    decreases n,
{
    if n <= 0 || n > vals.len() { 0 } else { dep_count(vals, tr, ty, m, n - 1) + (if vals[n - 1].impl_of(tr, ty, m) is Some { 1nat } else { 0nat }) }
}
pub open spec fn visible_count(genv: PackageTypeEnv, tr: Seq<char>, ty: Ty, m: Seq<char>) -> nat {
    own_count(genv, tr, ty, m) + dep_count(genv.deps.vals(), tr, ty, m, genv.deps.vals().len() as int)
}
pub open spec fn visible_impl(genv: PackageTypeEnv, tr: Seq<char>, ty: Ty, m: Seq<char>, t: Ty) -> bool {
    genv.cur().impl_of(tr, ty, m) == Some(t) || exists|i: int| 0 <= i < genv.deps.vals().len() && (#[trigger] genv.deps.vals()[i]).impl_of(tr, ty, m) == Some(t)
}
// what resolving `op` of trait `trait_name` for a concrete receiver type does
pub open spec fn overload_ok(genv: PackageTypeEnv, trait_name: TastIdent, op: TastIdent, self_ty: Ty, params: Seq<Ty>, ret: Ty,
                             d0: Seq<Option<TextRange>>, d1: Seq<Option<TextRange>>, p0: Seq<Constraint>, p1: Seq<Constraint>, changed: bool) -> bool {
    let tr = resolved_name(genv, trait_name.0@);
    if visible_count(genv, tr, self_ty, op.0@) == 1 {
        // exactly one: the call's function type is equated with an instance of THAT implementation's type; no diagnostic
        d1 == d0 && changed && p1.len() == p0.len() + 1 && p1.subrange(0, p0.len() as int) =~= p0
        && (p1[p0.len() as int] matches Constraint::TypeEqual(l, r)
            && (l matches Ty::TFunc { params: ps, ret_ty } && ps@ == params && *ret_ty == ret)
            && exists|t: Ty| #[trigger] visible_impl(genv, tr, self_ty, op.0@, t) && is_inst(t, r))
    } else {
        // none, or several (an ambiguity is never resolved silently): an error, and nothing is equated
        d1.len() == d0.len() + 1 && p1 == p0
    }
}
