// ---- shims / specification for U-COMPLMETH (C20: every method offered after `x.` / `T::` is one the compiler finds for that type) ----
#[verifier::external_body] pub struct TypeVar { _p: u32 }
pub struct FnScheme { pub ty: Ty }                                   // env::FnScheme: only the type is read
impl Ty {
    #[verifier::external_body] pub fn to_pretty(&self, width: usize) -> (r: String) { unimplemented!() }        // the rendered text is not specified
    // tast::Ty::constr_name (U-CONSTRNAME): the name of the enum / struct under any number of applications; Vec; Ref
    pub uninterp spec fn cname(&self) -> Option<Seq<char>>;
    #[verifier::external_body]
    pub fn constr_name(&self) -> (r: Option<String>)
        ensures r matches Some(c) ==> self.cname() == Some(c@), r is None ==> self.cname() is None,
    { unimplemented!() }
}
#[verifier::external_body] pub struct SchemeMap { _p: u64 }        // IndexMap<String, FnScheme>
impl SchemeMap {
    pub uninterp spec fn view(&self) -> Map<Seq<char>, FnScheme>;
    // `.iter()`: the entries in the map's (insertion) order — each is an entry of the map
    #[verifier::external_body]
    pub fn entries(&self) -> (r: Vec<(String, FnScheme)>)
        ensures forall|i: int| 0 <= i < r@.len() ==> self@.dom().contains((#[trigger] r@[i]).0@),
    { unimplemented!() }
}
pub struct ImplDef { pub methods: SchemeMap }
#[verifier::external_body] pub struct InherentTable { _p: u64 }     // IndexMap<InherentImplKey, ImplDef>, keyed by the type / by the TEXT of the constructor name
impl InherentTable {
    pub uninterp spec fn exact(&self, ty: Ty) -> Map<Seq<char>, FnScheme>;         // methods of the impl blocks written for exactly this type
    pub uninterp spec fn constr(&self, c: Seq<char>) -> Map<Seq<char>, FnScheme>;  // methods of the generic impl blocks of this type constructor
    #[verifier::external_body]
    pub fn get(&self, k: &InherentImplKey) -> (r: Option<&ImplDef>)
        ensures r matches Some(d) ==> (match *k { InherentImplKey::Exact(t) => d.methods@ == self.exact(t), InherentImplKey::Constr(c) => d.methods@ == self.constr(c@) }),
    { unimplemented!() }
}
pub struct TraitEnv { pub inherent_impls: InherentTable }
pub struct GlobalTypeEnv { pub trait_env: TraitEnv }
#[verifier::external_body] pub fn ty_clone(t: &Ty) -> (r: Ty) ensures r == *t { unimplemented!() }
#[verifier::external_body] pub fn string_clone(s: &String) -> (r: String) ensures r@ == s@ { unimplemented!() }

// env::TraitEnv::lookup_inherent_method finds a method n for a receiver of type ty: in an impl written for exactly that type, or in a generic impl of
// its type constructor. (The completion code asks for the constructor of an APPLIED type only; offering fewer names is not a violation.)
pub open spec fn method_exists(t: InherentTable, ty: Ty, n: Seq<char>) -> bool {
    t.exact(ty).dom().contains(n)
    || (ty matches Ty::TApp { ty: head, .. } && (head.cname() matches Some(c) && t.constr(c).dom().contains(n)))
}
