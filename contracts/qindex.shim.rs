// ---- shims / specification for U-QINDEX (C20: the query index maps a syntax node to the OUTERMOST expression lowered from it) ----
#[derive(Clone, Copy)] pub struct PackageId(pub u32);
#[derive(Clone, Copy)] pub struct ExprId { pub pkg: PackageId, pub idx: u32 }
#[derive(Clone, Copy)] pub struct PatId { pub pkg: PackageId, pub idx: u32 }
#[verifier::external_body] #[derive(Clone, Copy)] pub struct LocalId { _p: u64 }
#[verifier::external_body] #[derive(Clone, Copy)] pub struct MySyntaxNodePtr { _p: u64 }
#[verifier::external_body] pub struct HirTable { _p: u64 }
impl HirTable {
    pub uninterp spec fn pkg(&self) -> PackageId;
    pub uninterp spec fn n_exprs(&self) -> nat;
    pub uninterp spec fn n_pats(&self) -> nat;
    // the syntax node expression / pattern number i was lowered from (several expressions can share one: `t.1.0` is two projections on one float token;
    // `-f(x)` puts the call and its callee on one node): the lowering numbers inner expressions first
    pub uninterp spec fn eptr(&self, i: int) -> Option<MySyntaxNodePtr>;
    pub uninterp spec fn pptr(&self, i: int) -> Option<MySyntaxNodePtr>;
    #[verifier::external_body] pub fn package(&self) -> (r: PackageId) ensures r == self.pkg() { unimplemented!() }
    #[verifier::external_body] pub fn expr_count(&self) -> (r: usize) ensures r == self.n_exprs(), r <= u32::MAX { unimplemented!() }
    #[verifier::external_body] pub fn pat_count(&self) -> (r: usize) ensures r == self.n_pats(), r <= u32::MAX { unimplemented!() }
    #[verifier::external_body] pub fn expr_ptr(&self, id: ExprId) -> (r: Option<MySyntaxNodePtr>) ensures r == self.eptr(id.idx as int) { unimplemented!() }
    #[verifier::external_body] pub fn pat_ptr(&self, id: PatId) -> (r: Option<MySyntaxNodePtr>) ensures r == self.pptr(id.idx as int) { unimplemented!() }
}
#[verifier::external_body]
#[verifier::reject_recursive_types(V)]
pub struct PtrMap<V> { _v: core::marker::PhantomData<V> }                       // HashMap<MySyntaxNodePtr, V>
impl<V> PtrMap<V> {
    pub uninterp spec fn view(&self) -> Map<MySyntaxNodePtr, V>;
    #[verifier::external_body] pub fn new() -> (r: Self) ensures r@ == Map::<MySyntaxNodePtr, V>::empty() { unimplemented!() }
    #[verifier::external_body] pub fn insert(&mut self, k: MySyntaxNodePtr, v: V) -> (r: Option<V>) ensures final(self)@ == old(self)@.insert(k, v) { unimplemented!() }
    // `m.entry(k).or_insert(v);`: keeps what is there
    #[verifier::external_body] pub fn insert_if_absent(&mut self, k: MySyntaxNodePtr, v: V) ensures final(self)@ == (if old(self)@.contains_key(k) { old(self)@ } else { old(self)@.insert(k, v) }) { unimplemented!() }
}
// the LAST (outermost) expression among the first n that was lowered from node p
pub open spec fn last_expr(t: &HirTable, p: MySyntaxNodePtr, n: int, i: int) -> bool {
    0 <= i < n && t.eptr(i) == Some(p) && forall|j: int| i < j < n ==> t.eptr(j) != Some(p)
}
pub open spec fn last_pat(t: &HirTable, p: MySyntaxNodePtr, n: int, i: int) -> bool {
    0 <= i < n && t.pptr(i) == Some(p) && forall|j: int| i < j < n ==> t.pptr(j) != Some(p)
}
pub open spec fn expr_index_ok(m: Map<MySyntaxNodePtr, ExprId>, t: &HirTable, n: int) -> bool {
    (forall|p: MySyntaxNodePtr| #[trigger] m.contains_key(p) ==> m[p].pkg == t.pkg() && last_expr(t, p, n, m[p].idx as int))
    && (forall|i: int| 0 <= i < n && t.eptr(i) is Some ==> m.contains_key(#[trigger] t.eptr(i)->0))
}
pub open spec fn pat_index_ok(m: Map<MySyntaxNodePtr, PatId>, t: &HirTable, n: int) -> bool {
    (forall|p: MySyntaxNodePtr| #[trigger] m.contains_key(p) ==> m[p].pkg == t.pkg() && last_pat(t, p, n, m[p].idx as int))
    && (forall|i: int| 0 <= i < n && t.pptr(i) is Some ==> m.contains_key(#[trigger] t.pptr(i)->0))
}
#[verifier::external_body] pub struct HirResultsIndex { _p: u64 }
