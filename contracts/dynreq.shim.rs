// ---- shims / specification for U-DYNREQ (C17 / C02: every coercion to `dyn Tr` in the program gets its vtable constructor and wrappers) ----
#[verifier::external_body] pub struct TypeVar { _p: u32 }
#[verifier::external_body] pub struct Prim { _p: u64 }
#[verifier::external_body] pub struct Constructor { _p: u64 }
#[verifier::external_body] pub struct UnaryOp { _p: u64 }
#[verifier::external_body] pub struct BinaryOp { _p: u64 }
// IndexSet<String> / IndexSet<(String, Ty)>: mathematical sets (insertion order is not what this unit is about)
#[verifier::external_body] pub struct NameSet { _p: u64 }
impl NameSet {
    pub uninterp spec fn view(&self) -> Set<Seq<char>>;
    #[verifier::external_body] pub fn insert(&mut self, s: String) -> (r: bool) ensures final(self)@ == old(self)@.insert(s@) { unimplemented!() }
}
#[verifier::external_body] pub struct VtSet { _p: u64 }
impl VtSet {
    pub uninterp spec fn view(&self) -> Set<(Seq<char>, Ty)>;
    #[verifier::external_body] pub fn insert(&mut self, p: (String, Ty)) -> (r: bool) ensures final(self)@ == old(self)@.insert((p.0@, p.1)) { unimplemented!() }
}
pub struct DynRequirements { pub traits: NameSet, pub vtables: VtSet }
pub trait VClone: Sized { fn vclone(&self) -> (r: Self) ensures r == *self; }
impl VClone for Ty { #[verifier::external_body] fn vclone(&self) -> (r: Self) { unimplemented!() } }
impl VClone for String { #[verifier::external_body] fn vclone(&self) -> (r: Self) { unimplemented!() } }

// nothing already required is lost
pub open spec fn keeps(a: DynRequirements, b: DynRequirements) -> bool { a.vtables@.subset_of(b.vtables@) && a.traits@.subset_of(b.traits@) }
// the coercions `T -> dyn Tr` that occur in an expression, as pairs (Tr, T) — anywhere: let values and bodies, both branches of an if, condition and body of a
// while, every arm AND the default of a match
pub open spec fn todyn_c(e: CExpr) -> Set<(Seq<char>, Ty)>
    decreases e,
{
    match e {
        CExpr::EToDyn { trait_name, for_ty, .. } => set![(trait_name.0@, for_ty)],
        CExpr::EMatch { arms, default, .. } => todyn_arms(arms@, arms@.len() as int) + (if default is Some { todyn_a(*default->0) } else { Set::empty() }),
        CExpr::EIf { then, else_, .. } => todyn_a(*then) + todyn_a(*else_),
        CExpr::EWhile { cond, body, .. } => todyn_a(*cond) + todyn_a(*body),
        _ => Set::empty(),
    }
}
// .. in the bodies of the first n arms
pub open spec fn todyn_arms(arms: Seq<Arm>, n: int) -> Set<(Seq<char>, Ty)>
    decreases arms, n,
{
    if n <= 0 || n > arms.len() { Set::empty() } else { todyn_arms(arms, n - 1) + todyn_a(arms[n - 1].body) }
}
pub open spec fn todyn_a(e: AExpr) -> Set<(Seq<char>, Ty)>
    decreases e,
{
    match e {
        AExpr::ACExpr { expr } => todyn_c(expr),
        AExpr::ALet { value, body, .. } => todyn_c(*value) + todyn_a(*body),
    }
}
