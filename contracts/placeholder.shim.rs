// ---- shims / specification for U-PLACEHOLDER (C04: the completion placeholder is not a field of any struct) ----
#[verifier::external_body] pub struct TypeVar { _p: u32 }
#[verifier::external_body] pub struct Subst { _p: u64 }                       // HashMap<String, Ty>
#[verifier::external_body] pub struct Diagnostics { _p: u64 }
impl Diagnostics { pub uninterp spec fn errors(&self) -> nat; }
// super::util::push_error: one more error diagnostic
#[verifier::external_body] pub fn push_error_msg(d: &mut Diagnostics) ensures final(d).errors() == old(d).errors() + 1 { unimplemented!() }
pub struct StructDef { pub name: TastIdent, pub generics: Vec<TastIdent>, pub fields: Vec<(TastIdent, Ty)> }
pub open spec fn is_field(d: StructDef, f: TastIdent) -> bool { exists|i: int| 0 <= i < d.fields@.len() && (#[trigger] d.fields@[i]).0 == f }
// `struct_def.fields.iter().find(|(fname, _)| fname == field)`: the first field of that name
#[verifier::external_body]
pub fn find_field<'a>(d: &'a StructDef, f: &TastIdent) -> (r: Option<&'a (TastIdent, Ty)>)
    ensures (r is Some) == is_field(*d, *f), r is Some ==> (r->0).0 == *f,
{ unimplemented!() }
#[verifier::external_body] pub fn substitute_ty_params(ty: &Ty, subst: &Subst) -> (r: Ty) { unimplemented!() }
#[verifier::external_body] pub fn ident_is(f: &TastIdent, s: &str) -> (r: bool) ensures r == (f.0@ == s@) { unimplemented!() }        // f.0 == s
