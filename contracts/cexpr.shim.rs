// ---- shims / specification for U-CEXPR (C09 / C10: operators and operands reach Go unchanged and in order) ----
#[verifier::external_body] pub struct Ty { _p: u64 }            // crate::tast::Ty
#[verifier::external_body] pub struct Prim { _p: u64 }
#[verifier::external_body] pub struct Constructor { _p: u64 }
#[verifier::external_body] pub struct TastIdent { _p: u64 }
#[verifier::external_body] pub struct GlobalGoEnv { _p: u64 }
pub uninterp spec fn go_ty_of(t: Ty) -> GoType;
#[verifier::external_body] pub fn tast_ty_to_go_type(t: &Ty) -> (r: GoType) ensures r == go_ty_of(*t) { unimplemented!() }
pub uninterp spec fn imm_go(goenv: &GlobalGoEnv, i: ImmExpr) -> Expr;
#[verifier::external_body] pub fn compile_imm(goenv: &GlobalGoEnv, imm: &ImmExpr) -> (r: Expr) ensures r == imm_go(goenv, *imm) { unimplemented!() }
// the compiled operands, in order
pub open spec fn imms_go(goenv: &GlobalGoEnv, items: Seq<ImmExpr>, out: Seq<Expr>) -> bool {
    out.len() == items.len() && forall|i: int| 0 <= i < items.len() ==> #[trigger] out[i] == imm_go(goenv, items[i])
}
