// ---- C11: the documented grammar, as precedence levels (higher = binds tighter) ----
pub open spec fn binop_level(k: TokenKind) -> Option<int> {
    match k {
        TokenKind::OrOr => Some(1),
        TokenKind::AndAnd => Some(2),
        TokenKind::EqEq | TokenKind::NotEq => Some(3),
        TokenKind::Less | TokenKind::Greater | TokenKind::LessEq | TokenKind::GreaterEq => Some(4),
        TokenKind::Plus | TokenKind::Minus => Some(5),
        TokenKind::Star | TokenKind::Slash => Some(6),
        TokenKind::Dot => Some(8),      // field access: tightest
        _ => None,
    }
}
pub open spec fn is_prefix_op(k: TokenKind) -> bool { k is Minus || k is Bang }

// (1) exactly the documented binary operators have an infix binding power, all left-associative
pub proof fn lemma_infix_domain_and_assoc(k: TokenKind)
    ensures
        infix_binding_power_spec(k) is Some <==> binop_level(k) is Some,
        infix_binding_power_spec(k) matches Some((l, r)) ==> l < r,
{
}

// (2) precedence order: a looser operator's right power is below a tighter operator's left power,
//     operators of one level have identical powers
pub proof fn lemma_infix_levels(a: TokenKind, b: TokenKind)
    requires binop_level(a) is Some, binop_level(b) is Some,
    ensures
        binop_level(a)->0 < binop_level(b)->0 ==> (infix_binding_power_spec(a)->0).1 < (infix_binding_power_spec(b)->0).0,
        binop_level(a)->0 == binop_level(b)->0 ==> infix_binding_power_spec(a) == infix_binding_power_spec(b),
{
}

// (3) unary `-` `!` and nothing else are prefix operators; they bind tighter than `* /` (and every looser
//     operator) and not tighter than field access: -a*b == (-a)*b, -a.b == -(a.b)
pub proof fn lemma_prefix(k: TokenKind, b: TokenKind)
    ensures
        prefix_binding_power_spec(k) is Some <==> is_prefix_op(k),
        (is_prefix_op(k) && binop_level(b) is Some && binop_level(b)->0 <= 6) ==> prefix_binding_power_spec(k)->0 > (infix_binding_power_spec(b)->0).0,
        (is_prefix_op(k) && b is Dot) ==> prefix_binding_power_spec(k)->0 <= (infix_binding_power_spec(b)->0).0,
{
}

// (4) call `(` is the only postfix operator; it binds tighter than every binary operator except field access,
//     and `a.f(x)` applies the call to `a.f`
pub proof fn lemma_postfix(k: TokenKind, b: TokenKind)
    ensures
        postfix_binding_power_spec(k) is Some <==> k is LParen,
        (k is LParen && binop_level(b) is Some && binop_level(b)->0 <= 6) ==> (postfix_binding_power_spec(k)->0).0 > (infix_binding_power_spec(b)->0).1,
        (k is LParen && b is Dot) ==> (postfix_binding_power_spec(k)->0).0 < (infix_binding_power_spec(b)->0).1,
{
}

// (5) in types, `->` is the only infix operator and is right-associative
pub proof fn lemma_type_arrow(k: TokenKind)
    ensures
        type_infix_binding_power_spec(k) is Some <==> k is Arrow,
        type_infix_binding_power_spec(k) matches Some((l, r)) ==> l > r,
{
}
