// ---- shims for U-CEFFECT: foreign types are opaque; the two callees build the Go call / go statement ----
#[verifier::external_body] pub struct Ty { _p: u64 }            // crate::tast::Ty
#[verifier::external_body] pub struct Prim { _p: u64 }
#[verifier::external_body] pub struct Constructor { _p: u64 }
#[verifier::external_body] pub struct UnaryOp { _p: u64 }
#[verifier::external_body] pub struct BinaryOp { _p: u64 }
#[verifier::external_body] pub struct TastIdent { _p: u64 }
#[verifier::external_body] pub struct GlobalGoEnv { _p: u64 }

pub uninterp spec fn go_call_of(goenv: &GlobalGoEnv, e: &CExpr) -> Expr;

// compile_cexpr: the Go expression for a complex expression; for calls it is a Go call (assumed: verified nowhere)
#[verifier::external_body]
pub fn compile_cexpr(goenv: &GlobalGoEnv, e: &CExpr) -> (r: Expr)
    ensures r == go_call_of(goenv, e),
{ unimplemented!() }
pub trait VClone: Sized { fn vclone(&self) -> (r: Self) ensures r == *self; }
impl VClone for ImmExpr { #[verifier::external_body] fn vclone(&self) -> (r: Self) { unimplemented!() } }
impl VClone for String { #[verifier::external_body] fn vclone(&self) -> (r: Self) { unimplemented!() } }
impl VClone for Ty { #[verifier::external_body] fn vclone(&self) -> (r: Self) { unimplemented!() } }
#[verifier::external_body] pub fn imm_ty(imm: &ImmExpr) -> (r: Ty) { unimplemented!() }
// the apply method of a closure ENVIRONMENT type; a function type has none (None, on which compile_go's `.expect` panics), so a function
// value must not be sent here
#[verifier::external_body] pub fn find_closure_apply_fn(goenv: &GlobalGoEnv, closure_ty: &Ty) -> (r: Option<ClosureApplyFn>) requires !ty_is_func(*closure_ty) { unimplemented!() }
#[verifier::external_body] pub fn unreached<T>() -> (r: T) requires false { unimplemented!() }
// `go e`: ONE go statement whose call is the Go call of EITHER `apply(closure)` — a lifted closure is started through its apply function, with
// the closure as its only argument — OR `closure()` — a plain function value is called directly, without arguments
pub open spec fn is_go_of(goenv: &GlobalGoEnv, closure: ImmExpr, s: Stmt) -> bool {
    s matches Stmt::Go { call } && exists|c: CExpr| call == #[trigger] go_call_of(goenv, &c)
        && (c matches CExpr::ECall { func, args, ty: _ }
            && ((func is ImmVar && args@.len() == 1 && args@[0] == closure) || (func == closure && args@.len() == 0)))
}
pub uninterp spec fn imm_ty_of(i: ImmExpr) -> Ty;
pub enum TyShape { Func { ret: Ty }, Other }
pub uninterp spec fn ty_is_func(t: Ty) -> bool;
#[verifier::external_body] pub fn ty_shape(t: &Ty) -> (r: TyShape) ensures (r is Func) == ty_is_func(*t) { unimplemented!() }           // `if let Ty::TFunc { ret_ty, .. } = &ty` (Ty is opaque in this unit)
#[verifier::external_body] pub fn vec_no_imm() -> (r: Vec<ImmExpr>) ensures r@.len() == 0 { unimplemented!() }   // vec![]


// C09: the complex expressions whose evaluation is an observable effect even when the value is discarded
pub open spec fn cexpr_is_effect(e: CExpr) -> bool {
    e is ECall || e is EDynCall || e is EGo
}
pub open spec fn cexpr_is_control(e: CExpr) -> bool {
    e is EMatch || e is EIf || e is EWhile
}

// go::dce::effect_stmt (verified by U-DCEBLK with this contract): the statement that evaluates v and drops its value — the call itself where Go accepts
// that call as a statement, else `_ = v`
pub open spec fn eff_stmt_ok(v: Expr, s: Stmt) -> bool {
    (s == Stmt::Expr(v) && (v is Call || v is Block)) || (s matches Stmt::Assignment { name, value } && name@ == "_"@ && value == v)
}
#[verifier::external_body] pub fn effect_stmt(v: Expr) -> (r: Stmt) ensures eff_stmt_ok(v, r) { unimplemented!() }
