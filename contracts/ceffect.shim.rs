// ---- shims for U-CEFFECT: foreign types are opaque; the two callees build the Go call / go statement ----
#[verifier::external_body] pub struct Ty { _p: u64 }            // crate::tast::Ty
#[verifier::external_body] pub struct Prim { _p: u64 }
#[verifier::external_body] pub struct Constructor { _p: u64 }
#[verifier::external_body] pub struct UnaryOp { _p: u64 }
#[verifier::external_body] pub struct BinaryOp { _p: u64 }
#[verifier::external_body] pub struct TastIdent { _p: u64 }
#[verifier::external_body] pub struct GlobalGoEnv { _p: u64 }

pub uninterp spec fn go_call_of(goenv: &GlobalGoEnv, e: &CExpr) -> Expr;
pub uninterp spec fn go_stmt_of_go(goenv: &GlobalGoEnv, c: &ImmExpr) -> Stmt;

// compile_cexpr: the Go expression for a complex expression; for calls it is a Go call (assumed: verified nowhere)
#[verifier::external_body]
pub fn compile_cexpr(goenv: &GlobalGoEnv, e: &CExpr) -> (r: Expr)
    ensures r == go_call_of(goenv, e),
{ unimplemented!() }
#[verifier::external_body]
pub fn compile_go(goenv: &GlobalGoEnv, closure: &ImmExpr) -> (r: Stmt)
    ensures r == go_stmt_of_go(goenv, closure), r is Go,
{ unimplemented!() }

// C09: the complex expressions whose evaluation is an observable effect even when the value is discarded
pub open spec fn cexpr_is_effect(e: CExpr) -> bool {
    e is ECall || e is EDynCall || e is EGo
}
pub open spec fn cexpr_is_control(e: CExpr) -> bool {
    e is EMatch || e is EIf || e is EWhile
}
