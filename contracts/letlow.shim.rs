// ---- shims / specification for U-LETLOW (C09: a let-bound value is always evaluated in VALUE position) ----
#[verifier::external_body] pub struct Gensym { _p: u64 }
pub uninterp spec fn go_ident_spec(n: Seq<char>) -> Seq<char>;
#[verifier::external_body] pub fn go_ident(name: &String) -> (r: String) ensures r@ == go_ident_spec(name@) { unimplemented!() }
pub uninterp spec fn cexpr_ty_spec(goenv: &GlobalGoEnv, e: CExpr) -> GoType;
#[verifier::external_body] pub fn cexpr_ty(goenv: &GlobalGoEnv, e: &CExpr) -> (r: GoType) ensures r == cexpr_ty_spec(goenv, *e) { unimplemented!() }
// the three lowerings of an A-normal expression (recursive calls: uninterpreted results)
pub uninterp spec fn assign_stmts(goenv: &GlobalGoEnv, target: Seq<char>, e: AExpr) -> Seq<Stmt>;     // compute e, store it in `target`
pub uninterp spec fn effect_stmts(goenv: &GlobalGoEnv, e: AExpr) -> Seq<Stmt>;                          // compute e for effect only (unit-typed positions)
pub uninterp spec fn return_stmts(goenv: &GlobalGoEnv, e: AExpr) -> Seq<Stmt>;                          // compute e, return it
#[verifier::external_body]
pub fn compile_aexpr_assign(goenv: &GlobalGoEnv, gensym: &Gensym, target: &String, e: AExpr) -> (r: Vec<Stmt>) ensures r@ == assign_stmts(goenv, target@, e) { unimplemented!() }
#[verifier::external_body]
pub fn compile_aexpr_effect(goenv: &GlobalGoEnv, gensym: &Gensym, e: AExpr) -> (r: Vec<Stmt>) ensures r@ == effect_stmts(goenv, e) { unimplemented!() }
#[verifier::external_body]
pub fn compile_aexpr(goenv: &GlobalGoEnv, gensym: &Gensym, e: AExpr) -> (r: Vec<Stmt>) ensures r@ == return_stmts(goenv, e) { unimplemented!() }
pub uninterp spec fn go_stmt_of(goenv: &GlobalGoEnv, closure: ImmExpr) -> Stmt;                          // compile_go (verified in U-CEFFECT)
#[verifier::external_body] pub fn compile_go(goenv: &GlobalGoEnv, closure: &ImmExpr) -> (r: Stmt) ensures r == go_stmt_of(goenv, *closure) { unimplemented!() }
#[verifier::external_body]
pub fn vec_extend(v: &mut Vec<Stmt>, more: Vec<Stmt>) ensures final(v)@ == old(v)@ + more@ { unimplemented!() }       // Vec::extend(Vec)

pub open spec fn is_decl(s: Stmt, n: Seq<char>, t: GoType, v: Option<Expr>) -> bool {
    s matches Stmt::VarDecl { name, ty, value } && name@ == n && ty == t && value == v
}
// `let name = v in ..`: v is evaluated in VALUE position and bound to the Go variable of `name` — control flow through a declared
// variable that compile_aexpr_assign fills, `go` as a go statement plus a unit binding, everything else as `var name T = <v>`
// (so an operation that can fail, e.g. a division, is still in the emitted code) — and `tail` (the lowering of the body) follows
pub open spec fn let_lowered(r: Seq<Stmt>, pre: Seq<Stmt>, goenv: &GlobalGoEnv, name: Seq<char>, v: CExpr, tail: Seq<Stmt>) -> bool {
    let g = go_ident_spec(name);
    let p = pre.len() as int;
    if cexpr_is_control(v) {
        let a = assign_stmts(goenv, name, AExpr::ACExpr { expr: v });
        r.len() == p + 1 + a.len() + tail.len() && r.subrange(0, p) == pre && is_decl(r[p], g, cexpr_ty_spec(goenv, v), None)
        && r.subrange(p + 1, p + 1 + a.len()) == a && r.subrange(p + 1 + a.len(), r.len() as int) == tail
    } else if v is EGo {
        r.len() == p + 2 + tail.len() && r.subrange(0, p) == pre && r[p] == go_stmt_of(goenv, *v->EGo_closure)
        && (r[p + 1] matches Stmt::VarDecl { name: n, ty, value } && n@ == g && ty is TUnit && (value matches Some(u) && u is Unit))
        && r.subrange(p + 2, r.len() as int) == tail
    } else {
        r.len() == p + 1 + tail.len() && r.subrange(0, p) == pre && is_decl(r[p], g, cexpr_ty_spec(goenv, v), Some(go_call_of(goenv, &v)))
        && r.subrange(p + 1, r.len() as int) == tail
    }
}
