// ---- shims / specification for U-IMM (C09 / C10 / C02: every operand of the emitted Go is the variable, literal or tag the normal form names) ----
#[verifier::external_body] pub struct GlobalGoEnv { _p: u64 }
#[verifier::external_body] pub struct Ty { _p: u64 }                      // tast::Ty: only handed on
#[verifier::external_body] pub struct Prim { _p: u64 }                    // tast::Prim: only handed on
pub trait VClone: Sized { fn vclone(&self) -> (r: Self) ensures r == *self; }
impl VClone for Ty { #[verifier::external_body] fn vclone(&self) -> (r: Self) { unimplemented!() } }
pub uninterp spec fn go_ident_spec(n: Seq<char>) -> Seq<char>;                                     // go::mangle::go_ident (U-GOIDENT)
#[verifier::external_body] pub fn go_ident(name: &String) -> (r: String) ensures r@ == go_ident_spec(name@) { unimplemented!() }
pub uninterp spec fn go_ty_spec(t: Ty) -> GoType;                                                  // go::goast::tast_ty_to_go_type (U-GOTYPE)
#[verifier::external_body] pub fn tast_ty_to_go_type(ty: &Ty) -> (r: GoType) ensures r == go_ty_spec(*ty) { unimplemented!() }
pub uninterp spec fn lit_spec(v: Prim, t: Ty) -> Expr;                                             // go::compile::go_literal_from_primitive (U-GOLIT)
#[verifier::external_body] pub fn go_literal_from_primitive(value: &Prim, ty: &Ty) -> (r: Expr) ensures r == lit_spec(*value, *ty) { unimplemented!() }
pub uninterp spec fn variant_ty_spec(t: Ty, index: usize) -> GoType;                               // the Go struct type of variant number `index` of enum type t
#[verifier::external_body] pub fn variant_ty_by_index(goenv: &GlobalGoEnv, ty: &Ty, index: usize) -> (r: GoType) ensures r == variant_ty_spec(*ty, index) { unimplemented!() }
#[verifier::external_body] pub fn no_fields() -> (r: Vec<(String, Expr)>) ensures r@.len() == 0 { unimplemented!() }          // vec![]

pub open spec fn imm_ty_spec(i: ImmExpr) -> Ty {
    match i { ImmExpr::ImmVar { ty, .. } => ty, ImmExpr::ImmPrim { ty, .. } => ty, ImmExpr::ImmTag { ty, .. } => ty }
}
pub open spec fn imm_ok(i: ImmExpr, r: Expr) -> bool {
    match i {
        // a variable: its own (mangled) name at the Go type of ITS type
        ImmExpr::ImmVar { name, ty } => r matches Expr::Var { name: n, ty: t } && n@ == go_ident_spec(name@) && t == go_ty_spec(ty),
        // a literal: its own value printed at ITS type
        ImmExpr::ImmPrim { value, ty } => r == lit_spec(value, ty),
        // a nullary constructor: the empty struct of variant number `index` of ITS enum type
        ImmExpr::ImmTag { index, ty } => r matches Expr::StructLiteral { fields, ty: t } && fields@.len() == 0 && t == variant_ty_spec(ty, index),
    }
}
impl VClone for String { #[verifier::external_body] fn vclone(&self) -> (r: Self) { unimplemented!() } }
