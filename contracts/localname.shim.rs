// ---- shims / specification for U-LOCALNAME (C19: the locals of a package have pairwise different names) — the lemmas are U-ENVFIELD's with `/` for `_` ----
#[verifier::external_body] pub fn str_cat(a: &String, b: &str) -> (r: String) ensures r@ == a@ + b@ { unimplemented!() }
#[verifier::external_body] pub fn string_text(s: &String) -> (r: &str) ensures r@ == s@ { unimplemented!() }
#[verifier::external_body] pub fn str_to_string(s: &str) -> (r: String) ensures r@ == s@ { unimplemented!() }
#[verifier::external_body] #[derive(Clone, Copy)] pub struct PackageId { _p: u32 }
#[verifier::external_body] pub struct LocalKey { _p: u64 }
#[derive(Clone, Copy)] pub struct LocalId { pub pkg: PackageId, pub idx: u32 }
pub struct LocalInfo { pub hint: String, pub origin: LocalKey }
// hir::HirTable: the table of locals of one package (every other field is dropped)
pub struct HirTable { pub package: PackageId, pub local_info: Vec<LocalInfo> }
#[verifier::external_body] pub fn same_package(a: PackageId, b: PackageId) requires a == b { unimplemented!() }          // assert_eq!(id.pkg, self.package)
// Display of a u32 (std, ASSUMED): decimal digits only, different numbers have different texts
pub uninterp spec fn dec(n: u32) -> Seq<char>;
#[verifier::external_body] pub proof fn dec_digits(n: u32) ensures !dec(n).contains('/') { }
#[verifier::external_body] pub proof fn dec_injective(a: u32, b: u32) requires dec(a) == dec(b) ensures a == b { }
#[verifier::external_body] pub fn u32_to_string(n: u32) -> (r: String) ensures r@ == dec(n) { unimplemented!() }
// the name of local number `idx`: the hint, a slash, the index
pub open spec fn local_name_ok(n: Seq<char>, index: u32) -> bool { exists|base: Seq<char>| n == #[trigger] (base + "/"@) + dec(index) }
// two texts that end in `/<digits>`: equal texts have equal digit parts
pub proof fn last_segment(a: Seq<char>, d1: Seq<char>, b: Seq<char>, d2: Seq<char>)
    requires (a + seq!['/']) + d1 == (b + seq!['/']) + d2, !d1.contains('/'), !d2.contains('/')
    ensures d1 == d2
{
    let s = (a + seq!['/']) + d1;
    let t = (b + seq!['/']) + d2;
    assert(s.len() == a.len() + 1 + d1.len());
    assert(t.len() == b.len() + 1 + d2.len());
    if d1.len() < d2.len() {
        let p = s.len() - d1.len() - 1;          // the `_` of the first spelling lies inside d2
        assert(s[p] == '/');
        assert(t[p] == d2[p - (b.len() + 1)]);
        assert(d2.contains(d2[p - (b.len() + 1)]));
    } else if d2.len() < d1.len() {
        let p = t.len() - d2.len() - 1;
        assert(t[p] == '/');
        assert(s[p] == d1[p - (a.len() + 1)]);
        assert(d1.contains(d1[p - (a.len() + 1)]));
    } else {
        assert forall|i: int| 0 <= i < d1.len() implies d1[i] == d2[i] by { assert(s[a.len() + 1 + i] == d1[i]); assert(t[b.len() + 1 + i] == d2[i]); }
        assert(d1 =~= d2);
    }
}
// C19: two locals of one package never share a name
pub proof fn local_names_differ(n: Seq<char>, i: u32, j: u32) requires local_name_ok(n, i), local_name_ok(n, j) ensures i == j {
    reveal_strlit("/");
    assert("/"@ =~= seq!['/']);
    let a = choose|base: Seq<char>| n == #[trigger] (base + "/"@) + dec(i);
    let b = choose|base: Seq<char>| n == #[trigger] (base + "/"@) + dec(j);
    dec_digits(i); dec_digits(j);
    last_segment(a, dec(i), b, dec(j));
    dec_injective(i, j);
}
