// ---- shims / specification for U-TRAITLOOKUP (C17: a trait method / an impl method is looked up under exactly (trait, type, method)) ----
pub struct TastIdent(pub String);
#[verifier::external_body] pub struct FnOrigin { _p: u64 }
pub struct FnScheme { pub type_params: Vec<String>, pub constraints: (), pub ty: Ty, pub origin: FnOrigin }
pub trait VClone: Sized { fn vclone(&self) -> (r: Self) ensures r == *self; }
impl VClone for Ty { #[verifier::external_body] fn vclone(&self) -> (r: Self) { unimplemented!() } }
impl VClone for String { #[verifier::external_body] fn vclone(&self) -> (r: Self) { unimplemented!() } }
// IndexMap<String, V>
#[verifier::external_body]
#[verifier::reject_recursive_types(V)]
pub struct NameMap<V> { _v: core::marker::PhantomData<V> }
impl<V> NameMap<V> {
    pub uninterp spec fn view(&self) -> Map<Seq<char>, V>;
    #[verifier::external_body] pub fn get(&self, k: &String) -> (r: Option<&V>) ensures r matches Some(v) ==> self@.contains_key(k@) && *v == self@[k@], r is None ==> !self@.contains_key(k@) { unimplemented!() }
}
pub struct TraitDef { pub methods: NameMap<FnScheme> }
pub struct ImplDef { pub params: Vec<TastIdent>, pub methods: NameMap<FnScheme> }
// IndexMap<(String, Ty), ImplDef>: keyed by the trait's name (its text) and the type
#[verifier::external_body] pub struct ImplTable { _p: u64 }
impl ImplTable {
    pub uninterp spec fn view(&self) -> Map<(Seq<char>, Ty), ImplDef>;
    #[verifier::external_body] pub fn get(&self, k: &(String, Ty)) -> (r: Option<&ImplDef>) ensures r matches Some(v) ==> self@.contains_key((k.0@, k.1)) && *v == self@[(k.0@, k.1)], r is None ==> !self@.contains_key((k.0@, k.1)) { unimplemented!() }
}
pub struct TraitEnv { pub trait_defs: NameMap<TraitDef>, pub trait_impls: ImplTable }          // env::TraitEnv: the two tables the lookups read
pub open spec fn method_ty(ms: Map<Seq<char>, FnScheme>, m: Seq<char>) -> Option<Ty> { if ms.contains_key(m) { Some(ms[m].ty) } else { None } }
pub open spec fn trait_method_of(e: TraitEnv, tr: Seq<char>, m: Seq<char>) -> Option<Ty> { if e.trait_defs@.contains_key(tr) { method_ty(e.trait_defs@[tr].methods@, m) } else { None } }
pub open spec fn impl_method_of(e: TraitEnv, tr: Seq<char>, ty: Ty, m: Seq<char>) -> Option<Ty> { if e.trait_impls@.contains_key((tr, ty)) { method_ty(e.trait_impls@[(tr, ty)].methods@, m) } else { None } }
