// ---- shims / specification for U-ARRSET (C02 / C03: the result type of a builtin call whose declared result mentions the wildcard array length) ----
// the type the checker assigned to an (already checked) argument
pub uninterp spec fn ty_of(e: Expr) -> Ty;
#[verifier::external_body] pub fn expr_get_ty(e: &Expr) -> (r: Ty) ensures r == ty_of(*e) { unimplemented!() }                   // e.get_ty()
impl Typer { #[verifier::external_body] pub fn fresh_ty_var(&mut self) -> (r: Ty) ensures r is TVar { unimplemented!() } }
#[verifier::external_body] pub fn push_ice_msg(diagnostics: &mut Diagnostics) { unimplemented!() }                                 // super::util::push_ice(diagnostics, "..")
#[verifier::external_body] pub fn str_eq(a: &String, b: &str) -> (r: bool) ensures r == (a@ == b@) { unimplemented!() }          // a.as_str() == b
