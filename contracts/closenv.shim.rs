// ---- shims / specification for U-CLOSENV (C08: the closure environment's layout and the apply function agree) ----
#[verifier::external_body] pub struct Ty { _p: u64 }
#[verifier::external_body] pub struct Prim { _p: u64 }
#[verifier::external_body] pub struct UnaryOp { _p: u64 }
#[verifier::external_body] pub struct BinaryOp { _p: u64 }
#[verifier::external_body] pub struct EnumConstructor { _p: u64 }
pub trait VClone: Sized { fn vclone(&self) -> (r: Self) ensures r == *self; }
impl VClone for Ty { #[verifier::external_body] fn vclone(&self) -> (r: Self) { unimplemented!() } }
impl VClone for String { #[verifier::external_body] fn vclone(&self) -> (r: Self) { unimplemented!() } }
impl VClone for TastIdent { #[verifier::external_body] fn vclone(&self) -> (r: Self) { unimplemented!() } }
impl LiftExpr {
    #[verifier::external_body] pub fn get_ty(&self) -> (r: Ty) { unimplemented!() }      // the result only fills the `ty` slot of the new ELet
}
// IndexMap<String, Ty>: the capture set, in INSERTION order (that order is the environment's field order)
#[verifier::external_body]
#[verifier::reject_recursive_types(K)]
#[verifier::reject_recursive_types(V)]
pub struct IndexMap<K, V> { _k: core::marker::PhantomData<(K, V)> }
impl IndexMap<String, Ty> {
    pub uninterp spec fn seq(&self) -> Seq<(String, Ty)>;
    #[verifier::external_body] pub fn len(&self) -> (r: usize) ensures r == self.seq().len() { unimplemented!() }
    // `m.iter()` collected: (key, value) references in insertion order
    #[verifier::external_body]
    pub fn entries_vec(&self) -> (r: Vec<(&String, &Ty)>)
        ensures r@.len() == self.seq().len(), forall|i: int| 0 <= i < r@.len() ==> *(#[trigger] r@[i]).0 == self.seq()[i].0 && *r@[i].1 == self.seq()[i].1,
    { unimplemented!() }
}
// the lifting state: only what the fragment touches
#[verifier::external_body] pub struct LiftEnv { _p: u64 }
impl LiftEnv {
    pub uninterp spec fn last_struct(&self) -> StructDef;       // the struct definition inserted last
    #[verifier::external_body]
    pub fn insert_struct(&mut self, def: StructDef) ensures final(self).last_struct() == def { unimplemented!() }
}
#[verifier::external_body] pub struct Gensym { _p: u64 }
impl Gensym { #[verifier::external_body] pub fn gensym(&self, prefix: &str) -> (r: String) { unimplemented!() } }
pub struct State { pub liftenv: LiftEnv, pub gensym: Gensym }
impl State {
    #[verifier::external_body]
    pub fn register_closure_type(&mut self, struct_name: &TastIdent, apply_fn: String)
        ensures final(self).liftenv == old(self).liftenv,
    { unimplemented!() }
}
#[verifier::external_body] pub fn inherent_method_fn_name(ty: &Ty, method: &str) -> (r: String) { unimplemented!() }
pub exec const CLOSURE_APPLY_METHOD: &'static str = "apply";
pub uninterp spec fn field_name_spec(name: Seq<char>, index: int) -> Seq<char>;
#[verifier::external_body]
pub fn make_field_name(name: &String, index: usize) -> (r: String) ensures r@ == field_name_spec(name@, index as int) { unimplemented!() }
#[verifier::external_body]
pub fn extend_cloned(dst: &mut Vec<(String, Ty)>, src: &Vec<(String, Ty)>) { unimplemented!() }   // dst.extend(src.iter().cloned())

// ---- the specification ----
// field i of the environment struct belongs to the i-th capture
pub open spec fn fields_ok(fs: Seq<(TastIdent, Ty)>, cap: Seq<(String, Ty)>) -> bool {
    fs.len() == cap.len() && forall|i: int| 0 <= i < cap.len() ==> (#[trigger] fs[i]).1 == cap[i].1 && fs[i].0.0@ == field_name_spec(cap[i].0@, i)
}
// argument i of the environment's constructor call is the i-th captured variable
pub open spec fn args_ok(args: Seq<LiftExpr>, cap: Seq<(String, Ty)>) -> bool {
    args.len() == cap.len() && forall|i: int| 0 <= i < cap.len() ==>
        ((#[trigger] args[i]) matches LiftExpr::EVar { name, ty } && name@ == cap[i].0@ && ty == cap[i].1)
}
// the apply function's body is `let cap[k] = env.<field k>; let cap[k+1] = env.<field k+1>; ...; body`
pub open spec fn rebinds(e: LiftExpr, cap: Seq<(String, Ty)>, k: int, body: LiftExpr, envp: Seq<char>, env_ty: Ty, sname: TastIdent) -> bool
    decreases cap.len() - k,
{
    if k >= cap.len() { e == body }
    else {
        e matches LiftExpr::ELet { name, value, body: inner, ty: _ }
        && name@ == cap[k].0@
        && (*value matches LiftExpr::EConstrGet { expr, constructor, field_index, ty: fty }
            && field_index == k && fty == cap[k].1
            && (*expr matches LiftExpr::EVar { name: en, ty: et } && en@ == envp && et == env_ty)
            && (constructor matches Constructor::Struct(sc) && sc.type_name == sname))
        && rebinds(*inner, cap, k + 1, body, envp, env_ty, sname)
    }
}
