// ---- shims for U-INST (C03: a type scheme is instantiated consistently) ----
// the typer: only its supply of fresh inference variables matters here
#[verifier::external_body] pub struct Typer { _p: u64 }
impl Typer {
    #[verifier::external_body] pub fn fresh_ty_var(&mut self) -> (r: Ty) ensures r is TVar { unimplemented!() }
}
#[verifier::external_body] pub fn empty_subst() -> (r: Subst) ensures r@ == Map::<Seq<char>, Ty>::empty() { unimplemented!() }     // HashMap::new()
