// ---- shims / specification for U-SCOPESTACK (C08: lift::Scope is a stack of layers; a name means its innermost binding) ----
#[verifier::external_body] pub struct Ty { _p: u64 }
// indexmap::IndexMap<String, V>: a finite map keyed by the key's text
#[verifier::external_body]
#[verifier::reject_recursive_types(K)]
#[verifier::reject_recursive_types(V)]
pub struct IndexMap<K, V> { _k: core::marker::PhantomData<(K, V)> }
impl<V> IndexMap<String, V> {
    pub uninterp spec fn view(&self) -> Map<Seq<char>, V>;
    #[verifier::external_body] pub fn new() -> (r: Self) ensures r@ == Map::<Seq<char>, V>::empty() { unimplemented!() }
    #[verifier::external_body]
    pub fn get(&self, k: &str) -> (r: Option<&V>)
        ensures r matches Some(v) ==> self@.contains_key(k@) && *v == self@[k@], r is None ==> !self@.contains_key(k@),
    { unimplemented!() }
}
// the stack of layers, innermost last
pub open spec fn layers_of(s: Scope) -> Seq<Map<Seq<char>, ScopeEntry>> { Seq::new(s.layers@.len(), |i: int| s.layers@[i]@) }
// a name means the entry of the INNERMOST layer that binds it (shadowing); the first n layers are searched from layer n-1 down
pub open spec fn lookup(ls: Seq<Map<Seq<char>, ScopeEntry>>, n: int, name: Seq<char>) -> Option<ScopeEntry>
    decreases n,
{
    if n <= 0 || n > ls.len() { None } else if ls[n - 1].contains_key(name) { Some(ls[n - 1][name]) } else { lookup(ls, n - 1, name) }
}
