// ---- shims / specification for U-MTRAITCALL (C07 / C17: a trait-method call is resolved to THE impl function of the receiver's specialised type) ----
// r is a translation of the Core expression e under substitution s (mono_expr's result; the instance table it also updates is not looked at)
pub uninterp spec fn is_mono(e: Expr, s: Map<Seq<char>, Ty>, r: MonoExpr) -> bool;
#[verifier::external_body]
pub fn mono_expr(ctx: &mut Ctx, e: &Expr, s: &Subst) -> (r: MonoExpr)
    ensures is_mono(*e, s@, r), final(ctx).out == old(ctx).out,      // ASSUMED frame: translation only adds to the instance table / work list (Ctx::ensure_instance, U-MINST)
{ unimplemented!() }
// names::trait_impl_fn_name (U-IMPLNAME proves what it is made of): here only WHICH (trait, type, method) it is asked for matters
pub uninterp spec fn impl_fn_name(tr: TastIdent, ty: Ty, method: Seq<char>) -> Seq<char>;
#[verifier::external_body]
pub fn trait_impl_fn_name(trait_name: &TastIdent, for_ty: &Ty, method_name: &String) -> (r: String)
    ensures r@ == impl_fn_name(*trait_name, *for_ty, method_name@),
{ unimplemented!() }

// the call a trait-method call `Tr::m(recv, args..)` becomes
pub open spec fn trait_call_ok(tr: TastIdent, method: Seq<char>, recv: Expr, args: Seq<Expr>, ty: Ty, s: Map<Seq<char>, Ty>, r: MonoExpr) -> bool {
    r matches MonoExpr::ECall { func, args: a, ty: t }
    && t == subst_res(ty, s)
    // receiver first, then the arguments in order, each translated once
    && a@.len() == args.len() + 1
    && is_mono(recv, s, a@[0])
    && (forall|i: int| 0 <= i < args.len() ==> is_mono(#[trigger] args[i], s, a@[i + 1]))
    // the callee is the impl function of (trait, the TRANSLATED receiver's type, method), at the function type of this very call
    && (*func matches MonoExpr::EVar { name, ty: fty }
        && name@ == impl_fn_name(tr, mono_ty(a@[0]), method)
        && (fty matches Ty::TFunc { params, ret_ty }
            && *ret_ty == t && params@.len() == a@.len()
            && forall|i: int| 0 <= i < params@.len() ==> #[trigger] params@[i] == mono_ty(a@[i])))
}
