// ---- C09/C10: what dead-code elimination must treat as an observable effect ----
// A Go expression may have an effect visible to the source program when it contains a call, or an
// operation that can fail at run time: integer division (division by zero) and indexing (out of range).
// Statements: `go`, stores through index/pointer/field, and anything containing such an expression.
pub open spec fn go_int_ty(t: GoType) -> bool {
    t is TInt8 || t is TInt16 || t is TInt32 || t is TInt64 || t is TUint8 || t is TUint16 || t is TUint32 || t is TUint64
}
pub open spec fn expr_may_effect(e: Expr) -> bool
    decreases e,
{
    match e {
        Expr::Call { .. } => true,
        Expr::BinaryOp { op, lhs, rhs, ty } => (op is Div && go_int_ty(ty)) || expr_may_effect(*lhs) || expr_may_effect(*rhs),   // integer division fails on a zero divisor; a float division cannot fail (Inf / NaN)
        Expr::Index { .. } => true,
        Expr::UnaryOp { expr, .. } => expr_may_effect(*expr),
        Expr::FieldAccess { obj, .. } => expr_may_effect(*obj),
        Expr::Cast { expr, .. } => expr_may_effect(*expr),
        Expr::StructLiteral { fields, .. } => exists|i: int| 0 <= i < fields.len() && expr_may_effect(#[trigger] fields[i].1),
        Expr::ArrayLiteral { elems, .. } => exists|i: int| 0 <= i < elems.len() && expr_may_effect(#[trigger] elems[i]),
        Expr::Block { stmts, expr, .. } => stmts_may_effect(stmts@) || (expr is Some && expr_may_effect(*expr->0)),
        _ => false,
    }
}
pub open spec fn stmts_may_effect(ss: Seq<Stmt>) -> bool
    decreases ss,
{
    exists|i: int| 0 <= i < ss.len() && stmt_may_effect(#[trigger] ss[i])
}
pub open spec fn stmt_may_effect(s: Stmt) -> bool
    decreases s,
{
    match s {
        Stmt::Expr(e) => expr_may_effect(e),
        Stmt::Go { .. } => true,
        Stmt::VarDecl { value, .. } => value is Some && expr_may_effect(value->0),
        Stmt::Assignment { value, .. } => expr_may_effect(value),
        Stmt::IndexAssign { .. } | Stmt::PointerAssign { .. } | Stmt::FieldAssign { .. } => true,
        Stmt::Return { expr } => expr is Some && expr_may_effect(expr->0),
        Stmt::Loop { body } => stmts_may_effect(body.stmts@),
        Stmt::Break => false,
        Stmt::If { cond, then, else_ } => expr_may_effect(cond) || stmts_may_effect(then.stmts@) || (else_ is Some && stmts_may_effect(else_->0.stmts@)),
        Stmt::SwitchExpr { expr, cases, default } => expr_may_effect(expr)
            || (exists|i: int| 0 <= i < cases.len() && (expr_may_effect(#[trigger] cases[i].0) || stmts_may_effect(cases[i].1.stmts@)))
            || (default is Some && stmts_may_effect(default->0.stmts@)),
        Stmt::SwitchType { expr, cases, default, .. } => expr_may_effect(expr)
            || (exists|i: int| 0 <= i < cases.len() && stmts_may_effect((#[trigger] cases[i]).1.stmts@))
            || (default is Some && stmts_may_effect(default->0.stmts@)),
    }
}
