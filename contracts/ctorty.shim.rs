// ---- shims / specification for U-CTORTY (C03 / C06: the constructor a name denotes and the type constructing with it has) ----
pub trait VClone: Sized { fn vclone(&self) -> (r: Self) ensures r == *self; }
impl VClone for Ty { #[verifier::external_body] fn vclone(&self) -> (r: Self) { unimplemented!() } }
impl VClone for String { #[verifier::external_body] fn vclone(&self) -> (r: Self) { unimplemented!() } }
impl VClone for TastIdent { #[verifier::external_body] fn vclone(&self) -> (r: Self) { unimplemented!() } }
impl VClone for Vec<Ty> { #[verifier::external_body] fn vclone(&self) -> (r: Self) { unimplemented!() } }
// the type a value of the definition has: the bare nominal type, or — for a generic definition — that type applied to its own parameters, in order
pub open spec fn params_as_types(gs: Seq<TastIdent>, ts: Seq<Ty>) -> bool { ts.len() == gs.len() && forall|i: int| 0 <= i < gs.len() ==> (#[trigger] ts[i]) == (Ty::TParam { name: gs[i].0 }) }
pub open spec fn self_type(base: Ty, gs: Seq<TastIdent>, r: Ty) -> bool {
    if gs.len() == 0 { r == base } else { r matches Ty::TApp { ty, args } && *ty == base && params_as_types(gs, args@) }
}
// constructing with payload types `fields`: a constant of that type when there is no payload, else a function from the payload types, IN ORDER, to that type
pub open spec fn ctor_type(fields: Seq<Ty>, base: Ty, gs: Seq<TastIdent>, r: Ty) -> bool {
    if fields.len() == 0 { self_type(base, gs, r) } else { r matches Ty::TFunc { params, ret_ty } && params@ == fields && self_type(base, gs, *ret_ty) }
}
pub open spec fn enum_ctor_ok(enum_name: TastIdent, d: EnumDef, index: int, r: (Constructor, Ty)) -> bool {
    (r.0 matches Constructor::Enum(c) && c.type_name == enum_name && c.variant == d.variants@[index].0 && c.index == index)
    && ctor_type(d.variants@[index].1@, Ty::TEnum { name: enum_name.0 }, d.generics@, r.1)
}
// ---- struct constructors ----
#[verifier::external_body] pub struct StructTable { _p: u64 }                  // IndexMap<TastIdent, StructDef>
impl StructTable {
    pub uninterp spec fn view(&self) -> Map<Seq<char>, StructDef>;
    #[verifier::external_body] pub fn get(&self, k: &TastIdent) -> (r: Option<&StructDef>) ensures r matches Some(d) ==> self@.contains_key(k.0@) && *d == self@[k.0@], r is None ==> !self@.contains_key(k.0@) { unimplemented!() }
}
pub struct TypeEnv { pub structs: StructTable }                                // env::TypeEnv: the table lookup_struct_constructor reads
pub open spec fn field_types(fs: Seq<(TastIdent, Ty)>, ts: Seq<Ty>) -> bool { ts.len() == fs.len() && forall|i: int| 0 <= i < fs.len() ==> (#[trigger] ts[i]) == fs[i].1 }
// (the constructor is named after the definition — or after the key it was found under: the table files a definition under its own name)
pub open spec fn struct_ctor_ok(key: Seq<char>, d: StructDef, r: (Constructor, Ty)) -> bool {
    (r.0 matches Constructor::Struct(c) && (c.type_name.0@ == d.name.0@ || c.type_name.0@ == key))
    && exists|ts: Seq<Ty>| #[trigger] field_types(d.fields@, ts) && ctor_type(ts, Ty::TStruct { name: d.name.0 }, d.generics@, r.1)
}
// ---- mono::update_constructor_type ----
pub uninterp spec fn head_name(t: Ty) -> Seq<char>;                    // Ty::get_constr_name_unsafe: the name of the type's head constructor
impl Ty { #[verifier::external_body] pub fn get_constr_name_unsafe(&self) -> (r: String) ensures r@ == head_name(*self) { unimplemented!() } }
impl TastIdent { #[verifier::external_body] pub fn new(name: &String) -> (r: TastIdent) ensures r.0@ == name@ { unimplemented!() } }
impl VClone for Constructor { #[verifier::external_body] fn vclone(&self) -> (r: Self) { unimplemented!() } }
// the type name a constructor is re-pointed to after type applications were collapsed to monomorphic definitions
pub open spec fn new_type_name(t: Ty) -> Option<Seq<char>> {
    match t { Ty::TEnum { name } => Some(name@), Ty::TStruct { name } => Some(name@), Ty::TApp { ty, .. } => Some(head_name(*ty)), _ => None }
}
// an enum constructor stays an enum constructor with ITS variant and ITS tag, a struct constructor stays one; only the type's name follows the new type
pub open spec fn ctor_updated(c: Constructor, t: Ty, r: Constructor) -> bool {
    match c {
        Constructor::Enum(e) => (if (t is TEnum || t is TApp) { r matches Constructor::Enum(e2) && e2.variant == e.variant && e2.index == e.index && Some(e2.type_name.0@) == new_type_name(t) } else { r == c }),
        Constructor::Struct(s) => (if (t is TStruct || t is TApp) { r matches Constructor::Struct(s2) && Some(s2.type_name.0@) == new_type_name(t) } else { r == c }),
    }
}
// ---- enum_constructor_info: the FIRST variant of that name ----
#[verifier::external_body] pub fn ident_eq(a: &TastIdent, b: &TastIdent) -> (r: bool) ensures r == (a.0@ == b.0@) { unimplemented!() }      // derived PartialEq on TastIdent: the text
pub open spec fn first_variant(d: EnumDef, c: TastIdent, k: int) -> int
    decreases d.variants@.len() - k,
{
    if k < 0 || k >= d.variants@.len() { d.variants@.len() as int } else if d.variants@[k].0.0@ == c.0@ { k } else { first_variant(d, c, k + 1) }
}
pub open spec fn variant_ctor_ok(enum_name: TastIdent, d: EnumDef, c: TastIdent, r: Option<(Constructor, Ty)>) -> bool {
    let i = first_variant(d, c, 0);
    if i < d.variants@.len() { r matches Some(p) && enum_ctor_ok(enum_name, d, i, p) } else { r is None }
}
