// ---- shims / specification for U-CTORTY (C03 / C06: the constructor a name denotes and the type constructing with it has) ----
pub trait VClone: Sized { fn vclone(&self) -> (r: Self) ensures r == *self; }
impl VClone for Ty { #[verifier::external_body] fn vclone(&self) -> (r: Self) { unimplemented!() } }
impl VClone for String { #[verifier::external_body] fn vclone(&self) -> (r: Self) { unimplemented!() } }
impl VClone for TastIdent { #[verifier::external_body] fn vclone(&self) -> (r: Self) { unimplemented!() } }
impl VClone for Vec<Ty> { #[verifier::external_body] fn vclone(&self) -> (r: Self) { unimplemented!() } }
// the type a value of the definition has: the bare nominal type, or — for a generic definition — that type applied to its own parameters, in order
pub open spec fn params_as_types(gs: Seq<TastIdent>, ts: Seq<Ty>) -> bool { ts.len() == gs.len() && forall|i: int| 0 <= i < gs.len() ==> (#[trigger] ts[i]) == (Ty::TParam { name: gs[i].0 }) }
pub open spec fn self_type(base: Ty, gs: Seq<TastIdent>, r: Ty) -> bool {
    if gs.len() == 0 { r == base } else { r matches Ty::TApp { ty, args } && *ty == base && params_as_types(gs, args@) }
}
// constructing with payload types `fields`: a constant of that type when there is no payload, else a function from the payload types, IN ORDER, to that type
pub open spec fn ctor_type(fields: Seq<Ty>, base: Ty, gs: Seq<TastIdent>, r: Ty) -> bool {
    if fields.len() == 0 { self_type(base, gs, r) } else { r matches Ty::TFunc { params, ret_ty } && params@ == fields && self_type(base, gs, *ret_ty) }
}
pub open spec fn enum_ctor_ok(enum_name: TastIdent, d: EnumDef, index: int, r: (Constructor, Ty)) -> bool {
    (r.0 matches Constructor::Enum(c) && c.type_name == enum_name && c.variant == d.variants@[index].0 && c.index == index)
    && ctor_type(d.variants@[index].1@, Ty::TEnum { name: enum_name.0 }, d.generics@, r.1)
}
