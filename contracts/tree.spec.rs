// ---- specification vocabulary for Parser::build_tree ----
pub open spec fn tok_view(ts: Seq<Token>, n: int) -> Seq<(u16, Seq<char>)> {
    Seq::new(n as nat, |i: int| (ts[i].kind as u16, ts[i].text@))
}
pub open spec fn count_nt(kinds: Seq<MySyntaxKind>, n: int) -> int
    decreases n,
{
    if n <= 0 { 0 } else { count_nt(kinds, n - 1) + if kinds[n - 1] != MySyntaxKind::TombStone { 1int } else { 0int } }
}
pub open spec fn at_boundary(ts: Seq<Token>, c: int) -> bool {
    c == ts.len() || (0 <= c < ts.len() && !is_trivia_k(ts[c].kind))
}
pub open spec fn min_int(a: int, b: int) -> int { if a <= b { a } else { b } }

// relation between the partially replayed vector `cur` and the original `ev0` at outer index i
pub open spec fn replay_rel(cur: Seq<Event>, ev0: Seq<Event>, i: int) -> bool {
    &&& cur.len() == ev0.len()
    &&& forall|k: int| 0 <= k < i && k < cur.len() ==> #[trigger] cur[k] == tomb()
    &&& forall|k: int| i <= k < cur.len() ==> (#[trigger] cur[k] == ev0[k] || (ev0[k] is Open && cur[k] == tomb()))
}

pub proof fn lemma_pd_update(cur: Seq<Event>, k: int, n: int)
    requires 0 <= k < cur.len(), 0 <= n <= cur.len(),
    ensures pd(cur.update(k, tomb()), n) == pd(cur, n) - if k < n { delta(cur[k]) } else { 0 },
    decreases n,
{
    if n > 0 { lemma_pd_update(cur, k, n - 1); }
}

pub proof fn lemma_pd_tombs(cur: Seq<Event>, i: int)
    requires 0 <= i <= cur.len(), forall|k: int| 0 <= k < i ==> #[trigger] cur[k] == tomb(),
    ensures pd(cur, i) == 0,
    decreases i,
{
    if i > 0 { lemma_pd_tombs(cur, i - 1); }
}

pub proof fn lemma_pd_suffix_le(cur: Seq<Event>, ev0: Seq<Event>, i: int, n: int)
    requires cur.len() == ev0.len(), 0 <= i <= n <= cur.len(),
        forall|k: int| i <= k < n ==> delta(#[trigger] cur[k]) <= delta(ev0[k]),
    ensures pd(cur, n) - pd(cur, i) <= pd(ev0, n) - pd(ev0, i),
    decreases n - i,
{
    if n > i { lemma_pd_suffix_le(cur, ev0, i, n - 1); }
}

// rowan's depth (= -pd(cur, len) by the replay invariant) is at least the naive prefix depth of the original stream
pub proof fn lemma_depth_lb(cur: Seq<Event>, ev0: Seq<Event>, i: int)
    requires replay_rel(cur, ev0, i), 0 <= i <= cur.len(), pd(ev0, ev0.len() as int) == 0,
    ensures -pd(cur, cur.len() as int) >= pd(ev0, i),
{
    lemma_pd_tombs(cur, i);
    assert forall|k: int| i <= k < cur.len() implies delta(#[trigger] cur[k]) <= delta(ev0[k]) by {}
    lemma_pd_suffix_le(cur, ev0, i, cur.len() as int);
}

pub proof fn lemma_nontrivia_nonneg(ts: Seq<Token>, a: int)
    ensures 0 <= nontrivia(ts, a),
    decreases a,
{
    if a > 0 { lemma_nontrivia_nonneg(ts, a - 1); }
}
pub proof fn lemma_nontrivia_mono(ts: Seq<Token>, a: int, b: int)
    requires 0 <= a <= b <= ts.len(),
    ensures nontrivia(ts, a) <= nontrivia(ts, b), 0 <= nontrivia(ts, a),
    decreases b - a,
{
    lemma_nontrivia_nonneg(ts, a);
    if a < b { lemma_nontrivia_mono(ts, a, b - 1); }
}

pub proof fn lemma_boundary_end(ts: Seq<Token>, c: int)
    requires at_boundary(ts, c), 0 <= c <= ts.len(), nontrivia(ts, c) >= nontrivia(ts, ts.len() as int),
    ensures c == ts.len(),
{
    if c < ts.len() {
        lemma_nontrivia_mono(ts, c + 1, ts.len() as int);
        assert(nontrivia(ts, c + 1) == nontrivia(ts, c) + 1);
    }
}

pub proof fn lemma_count_nt_push(kinds: Seq<MySyntaxKind>, k: MySyntaxKind)
    ensures count_nt(kinds.push(k), kinds.len() as int + 1) == count_nt(kinds, kinds.len() as int) + if k != MySyntaxKind::TombStone { 1int } else { 0int },
{
    lemma_count_nt_prefix(kinds.push(k), kinds, kinds.len() as int);
}
pub proof fn lemma_count_nt_prefix(a: Seq<MySyntaxKind>, b: Seq<MySyntaxKind>, n: int)
    requires 0 <= n <= a.len(), n <= b.len(), forall|i: int| 0 <= i < n ==> a[i] == b[i],
    ensures count_nt(a, n) == count_nt(b, n),
    decreases n,
{
    if n > 0 { lemma_count_nt_prefix(a, b, n - 1); }
}

pub proof fn lemma_wf_update_tomb(cur: Seq<Event>, k: int)
    requires events_wf(cur), 0 <= k < cur.len(),
    ensures events_wf(cur.update(k, tomb())),
{
    let n = cur.update(k, tomb());
    assert forall|i: int| 0 <= i < n.len() implies #[trigger] fp_ok(n, i) by { assert(fp_ok(cur, i)); }
}

pub proof fn lemma_rel_update(cur: Seq<Event>, ev0: Seq<Event>, i: int, k: int)
    requires replay_rel(cur, ev0, i), 0 <= i <= k < cur.len(), cur[k] is Open,
    ensures replay_rel(cur.update(k, tomb()), ev0, i), ev0[k] is Open,
{
    let n = cur.update(k, tomb());
    assert(cur[k] == ev0[k] || (ev0[k] is Open && cur[k] == tomb()));
    assert forall|j: int| 0 <= j < i && j < n.len() implies #[trigger] n[j] == tomb() by { assert(cur[j] == tomb()); }
    assert forall|j: int| i <= j < n.len() implies (#[trigger] n[j] == ev0[j] || (ev0[j] is Open && n[j] == tomb())) by {
        assert(cur[j] == ev0[j] || (ev0[j] is Open && cur[j] == tomb()));
    }
}

pub proof fn lemma_count_adv_step(evs: Seq<Event>, i: int)
    requires 0 <= i < evs.len(),
    ensures count_adv(evs, i + 1) == count_adv(evs, i) + if evs[i] is Advance { 1int } else { 0int },
{
}
pub proof fn lemma_count_adv_mono(evs: Seq<Event>, a: int, b: int)
    requires 0 <= a <= b <= evs.len(),
    ensures count_adv(evs, a) <= count_adv(evs, b),
    decreases b - a,
{
    if a < b { lemma_count_adv_mono(evs, a, b - 1); }
}
