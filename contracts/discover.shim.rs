// ---- shims for U-DISCOVER ----
#[verifier::external_body] pub struct PathBuf { _p: u64 }
#[verifier::external_body] pub struct AstFile { _p: u64 }              // ast::File
#[verifier::external_body] pub struct SourceFileAst { _p: u64 }
#[verifier::external_body] pub struct CompilationError { _p: u64 }
#[verifier::external_body] pub struct Layout { _p: u64 }               // &impl PackageLayout
impl Layout {
    #[verifier::external_body] pub fn root_package_name(&self) -> (r: &str) { unimplemented!() }
    #[verifier::external_body] pub fn package_dir(&self, root_dir: &PathBuf, entry_package: &String, package_name: &String) -> (r: PathBuf) { unimplemented!() }
}
impl PathBuf { #[verifier::external_body] pub fn to_path_buf(&self) -> (r: PathBuf) { unimplemented!() } }
#[verifier::external_body]
pub fn load_package(package_dir: &PathBuf, entry_path: Option<&PathBuf>, entry_ast: Option<AstFile>) -> (r: Result<PackageUnit, CompilationError>) { unimplemented!() }
#[verifier::external_body] pub fn compile_error(m: String) -> (r: CompilationError) { unimplemented!() }
#[verifier::external_body] pub fn rt_msg() -> (r: String) { unimplemented!() }
#[verifier::external_body] pub fn string_clone(a: &String) -> (r: String) ensures r@ == a@ { unimplemented!() }
#[verifier::external_body] pub fn string_ne_str(a: &String, b: &str) -> (r: bool) ensures r == (a@ != b@) { unimplemented!() }
#[verifier::external_body] pub fn string_ne(a: &String, b: &String) -> (r: bool) ensures r == (a@ != b@) { unimplemented!() }

// hash collections: contents only; ITERATION ORDER IS NOT A FUNCTION OF THE CONTENTS
#[verifier::external_body]
#[verifier::reject_recursive_types(K)]
pub struct HashSet<K> { _k: core::marker::PhantomData<K> }
impl HashSet<String> {
    pub uninterp spec fn view(&self) -> Set<Seq<char>>;
    #[verifier::external_body] pub fn new() -> (r: Self) ensures r@ == Set::<Seq<char>>::empty() { unimplemented!() }
    #[verifier::external_body] pub fn insert(&mut self, k: String) -> (r: bool) ensures final(self)@ == old(self)@.insert(k@) { unimplemented!() }
    #[verifier::external_body] pub fn contains(&self, k: &String) -> (r: bool) ensures r == self@.contains(k@) { unimplemented!() }
}
#[verifier::external_body]
#[verifier::reject_recursive_types(K)]
#[verifier::reject_recursive_types(V)]
pub struct HashMap<K, V> { _k: core::marker::PhantomData<(K, V)> }
impl<V> HashMap<String, V> {
    #[verifier::external_body] pub fn new() -> (r: Self) { unimplemented!() }
    #[verifier::external_body] pub fn insert(&mut self, k: String, v: V) -> (r: Option<V>) { unimplemented!() }
}

// ---- C13: determinism discipline ----
// OVec = a Vec<String> that came (wholly or partly) out of a hash collection.  `det` says: its element ORDER is a function of
// the program's inputs.  Collecting a hash set's iterator is not (`det == false`); sorting makes it so; concatenating two
// deterministic sequences is deterministic.  Every order-sensitive use (`pop`, indexing, in-order traversal) REQUIRES `det`.
// If all such obligations hold, no value computed here depends on hash iteration order.
#[verifier::external_body]
pub struct OVec { _p: u64 }
impl OVec {
    pub uninterp spec fn det(&self) -> bool;
    // `S.iter().cloned().collect::<Vec<String>>()`
    #[verifier::external_body] pub fn from_set(s: &HashSet<String>) -> (r: Self) ensures !r.det() { unimplemented!() }
    #[verifier::external_body] pub fn sort(&mut self) ensures final(self).det() { unimplemented!() }
    #[verifier::external_body] pub fn pop(&mut self) -> (r: Option<String>)
        requires old(self).det(),
        ensures final(self).det(),
    { unimplemented!() }
    #[verifier::external_body] pub fn reverse(&mut self) ensures final(self).det() == old(self).det() { unimplemented!() }
    // `X.extend(S.iter().cloned())`
    #[verifier::external_body] pub fn extend_from_set(&mut self, s: &HashSet<String>) ensures !final(self).det() { unimplemented!() }
    // `X.extend(v)` with another such vector
    #[verifier::external_body] pub fn extend(&mut self, other: OVec) ensures final(self).det() == (old(self).det() && other.det()) { unimplemented!() }
}
