// ---- shims / specification for U-PATHGATE (C16: a qualified value path is import-checked) ----
#[verifier::external_body] pub struct AstPath { _p: u64 }
pub uninterp spec fn first_seg(p: AstPath) -> Seq<char>;                     // the text of the path's first segment ("" for an empty path)
#[verifier::external_body] pub fn path_first_segment(p: &AstPath) -> (r: &str) ensures r@ == first_seg(*p) { unimplemented!() }   // path.segments().first().map(|s| s.ident().0.as_str()).unwrap_or_default()
#[verifier::external_body] pub fn path_display(p: &AstPath) -> (r: String) { unimplemented!() }
#[verifier::external_body] pub struct ExportMap { _p: u64 }
impl ExportMap { #[verifier::external_body] pub fn contains_key(&self, k: &String) -> (r: bool) { unimplemented!() } }
pub struct PackageInterface { pub exports: ExportMap }
impl DepsMap {
    pub uninterp spec fn names(&self) -> Set<Seq<char>>;                          // the packages the current PACKAGE depends on (the union of its files' imports)
    #[verifier::external_body] pub fn contains_key(&self, k: &str) -> (r: bool) ensures r == self.names().contains(k@) { unimplemented!() }
    #[verifier::external_body] pub fn get(&self, k: &str) -> (r: Option<&PackageInterface>) ensures r is Some == self.names().contains(k@) { unimplemented!() }
}
#[verifier::external_body] pub fn str_ne(a: &str, b: &str) -> (r: bool) ensures r == (a@ != b@) { unimplemented!() }
#[verifier::external_body] pub fn rt_msg() -> (r: String) { unimplemented!() }
#[verifier::external_body] pub struct NameResolution { _p: u64 }
impl NameResolution {
    pub uninterp spec fn n_errors(&self) -> nat;
    #[verifier::external_body] pub fn error(&mut self, message: String) ensures final(self).n_errors() == old(self).n_errors() + 1 { unimplemented!() }
}
// C16: a path `P::..` whose first segment P is a package the current package depends on, but which THIS FILE may not name (not the current package, not Builtin,
// not among the file's imports), is an error — whatever the rest of the path is (a function, a type's associated function, a trait method)
pub open spec fn must_report(p: AstPath, deps: Set<Seq<char>>, cur: Seq<char>, imports: Set<Seq<char>>) -> bool {
    deps.contains(first_seg(p)) && !may_name(first_seg(p), cur, imports)
}

// ---- constructor paths `P::Enum::Variant` (fragment ctor_path_gate of NameResolution::constructor_path_for): the only gate a PATTERN goes through ----
impl ConstructorIndex {
    pub uninterp spec fn has(&self, package: Seq<char>, enum_name: Seq<char>, variant: Seq<char>) -> bool;
    #[verifier::external_body]
    pub fn enum_has_variant(&self, package: &String, enum_name: &String, variant: &String) -> (r: bool) ensures r == self.has(package@, enum_name@, variant@) { unimplemented!() }
}
#[verifier::external_body] pub struct HirPath { _p: u64 }
#[verifier::external_body] pub fn constructor_path(package: &String, enum_name: &String, variant: &String) -> (r: HirPath) { unimplemented!() }
