// ---- shims / specification for U-INTCASE (C06 / C10: an integer column is split by literals OF ITS OWN WIDTH) ----
#[verifier::external_body] pub struct GlobalTypeEnv { _p: u64 }
#[verifier::external_body] pub struct Gensym { _p: u64 }
#[verifier::external_body] pub struct Diagnostics { _p: u64 }
#[verifier::external_body] #[derive(Clone, Copy)] pub struct TextRange { _p: u64 }
#[verifier::external_body] pub struct Row { _p: u64 }
#[verifier::external_body] pub struct Variable { _p: u64 }
#[verifier::external_body] pub struct CoreExpr { _p: u64 }
#[verifier::external_body] pub fn unreached<T>() -> (r: T) requires false { unimplemented!() }
// the literal a pattern of an integer type can hold: the Prim variant of exactly that width
pub open spec fn prim_is(t: Ty, p: Prim) -> bool {
    match t {
        Ty::TInt8 => p is Int8, Ty::TInt16 => p is Int16, Ty::TInt32 => p is Int32, Ty::TInt64 => p is Int64,
        Ty::TUint8 => p is UInt8, Ty::TUint16 => p is UInt16, Ty::TUint32 => p is UInt32, Ty::TUint64 => p is UInt64,
        _ => false,
    }
}
pub open spec fn int_ty(t: Ty) -> bool { t is TInt8 || t is TInt16 || t is TInt32 || t is TInt64 || t is TUint8 || t is TUint16 || t is TUint32 || t is TUint64 }
// compile_int_case_impl (its splitting loop and tail are U-ROWS' fragments): what it needs of the two functions it is given — `extract` recognises exactly the literals
// of the column's width, `to_prim` builds a literal of that width (the value itself travels through T unchanged)
#[verifier::external_body]
pub fn compile_int_case_impl<T, Extract: Fn(&Prim) -> Option<T>, ToPrim: Fn(T) -> Prim>(genv: &GlobalTypeEnv, gensym: &Gensym, diagnostics: &mut Diagnostics, rows: Vec<Row>, bvar: &Variable,
        ty: &Ty, literal_ty: Ty, match_range: Option<TextRange>, extract: Extract, to_prim: ToPrim) -> (r: CoreExpr)
    requires forall|p: &Prim, o: Option<T>| #[trigger] extract.ensures((p,), o) ==> (o is Some <==> prim_is(literal_ty, *p)),
             forall|v: T, p: Prim| #[trigger] to_prim.ensures((v,), p) ==> prim_is(literal_ty, p),
             forall|p: &Prim| extract.requires((p,)), forall|v: T| to_prim.requires((v,)),
    ensures int_case_at(r, literal_ty),
{ unimplemented!() }
pub uninterp spec fn int_case_at(r: CoreExpr, literal_ty: Ty) -> bool;
