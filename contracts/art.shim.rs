// ---- shims for U-ART: external crates and foreign goml types (not verified) ----
// Foreign payload types: only (spec) equality matters to the contracts.
#[verifier::external_body] pub struct PackageExports { _p: u64 }
#[verifier::external_body] pub struct PackageInterface { _p: u64 }        // crate::hir::PackageInterface
#[verifier::external_body] pub struct CoreFile { _p: u64 }                // crate::core::File
#[verifier::external_body] pub struct DepMap { _p: u64 }                  // BTreeMap<String, String>
#[verifier::external_body] pub struct PathBuf { _p: u64 }
#[verifier::external_body] pub struct CompilationError { _p: u64 }
#[verifier::external_body] pub struct IoError { _p: u64 }
#[verifier::external_body] pub struct JsonError { _p: u64 }

impl DepMap {
    #[verifier::external_body]
    pub fn clone(&self) -> (r: Self) ensures r == *self { unimplemented!() }
    // BTreeMap<String,String> == : assumed to be spec equality
    #[verifier::external_body]
    pub fn eq(&self, other: &Self) -> (r: bool) ensures r == (*self == *other) { unimplemented!() }
}

// serde_json::to_vec ∘ Sha256::digest ∘ hex::encode, as one uninterpreted, deterministic function of the six
// components that the property says the interface hash must cover.
pub uninterp spec fn digest_of(format_version: u32, compiler_abi: u32, package: Seq<char>, exports: PackageExports,
                               hir_interface: PackageInterface, deps: DepMap) -> Seq<char>;
pub uninterp spec fn json_of_view(format_version: u32, compiler_abi: u32, package: Seq<char>, exports: PackageExports,
                                  hir_interface: PackageInterface, deps: DepMap) -> Seq<u8>;
pub uninterp spec fn sha_hex(bytes: Seq<u8>) -> Seq<char>;
// digest_of is *defined* as sha_hex ∘ json_of_view
pub broadcast proof fn digest_of_def(format_version: u32, compiler_abi: u32, package: Seq<char>, exports: PackageExports,
                                     hir_interface: PackageInterface, deps: DepMap)
    ensures #[trigger] digest_of(format_version, compiler_abi, package, exports, hir_interface, deps)
            == sha_hex(json_of_view(format_version, compiler_abi, package, exports, hir_interface, deps)),
{ admit(); }

#[verifier::external_body] pub struct Sha256Output { _p: u64 }
impl Sha256Output { pub uninterp spec fn hex(&self) -> Seq<char>; }

// serde_json::to_vec(&view).expect(..): serialises exactly the fields of InterfaceHashView
#[verifier::external_body]
pub fn serde_json_to_vec_expect(view: &InterfaceHashView) -> (r: Vec<u8>)
    ensures r@ == json_of_view(view.format_version, view.compiler_abi, view.package@, *view.exports, *view.hir_interface, *view.deps),
{ unimplemented!() }
#[verifier::external_body]
pub fn sha256_digest(bytes: Vec<u8>) -> (r: Sha256Output)
    ensures r.hex() == sha_hex(bytes@),
{ unimplemented!() }
#[verifier::external_body]
pub fn hex_encode(d: Sha256Output) -> (r: String)
    ensures r@ == d.hex(),
{ unimplemented!() }

// String equality / clone / new: view-level
#[verifier::external_body]
pub fn string_eq(a: &String, b: &String) -> (r: bool) ensures r == (a@ == b@) { a == b }
#[verifier::external_body]
pub fn str_ne(a: &String, b: &str) -> (r: bool) ensures r == (a@ != b@) { a != b }

// file system and JSON parsing: arbitrary results (this is the "for every artifact content" quantifier)
#[verifier::external_body]
pub fn fs_read_to_string(p: &PathBuf) -> (r: Result<String, IoError>) { unimplemented!() }
#[verifier::external_body]
pub fn json_interface_from_str(s: &String) -> (r: Result<InterfaceUnit, JsonError>) { unimplemented!() }
#[verifier::external_body]
pub fn json_core_from_str(s: &String) -> (r: Result<CoreUnit, JsonError>) { unimplemented!() }
// errors: only one bit of provenance is modelled (used by U-LINK's determinism clause): was the error raised by the
// dependency consistency check of link_cores, and if so for which (package, dependency)
impl CompilationError {
    pub uninterp spec fn is_dep(&self) -> bool;
    pub uninterp spec fn pkg(&self) -> Seq<char>;
    pub uninterp spec fn dep(&self) -> Seq<char>;
}
#[verifier::external_body]
pub fn compile_error(m: String) -> (r: CompilationError) ensures !r.is_dep() { unimplemented!() }
#[verifier::external_body]
pub fn rt_msg() -> (r: String) { unimplemented!() }
impl PathBuf {
    #[verifier::external_body] pub fn join(&self, s: String) -> (r: PathBuf) { unimplemented!() }
    #[verifier::external_body] pub fn exists(&self) -> (r: bool) { unimplemented!() }
}
