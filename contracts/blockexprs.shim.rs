// ---- shims / specification for U-BLOCK (C09: the expressions of a block are evaluated in order, each once) ----
#[verifier::external_body] pub fn core_eunit2() -> (r: core::Expr) ensures r == eunit_spec() { unimplemented!() }                 // core::eunit()
// `&exprs[1..]` / `rest.to_vec()`
#[verifier::external_body] pub fn slice_from(v: &Vec<Expr>, n: usize) -> (r: Vec<Expr>) requires n <= v@.len(), ensures r@ == v@.subrange(n as int, v@.len() as int) { unimplemented!() }
#[verifier::external_body] pub fn vec_clone_exprs(v: &Vec<Expr>) -> (r: Vec<Expr>) ensures r@ == v@ { unimplemented!() }      // <[Expr]>::to_vec
// the recursive call on the rest of the block: an uninterpreted function of the remaining expressions
pub uninterp spec fn block_core(rest: Seq<Expr>, ty: Ty) -> core::Expr;
#[verifier::external_body]
pub fn compile_block_rest(genv: &GlobalTypeEnv, gensym: &Gensym, diagnostics: &mut Diagnostics, exprs: &Vec<Expr>, ty: &Ty) -> (r: core::Expr)
    ensures r == block_core(exprs@, *ty),
{ unimplemented!() }
#[verifier::external_body] pub fn vec_rows2(a: Row, b: Row) -> (r: Vec<Row>) ensures r@ == seq![a, b] { unimplemented!() }        // vec![a, b]
#[verifier::external_body] pub fn vec_col1(c: Column) -> (r: Vec<Column>) ensures r@ == seq![c] { unimplemented!() }              // vec![c]
#[verifier::external_body] pub fn missing_call(ty: Ty) -> (r: Expr) { unimplemented!() }      // the typed-AST call `missing("")` at result type ty
// a block `{ first; rest.. }` (two expressions or more): `first` is evaluated once, BEFORE the rest, and bound —
//   let x = v        => let x = <v> in <rest>
//   let <pat> = v    => let tmp = <v> in <decision tree whose first row tests tmp against pat and continues with the rest>
//   anything else    => let _fresh = <first> in <rest>
pub open spec fn block_step_ok(r: core::Expr, first: Expr, rest: Seq<Expr>, ty: Ty) -> bool {
    match first {
        Expr::ELet { pat, value, ty: _ } => match pat {
            Pat::PVar { name, ty: pty, astptr: _ } =>
                r matches core::Expr::ELet { name: n, value: v, body, ty: t } && n == name && *v == core_of(*value) && *body == block_core(rest, ty) && t == pty,
            _ =>
                r matches core::Expr::ELet { name: n, value: v, body, ty: t } && *v == core_of(*value) && t == ty
                    && exists|rs: Seq<Row>| rs.len() >= 1 && *body == #[trigger] rows_core(rs, ty)
                        && rs[0].columns@.len() == 1 && rs[0].columns@[0].var@ == n@ && rs[0].columns@[0].pat == pat
                        && (rs[0].body matches Expr::EBlock { exprs, ty: bt } && exprs@ == rest && bt == ty),
        },
        _ => r matches core::Expr::ELet { name: _, value: v, body, ty: _ } && *v == core_of(first) && *body == block_core(rest, ty),
    }
}
// ---- structure-preserving arms of compile_expr ----
pub open spec fn if_ok(r: core::Expr, c: Expr, t: Expr, e: Expr, ty: Ty) -> bool {
    r matches core::Expr::EIf { cond, then_branch, else_branch, ty: rt } && *cond == core_of(c) && *then_branch == core_of(t) && *else_branch == core_of(e) && rt == ty
}
pub open spec fn while_ok(r: core::Expr, c: Expr, b: Expr, ty: Ty) -> bool {
    r matches core::Expr::EWhile { cond, body, ty: rt } && *cond == core_of(c) && *body == core_of(b) && rt == ty
}
// operands in order
pub open spec fn cores_of(items: Seq<Expr>, out: Seq<core::Expr>) -> bool {
    out.len() == items.len() && forall|i: int| 0 <= i < items.len() ==> #[trigger] out[i] == core_of(items[i])
}
// names::inherent_method_fn_name: the name of the Go function of an inherent method (a function of receiver type and method name)
pub uninterp spec fn inherent_name(receiver: Ty, method: Seq<char>) -> Seq<char>;
#[verifier::external_body] pub fn inherent_method_fn_name(receiver_ty: &Ty, method_name: &str) -> (r: String) ensures r@ == inherent_name(*receiver_ty, method_name@) { unimplemented!() }
#[verifier::external_body] pub fn string_as_str2(s: &String) -> (r: &str) ensures r@ == s@ { unimplemented!() }

