// ---- shims / specification for U-GOTYPEDOC (C02: a Go type is printed in Go's type syntax) ----
// pretty::RcDoc as far as type printing uses it: only the TEXT matters (no line break is ever offered inside a type)
#[verifier::external_body] pub struct Doc { _p: u64 }
impl Doc {
    pub uninterp spec fn txt(&self) -> Seq<char>;
    #[verifier::external_body] pub fn nil() -> (r: Doc) ensures r.txt() == Seq::<char>::empty() { unimplemented!() }
    #[verifier::external_body] pub fn space() -> (r: Doc) ensures r.txt() == seq![' '] { unimplemented!() }
    #[verifier::external_body] pub fn text_str(s: &str) -> (r: Doc) ensures r.txt() == s@ { unimplemented!() }            // RcDoc::text("lit")
    #[verifier::external_body] pub fn text_string(s: String) -> (r: Doc) ensures r.txt() == s@ { unimplemented!() }       // RcDoc::text(String)
    #[verifier::external_body] pub fn append(self, o: Doc) -> (r: Doc) ensures r.txt() == self.txt() + o.txt() { unimplemented!() }
}
pub open spec fn joined(ds: Seq<Seq<char>>, sep: Seq<char>, n: int) -> Seq<char> decreases n {
    if n <= 0 || n > ds.len() { Seq::empty() } else if n == 1 { ds[0] } else { joined(ds, sep, n - 1) + sep + ds[n - 1] }
}
pub open spec fn txts(ds: Seq<Doc>) -> Seq<Seq<char>> { ds.map_values(|d: Doc| d.txt()) }
#[verifier::external_body] pub fn doc_intersperse(ds: Vec<Doc>, sep: Doc) -> (r: Doc) ensures r.txt() == joined(txts(ds@), sep.txt(), ds@.len() as int) { unimplemented!() }   // RcDoc::intersperse(docs, sep)
// the decimal text of an array length, and `[N]`
pub uninterp spec fn dec(n: usize) -> Seq<char>;
#[verifier::external_body] pub fn fmt_array_len(len: usize) -> (r: String) ensures r@ == seq!['['] + dec(len) + seq![']'] { unimplemented!() }     // format!("[{}]", len)
// go_type_name (the shallow name: `func` for every function type): an uninterpreted function of the type here
pub uninterp spec fn name_of(t: GoType) -> Seq<char>;
#[verifier::external_body] pub fn go_type_name(ty: &GoType) -> (r: String) ensures r@ == name_of(*ty) { unimplemented!() }
// C02: Go's type syntax.  func(P1, P2) R  /  [N]T  /  []T  /  *T ; every component printed in full, recursively
pub open spec fn go_ty_text(t: GoType) -> Seq<char> decreases t {
    match t {
        GoType::TFunc { params, ret_ty } => "func("@ + params_text(params@, params@.len() as int) + ")"@ + (if *ret_ty is TVoid { Seq::<char>::empty() } else { seq![' '] + go_ty_text(*ret_ty) }),
        GoType::TArray { len, elem } => seq!['['] + dec(len) + seq![']'] + go_ty_text(*elem),
        GoType::TSlice { elem } => "[]"@ + go_ty_text(*elem),
        GoType::TPointer { elem } => "*"@ + go_ty_text(*elem),
        other => name_of(other),
    }
}
pub open spec fn params_text(ps: Seq<GoType>, n: int) -> Seq<char> decreases ps, n {
    if n <= 0 || n > ps.len() { Seq::empty() } else if n == 1 { go_ty_text(ps[0]) } else { params_text(ps, n - 1) + ", "@ + go_ty_text(ps[n - 1]) }
}
pub proof fn joined_is_params(ps: Seq<GoType>, ds: Seq<Seq<char>>, n: int)
    requires 0 <= n <= ps.len(), ds.len() >= n, forall|j: int| 0 <= j < n ==> ds[j] == go_ty_text(ps[j])
    ensures joined(ds, ", "@, n) == params_text(ps, n)
    decreases n
{
    if n > 1 { joined_is_params(ps, ds, n - 1); }
}
// `v.join(sep)` on a Vec<String> (std, ASSUMED): the texts joined by sep
pub open spec fn sviews(v: Seq<String>) -> Seq<Seq<char>> { v.map_values(|s: String| s@) }
#[verifier::external_body] pub fn strs_join(v: Vec<String>, sep: &str) -> (r: String) ensures r@ == joined(sviews(v@), sep@, v@.len() as int) { unimplemented!() }
