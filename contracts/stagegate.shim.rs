// ---- shims / specification for U-STAGEGATE (C04 / C14: the whole-program driver never runs a later stage on a program an earlier stage rejected) ----
#[verifier::external_body] pub struct Diagnostics { _p: u64 }
impl Diagnostics {
    pub uninterp spec fn errors(&self) -> bool;                       // some diagnostic of severity Error was pushed
    #[verifier::external_body] pub fn has_errors(&self) -> (r: bool) ensures r == self.errors() { unimplemented!() }
    #[verifier::external_body] pub fn clone(&self) -> (r: Self) ensures r == *self { unimplemented!() }
}
#[verifier::external_body] pub struct CoreFile { _p: u64 }
#[verifier::external_body] pub struct GlobalTypeEnv { _p: u64 }
#[verifier::external_body] pub struct Gensym { _p: u64 }
#[verifier::external_body] pub struct BackendOut { _p: u64 }           // (mono, lift, anf, go) files and their environments
#[verifier::external_body] pub fn link_packages(cores: Vec<CoreFile>) -> (r: CoreFile) { unimplemented!() }
// mono -> lambda_lift -> anf_file -> go_file: the back end panics on ill-typed Core and on the `missing` placeholders of a rejected match,
// so it may only be entered on a program no stage has reported an error for (the PRECONDITION is the property)
#[verifier::external_body]
pub fn backend(Ghost(errors_so_far): Ghost<bool>, genv: &GlobalTypeEnv, gensym: &Gensym, core: &CoreFile) -> (r: BackendOut)
    requires !errors_so_far,
{ unimplemented!() }
#[verifier::external_body] pub struct CoreMap { _p: u64 }                  // BTreeMap<String, CoreUnit>
#[verifier::external_body] pub fn concat_cores(by_name: &CoreMap, order: Vec<String>) -> (r: CoreFile) { unimplemented!() }      // the loop that concatenates the Core files in link order (dropped)
#[verifier::external_body] pub fn gensym_new() -> (r: Gensym) { unimplemented!() }
#[verifier::external_body] pub fn topo_sort(by_name: &CoreMap) -> (r: Result<Vec<String>, CompilationError>) { unimplemented!() }
#[verifier::external_body] pub fn merge_exports(by_name: &CoreMap, order: &Vec<String>) -> (r: (GlobalTypeEnv, Diagnostics)) { unimplemented!() }       // the export-merging loop (U-COHERE): environment + diagnostics
