// ---- shims / specification for U-QDERIVE (C20: the editor queries type-check the file the compiler type-checks — with the derived impls) ----
#[verifier::external_body] pub struct AstImport { _p: u64 }
#[verifier::external_body] pub struct AstRest { _p: u64 }
pub struct AstFile { pub imports: Vec<AstImport>, pub rest: AstRest }          // ast::File: the import list (the function tests it) and everything else
#[verifier::external_body] pub struct Diagnostics { _p: u64 }
impl Diagnostics { #[verifier::external_body] pub fn append(&mut self, other: &mut Diagnostics) { unimplemented!() } }
pub trait VClone: Sized { fn vclone(&self) -> (r: Self) ensures r == *self; }
impl VClone for AstFile { #[verifier::external_body] fn vclone(&self) -> (r: Self) { unimplemented!() } }
// derive::expand (U-DERIVE): an uninterpreted function of the file
pub uninterp spec fn expand_of(f: AstFile) -> Result<AstFile, Diagnostics>;
#[verifier::external_body] pub fn derive_expand(f: AstFile) -> (r: Result<AstFile, Diagnostics>) ensures r == expand_of(f) { unimplemented!() }
// what goes on to name resolution and type checking: the file with its derived impls; the file as written only when the derive itself reports an error
pub open spec fn query_input(written: AstFile, checked: AstFile) -> bool {
    match expand_of(written) { Ok(a) => checked == a, Err(_) => checked == written }
}
#[verifier::external_body] pub struct Lowered { _p: u64 }
#[verifier::external_body]
pub fn lower_to_hir(ast: AstFile, Ghost(written): Ghost<AstFile>) -> (r: Lowered)
    requires query_input(written, ast),
{ unimplemented!() }
