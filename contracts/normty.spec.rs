// ---- shims / specification for U-NORMTY (C20: the types the editor queries report are the types the compiler assigned — no bound inference variable is left in them) ----
// ena::unify::InPlaceUnificationTable<TypeVar>: the bindings it answers with (path compression changes the representation, not the answers)
#[verifier::external_body] pub struct UniTable { _p: u64 }
impl View for UniTable { type V = Map<TypeVar, Ty>; uninterp spec fn view(&self) -> Map<TypeVar, Ty>; }
impl UniTable {
    #[verifier::external_body]
    pub fn probe_value(&mut self, v: TypeVar) -> (r: Option<Ty>)
        ensures final(self)@ == old(self)@, old(self)@.contains_key(v) ==> r == Some(old(self)@[v]), !old(self)@.contains_key(v) ==> r is None,
    { unimplemented!() }
}
pub struct Typer { pub uni: UniTable }                              // the other fields play no part
#[verifier::external_body] pub fn string_clone(a: &String) -> (r: String) ensures r == *a { unimplemented!() }
pub open spec fn max(a: nat, b: nat) -> nat { if a >= b { a } else { b } }
// ACYCLICITY (what the occurs check, U-OCCURS, is for) — ASSUMED as a precondition: there is a rank under which every variable of a bound type lies below the variable
pub uninterp spec fn rank(v: TypeVar) -> nat;
// 1 + the highest rank of a variable in the type (0 without variables)
pub open spec fn ty_rank(t: Ty) -> nat
    decreases t,
{
    match t {
        Ty::TVar(v) => rank(v) + 1,
        Ty::TTuple { typs } => list_rank(typs@, typs@.len() as int),
        Ty::TApp { ty, args } => max(ty_rank(*ty), list_rank(args@, args@.len() as int)),
        Ty::TArray { len: _, elem } => ty_rank(*elem),
        Ty::TVec { elem } => ty_rank(*elem),
        Ty::TRef { elem } => ty_rank(*elem),
        Ty::TFunc { params, ret_ty } => max(ty_rank(*ret_ty), list_rank(params@, params@.len() as int)),
        _ => 0,
    }
}
pub open spec fn list_rank(l: Seq<Ty>, k: int) -> nat
    decreases l, k,
{
    if k <= 0 || k > l.len() { 0 } else { max(list_rank(l, k - 1), ty_rank(l[k - 1])) }
}
pub open spec fn acyclic(tb: Map<TypeVar, Ty>) -> bool {
    forall|v: TypeVar| #[trigger] tb.contains_key(v) ==> ty_rank(tb[v]) <= rank(v)
}
pub proof fn lemma_list_rank(l: Seq<Ty>, k: int, j: int)
    requires 0 <= j < k <= l.len(),
    ensures ty_rank(l[j]) <= list_rank(l, k),
    decreases k,
{
    if j < k - 1 { lemma_list_rank(l, k - 1, j); }
}
// C20: r is t with every BOUND inference variable replaced by what it is bound to, all the way down — the type the compiler assigned.
// n bounds the number of bindings followed along one path (any n that is large enough: lemma_norm_mono)
pub open spec fn is_norm(tb: Map<TypeVar, Ty>, n: nat, t: Ty, r: Ty) -> bool
    decreases n, t,
{
    match t {
        Ty::TVar(v) => if tb.contains_key(v) { n > 0 && is_norm(tb, (n - 1) as nat, tb[v], r) } else { r == t },
        Ty::TTuple { typs } => r is TTuple && r->TTuple_typs@.len() == typs@.len()
            && forall|i: int| 0 <= i < typs@.len() ==> is_norm(tb, n, #[trigger] typs@[i], r->TTuple_typs@[i]),
        Ty::TApp { ty, args } => r is TApp && is_norm(tb, n, *ty, *r->TApp_ty) && r->TApp_args@.len() == args@.len()
            && forall|i: int| 0 <= i < args@.len() ==> is_norm(tb, n, #[trigger] args@[i], r->TApp_args@[i]),
        Ty::TArray { len, elem } => r is TArray && r->TArray_len == len && is_norm(tb, n, *elem, *r->TArray_elem),
        Ty::TVec { elem } => r is TVec && is_norm(tb, n, *elem, *r->TVec_elem),
        Ty::TRef { elem } => r is TRef && is_norm(tb, n, *elem, *r->TRef_elem),
        Ty::TFunc { params, ret_ty } => r is TFunc && is_norm(tb, n, *ret_ty, *r->TFunc_ret_ty) && r->TFunc_params@.len() == params@.len()
            && forall|i: int| 0 <= i < params@.len() ==> is_norm(tb, n, #[trigger] params@[i], r->TFunc_params@[i]),
        Ty::TEnum { name } => r is TEnum && r->TEnum_name@ == name@,
        Ty::TStruct { name } => r is TStruct && r->TStruct_name@ == name@,
        Ty::TDyn { trait_name } => r is TDyn && r->TDyn_trait_name@ == trait_name@,
        Ty::TParam { name } => r is TParam && r->TParam_name@ == name@,
        _ => r == t,
    }
}
// a larger bound changes nothing
pub proof fn lemma_norm_mono(tb: Map<TypeVar, Ty>, n: nat, m: nat, t: Ty, r: Ty)
    requires is_norm(tb, n, t, r), n <= m,
    ensures is_norm(tb, m, t, r),
    decreases n, t,
{
    match t {
        Ty::TVar(v) => { if tb.contains_key(v) { lemma_norm_mono(tb, (n - 1) as nat, (m - 1) as nat, tb[v], r); } }
        Ty::TTuple { typs } => {
            assert forall|i: int| 0 <= i < typs@.len() implies is_norm(tb, m, #[trigger] typs@[i], r->TTuple_typs@[i]) by { lemma_norm_mono(tb, n, m, typs@[i], r->TTuple_typs@[i]); }
        }
        Ty::TApp { ty, args } => {
            lemma_norm_mono(tb, n, m, *ty, *r->TApp_ty);
            assert forall|i: int| 0 <= i < args@.len() implies is_norm(tb, m, #[trigger] args@[i], r->TApp_args@[i]) by { lemma_norm_mono(tb, n, m, args@[i], r->TApp_args@[i]); }
        }
        Ty::TArray { len: _, elem } => { lemma_norm_mono(tb, n, m, *elem, *r->TArray_elem); }
        Ty::TVec { elem } => { lemma_norm_mono(tb, n, m, *elem, *r->TVec_elem); }
        Ty::TRef { elem } => { lemma_norm_mono(tb, n, m, *elem, *r->TRef_elem); }
        Ty::TFunc { params, ret_ty } => {
            lemma_norm_mono(tb, n, m, *ret_ty, *r->TFunc_ret_ty);
            assert forall|i: int| 0 <= i < params@.len() implies is_norm(tb, m, #[trigger] params@[i], r->TFunc_params@[i]) by { lemma_norm_mono(tb, n, m, params@[i], r->TFunc_params@[i]); }
        }
        _ => {}
    }
}
// no inference variable that has a binding is left anywhere in the type
pub open spec fn resolved(tb: Map<TypeVar, Ty>, r: Ty) -> bool
    decreases r,
{
    match r {
        Ty::TVar(v) => !tb.contains_key(v),
        Ty::TTuple { typs } => forall|i: int| 0 <= i < typs@.len() ==> resolved(tb, #[trigger] typs@[i]),
        Ty::TApp { ty, args } => resolved(tb, *ty) && forall|i: int| 0 <= i < args@.len() ==> resolved(tb, #[trigger] args@[i]),
        Ty::TArray { len: _, elem } => resolved(tb, *elem),
        Ty::TVec { elem } => resolved(tb, *elem),
        Ty::TRef { elem } => resolved(tb, *elem),
        Ty::TFunc { params, ret_ty } => resolved(tb, *ret_ty) && forall|i: int| 0 <= i < params@.len() ==> resolved(tb, #[trigger] params@[i]),
        _ => true,
    }
}
// C20 (lemma over the contract): a normalised type reports no inference variable the compiler has assigned a type to
pub proof fn lemma_norm_resolved(tb: Map<TypeVar, Ty>, n: nat, t: Ty, r: Ty)
    requires is_norm(tb, n, t, r),
    ensures resolved(tb, r),
    decreases n, t,
{
    match t {
        Ty::TVar(v) => { if tb.contains_key(v) { lemma_norm_resolved(tb, (n - 1) as nat, tb[v], r); } }
        Ty::TTuple { typs } => {
            assert forall|i: int| 0 <= i < r->TTuple_typs@.len() implies resolved(tb, #[trigger] r->TTuple_typs@[i]) by { lemma_norm_resolved(tb, n, typs@[i], r->TTuple_typs@[i]); }
        }
        Ty::TApp { ty, args } => {
            lemma_norm_resolved(tb, n, *ty, *r->TApp_ty);
            assert forall|i: int| 0 <= i < r->TApp_args@.len() implies resolved(tb, #[trigger] r->TApp_args@[i]) by { lemma_norm_resolved(tb, n, args@[i], r->TApp_args@[i]); }
        }
        Ty::TArray { len: _, elem } => { lemma_norm_resolved(tb, n, *elem, *r->TArray_elem); }
        Ty::TVec { elem } => { lemma_norm_resolved(tb, n, *elem, *r->TVec_elem); }
        Ty::TRef { elem } => { lemma_norm_resolved(tb, n, *elem, *r->TRef_elem); }
        Ty::TFunc { params, ret_ty } => {
            lemma_norm_resolved(tb, n, *ret_ty, *r->TFunc_ret_ty);
            assert forall|i: int| 0 <= i < r->TFunc_params@.len() implies resolved(tb, #[trigger] r->TFunc_params@[i]) by { lemma_norm_resolved(tb, n, params@[i], r->TFunc_params@[i]); }
        }
        _ => {}
    }
}
