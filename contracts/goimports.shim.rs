// ---- shims / specification for U-GOIMPORTS (C13: the import block of the emitted Go file is a function of the program) ----
#[verifier::external_body] pub struct Ty { _p: u64 }
pub trait VClone: Sized { fn vclone(&self) -> (r: Self) ensures r == *self; }
impl VClone for String { #[verifier::external_body] fn vclone(&self) -> (r: Self) { unimplemented!() } }
// IndexSet<String> used as "seen" set: insert says whether the element is new
#[verifier::external_body] pub struct SeenSet { _p: u64 }
impl View for SeenSet { type V = Set<Seq<char>>; uninterp spec fn view(&self) -> Set<Seq<char>>; }
impl SeenSet {
    #[verifier::external_body] pub fn insert(&mut self, k: String) -> (r: bool) ensures r == !old(self)@.contains(k@), final(self)@ == old(self)@.insert(k@) { unimplemented!() }
}
// IndexMap<String, V>: `values()` walks the entries in INSERTION order — a function of how the environment was built, not of hashing
#[verifier::external_body] #[verifier::reject_recursive_types(V)] pub struct OrderedMap<V> { _v: core::marker::PhantomData<V> }
impl<V> OrderedMap<V> {
    pub uninterp spec fn vals(&self) -> Seq<V>;
    #[verifier::external_body] pub fn values_vec(&self) -> (r: Vec<&V>) ensures r@.len() == self.vals().len(), forall|i: int| 0 <= i < r@.len() ==> *(#[trigger] r@[i]) == self.vals()[i] { unimplemented!() }
}
pub struct ValueEnv { pub extern_funcs: OrderedMap<ExternFunc> }
pub struct TypeEnv { pub extern_types: OrderedMap<ExternType> }
pub struct GlobalTypeEnv { pub value_env: ValueEnv, pub type_env: TypeEnv }
pub struct GlobalGoEnv { pub genv: GlobalTypeEnv }

// the Go packages the extern declarations name: those of the extern functions, then those of the extern types that have one, in table order
pub open spec fn fn_paths(fs: Seq<ExternFunc>) -> Seq<Seq<char>> { fs.map_values(|f: ExternFunc| f.package_path@) }
#[verifier::opaque]
pub open spec fn ty_paths(ts: Seq<ExternType>) -> Seq<Seq<char>>
    decreases ts.len(),
{
    if ts.len() == 0 { seq![] } else {
        let rest = ty_paths(ts.drop_last());
        match ts.last().package_path { Some(p) => rest.push(p@), None => rest }
    }
}
// every path not seen before, ONCE, in order of first occurrence
#[verifier::opaque]
pub open spec fn fresh_in_order(seen: Set<Seq<char>>, xs: Seq<Seq<char>>) -> Seq<Seq<char>>
    decreases xs.len(),
{
    if xs.len() == 0 { seq![] } else {
        let before = fresh_in_order(seen, xs.drop_last());
        if seen.contains(xs.last()) || xs.drop_last().contains(xs.last()) { before } else { before.push(xs.last()) }
    }
}
pub open spec fn spec_paths(s: Seq<ImportSpec>) -> Seq<Seq<char>> { s.map_values(|i: ImportSpec| i.path@) }
pub open spec fn no_alias(s: Seq<ImportSpec>) -> bool { forall|i: int| 0 <= i < s.len() ==> (#[trigger] s[i]).alias is None }
// ---- lemmas ----
pub proof fn lemma_push_contains(s: Seq<Seq<char>>, x: Seq<char>)
    ensures forall|a: Seq<char>| s.push(x).contains(a) <==> (s.contains(a) || a == x),
{
    assert forall|a: Seq<char>| s.push(x).contains(a) <==> (s.contains(a) || a == x) by {
        if s.push(x).contains(a) {
            let i = choose|i: int| 0 <= i < s.push(x).len() && s.push(x)[i] == a;
            if i < s.len() { assert(s[i] == a); }
        }
        if s.contains(a) {
            let i = choose|i: int| 0 <= i < s.len() && s[i] == a;
            assert(s.push(x)[i] == a);
        }
        if a == x { assert(s.push(x)[s.len() as int] == a); }
    }
}
// one more path x after the paths `done`: it is added exactly when it is new, and the set of seen paths grows by x
pub proof fn lemma_fresh_push(seen: Set<Seq<char>>, done: Seq<Seq<char>>, x: Seq<char>)
    ensures fresh_in_order(seen, done.push(x)) == (if seen.union(done.to_set()).contains(x) { fresh_in_order(seen, done) } else { fresh_in_order(seen, done).push(x) }),
            seen.union(done.push(x).to_set()) == seen.union(done.to_set()).insert(x),
{
    reveal(fresh_in_order);
    assert(done.push(x).drop_last() =~= done);
    assert(done.push(x).last() == x);
    lemma_push_contains(done, x);
    assert(seen.union(done.push(x).to_set()) =~= seen.union(done.to_set()).insert(x));
}
pub proof fn lemma_fn_paths_step(fs: Seq<ExternFunc>, k: int)
    requires 0 <= k < fs.len(),
    ensures fn_paths(fs.subrange(0, k + 1)) == fn_paths(fs.subrange(0, k)).push(fs[k].package_path@),
{
    assert(fn_paths(fs.subrange(0, k + 1)) =~= fn_paths(fs.subrange(0, k)).push(fs[k].package_path@));
}
pub proof fn lemma_ty_paths_step(ts: Seq<ExternType>, k: int)
    requires 0 <= k < ts.len(),
    ensures ty_paths(ts.subrange(0, k + 1)) == (match ts[k].package_path { Some(p) => ty_paths(ts.subrange(0, k)).push(p@), None => ty_paths(ts.subrange(0, k)) }),
{
    reveal(ty_paths);
    assert(ts.subrange(0, k + 1).drop_last() =~= ts.subrange(0, k));
    assert(ts.subrange(0, k + 1).last() == ts[k]);
}
pub proof fn lemma_empty(seen: Set<Seq<char>>)
    ensures fresh_in_order(seen, Seq::<Seq<char>>::empty()) == Seq::<Seq<char>>::empty(), ty_paths(Seq::<ExternType>::empty()) == Seq::<Seq<char>>::empty(),
{
    reveal(fresh_in_order); reveal(ty_paths);
}

