// ---- shims / specification for U-CCVARIANTS (C20: a completion offered after `Enum::` names a variant the enum has) ----
#[verifier::external_body] pub struct Ty { _p: u64 }
pub struct TastIdent(pub String);
#[verifier::external_body] pub fn string_of(s: &str) -> (r: String) ensures r@ == s@ { unimplemented!() }                  // `s.to_string()`
#[verifier::external_body] pub fn string_clone(s: &String) -> (r: String) ensures r@ == s@ { unimplemented!() }           // `s.clone()`
#[verifier::external_body] pub fn payload_text(payload: &Vec<Ty>) -> (r: String) { unimplemented!() }                     // the payload types pretty-printed and joined with ", "
#[verifier::external_body] pub fn rt_msg() -> (r: String) { unimplemented!() }
// the items offered for the variants: whatever is added names a variant the enum HAS (which of them are offered, in which order and with which detail is not the property's business);
// what was collected before is kept
pub open spec fn is_variant(variants: Seq<(TastIdent, Vec<Ty>)>, name: Seq<char>) -> bool { exists|j: int| 0 <= j < variants.len() && (#[trigger] variants[j]).0.0@ == name }
pub open spec fn variants_offered(variants: Seq<(TastIdent, Vec<Ty>)>, before: Seq<ColonColonCompletionItem>, after: Seq<ColonColonCompletionItem>) -> bool {
    after.len() >= before.len() && after.subrange(0, before.len() as int) =~= before
    && forall|i: int| before.len() <= i < after.len() ==> is_variant(variants, (#[trigger] after[i]).name@)
}
// ---- trait methods (fragment cc_trait_methods) ----
#[verifier::external_body] pub struct FnScheme { _p: u64 }
#[verifier::external_body] pub fn scheme_text(s: &FnScheme) -> (r: String) { unimplemented!() }                 // scheme.ty.to_pretty(80)
#[verifier::external_body]
#[verifier::reject_recursive_types(K)]
#[verifier::reject_recursive_types(V)]
pub struct IndexMap<K, V> { _k: core::marker::PhantomData<(K, V)> }
impl<V> IndexMap<String, V> {
    pub uninterp spec fn view(&self) -> Map<Seq<char>, V>;
    // iter(): every entry once, in an order this shim does not specify
    #[verifier::external_body]
    pub fn entries(&self) -> (r: Vec<(&String, &V)>) ensures forall|i: int| 0 <= i < r@.len() ==> self@.contains_key((#[trigger] r@[i]).0@) { unimplemented!() }
}
pub struct TraitDef { pub methods: IndexMap<String, FnScheme> }
// whatever is added names a method the trait's definition HAS; what was collected before is kept
pub open spec fn methods_offered(methods: Map<Seq<char>, FnScheme>, before: Seq<ColonColonCompletionItem>, after: Seq<ColonColonCompletionItem>) -> bool {
    after.len() >= before.len() && after.subrange(0, before.len() as int) =~= before
    && forall|i: int| before.len() <= i < after.len() ==> methods.contains_key((#[trigger] after[i]).name@)
}
