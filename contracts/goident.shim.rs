// ---- shims / specification for U-GOIDENT (C19: generated names are legal Go identifiers and never Go keywords) ----
pub open spec fn is_alpha(c: char) -> bool { ('a' <= c && c <= 'z') || ('A' <= c && c <= 'Z') }
pub open spec fn is_digit(c: char) -> bool { '0' <= c && c <= '9' }
pub open spec fn is_alnum(c: char) -> bool { is_alpha(c) || is_digit(c) }
// Go (ASCII subset the compiler relies on): a letter or `_`, then letters, digits and `_`
pub open spec fn legal_go_ident(s: Seq<char>) -> bool {
    s.len() > 0 && (is_alpha(s[0]) || s[0] == '_') && forall|i: int| 0 <= i < s.len() ==> is_alnum(#[trigger] s[i]) || s[i] == '_'
}
// the 25 keywords of the Go language specification
pub open spec fn go_keyword(s: Seq<char>) -> bool {
    s == "break"@ || s == "default"@ || s == "func"@ || s == "interface"@ || s == "select"@ || s == "case"@ || s == "defer"@ || s == "go"@
    || s == "map"@ || s == "struct"@ || s == "chan"@ || s == "else"@ || s == "goto"@ || s == "package"@ || s == "switch"@ || s == "const"@
    || s == "fallthrough"@ || s == "if"@ || s == "range"@ || s == "type"@ || s == "continue"@ || s == "for"@ || s == "import"@
    || s == "return"@ || s == "var"@
}
// identifiers of Go's universe block (plus the imported package name `fmt`) that a goml program can choose as a name — goml's own type names
// and `true` / `false` are keywords of goml and never reach go_ident as user names.  The emitted code and the runtime use these unqualified
pub open spec fn go_predeclared(s: Seq<char>) -> bool {
    s == "any"@ || s == "byte"@ || s == "comparable"@ || s == "complex64"@ || s == "complex128"@ || s == "error"@ || s == "int"@ || s == "rune"@
    || s == "uint"@ || s == "uintptr"@ || s == "iota"@ || s == "nil"@ || s == "append"@ || s == "cap"@ || s == "clear"@ || s == "close"@
    || s == "complex"@ || s == "copy"@ || s == "delete"@ || s == "imag"@ || s == "len"@ || s == "make"@ || s == "max"@ || s == "min"@
    || s == "new"@ || s == "panic"@ || s == "print"@ || s == "println"@ || s == "real"@ || s == "recover"@ || s == "fmt"@
    // not predeclared but just as unusable for a user function: Go's `init` (no arguments, no results, cannot be called) and `main0`, the name the
    // entry function is emitted under
    || s == "init"@ || s == "main0"@
}
// a name the emitted Go must not define at package level
pub open spec fn go_reserved(s: Seq<char>) -> bool { go_keyword(s) || go_predeclared(s) }
// ---- std string / char functions (assumed semantics) ----
#[verifier::external_body] pub fn str_eq(a: &str, b: &str) -> (r: bool) ensures r == (a@ == b@) { unimplemented!() }
#[verifier::external_body] pub fn str_to_string(s: &str) -> (r: String) ensures r@ == s@ { unimplemented!() }                // s.to_string()
#[verifier::external_body] pub fn string_from(s: &str) -> (r: String) ensures r@ == s@ { unimplemented!() }                  // String::from(s)
#[verifier::external_body] pub fn str_chars(s: &str) -> (r: Vec<char>) ensures r@ == s@ { unimplemented!() }                 // s.chars()
#[verifier::external_body] pub fn char_is_ascii_alnum(c: char) -> (r: bool) ensures r == is_alnum(c) { unimplemented!() }    // c.is_ascii_alphanumeric()
#[verifier::external_body] pub fn string_push(s: &mut String, c: char) ensures final(s)@ == old(s)@.push(c) { unimplemented!() }
#[verifier::external_body] pub fn string_push_str(s: &mut String, t: &str) ensures final(s)@ == old(s)@ + t@ { unimplemented!() }
// `for b in ch.encode_utf8(&mut buf).as_bytes() { write!(&mut out, "{:02x}", b) }`: two lower-case hex digits per UTF-8 byte of the character
pub open spec fn is_hex(c: char) -> bool { is_digit(c) || ('a' <= c && c <= 'f') }
#[verifier::external_body]
pub fn push_hex_of_char(s: &mut String, c: char)
    ensures final(s)@.len() >= old(s)@.len() + 2,
            forall|i: int| 0 <= i < old(s)@.len() ==> #[trigger] final(s)@[i] == old(s)@[i],
            forall|i: int| old(s)@.len() <= i < final(s)@.len() ==> is_hex(#[trigger] final(s)@[i]),
{ unimplemented!() }
// `s.as_bytes()`: ASCII text is its own bytes; any other character contributes a byte >= 0x80
pub open spec fn all_ascii(s: Seq<char>) -> bool { forall|i: int| 0 <= i < s.len() ==> (#[trigger] s[i] as u32) < 128 }
#[verifier::external_body]
pub fn str_as_bytes(s: &str) -> (r: Vec<u8>)
    ensures (r@.len() == 0) == (s@.len() == 0),
            all_ascii(s@) ==> r@.len() == s@.len() && forall|i: int| 0 <= i < r@.len() ==> #[trigger] r@[i] as u32 == s@[i] as u32,
            !all_ascii(s@) ==> exists|i: int| 0 <= i < r@.len() && #[trigger] r@[i] >= 128,
            s@.len() > 0 && (s@[0] as u32) < 128 ==> r@[0] as u32 == s@[0] as u32,
            s@.len() > 0 && (s@[0] as u32) >= 128 ==> r@[0] >= 128,
{ unimplemented!() }
#[verifier::external_body] pub fn u8_is_ascii_alphabetic(b: u8) -> (r: bool) ensures r == ((97 <= b && b <= 122) || (65 <= b && b <= 90)) { unimplemented!() }
#[verifier::external_body] pub fn u8_is_ascii_alphanumeric(b: u8) -> (r: bool) ensures r == ((97 <= b && b <= 122) || (65 <= b && b <= 90) || (48 <= b && b <= 57)) { unimplemented!() }
pub open spec fn u8_alnum(b: u8) -> bool { (97 <= b && b <= 122) || (65 <= b && b <= 90) || (48 <= b && b <= 57) }
#[verifier::external_body] pub fn vec_tail_u8(v: &Vec<u8>) -> (r: Vec<u8>) requires v@.len() > 0, ensures r@ == v@.subrange(1, v@.len() as int) { unimplemented!() }   // split_first's rest
// "_goml_" is six legal identifier characters starting with `_`; a name with that prefix is no keyword
pub proof fn lemma_goml_prefix()
    ensures "_goml_"@.len() == 6, forall|i: int| 0 <= i < 6 ==> is_alnum(#[trigger] "_goml_"@[i]) || "_goml_"@[i] == '_', "_goml_"@[0] == '_',
{
    reveal_strlit("_goml_");
}
// no reserved name starts with `_`
pub proof fn lemma_underscore_not_reserved(s: Seq<char>)
    requires s.len() > 0, s[0] == '_',
    ensures !go_reserved(s),
{
    reveal_strlit("break"); reveal_strlit("default"); reveal_strlit("func"); reveal_strlit("interface"); reveal_strlit("select");
    reveal_strlit("case"); reveal_strlit("defer"); reveal_strlit("go"); reveal_strlit("map"); reveal_strlit("struct"); reveal_strlit("chan");
    reveal_strlit("else"); reveal_strlit("goto"); reveal_strlit("package"); reveal_strlit("switch"); reveal_strlit("const");
    reveal_strlit("fallthrough"); reveal_strlit("if"); reveal_strlit("range"); reveal_strlit("type"); reveal_strlit("continue");
    reveal_strlit("for"); reveal_strlit("import"); reveal_strlit("return"); reveal_strlit("var");
    reveal_strlit("any"); reveal_strlit("byte"); reveal_strlit("comparable"); reveal_strlit("complex64"); reveal_strlit("complex128");
    reveal_strlit("error"); reveal_strlit("int"); reveal_strlit("rune"); reveal_strlit("uint"); reveal_strlit("uintptr"); reveal_strlit("iota");
    reveal_strlit("nil"); reveal_strlit("append"); reveal_strlit("cap"); reveal_strlit("clear"); reveal_strlit("close"); reveal_strlit("complex");
    reveal_strlit("copy"); reveal_strlit("delete"); reveal_strlit("imag"); reveal_strlit("len"); reveal_strlit("make"); reveal_strlit("max");
    reveal_strlit("min"); reveal_strlit("new"); reveal_strlit("panic"); reveal_strlit("print"); reveal_strlit("println"); reveal_strlit("real");
    reveal_strlit("recover"); reveal_strlit("fmt"); reveal_strlit("init"); reveal_strlit("main0");
}
// bytes vs characters: what is_valid_go_ident's byte tests say about the text
pub proof fn lemma_bytes_legal(s: Seq<char>, bytes: Seq<u8>, q: bool)
    requires
        bytes.len() > 0, s.len() > 0,
        all_ascii(s) ==> bytes.len() == s.len() && forall|i: int| 0 <= i < bytes.len() ==> #[trigger] bytes[i] as u32 == s[i] as u32,
        !all_ascii(s) ==> exists|i: int| 0 <= i < bytes.len() && #[trigger] bytes[i] >= 128,
        (s[0] as u32) < 128 ==> bytes[0] as u32 == s[0] as u32,
        (s[0] as u32) >= 128 ==> bytes[0] >= 128,
        (97 <= bytes[0] && bytes[0] <= 122) || (65 <= bytes[0] && bytes[0] <= 90) || bytes[0] == 95u8,
        q ==> forall|j: int| 1 <= j < bytes.len() ==> (u8_alnum(#[trigger] bytes[j]) || bytes[j] == 95u8),
        !q ==> exists|j: int| 1 <= j < bytes.len() && !(u8_alnum(#[trigger] bytes[j]) || bytes[j] == 95u8),
    ensures q == legal_go_ident(s),
{
    if all_ascii(s) {
        if q {
            assert forall|i: int| 0 <= i < s.len() implies is_alnum(#[trigger] s[i]) || s[i] == '_' by {
                assert(bytes[i] as u32 == s[i] as u32);
                if i >= 1 { assert(u8_alnum(bytes[i]) || bytes[i] == 95u8); }
            }
            assert(bytes[0] as u32 == s[0] as u32);
        } else {
            let j = choose|j: int| 1 <= j < bytes.len() && !(u8_alnum(#[trigger] bytes[j]) || bytes[j] == 95u8);
            assert(bytes[j] as u32 == s[j] as u32);
            assert(!(is_alnum(s[j]) || s[j] == '_'));
        }
    } else {
        let i = choose|i: int| 0 <= i < s.len() && !((#[trigger] s[i] as u32) < 128);
        assert(!(is_alnum(s[i]) || s[i] == '_'));
        let k = choose|k: int| 0 <= k < bytes.len() && #[trigger] bytes[k] >= 128;
        assert(k >= 1);
        assert(!(u8_alnum(bytes[k]) || bytes[k] == 95u8));
    }
}

