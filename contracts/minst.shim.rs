// ---- shims for U-MINST (C07): mono::Ctx::ensure_instance, the instance table and the work list ----
#[verifier::external_body] pub struct Ty { _p: u64 }                    // tast::Ty (only carried around here)
#[verifier::external_body] pub struct CoreFn { _p: u64 }                // core::Fn
#[verifier::external_body] pub struct MonoFn { _p: u64 }
#[verifier::external_body] #[verifier::reject_recursive_types(K)] #[verifier::reject_recursive_types(V)]
pub struct AnyMap<K, V> { _k: std::marker::PhantomData<(K, V)> }
// Subst = IndexMap<String, Ty>: only its contents matter
#[verifier::external_body] pub struct Subst { _p: u64 }
impl Subst { pub uninterp spec fn view(&self) -> Map<Seq<char>, Ty>; }
// SubstKey::new(&s): the substitution's entries sorted by parameter name — a canonical form of its CONTENTS (assumed: two
// substitutions have equal keys exactly when they have equal contents)
#[verifier::external_body] pub struct SubstKey { _p: u64 }
impl SubstKey {
    pub uninterp spec fn view(&self) -> Map<Seq<char>, Ty>;
    #[verifier::external_body] pub fn new(s: &Subst) -> (r: SubstKey) ensures r@ == s@ { unimplemented!() }
}
pub trait VClone: Sized { fn vclone(&self) -> (r: Self) ensures r == *self; }
impl VClone for SubstKey { #[verifier::external_body] fn vclone(&self) -> (r: Self) { unimplemented!() } }
impl VClone for Subst { #[verifier::external_body] fn vclone(&self) -> (r: Self) { unimplemented!() } }
impl VClone for String { #[verifier::external_body] fn vclone(&self) -> (r: Self) { unimplemented!() } }
#[verifier::external_body] pub fn str_to_string(s: &str) -> (r: String) ensures r@ == s@ { unimplemented!() }
// the name of the instance of `orig` at substitution s (spec_name_for: `orig__K1_T1__K2_T2..` over the entries sorted by name, so
// a function of the contents); uninterpreted — injectivity of the encoding is NOT claimed
pub uninterp spec fn inst_name(orig: Seq<char>, s: Map<Seq<char>, Ty>) -> Seq<char>;
#[verifier::external_body] pub fn spec_name_for(orig: &str, s: &Subst) -> (r: String) ensures r@ == inst_name(orig@, s@) { unimplemented!() }

pub type IKey = (Seq<char>, Map<Seq<char>, Ty>);
// IndexMap<(String, SubstKey), String>
#[verifier::external_body] pub struct InstTab { _p: u64 }
impl InstTab {
    pub uninterp spec fn view(&self) -> Map<IKey, Seq<char>>;
    #[verifier::external_body]
    pub fn get(&self, k: &(String, SubstKey)) -> (r: Option<&String>)
        ensures r matches Some(v) ==> self@.contains_key((k.0@, k.1@)) && v@ == self@[(k.0@, k.1@)], r is None ==> !self@.contains_key((k.0@, k.1@)),
    { unimplemented!() }
    #[verifier::external_body]
    pub fn insert(&mut self, k: (String, SubstKey), v: String) -> (r: Option<String>)
        ensures final(self)@ == old(self)@.insert((k.0@, k.1@), v@),
    { unimplemented!() }
}
// IndexSet<(String, SubstKey)>
#[verifier::external_body] pub struct QSet { _p: u64 }
impl QSet {
    pub uninterp spec fn view(&self) -> Set<IKey>;
    #[verifier::external_body] pub fn contains(&self, k: &(String, SubstKey)) -> (r: bool) ensures r == self@.contains((k.0@, k.1@)) { unimplemented!() }
    #[verifier::external_body] pub fn insert(&mut self, k: (String, SubstKey)) -> (r: bool) ensures final(self)@ == old(self)@.insert((k.0@, k.1@)) { unimplemented!() }
}
// VecDeque<(String, Subst, String)>: (generic function, substitution, instance name) still to be generated
#[verifier::external_body] pub struct WorkQ { _p: u64 }
impl WorkQ {
    pub uninterp spec fn view(&self) -> Seq<(Seq<char>, Map<Seq<char>, Ty>, Seq<char>)>;
    #[verifier::external_body] pub fn push_back(&mut self, e: (String, Subst, String)) ensures final(self)@ == old(self)@.push((e.0@, e.1@, e.2@)) { unimplemented!() }
}
impl Ctx {
    // every named instance carries the name spec_name_for gives it, and the queued set is exactly the set of named instances
    // (ensure_instance is the only writer of both)
    pub open spec fn wf(&self) -> bool {
        &&& forall|k: IKey| self.instances@.contains_key(k) ==> #[trigger] self.instances@[k] == inst_name(k.0, k.1)
        &&& self.queued@ =~= self.instances@.dom()
    }
}
