// ---- the ACExpr arm of compile_aexpr_effect: the single call site of compile_cexpr_effect ----
#[verifier::external_body] pub struct Gensym { _p: u64 }
#[verifier::external_body] pub fn compile_imm(goenv: &GlobalGoEnv, imm: &ImmExpr) -> (r: Expr) { unimplemented!() }
// the recursive call and the two other control-flow lowerings: arbitrary statement lists (their own contracts live in U-CTRL / U-SWITCH)
#[verifier::external_body] pub fn compile_aexpr_effect(goenv: &GlobalGoEnv, gensym: &Gensym, e: AExpr) -> (r: Vec<Stmt>) { unimplemented!() }
#[verifier::external_body] pub fn compile_while(goenv: &GlobalGoEnv, gensym: &Gensym, cond: AExpr, body: AExpr) -> (r: Vec<Stmt>) { unimplemented!() }
// compile_match_branches(goenv, scrutinee, arms, default, |branch| compile_aexpr_effect(goenv, gensym, branch))
#[verifier::external_body] pub fn compile_match_effect(goenv: &GlobalGoEnv, gensym: &Gensym, scrutinee: &ImmExpr, arms: &Vec<Arm>, default: &Option<Box<AExpr>>) -> (r: Vec<Stmt>) { unimplemented!() }
#[verifier::external_body] pub fn unbox_aexpr(b: Box<AExpr>) -> (r: AExpr) ensures r == *b { unimplemented!() }
#[verifier::external_body] pub fn box_as_ref_imm(b: &Box<ImmExpr>) -> (r: &ImmExpr) ensures *r == **b { unimplemented!() }
#[verifier::external_body] pub fn vec_one_stmt(s: Stmt) -> (r: Vec<Stmt>) ensures r@ == seq![s] { unimplemented!() }        // vec![s]

