// ---- shims / specification for U-FNBODY (C03: a function's body is checked against its DECLARED signature) ----
// hir::Fn: the three fields the fragment reads
pub struct HirFn { pub params: Vec<(LocalId, HirTypeExpr)>, pub ret_ty: Option<HirTypeExpr>, pub body: ExprId }
pub uninterp spec fn hir_ty(h: HirTypeExpr) -> Ty;                     // THE type a written annotation denotes (Ty::from_hir; the environment and type parameters are fixed within one function)
#[verifier::external_body] pub fn ty_from_hir(genv: &PackageTypeEnv, ty: &HirTypeExpr, tparams: &Vec<TastIdent>) -> (r: Ty) ensures r == hir_ty(*ty) { unimplemented!() }
#[verifier::external_body] pub fn local_copy(id: &LocalId) -> (r: LocalId) ensures r == *id { unimplemented!() }      // `*id` (LocalId is Copy)
impl LocalTypeEnv {
    #[verifier::external_body] pub fn set_tparams_env(&mut self, params: &Vec<TastIdent>) ensures forall|n: LocalId| final(self).bound(n) == old(self).bound(n) { unimplemented!() }
    #[verifier::external_body] pub fn clear_tparams_env(&mut self) { unimplemented!() }
    #[verifier::external_body] pub fn clear_tparam_trait_bounds(&mut self) { unimplemented!() }
    // insert_var with its frame: the other locals keep their binding
    #[verifier::external_body]
    pub fn insert_param(&mut self, name: LocalId, ty: Ty)
        ensures final(self).bound(name) == Some(ty), forall|n: LocalId| n != name ==> final(self).bound(n) == old(self).bound(n),
    { unimplemented!() }
}
// parameter i is the LAST one with its id (ids are fresh per parameter, so every one is)
pub open spec fn last_with_id(ps: Seq<(LocalId, HirTypeExpr)>, i: int) -> bool { forall|j: int| i < j < ps.len() ==> (#[trigger] ps[j]).0 != ps[i].0 }
pub open spec fn params_bound(ps: Seq<(LocalId, HirTypeExpr)>, env: LocalTypeEnv) -> bool {
    forall|i: int| 0 <= i < ps.len() && last_with_id(ps, i) ==> env.bound((#[trigger] ps[i]).0) == Some(hir_ty(ps[i].1))
}
pub open spec fn declared_ret(f: HirFn) -> Ty { match f.ret_ty { Some(h) => hir_ty(h), None => Ty::TUnit } }
impl Typer {
    pub uninterp spec fn body_checked(&self) -> bool;
    pub uninterp spec fn solved(&self) -> bool;
    // the call `typer.check_expr(.., f.body, &ret_ty)` of typecheck_fn: its precondition is the statement — the body, against the DECLARED result type (unit when none is
    // written), in an environment where every parameter has its DECLARED type
    #[verifier::external_body]
    pub fn check_body(&mut self, genv: &PackageTypeEnv, local_env: &mut LocalTypeEnv, diagnostics: &mut Diagnostics, e: ExprId, expected: &Ty, Ghost(f): Ghost<HirFn>) -> (r: Expr)
        requires e == f.body, *expected == declared_ret(f), params_bound(f.params@, *old(local_env)),
        ensures final(self).body_checked(),
    { unimplemented!() }
    #[verifier::external_body]
    pub fn solve(&mut self, genv: &PackageTypeEnv, diagnostics: &mut Diagnostics) requires old(self).body_checked(), ensures final(self).solved() { unimplemented!() }
}
// ---- methods of an impl block (fragment method_body_checked): the declared types with `Self` replaced by the impl's type ----
pub uninterp spec fn self_inst(t: Ty, for_ty: Ty) -> Ty;               // instantiate_self_ty (U-SELFTY)
#[verifier::external_body] pub fn instantiate_self_ty(ty: &Ty, for_ty: &Ty) -> (r: Ty) ensures r == self_inst(*ty, *for_ty) { unimplemented!() }
pub open spec fn params_bound_m(ps: Seq<(LocalId, HirTypeExpr)>, for_ty: Ty, env: LocalTypeEnv) -> bool {
    forall|i: int| 0 <= i < ps.len() && last_with_id(ps, i) ==> env.bound((#[trigger] ps[i]).0) == Some(self_inst(hir_ty(ps[i].1), for_ty))
}
pub open spec fn declared_ret_m(f: HirFn, for_ty: Ty) -> Ty { match f.ret_ty { Some(h) => self_inst(hir_ty(h), for_ty), None => Ty::TUnit } }
impl Typer {
    #[verifier::external_body]
    pub fn check_body_m(&mut self, genv: &PackageTypeEnv, local_env: &mut LocalTypeEnv, diagnostics: &mut Diagnostics, e: ExprId, expected: &Ty, Ghost(f): Ghost<HirFn>, Ghost(for_ty): Ghost<Ty>) -> (r: Expr)
        requires e == f.body, *expected == declared_ret_m(f, for_ty), params_bound_m(f.params@, for_ty, *old(local_env)),
        ensures final(self).body_checked(),
    { unimplemented!() }
}
#[verifier::external_body] pub fn tparams_of(all_generics: &Vec<HirIdent>) -> (r: Vec<TastIdent>) { unimplemented!() }      // all_generics.iter().map(|g| TastIdent(g.to_ident_name())).collect()
// ---- define_function (the scheme callers are checked against) ----
pub struct HirFnDef { pub name: String, pub generics: Vec<HirIdent>, pub params: Vec<(LocalId, HirTypeExpr)>, pub ret_ty: Option<HirTypeExpr> }      // hir::Fn: the fields define_function reads
#[verifier::external_body] pub struct TParamNames { _p: u64 }
#[verifier::external_body] pub fn type_param_name_set(generics: &Vec<HirIdent>) -> (r: TParamNames) { unimplemented!() }
#[verifier::external_body] pub fn validate_ty(env: &PackageTypeEnv, diagnostics: &mut Diagnostics, ty: &Ty, tparams: &TParamNames) { unimplemented!() }
// `env.current_mut().value_env.funcs.insert(name, scheme)`: the function table of the package being checked
impl PackageTypeEnv { pub uninterp spec fn func_scheme(&self, name: Seq<char>) -> Option<FnScheme>; }
#[verifier::external_body]
pub fn insert_func(env: &mut PackageTypeEnv, name: String, scheme: FnScheme) ensures final(env).func_scheme(name@) == Some(scheme) { unimplemented!() }
pub open spec fn declared_params(ps: Seq<(LocalId, HirTypeExpr)>, tys: Seq<Ty>) -> bool { tys.len() == ps.len() && forall|i: int| 0 <= i < ps.len() ==> #[trigger] tys[i] == hir_ty(ps[i].1) }
// the scheme recorded for a function: its declared parameter types in order -> its declared result type (unit when none is written)
pub open spec fn scheme_declared(f: HirFnDef, s: Option<FnScheme>) -> bool {
    s matches Some(sc) && (sc.ty matches Ty::TFunc { params, ret_ty } && declared_params(f.params@, params@)
        && *ret_ty == (match f.ret_ty { Some(h) => hir_ty(h), None => Ty::TUnit }))
}
// ---- define_struct / define_enum (the definitions constructors, field accesses and patterns are checked against) ----
pub struct HirStructDef { pub name: HirIdent, pub generics: Vec<HirIdent>, pub fields: Vec<(HirIdent, HirTypeExpr)> }      // hir::StructDef: the fields define_struct reads
pub struct HirEnumDef { pub name: HirIdent, pub generics: Vec<HirIdent>, pub variants: Vec<(HirIdent, Vec<HirTypeExpr>)> }   // hir::EnumDef
impl PackageTypeEnv {
    pub uninterp spec fn struct_def(&self, name: Seq<char>) -> Option<StructDef>;
    pub uninterp spec fn enum_def(&self, name: Seq<char>) -> Option<EnumDef>;
}
#[verifier::external_body] pub fn insert_struct(env: &mut PackageTypeEnv, def: StructDef) ensures final(env).struct_def(def.name.0@) == Some(def) { unimplemented!() }   // env.current_mut().insert_struct(def)
#[verifier::external_body] pub fn insert_enum(env: &mut PackageTypeEnv, def: EnumDef) ensures final(env).enum_def(def.name.0@) == Some(def) { unimplemented!() }
pub open spec fn names_of(hs: Seq<HirIdent>, ts: Seq<TastIdent>) -> bool { ts.len() == hs.len() && forall|i: int| 0 <= i < hs.len() ==> (#[trigger] ts[i]).0@ == hs[i].text() }
pub open spec fn tys_of(hs: Seq<HirTypeExpr>, ts: Seq<Ty>) -> bool { ts.len() == hs.len() && forall|i: int| 0 <= i < hs.len() ==> #[trigger] ts[i] == hir_ty(hs[i]) }
// the recorded struct: the written name, the written type parameters in order, and field i = (written name, the type its annotation denotes), in order
pub open spec fn struct_declared(h: HirStructDef, d: Option<StructDef>) -> bool {
    d matches Some(s) && s.name.0@ == h.name.text() && names_of(h.generics@, s.generics@) && s.fields@.len() == h.fields@.len()
    && forall|i: int| 0 <= i < h.fields@.len() ==> (#[trigger] s.fields@[i]).0.0@ == h.fields@[i].0.text() && s.fields@[i].1 == hir_ty(h.fields@[i].1)
}
pub open spec fn enum_declared(h: HirEnumDef, d: Option<EnumDef>) -> bool {
    d matches Some(e) && e.name.0@ == h.name.text() && names_of(h.generics@, e.generics@) && e.variants@.len() == h.variants@.len()
    && forall|i: int| 0 <= i < h.variants@.len() ==> (#[trigger] e.variants@[i]).0.0@ == h.variants@[i].0.text() && tys_of(h.variants@[i].1@, e.variants@[i].1@)
}
// ---- define_trait (the method signatures trait calls and impls are checked against) ----
pub struct HirTraitMethodSignature { pub name: HirIdent, pub params: Vec<HirTypeExpr>, pub ret_ty: HirTypeExpr }
pub struct HirTraitDef { pub name: HirIdent, pub method_sigs: Vec<HirTraitMethodSignature> }
#[verifier::external_body] pub fn no_tparams() -> (r: Vec<TastIdent>) ensures r@.len() == 0 { unimplemented!() }          // `&[]`
#[verifier::external_body]
#[verifier::reject_recursive_types(V)]
pub struct MethodMap<V> { _v: core::marker::PhantomData<V> }                 // IndexMap<String, V>
impl<V> MethodMap<V> {
    pub uninterp spec fn view(&self) -> Map<Seq<char>, V>;
    #[verifier::external_body] pub fn new() -> (r: Self) ensures r@ == Map::<Seq<char>, V>::empty() { unimplemented!() }
    #[verifier::external_body] pub fn insert(&mut self, k: String, v: V) -> (r: Option<V>) ensures final(self)@ == old(self)@.insert(k@, v) { unimplemented!() }
}
pub struct TraitDefRec { pub methods: MethodMap<FnScheme> }                  // env::TraitDef
impl PackageTypeEnv { pub uninterp spec fn trait_def(&self, name: Seq<char>) -> Option<TraitDefRec>; }
#[verifier::external_body] pub fn insert_trait(env: &mut PackageTypeEnv, name: String, def: TraitDefRec) ensures final(env).trait_def(name@) == Some(def) { unimplemented!() }
pub open spec fn sig_scheme(sg: HirTraitMethodSignature, sc: FnScheme) -> bool {
    sc.ty matches Ty::TFunc { params, ret_ty } && tys_of(sg.params@, params@) && *ret_ty == hir_ty(sg.ret_ty)
}
// signature i is the LAST one of its name (a later one of the same name replaces it in the table)
pub open spec fn last_of_name(sigs: Seq<HirTraitMethodSignature>, n: int, i: int) -> bool { forall|j: int| i < j < n ==> (#[trigger] sigs[j]).name.text() != sigs[i].name.text() }
pub open spec fn methods_upto(sigs: Seq<HirTraitMethodSignature>, n: int, m: Map<Seq<char>, FnScheme>) -> bool {
    forall|i: int| 0 <= i < n && last_of_name(sigs, n, i) ==> m.contains_key((#[trigger] sigs[i]).name.text()) && sig_scheme(sigs[i], m[sigs[i].name.text()])
}
pub open spec fn trait_declared(h: HirTraitDef, d: Option<TraitDefRec>) -> bool {
    d matches Some(t) && methods_upto(h.method_sigs@, h.method_sigs@.len() as int, t.methods@)
}
