// ---- shims / specification for U-IMPORTNAME (C02: the name an import spec binds in Go) ----
#[verifier::external_body] pub fn str_to_string(s: &str) -> (r: String) ensures r@ == s@ { unimplemented!() }      // s.to_string()
#[verifier::external_body] pub fn string_clone(s: &String) -> (r: String) ensures r@ == s@ { unimplemented!() }    // s.clone()
// Go: `import "a/b/c"` binds the package under the LAST element of the path — the text after the last `/` (the whole path when there is none)
pub open spec fn last_seg_ok(p: Seq<char>, t: Seq<char>, c: char) -> bool { !t.contains(c) && (p == t || exists|pre: Seq<char>| p == pre + seq![c] + t) }
pub open spec fn binding_ok(s: ImportSpec, b: Seq<char>) -> bool { match s.alias { Some(a) => b == a@, None => last_seg_ok(s.path@, b, '/') } }
// std (ASSUMED): `s.rsplit(c).next()` / `s.split(c).last()` — the piece after the last c; there always is one
#[verifier::external_body] pub fn str_rsplit_next<'a>(s: &'a String, c: char) -> (r: Option<&'a str>) ensures r matches Some(t) && last_seg_ok(s@, t@, c) { unimplemented!() }
#[verifier::external_body] pub fn str_split_last<'a>(s: &'a String, c: char) -> (r: Option<&'a str>) ensures r matches Some(t) && last_seg_ok(s@, t@, c) { unimplemented!() }
// std (ASSUMED): `s.split(c).next()` — the piece before the FIRST c
#[verifier::external_body] pub fn str_split_next<'a>(s: &'a String, c: char) -> (r: Option<&'a str>)
    ensures r matches Some(t) && !t@.contains(c) && (s@ == t@ || exists|post: Seq<char>| s@ == t@ + seq![c] + post) { unimplemented!() }
// std (ASSUMED): `s.split_once(c)` splits at the FIRST c, `s.rsplit_once(c)` at the LAST one; None when there is no c
#[verifier::external_body] pub fn str_split_once_char<'a>(s: &'a String, c: char) -> (r: Option<(&'a str, &'a str)>)
    ensures r matches Some(ab) ==> s@ == ab.0@ + seq![c] + ab.1@ && !ab.0@.contains(c), r is None ==> !s@.contains(c) { unimplemented!() }
#[verifier::external_body] pub fn str_rsplit_once_char<'a>(s: &'a String, c: char) -> (r: Option<(&'a str, &'a str)>)
    ensures r matches Some(ab) ==> s@ == ab.0@ + seq![c] + ab.1@ && !ab.1@.contains(c), r is None ==> !s@.contains(c) { unimplemented!() }
