// ---- shims / specification for U-VARNAME (C19: the Go struct name of an enum variant) ----
// go::mangle::go_ident is verified by U-GOIDENT; here it is the deterministic function `gi` of its argument's text
pub uninterp spec fn gi(name: Seq<char>) -> Seq<char>;
#[verifier::external_body] pub fn go_ident(name: &str) -> (r: String) ensures r@ == gi(name@) { unimplemented!() }
#[verifier::external_body] pub fn str_eq(a: &str, b: &str) -> (r: bool) ensures r == (a@ == b@) { unimplemented!() }
// `format!("{}LIT{}", a, b)`: the two displayed strings with the literal between them
#[verifier::external_body] pub fn str_join3(a: &String, lit: &str, b: &String) -> (r: String) ensures r@ == a@ + lit@ + b@ { unimplemented!() }
#[verifier::external_body] pub fn tast_ident_str(i: &TastIdent) -> (r: &str) ensures r@ == i.0@ { unimplemented!() }   // `i.0.as_str()`

pub struct TastIdent(pub String);
#[verifier::external_body] pub struct Ty { _p: () }
pub struct EnumDef {
    pub name: TastIdent,
    pub generics: Vec<TastIdent>,
    pub variants: Vec<(TastIdent, Vec<Ty>)>,
}
#[verifier::external_body] pub struct GlobalGoEnv { _p: () }
// the enum definitions the Go back end sees (GlobalGoEnv::enums(), in its iteration order; the order plays no part in the contract)
pub uninterp spec fn env_enums(g: &GlobalGoEnv) -> Seq<EnumDef>;
#[verifier::external_body] pub fn goenv_enum_defs(g: &GlobalGoEnv) -> (r: Vec<EnumDef>) ensures r@ == env_enums(g) { unimplemented!() }

// the enum declares a variant with this name
pub open spec fn declares(e: EnumDef, v: Seq<char>) -> bool {
    exists|i: int| 0 <= i < e.variants@.len() && (#[trigger] e.variants@[i]).0.0@ == v
}
pub open spec fn count_decl(es: Seq<EnumDef>, v: Seq<char>) -> nat
    decreases es.len(),
{
    if es.len() == 0 { 0 } else { count_decl(es.drop_last(), v) + if declares(es.last(), v) { 1nat } else { 0nat } }
}
// C19: the variant name is declared by more than one enum, so the bare variant name would be ambiguous in the emitted Go
pub open spec fn shared_variant(g: &GlobalGoEnv, v: Seq<char>) -> bool { count_decl(env_enums(g), v) >= 2 }
// the name carries the mangled FULL name of the owning enum in front of the mangled variant name (any separator)
pub open spec fn qualified(r: Seq<char>, e: Seq<char>, v: Seq<char>) -> bool {
    exists|sep: Seq<char>| r == #[trigger] (gi(e) + sep + gi(v))
}
pub proof fn lemma_count_take_step(es: Seq<EnumDef>, k: int, v: Seq<char>)
    requires 0 <= k < es.len(),
    ensures count_decl(es.take(k + 1), v) == count_decl(es.take(k), v) + if declares(es[k], v) { 1nat } else { 0nat },
{
    assert(es.take(k + 1).drop_last() =~= es.take(k));
    assert(es.take(k + 1).last() == es[k]);
}
pub proof fn lemma_count_mono(es: Seq<EnumDef>, k: int, v: Seq<char>)
    requires 0 <= k <= es.len(),
    ensures count_decl(es.take(k), v) <= count_decl(es, v),
    decreases es.len() - k,
{
    if k < es.len() {
        lemma_count_take_step(es, k, v);
        lemma_count_mono(es, k + 1, v);
    } else {
        assert(es.take(k) =~= es);
    }
}
// the names of all enum / struct definitions the back end sees (the keys of GlobalGoEnv::enums() / structs())
pub uninterp spec fn env_enum_names(g: &GlobalGoEnv) -> Seq<TastIdent>;
pub uninterp spec fn env_struct_names(g: &GlobalGoEnv) -> Seq<TastIdent>;
#[verifier::external_body] pub fn goenv_enum_names(g: &GlobalGoEnv) -> (r: Vec<TastIdent>) ensures r@ == env_enum_names(g) { unimplemented!() }
#[verifier::external_body] pub fn goenv_struct_names(g: &GlobalGoEnv) -> (r: Vec<TastIdent>) ensures r@ == env_struct_names(g) { unimplemented!() }
// C02 / C19: the variant is named like a type — its bare name would declare that Go type a second time
pub open spec fn names_a_type(g: &GlobalGoEnv, v: Seq<char>) -> bool {
    (exists|i: int| 0 <= i < env_enum_names(g).len() && (#[trigger] env_enum_names(g)[i]).0@ == v)
    || (exists|i: int| 0 <= i < env_struct_names(g).len() && (#[trigger] env_struct_names(g)[i]).0@ == v)
}
