// ---- shims / specification for U-TYENV (C05: the typer's local environment is a stack of scopes; a local means its innermost binding) ----
#[verifier::external_body] pub struct Ty { _p: u64 }
#[verifier::external_body] pub struct TastIdent { _p: u64 }
#[verifier::external_body] pub struct Diagnostics { _p: u64 }
#[verifier::external_body] #[derive(Clone, Copy)] pub struct LocalId { _p: u32 }
#[verifier::external_body] pub fn push_ice(diagnostics: &mut Diagnostics, msg: &str) { unimplemented!() }
#[verifier::external_body] pub fn ty_clone(t: &Ty) -> (r: Ty) ensures r == *t { unimplemented!() }       // derived Clone: an identical copy
// im::HashMap<LocalId, Ty> / indexmap::IndexMap: finite maps
#[verifier::external_body]
#[verifier::reject_recursive_types(K)]
#[verifier::reject_recursive_types(V)]
pub struct ImHashMap<K, V> { _k: core::marker::PhantomData<(K, V)> }
impl<K, V> ImHashMap<K, V> {
    pub uninterp spec fn view(&self) -> Map<K, V>;
    #[verifier::external_body] pub fn new() -> (r: Self) ensures r@ == Map::<K, V>::empty() { unimplemented!() }
    #[verifier::external_body]
    pub fn get(&self, k: &K) -> (r: Option<&V>) ensures r matches Some(v) ==> self@.contains_key(*k) && *v == self@[*k], r is None ==> !self@.contains_key(*k) { unimplemented!() }
}
#[verifier::external_body]
#[verifier::reject_recursive_types(K)]
#[verifier::reject_recursive_types(V)]
pub struct IndexMap<K, V> { _k: core::marker::PhantomData<(K, V)> }
// the capture bookkeeping of lookup_var (a variable found in an outer scope while a closure is being checked is noted as captured): U-CAPT's subject, dropped here
#[verifier::external_body] pub fn note_capture(capture_stack: &mut Vec<IndexMap<LocalId, Ty>>, depth: usize, n_scopes: usize, name: LocalId, ty: &Ty) { unimplemented!() }
pub open spec fn scopes_of(e: LocalTypeEnv) -> Seq<Map<LocalId, Ty>> { Seq::new(e.scopes@.len(), |i: int| e.scopes@[i]@) }
pub open spec fn lookup(ss: Seq<Map<LocalId, Ty>>, n: int, name: LocalId) -> Option<Ty>
    decreases n,
{
    if n <= 0 || n > ss.len() { None } else if ss[n - 1].contains_key(name) { Some(ss[n - 1][name]) } else { lookup(ss, n - 1, name) }
}
#[verifier::external_body] pub fn index_map_new<K, V>() -> (r: IndexMap<K, V>) { unimplemented!() }
