// ---- shims / specification for U-ENVFIELD (C19 / C02: the fields of a closure environment struct have pairwise different names) ----
#[verifier::external_body] pub fn sanitize_env_name(name: &str) -> (r: Option<String>) { unimplemented!() }     // lift::sanitize_env_name: NOT injective (strips `/idx`, merges `_` runs)
#[verifier::external_body] pub fn str_to_string(s: &str) -> (r: String) ensures r@ == s@ { unimplemented!() }
#[verifier::external_body] pub fn str_cat(a: &String, b: &str) -> (r: String) ensures r@ == a@ + b@ { unimplemented!() }
#[verifier::external_body] pub fn string_text(s: &String) -> (r: &str) ensures r@ == s@ { unimplemented!() }
// Display of a usize (std, ASSUMED): decimal digits only, different numbers have different texts
pub uninterp spec fn dec(n: usize) -> Seq<char>;
#[verifier::external_body] pub proof fn dec_digits(n: usize) ensures !dec(n).contains('_') { }
#[verifier::external_body] pub proof fn dec_injective(a: usize, b: usize) requires dec(a) == dec(b) ensures a == b { }
#[verifier::external_body] pub fn usize_to_string(n: usize) -> (r: String) ensures r@ == dec(n) { unimplemented!() }
// the name of capture number `index`: some base, an underscore, the index
pub open spec fn field_name_ok(n: Seq<char>, index: usize) -> bool { exists|base: Seq<char>| n == #[trigger] (base + "_"@) + dec(index) }
// two texts that end in `_<digits>`: equal texts have equal digit parts
pub proof fn last_segment(a: Seq<char>, d1: Seq<char>, b: Seq<char>, d2: Seq<char>)
    requires (a + seq!['_']) + d1 == (b + seq!['_']) + d2, !d1.contains('_'), !d2.contains('_')
    ensures d1 == d2
{
    let s = (a + seq!['_']) + d1;
    let t = (b + seq!['_']) + d2;
    assert(s.len() == a.len() + 1 + d1.len());
    assert(t.len() == b.len() + 1 + d2.len());
    if d1.len() < d2.len() {
        let p = s.len() - d1.len() - 1;          // the `_` of the first spelling lies inside d2
        assert(s[p] == '_');
        assert(t[p] == d2[p - (b.len() + 1)]);
        assert(d2.contains(d2[p - (b.len() + 1)]));
    } else if d2.len() < d1.len() {
        let p = t.len() - d2.len() - 1;
        assert(t[p] == '_');
        assert(s[p] == d1[p - (a.len() + 1)]);
        assert(d1.contains(d1[p - (a.len() + 1)]));
    } else {
        assert forall|i: int| 0 <= i < d1.len() implies d1[i] == d2[i] by { assert(s[a.len() + 1 + i] == d1[i]); assert(t[b.len() + 1 + i] == d2[i]); }
        assert(d1 =~= d2);
    }
}
// C19 / C02: two captures of one closure never share a field name
pub proof fn field_names_differ(n: Seq<char>, i: usize, j: usize) requires field_name_ok(n, i), field_name_ok(n, j) ensures i == j {
    reveal_strlit("_");
    assert("_"@ =~= seq!['_']);
    let a = choose|base: Seq<char>| n == #[trigger] (base + "_"@) + dec(i);
    let b = choose|base: Seq<char>| n == #[trigger] (base + "_"@) + dec(j);
    dec_digits(i); dec_digits(j);
    last_segment(a, dec(i), b, dec(j));
    dec_injective(i, j);
}
