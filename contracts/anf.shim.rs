// ---- shims / specification for U-ANF (C09: A-normalisation names sub-expressions left to right, each once) ----
#[verifier::external_body] pub struct Ty { _p: u64 }
#[verifier::external_body] pub struct Prim { _p: u64 }
#[verifier::external_body] pub struct TastIdent { _p: u64 }
#[verifier::external_body] pub struct StructConstructor { _p: u64 }
#[verifier::external_body] pub struct EnumConstructor { _p: u64 }
impl EnumConstructor {
    pub uninterp spec fn index_of(&self) -> usize;
    #[verifier::external_body] pub fn enum_index(&self) -> (r: usize) ensures r == self.index_of() { unimplemented!() }
}
pub trait VClone: Sized { fn vclone(&self) -> (r: Self) ensures r == *self; }
impl VClone for Ty { #[verifier::external_body] fn vclone(&self) -> (r: Self) { unimplemented!() } }
impl VClone for String { #[verifier::external_body] fn vclone(&self) -> (r: Self) { unimplemented!() } }
impl VClone for Constructor { #[verifier::external_body] fn vclone(&self) -> (r: Self) { unimplemented!() } }
impl VClone for LiftExpr { #[verifier::external_body] fn vclone(&self) -> (r: Self) { unimplemented!() } }
#[verifier::external_body] pub struct Gensym { _p: u64 }
impl Gensym { #[verifier::external_body] pub fn gensym(&self, p: &str) -> (r: String) { unimplemented!() } }     // env::Gensym::gensym (U-GENSYM / U-GENPHASE): any name
#[verifier::external_body] pub struct GlobalAnfEnv { _p: u64 }
impl AExpr { #[verifier::external_body] pub fn get_ty(&self) -> (r: Ty) { unimplemented!() } }                      // the type stored on a let is not part of this contract

// the type an expression carries
pub open spec fn lift_ty(e: LiftExpr) -> Ty {
    match e {
        LiftExpr::EVar { ty, .. } => ty, LiftExpr::EPrim { ty, .. } => ty, LiftExpr::EConstr { ty, .. } => ty, LiftExpr::ETuple { ty, .. } => ty,
        LiftExpr::EArray { ty, .. } => ty, LiftExpr::ELet { ty, .. } => ty, LiftExpr::EMatch { ty, .. } => ty, LiftExpr::EIf { ty, .. } => ty,
        LiftExpr::EWhile { ty, .. } => ty, LiftExpr::EGo { ty, .. } => ty, LiftExpr::EConstrGet { ty, .. } => ty, LiftExpr::EUnary { ty, .. } => ty,
        LiftExpr::EBinary { ty, .. } => ty, LiftExpr::ECall { ty, .. } => ty, LiftExpr::EToDyn { ty, .. } => ty, LiftExpr::EDynCall { ty, .. } => ty,
        LiftExpr::EProj { ty, .. } => ty,
    }
}

// ---- the A-normal form as (let prefix, final step) ----
pub type Bind = (Seq<char>, CExpr);          // `let name = value` : evaluated in sequence order
pub open spec fn binds(a: AExpr) -> Seq<Bind> decreases a {
    match a { AExpr::ACExpr { .. } => Seq::empty(), AExpr::ALet { name, value, body, .. } => seq![(name@, *value)] + binds(*body) }
}
pub open spec fn last(a: AExpr) -> CExpr decreases a {
    match a { AExpr::ACExpr { expr } => expr, AExpr::ALet { body, .. } => last(*body) }
}
// r is the lets `pre`, in order, around o
pub open spec fn wraps(r: AExpr, pre: Seq<Bind>, o: AExpr) -> bool { binds(r) == pre + binds(o) && last(r) == last(o) }

// ---- C09: what normalising a Lift expression must produce ----
// Evaluation order of goml: operands left to right, each exactly once, a callee before its arguments, a let's value before its body, a
// condition / scrutinee before (and outside) the branches, the branches themselves only inside the conditional, a loop's condition and body
// inside the loop.  In A-normal form "evaluated" means: named by a `let` of the prefix (or an immediate, which has no effect), so the order
// of the prefix IS the evaluation order.   nb = how many lets normalising e emits (fixes where each operand's lets sit in the prefix).
// WHICH operands are used without a let is the code's policy (anf_imm's direct arms, read off the code on every run as `imm_direct`); the property only demands
// that such an operand is an effect-free atom and that the immediate denotes it: lemma imm_direct_sound
pub open spec fn src_imm(e: LiftExpr) -> bool { imm_direct(e) is Some }
pub open spec fn atom_imm(e: LiftExpr, i: ImmExpr) -> bool {
    match e {
        LiftExpr::EVar { name, ty } => i == (ImmExpr::ImmVar { name, ty }),
        LiftExpr::EPrim { value, ty } => i == (ImmExpr::ImmPrim { value, ty }),
        LiftExpr::EConstr { constructor: Constructor::Enum(ec), args, ty } => args@.len() == 0 && (i matches ImmExpr::ImmTag { index, ty: t2 } && index == ec.index_of() && t2 == ty),
        _ => false,
    }
}
pub proof fn imm_direct_sound(e: LiftExpr) ensures imm_direct(e) matches Some(i) ==> atom_imm(e, i) {}
pub open spec fn nb(e: LiftExpr) -> nat decreases e, 0int {
    match e {
        LiftExpr::EVar { .. } => 0,
        LiftExpr::EPrim { .. } => 0,
        LiftExpr::EConstr { args, .. } => nbl(args@, 0),
        LiftExpr::ETuple { items, .. } => nbl(items@, 0),
        LiftExpr::EArray { items, .. } => nbl(items@, 0),
        LiftExpr::ELet { value, body, .. } => nb(*value) + 1 + nb(*body),
        LiftExpr::EMatch { expr, .. } => nbi(*expr),
        LiftExpr::EIf { cond, .. } => nbi(*cond),
        LiftExpr::EWhile { .. } => 0,
        LiftExpr::EGo { expr, .. } => nbi(*expr),
        LiftExpr::EConstrGet { expr, .. } => nbi(*expr),
        LiftExpr::EUnary { expr, .. } => nbi(*expr),
        LiftExpr::EBinary { lhs, rhs, .. } => nbi(*lhs) + nbi(*rhs),
        LiftExpr::ECall { func, args, .. } => nbi(*func) + nbl(args@, 0),
        LiftExpr::EToDyn { expr, .. } => nbi(*expr),
        LiftExpr::EDynCall { receiver, args, .. } => nbi(*receiver) + nbl(args@, 0),
        LiftExpr::EProj { tuple, .. } => nbi(*tuple),
    }
}
pub open spec fn nbi(e: LiftExpr) -> nat decreases e, 1int { if src_imm(e) { 0 } else { nb(e) + 1 } }
pub open spec fn nbl(es: Seq<LiftExpr>, i: int) -> nat decreases es, es.len() - i { if i < 0 || i >= es.len() { 0 } else { nbi(es[i]) + nbl(es, i + 1) } }

// nc(e, pre, c): normalising e gives the lets `pre` and the final step c
pub open spec fn nc(e: LiftExpr, pre: Seq<Bind>, c: CExpr) -> bool decreases e, 0int {
    match e {
        LiftExpr::EVar { name, ty } => pre.len() == 0 && c == (CExpr::CImm { imm: ImmExpr::ImmVar { name, ty } }),
        LiftExpr::EPrim { value, ty } => pre.len() == 0 && c == (CExpr::CImm { imm: ImmExpr::ImmPrim { value, ty } }),
        LiftExpr::EConstr { constructor, args, ty } =>
            if constructor is Enum && args@.len() == 0 {
                pre.len() == 0 && (c matches CExpr::CImm { imm: ImmExpr::ImmTag { index, ty: t2 } } && index == constructor->Enum_0.index_of() && t2 == ty)
            } else {
                c matches CExpr::EConstr { constructor: c2, args: a2, ty: t2 } && c2 == constructor && t2 == ty && nl(args@, 0, pre, a2@)
            },
        LiftExpr::ETuple { items, ty } => c matches CExpr::ETuple { items: i2, ty: t2 } && t2 == ty && nl(items@, 0, pre, i2@),
        LiftExpr::EArray { items, ty } => c matches CExpr::EArray { items: i2, ty: t2 } && t2 == ty && nl(items@, 0, pre, i2@),
        // the value's lets, then the let itself, then the body's lets: the value is evaluated (once) before anything of the body
        LiftExpr::ELet { name, value, body, ty } => {
            let n = nb(*value) as int;
            n < pre.len() && nc(*value, pre.take(n), pre[n].1) && pre[n].0 == name@ && nc(*body, pre.skip(n + 1), c)
        },
        // the scrutinee is named outside; every arm / the default is normalised on its own INSIDE the match
        LiftExpr::EMatch { expr, arms, default, ty } => c matches CExpr::EMatch { expr: s, arms: aa, default: d, ty: t2 } && t2 == ty && ni(*expr, pre, *s)
            && aa@.len() == arms@.len() && narms(arms@, aa@, 0)
            && (match default { Some(x) => d matches Some(y) && na(*x, *y), None => d is None }),
        LiftExpr::EIf { cond, then_branch, else_branch, ty } => c matches CExpr::EIf { cond: ci, then, else_, ty: t2 } && t2 == ty && ni(*cond, pre, *ci)
            && na(*then_branch, *then) && na(*else_branch, *else_),
        // nothing of a loop is evaluated outside the loop: condition and body are normalised on their own (re-evaluated per iteration)
        LiftExpr::EWhile { cond, body, ty } => pre.len() == 0 && (c matches CExpr::EWhile { cond: ca, body: ba, ty: t2 } && t2 == ty && na(*cond, *ca) && na(*body, *ba)),
        LiftExpr::EGo { expr, ty } => c matches CExpr::EGo { closure: x, ty: t2 } && t2 == ty && ni(*expr, pre, *x),
        LiftExpr::EConstrGet { expr, constructor, field_index, ty } => c matches CExpr::EConstrGet { expr: x, constructor: c2, field_index: f2, ty: t2 }
            && c2 == constructor && f2 == field_index && t2 == ty && ni(*expr, pre, *x),
        LiftExpr::EUnary { op, expr, ty } => c matches CExpr::EUnary { op: o2, expr: x, ty: t2 } && o2 == op && t2 == ty && ni(*expr, pre, *x),
        // left operand first
        LiftExpr::EBinary { op, lhs, rhs, ty } => c matches CExpr::EBinary { op: o2, lhs: l2, rhs: r2, ty: t2 } && o2 == op && t2 == ty && {
            let n = nbi(*lhs) as int;
            n <= pre.len() && ni(*lhs, pre.take(n), *l2) && ni(*rhs, pre.skip(n), *r2) },
        // the callee first, then the arguments left to right
        LiftExpr::ECall { func, args, ty } => c matches CExpr::ECall { func: f2, args: a2, ty: t2 } && t2 == ty && {
            let n = nbi(*func) as int;
            n <= pre.len() && ni(*func, pre.take(n), f2) && nl(args@, 0, pre.skip(n), a2@) },
        LiftExpr::EToDyn { trait_name, for_ty, expr, ty } => c matches CExpr::EToDyn { trait_name: tn, for_ty: ft, expr: x, ty: t2 }
            && tn == trait_name && ft == for_ty && t2 == ty && ni(*expr, pre, x),
        LiftExpr::EDynCall { trait_name, method_name, receiver, args, ty } => c matches CExpr::EDynCall { trait_name: tn, method_name: mn, receiver: r2, args: a2, ty: t2 }
            && tn == trait_name && mn == method_name && t2 == ty && {
            let n = nbi(*receiver) as int;
            n <= pre.len() && ni(*receiver, pre.take(n), r2) && nl(args@, 0, pre.skip(n), a2@) },
        LiftExpr::EProj { tuple, index, ty } => c matches CExpr::EProj { tuple: x, index: i2, ty: t2 } && i2 == index && t2 == ty && ni(*tuple, pre, *x),
    }
}
// ni(e, pre, imm): an operand the policy uses directly (today: a variable or literal) is used as it is (no let); anything else is normalised and its final step bound LAST to a name
// that `imm` then is — so an operand is evaluated exactly once, where it stands
pub open spec fn ni(e: LiftExpr, pre: Seq<Bind>, imm: ImmExpr) -> bool decreases e, 1int {
    match imm_direct(e) {
        Some(i) => pre.len() == 0 && imm == i,
        None => pre.len() >= 1 && nc(e, pre.drop_last(), pre.last().1) && (imm matches ImmExpr::ImmVar { name, ty } && name@ == pre.last().0 && ty == lift_ty(e)),
    }
}
// the operands es[i..], left to right
pub open spec fn nl(es: Seq<LiftExpr>, i: int, pre: Seq<Bind>, imms: Seq<ImmExpr>) -> bool decreases es, es.len() - i {
    if i < 0 || i >= es.len() { pre.len() == 0 && imms.len() == 0 }
    else {
        let n = nbi(es[i]) as int;
        imms.len() >= 1 && n <= pre.len() && ni(es[i], pre.take(n), imms[0]) && nl(es, i + 1, pre.skip(n), imms.skip(1))
    }
}
// a is a normal form of e on its own
pub open spec fn na(e: LiftExpr, a: AExpr) -> bool decreases e, 2int { nc(e, binds(a), last(a)) }
// match arms from i on: same order, the pattern as the immediate it is, the body normalised on its own
pub open spec fn arm_lhs_ok(l: LiftExpr, i: ImmExpr) -> bool {
    match l {
        LiftExpr::EVar { name, ty } => i == (ImmExpr::ImmVar { name, ty }),
        LiftExpr::EPrim { value, ty } => i == (ImmExpr::ImmPrim { value, ty }),
        LiftExpr::EConstr { constructor: Constructor::Enum(ec), ty, .. } => i matches ImmExpr::ImmTag { index, ty: t2 } && index == ec.index_of() && t2 == ty,
        _ => false,
    }
}
pub open spec fn narms(arms: Seq<LiftArm>, aa: Seq<Arm>, i: int) -> bool decreases arms, arms.len() - i {
    if i < 0 || i >= arms.len() || i >= aa.len() { true } else { arm_lhs_ok(arms[i].lhs, aa[i].lhs) && na(arms[i].body, aa[i].body) && narms(arms, aa, i + 1) }
}

// ---- contracts of the three mutually recursive functions: k is called ONCE, on the final step, underneath the lets ----
pub open spec fn anf_post<K: FnOnce(CExpr) -> AExpr>(e: LiftExpr, k: K, r: AExpr) -> bool {
    exists|pre: Seq<Bind>, c: CExpr, o: AExpr| #[trigger] nc(e, pre, c) && #[trigger] k.ensures((c,), o) && wraps(r, pre, o)
}
pub open spec fn imm_post<K: FnOnce(ImmExpr) -> AExpr>(e: LiftExpr, k: K, r: AExpr) -> bool {
    exists|pre: Seq<Bind>, c: ImmExpr, o: AExpr| #[trigger] ni(e, pre, c) && #[trigger] k.ensures((c,), o) && wraps(r, pre, o)
}
pub open spec fn list_post<K: FnOnce(Vec<ImmExpr>) -> AExpr>(es: Seq<LiftExpr>, k: K, r: AExpr) -> bool {
    exists|pre: Seq<Bind>, c: Vec<ImmExpr>, o: AExpr| #[trigger] nl(es, 0, pre, c@) && #[trigger] k.ensures((c,), o) && wraps(r, pre, o)
}
pub open spec fn match_c_ok(c: CExpr, scrutinee: ImmExpr, arms: Seq<LiftArm>, default: Option<Box<LiftExpr>>, body_ty: Ty) -> bool {
    c matches CExpr::EMatch { expr: s, arms: aa, default: d, ty: t2 } && t2 == body_ty && *s == scrutinee
        && aa@.len() == arms.len() && narms(arms, aa@, 0)
        && (match default { Some(x) => d matches Some(y) && na(*x, *y), None => d is None })
}
pub open spec fn match_post<K: FnOnce(CExpr) -> AExpr>(scrutinee: ImmExpr, arms: Seq<LiftArm>, default: Option<Box<LiftExpr>>, body_ty: Ty, k: K, r: AExpr) -> bool {
    exists|c: CExpr| #[trigger] k.ensures((c,), r) && match_c_ok(c, scrutinee, arms, default, body_ty)
}
pub proof fn anf_intro<K: FnOnce(CExpr) -> AExpr>(e: LiftExpr, k: K, r: AExpr, pre: Seq<Bind>, c: CExpr, o: AExpr)
    requires nc(e, pre, c), k.ensures((c,), o), wraps(r, pre, o) ensures anf_post(e, k, r) {}
pub proof fn imm_intro<K: FnOnce(ImmExpr) -> AExpr>(e: LiftExpr, k: K, r: AExpr, pre: Seq<Bind>, c: ImmExpr, o: AExpr)
    requires ni(e, pre, c), k.ensures((c,), o), wraps(r, pre, o) ensures imm_post(e, k, r) {}
pub proof fn list_intro<K: FnOnce(Vec<ImmExpr>) -> AExpr>(es: Seq<LiftExpr>, k: K, r: AExpr, pre: Seq<Bind>, c: Vec<ImmExpr>, o: AExpr)
    requires nl(es, 0, pre, c@), k.ensures((c,), o), wraps(r, pre, o) ensures list_post(es, k, r) {}

// ---- lemmas ----
pub proof fn wraps_refl(r: AExpr) ensures wraps(r, Seq::empty(), r) { assert(binds(r) =~= Seq::<Bind>::empty() + binds(r)); }
pub proof fn wraps_trans(r: AExpr, p1: Seq<Bind>, m: AExpr, p2: Seq<Bind>, o: AExpr)
    requires wraps(r, p1, m), wraps(m, p2, o) ensures wraps(r, p1 + p2, o) { assert(binds(r) =~= (p1 + p2) + binds(o)); }
// an identity continuation: the result IS a normal form of e
pub proof fn na_of_id(e: LiftExpr, r: AExpr, pre: Seq<Bind>, c: CExpr)
    requires nc(e, pre, c), wraps(r, pre, AExpr::ACExpr { expr: c }) ensures na(e, r) { assert(binds(r) =~= pre); }
// the prefix has exactly nb lets
pub proof fn len_nc(e: LiftExpr, pre: Seq<Bind>, c: CExpr) requires nc(e, pre, c) ensures pre.len() == nb(e) decreases e, 0int {
    match e {
        LiftExpr::EVar { .. } => {}
        LiftExpr::EPrim { .. } => {}
        LiftExpr::EConstr { constructor, args, ty } => { if constructor is Enum && args@.len() == 0 { assert(nbl(args@, 0) == 0); } else { len_nl(args@, 0, pre, c->EConstr_args@); } }
        LiftExpr::ETuple { items, .. } => { len_nl(items@, 0, pre, c->ETuple_items@); }
        LiftExpr::EArray { items, .. } => { len_nl(items@, 0, pre, c->EArray_items@); }
        LiftExpr::ELet { name, value, body, ty } => { let n = nb(*value) as int; len_nc(*body, pre.skip(n + 1), c); }
        LiftExpr::EMatch { expr, .. } => { len_ni(*expr, pre, *c->EMatch_expr); }
        LiftExpr::EIf { cond, .. } => { len_ni(*cond, pre, *c->EIf_cond); }
        LiftExpr::EWhile { .. } => {}
        LiftExpr::EGo { expr, .. } => { len_ni(*expr, pre, *c->EGo_closure); }
        LiftExpr::EConstrGet { expr, .. } => { len_ni(*expr, pre, *c->EConstrGet_expr); }
        LiftExpr::EUnary { expr, .. } => { len_ni(*expr, pre, *c->EUnary_expr); }
        LiftExpr::EBinary { lhs, rhs, .. } => { let n = nbi(*lhs) as int; len_ni(*rhs, pre.skip(n), *c->EBinary_rhs); }
        LiftExpr::ECall { func, args, .. } => { let n = nbi(*func) as int; len_nl(args@, 0, pre.skip(n), c->ECall_args@); }
        LiftExpr::EToDyn { expr, .. } => { len_ni(*expr, pre, c->EToDyn_expr); }
        LiftExpr::EDynCall { receiver, args, .. } => { let n = nbi(*receiver) as int; len_nl(args@, 0, pre.skip(n), c->EDynCall_args@); }
        LiftExpr::EProj { tuple, .. } => { len_ni(*tuple, pre, *c->EProj_tuple); }
    }
}
pub proof fn len_ni(e: LiftExpr, pre: Seq<Bind>, imm: ImmExpr) requires ni(e, pre, imm) ensures pre.len() == nbi(e) decreases e, 1int {
    if !src_imm(e) { len_nc(e, pre.drop_last(), pre.last().1); }
}
pub proof fn len_nl(es: Seq<LiftExpr>, i: int, pre: Seq<Bind>, imms: Seq<ImmExpr>) requires nl(es, i, pre, imms) ensures pre.len() == nbl(es, i), 0 <= i <= es.len() ==> imms.len() == es.len() - i
    decreases es, es.len() - i {
    if 0 <= i < es.len() { let n = nbi(es[i]) as int; len_nl(es, i + 1, pre.skip(n), imms.skip(1)); }
}
// one more operand in front
pub proof fn nl_cons(es: Seq<LiftExpr>, i: int, p1: Seq<Bind>, im: ImmExpr, p2: Seq<Bind>, rest: Seq<ImmExpr>, all: Seq<ImmExpr>)
    requires 0 <= i < es.len(), ni(es[i], p1, im), nl(es, i + 1, p2, rest), all.len() >= 1, all[0] == im, all.skip(1) =~= rest
    ensures nl(es, i, p1 + p2, all) {
    len_ni(es[i], p1, im);
    assert((p1 + p2).take(p1.len() as int) =~= p1);
    assert((p1 + p2).skip(p1.len() as int) =~= p2);
    assert(all.skip(1) == rest);
}
// an operand sequence that is a suffix of another one (anf_list walks `&es[1..]`)
pub proof fn nl_shift(es: Seq<LiftExpr>, i: int, ts: Seq<LiftExpr>, j: int, pre: Seq<Bind>, imms: Seq<ImmExpr>)
    requires 0 <= i <= es.len(), 0 <= j <= ts.len(), es.len() - i == ts.len() - j, forall|d: int| j <= d < ts.len() ==> (#[trigger] ts[d]) == es[d + (i - j)], nl(ts, j, pre, imms)
    ensures nl(es, i, pre, imms), nbl(es, i) == nbl(ts, j)
    decreases ts.len() - j
{
    if j < ts.len() {
        assert(ts[j] == es[j + (i - j)]);
        let n = nbi(ts[j]) as int;
        nl_shift(es, i + 1, ts, j + 1, pre.skip(n), imms.skip(1));
    }
}
// two operands / operand + list: where the first one's lets end
pub proof fn split2(p1: Seq<Bind>, p2: Seq<Bind>) ensures (p1 + p2).take(p1.len() as int) == p1, (p1 + p2).skip(p1.len() as int) == p2 {
    assert((p1 + p2).take(p1.len() as int) =~= p1);
    assert((p1 + p2).skip(p1.len() as int) =~= p2);
}
pub proof fn split_let(p1: Seq<Bind>, b: Bind, p2: Seq<Bind>)
    ensures ({ let p = p1 + (seq![b] + p2); p.take(p1.len() as int) == p1 && p[p1.len() as int] == b && p.skip(p1.len() as int + 1) == p2 && p1.len() < p.len() }) {
    let p = p1 + (seq![b] + p2);
    assert(p.take(p1.len() as int) =~= p1);
    assert(p.skip(p1.len() as int + 1) =~= p2);
}
// ---- U-ANFMATCH ----
#[verifier::external_body] pub fn unreached<T>() -> (r: T) requires false { unimplemented!() }
// what the match compiler leaves as an arm pattern
pub open spec fn arm_lhs_pat(l: LiftExpr) -> bool { l is EVar || l is EPrim || (l matches LiftExpr::EConstr { constructor, .. } && constructor is Enum) }
pub proof fn narms_from_all(arms: Seq<LiftArm>, aa: Seq<Arm>, i: int)
    requires 0 <= i, arms.len() == aa.len(), forall|j: int| i <= j < aa.len() ==> arm_lhs_ok(arms[j].lhs, (#[trigger] aa[j]).lhs) && na(arms[j].body, aa[j].body)
    ensures narms(arms, aa, i)
    decreases arms.len() - i
{
    if i < arms.len() { narms_from_all(arms, aa, i + 1); }
}
