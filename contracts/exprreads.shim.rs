// ---- specification for U-EXPRREADS (C02: the variables an expression reads — the liveness U-DCELIVE takes as an uninterpreted function, unfolded one level) ----
pub open spec fn reads_es(es: Seq<Expr>, n: int) -> Set<Seq<char>>
    decreases n,
{
    if n <= 0 || n > es.len() { none() } else { reads_es(es, n - 1).union(expr_reads(es[n - 1])) }
}
pub open spec fn reads_fs(fs: Seq<(String, Expr)>, n: int) -> Set<Seq<char>>
    decreases n,
{
    if n <= 0 || n > fs.len() { none() } else { reads_fs(fs, n - 1).union(expr_reads(fs[n - 1].1)) }
}
// one level of vars_used_in_expr: a variable reads itself; every other form reads what its sub-expressions read — ALL of them; constants read nothing.
// The block expression (free variables of statements) is not claimed.
pub open spec fn reads_level(e: Expr, r: Set<Seq<char>>) -> bool {
    match e {
        Expr::Var { name, .. } => r =~= one(name@),
        Expr::FieldAccess { obj, .. } => r =~= expr_reads(*obj),
        Expr::Index { array, index, .. } => r =~= expr_reads(*array).union(expr_reads(*index)),
        Expr::UnaryOp { expr, .. } => r =~= expr_reads(*expr),
        Expr::BinaryOp { lhs, rhs, .. } => r =~= expr_reads(*lhs).union(expr_reads(*rhs)),
        Expr::Cast { expr, .. } => r =~= expr_reads(*expr),
        Expr::StructLiteral { fields, .. } => r =~= reads_fs(fields@, fields@.len() as int),
        Expr::ArrayLiteral { elems, .. } => r =~= reads_es(elems@, elems@.len() as int),
        Expr::Call { func, args, .. } => r =~= expr_reads(*func).union(reads_es(args@, args@.len() as int)),
        Expr::Block { .. } => true,
        _ => r =~= none(),
    }
}
#[verifier::external_body] pub fn block_free_vars(s: &mut HashSet<String>, stmts: &Vec<Stmt>, expr: &Option<Box<Expr>>) { unimplemented!() }      // the Block arm of vars_used_in_expr (dropped)
