// ---- shims / specification for U-DYNORIGIN and U-DYNIMPL (C02, C17) ----
#[verifier::external_body] pub struct Ty { _p: u64 }
// ---- the table mono fills: collapsed receiver type -> the type the impl was written for ----
#[verifier::external_body] pub struct TyMap { _p: u64 }                                 // IndexMap<Ty, Ty>
impl View for TyMap { type V = Map<Ty, Ty>; uninterp spec fn view(&self) -> Map<Ty, Ty>; }
impl TyMap {
    #[verifier::external_body] pub fn get(&self, k: &Ty) -> (r: Option<&Ty>)
        ensures self@.dom().contains(*k) ==> r == Some(&self@[*k]), !self@.dom().contains(*k) ==> r is None { unimplemented!() }
    #[verifier::external_body] pub fn insert(&mut self, k: Ty, v: Ty) ensures final(self)@ == old(self)@.insert(k, v) { unimplemented!() }
}
pub struct GlobalMonoEnv { pub dyn_impl_tys: TyMap }                                    // the other fields play no part
pub struct GlobalLiftEnv { pub monoenv: GlobalMonoEnv }
pub struct GlobalGoEnv { pub liftenv: GlobalLiftEnv }
// the type whose impl functions serve a (collapsed) receiver type
pub open spec fn origin(t: Map<Ty, Ty>, ty: Ty) -> Ty { if t.dom().contains(ty) { t[ty] } else { ty } }
#[verifier::external_body] pub fn ty_clone(t: &Ty) -> (r: Ty) ensures r == *t { unimplemented!() }
#[verifier::external_body] pub fn ty_ne(a: &Ty, b: &Ty) -> (r: bool) ensures r == (*a != *b) { unimplemented!() }   // `a != b` (derived PartialEq: structural)
// mono::TypeMono: collapse_type_apps is a deterministic function of the type (its memo table aside) and does not touch the dyn table
pub uninterp spec fn collapse_of(t: Ty) -> Ty;
pub struct TypeMono { pub monoenv: GlobalMonoEnv }
impl TypeMono {
    #[verifier::external_body] pub fn collapse_type_apps(&mut self, t: &Ty) -> (r: Ty)
        ensures r == collapse_of(*t), final(self).monoenv.dyn_impl_tys@ == old(self).monoenv.dyn_impl_tys@ { unimplemented!() }
}

// `matches!(t, Ty::Variant { .. })`: which variant a type is — nothing is known about it here (in particular not whether collapsing changes the type)
pub uninterp spec fn shape_is(t: Ty, variant: Seq<char>) -> bool;
#[verifier::external_body] pub fn ty_has_shape(t: &Ty, variant: &str) -> (r: bool) ensures r == shape_is(*t, variant@) { unimplemented!() }
