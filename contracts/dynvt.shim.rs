// ---- shims / specification for U-DYNVT (C02: the vtable struct of a trait, the literal that fills it and the call that reads it agree on the field names) ----
// go::mangle::go_ident (verified by U-GOIDENT): a deterministic function of its argument's text
pub uninterp spec fn gi(name: Seq<char>) -> Seq<char>;
#[verifier::external_body] pub fn go_ident(name: &str) -> (r: String) ensures r@ == gi(name@) { unimplemented!() }
// the name of the vtable struct type of a trait / the wrapper function of one method for one type / the constructor function
pub uninterp spec fn vt_struct_name(trait_name: Seq<char>) -> Seq<char>;
#[verifier::external_body] pub fn dyn_vtable_struct_go_name(trait_name: &str) -> (r: String) ensures r@ == vt_struct_name(trait_name@) { unimplemented!() }
#[verifier::external_body] pub struct Ty { _p: u64 }
#[verifier::external_body] pub fn dyn_wrap_go_name(trait_name: &str, for_ty: &Ty, method_name: &str) -> (r: String) { unimplemented!() }
#[verifier::external_body] pub fn dyn_vtable_ctor_go_name(trait_name: &str, for_ty: &Ty) -> (r: String) { unimplemented!() }
#[verifier::external_body] pub fn tast_ty_to_go_type(t: &Ty) -> (r: GoType) { unimplemented!() }
#[verifier::external_body] pub fn any_go_type() -> (r: GoType) { unimplemented!() }
// `go_params.extend(params.iter().map(tast_ty_to_go_type))`: the Go types of the parameters, appended (their values play no part here)
#[verifier::external_body] pub fn extend_go_types(v: &mut Vec<GoType>, params: &Vec<Ty>) { unimplemented!() }
#[verifier::external_body] pub fn string_clone(s: &String) -> (r: String) ensures r@ == s@ { unimplemented!() }
#[verifier::external_body] pub fn gotype_clone(t: &GoType) -> (r: GoType) ensures r == *t { unimplemented!() }
// C02: THE name of the vtable field of a trait method — the struct definition, the constructor's literal and the dynamic call must all use it
pub open spec fn vt_field(method: Seq<char>) -> Seq<char> { gi(method) }
pub struct TastIdent(pub String);
#[verifier::external_body] pub fn str_to_string(s: &str) -> (r: String) ensures r@ == s@ { unimplemented!() }
#[verifier::external_body] pub fn dyn_struct_go_name(trait_name: &str) -> (r: String) { unimplemented!() }
// `format!("_{}", i)`: THE name of the i-th positional field (tuple components, enum variant payloads)
pub uninterp spec fn pos_field(i: int) -> Seq<char>;
#[verifier::external_body] pub fn pos_field_name(i: usize) -> (r: String) ensures r@ == pos_field(i as int) { unimplemented!() }
#[verifier::external_body] pub fn go_type_name_for(ty: &Ty) -> (r: String) { unimplemented!() }
#[verifier::external_body] pub fn vpanic() requires false { unimplemented!() }          // panic!(..): reaching it is an obligation
