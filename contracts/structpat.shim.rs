// ---- shims / specification for U-STRUCTPAT (C06: a struct pattern binds each field BY NAME) ----
#[verifier::external_body] pub struct Ty { _p: u64 }
#[verifier::external_body] pub struct Pat { _p: u64 }                 // tast::Pat
#[verifier::external_body] #[derive(Clone, Copy)] pub struct PatId { _p: u32 }
#[verifier::external_body] pub struct GlobalTypeEnv { _p: u64 }
#[verifier::external_body] pub struct LocalTypeEnv { _p: u64 }
#[verifier::external_body] pub struct Diagnostics { _p: u64 }
pub struct TastIdent(pub String);
pub trait VClone: Sized { fn vclone(&self) -> (r: Self) ensures r == *self; }
impl VClone for Ty { #[verifier::external_body] fn vclone(&self) -> (r: Self) { unimplemented!() } }
#[verifier::external_body] pub fn push_error_msg(d: &mut Diagnostics) { unimplemented!() }     // super::util::push_error(diagnostics, format!(..))
// HashMap<String, PatId>: the sub-patterns as written, by field name
#[verifier::external_body] pub struct FieldMap { _p: u64 }
impl FieldMap {
    pub uninterp spec fn view(&self) -> Map<Seq<char>, PatId>;
    #[verifier::external_body] pub fn remove(&mut self, k: &String) -> (r: Option<PatId>)
        ensures r == (if old(self)@.contains_key(k@) { Some(old(self)@[k@]) } else { None::<PatId> }), final(self)@ == old(self)@.remove(k@) { unimplemented!() }
}
// the typer: check_pat(id, expected) gives the typed pattern of sub-pattern `id` at that type; check_pat_wild a wildcard of that type
pub uninterp spec fn checked(id: PatId, expected: Ty) -> Pat;
pub uninterp spec fn wild_of(expected: Ty) -> Pat;
pub uninterp spec fn pat_ty(p: Pat) -> Ty;
#[verifier::external_body] pub struct Typer { _p: u64 }
impl Typer {
    #[verifier::external_body] pub fn check_pat(&mut self, genv: &GlobalTypeEnv, local_env: &mut LocalTypeEnv, diagnostics: &mut Diagnostics, id: PatId, expected: &Ty) -> (r: Pat)
        ensures r == checked(id, *expected) { unimplemented!() }
    #[verifier::external_body] pub fn check_pat_wild(&mut self, expected: &Ty) -> (r: Pat) ensures r == wild_of(*expected) { unimplemented!() }
    #[verifier::external_body] pub fn fresh_ty_var(&mut self) -> (r: Ty) { unimplemented!() }
}
impl Pat { #[verifier::external_body] pub fn get_ty(&self) -> (r: Ty) ensures r == pat_ty(*self) { unimplemented!() } }
#[verifier::external_body] pub fn param_ty_at(param_tys: &Vec<Ty>, idx: usize, t: &mut Typer) -> (r: Ty)       // param_tys.get(idx).cloned().unwrap_or_else(|| self.fresh_ty_var())
    ensures idx < param_tys@.len() ==> r == param_tys@[idx as int] { unimplemented!() }
// C06: position i of the elaborated struct pattern — the position the match compiler pairs with DECLARED field i — holds the sub-pattern WRITTEN FOR THAT FIELD'S
// NAME (checked at the field's type), or a wildcard when the pattern does not mention the field
pub open spec fn field_ok(fields: Seq<(TastIdent, Ty)>, written: Map<Seq<char>, PatId>, param_tys: Seq<Ty>, i: int, arg: StructPatArgElab, p: Pat) -> bool {
    let name = fields[i].0.0@;
    if written.contains_key(name) {
        arg == StructPatArgElab::Pat(written[name]) && (i < param_tys.len() ==> p == checked(written[name], param_tys[i]))
    } else {
        arg is MissingWild && (i < param_tys.len() ==> p == wild_of(param_tys[i]))
    }
}
pub open spec fn distinct_names(fields: Seq<(TastIdent, Ty)>) -> bool { forall|a: int, b: int| 0 <= a < b < fields.len() ==> fields[a].0.0@ != fields[b].0.0@ }
// what is left of the written map after the first n declared fields were taken out of it
pub open spec fn without_first(written: Map<Seq<char>, PatId>, fields: Seq<(TastIdent, Ty)>, n: int) -> Map<Seq<char>, PatId> decreases n {
    if n <= 0 { written } else { without_first(written, fields, n - 1).remove(fields[n - 1].0.0@) }
}
pub proof fn lemma_without_keeps(written: Map<Seq<char>, PatId>, fields: Seq<(TastIdent, Ty)>, n: int, i: int)
    requires distinct_names(fields), 0 <= n <= i < fields.len()
    ensures without_first(written, fields, n).contains_key(fields[i].0.0@) == written.contains_key(fields[i].0.0@),
            written.contains_key(fields[i].0.0@) ==> without_first(written, fields, n)[fields[i].0.0@] == written[fields[i].0.0@]
    decreases n
{
    if n > 0 { lemma_without_keeps(written, fields, n - 1, i); }
}
