// ---- shims / specification for U-BINOP (C09: && and || are short-circuit) ----
#[verifier::external_body] pub fn binop_method_name(op: &BinaryOp) -> (r: &'static str) { unimplemented!() }
#[verifier::external_body] pub fn trait_impl_fn_name(trait_name: &TastIdent, for_ty: &Ty, method: &str) -> (r: String) { unimplemented!() }
#[verifier::external_body] pub fn vec_two_ty(a: Ty, b: Ty) -> (r: Vec<Ty>) ensures r@ == seq![a, b] { unimplemented!() }
#[verifier::external_body] pub fn vec_two_core(a: core::Expr, b: core::Expr) -> (r: Vec<core::Expr>) ensures r@ == seq![a, b] { unimplemented!() }
impl VClone for BinaryOp { #[verifier::external_body] fn vclone(&self) -> (r: Self) { unimplemented!() } }
impl core::Expr { #[verifier::external_body] pub fn get_ty(&self) -> (r: Ty) { unimplemented!() } }
// l, rr: the Core expressions of the two operands
pub open spec fn binary_ok(r: core::Expr, op: BinaryOp, l: core::Expr, rr: core::Expr, ty: Ty, res: BinaryResolution) -> bool {
    match res {
        BinaryResolution::Builtin => match op {
            BinaryOp::And => r matches core::Expr::EIf { cond, then_branch, else_branch, ty: t } && *cond == l && *then_branch == rr && *else_branch == ebool_spec(false) && t == ty,
            BinaryOp::Or => r matches core::Expr::EIf { cond, then_branch, else_branch, ty: t } && *cond == l && *then_branch == ebool_spec(true) && *else_branch == rr && t == ty,
            _ => r matches core::Expr::EBinary { op: o, lhs, rhs, ty: t } && o == op && *lhs == l && *rhs == rr && t == ty,
        },
        BinaryResolution::Overloaded { .. } => r matches core::Expr::ECall { func: _, args, ty: t } && args@ == seq![l, rr] && t == ty,
    }
}
