// ---- shims / specification for U-SWBIND (C02: a type switch declares its binding only when a clause uses it) ----
#[verifier::external_body]
#[verifier::reject_recursive_types(K)]
pub struct HashSet<K> { _k: core::marker::PhantomData<K> }
impl HashSet<String> {
    pub uninterp spec fn view(&self) -> Set<Seq<char>>;
    #[verifier::external_body] pub fn contains(&self, k: &String) -> (r: bool) ensures r == self@.contains(k@) { unimplemented!() }
}
// the variables a block uses without declaring them itself (dce::free_vars_in_block, not verified here)
pub uninterp spec fn free_vars(b: Block) -> Set<Seq<char>>;
#[verifier::external_body] pub fn free_vars_in_block(b: &Block) -> (r: HashSet<String>) ensures r@ == free_vars(*b) { unimplemented!() }
// Go: `switch x := e.(type)` declares x in every clause and rejects the switch (`x declared and not used`) unless SOME clause uses it
pub open spec fn some_clause_uses(cases: Seq<(GoType, Block)>, default: Option<Block>, x: Seq<char>) -> bool {
    (exists|i: int| 0 <= i < cases.len() && free_vars((#[trigger] cases[i]).1).contains(x)) || (default is Some && free_vars(default->0).contains(x))
}
