// ---- specification for U-GENPHASE (C19: temporaries made when a package is BUILT and temporaries made when the program is LINKED never share a name) ----
// Under separate compilation the match compiler runs at build time with its own Gensym and its temporaries are stored in the .core file; lifting, ANF
// and the Go back end run at link time with a FRESH Gensym (counter 0 again).  The counters say nothing across the two phases: only the prefixes keep
// the names apart.
pub open spec fn is_digit(c: char) -> bool { '0' <= c && c <= '9' }
pub open spec fn all_digits(d: Seq<char>) -> bool { d.len() > 0 && forall|i: int| 0 <= i < d.len() ==> is_digit(#[trigger] d[i]) }
pub open spec fn no_digit_end(p: Seq<char>) -> bool { p.len() > 0 && !is_digit(p[p.len() - 1]) }
// the decimal rendering of the counter (`{}` of an i32 that is never negative: it starts at 0 and only grows)
pub uninterp spec fn decimal(n: int) -> Seq<char>;
#[verifier::external_body] pub proof fn axiom_decimal(n: int) requires n >= 0, ensures all_digits(decimal(n)) { }
#[verifier::external_body] pub fn fmt_prefix_num(prefix: &str, n: i32) -> (r: String) ensures r@ == prefix@ + decimal(n as int) { unimplemented!() }   // format!("{}{}", prefix, n)
// two different prefixes that do not end in a digit never give the same name, whatever the counters
pub proof fn lemma_names_differ(p1: Seq<char>, p2: Seq<char>, d1: Seq<char>, d2: Seq<char>)
    requires p1 != p2, no_digit_end(p1), no_digit_end(p2), all_digits(d1), all_digits(d2),
    ensures p1 + d1 != p2 + d2,
{
    if p1 + d1 == p2 + d2 {
        let s1 = p1 + d1;
        let s2 = p2 + d2;
        assert(s1.len() == p1.len() + d1.len() && s2.len() == p2.len() + d2.len());
        if p1.len() < p2.len() {
            let i = p2.len() - 1;
            assert(s2[i] == p2[i]);
            assert(0 <= i - p1.len() < d1.len());
            assert(s1[i] == d1[i - p1.len()]);
            assert(is_digit(d1[i - p1.len()]));
        } else if p2.len() < p1.len() {
            let i = p1.len() - 1;
            assert(s1[i] == p1[i]);
            assert(0 <= i - p2.len() < d2.len());
            assert(s2[i] == d2[i - p2.len()]);
            assert(is_digit(d2[i - p2.len()]));
        } else {
            assert(p1 =~= s1.subrange(0, p1.len() as int));
            assert(p2 =~= s2.subrange(0, p2.len() as int));
        }
    }
}
// the names a Gensym can make from this prefix
pub open spec fn names_of(p: Seq<char>, s: Seq<char>) -> bool { exists|n: int| n >= 0 && s == p + #[trigger] decimal(n) }
pub proof fn lemma_phase_pair(b: Seq<char>, l: Seq<char>)
    requires b != l, no_digit_end(b), no_digit_end(l),
    ensures forall|s: Seq<char>| !(names_of(b, s) && names_of(l, s)),
{
    assert forall|s: Seq<char>| !(names_of(b, s) && names_of(l, s)) by {
        if names_of(b, s) && names_of(l, s) {
            let n1 = choose|n: int| n >= 0 && s == b + #[trigger] decimal(n);
            let n2 = choose|n: int| n >= 0 && s == l + #[trigger] decimal(n);
            axiom_decimal(n1); axiom_decimal(n2);
            lemma_names_differ(b, l, decimal(n1), decimal(n2));
        }
    }
}
