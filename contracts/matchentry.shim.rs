// ---- shims / specification for U-MATCHENTRY (C06: the scrutinee is evaluated once; a refutable let fails when its pattern does not match) ----
#[verifier::external_body] pub fn range_of(astptr: &Option<MySyntaxNodePtr>) -> (r: Option<TextRange>) { unimplemented!() }     // astptr.as_ref().map(|ptr| ptr.text_range())
#[verifier::external_body] pub fn string_as_str(s: &String) -> (r: &str) ensures r@ == s@ { unimplemented!() }
// the pattern matrix of a match on variable v (what make_rows, verified in U-ROWS, returns)
pub open spec fn matrix_of(rs: Seq<Row>, v: Seq<char>, arms: Seq<Arm>) -> bool {
    rs.len() == arms.len()
    && forall|i: int| 0 <= i < arms.len() ==> (#[trigger] rs[i]).columns@.len() == 1 && rs[i].columns@[0].var@ == v && rs[i].columns@[0].pat == arms[i].pat && rs[i].body == arms[i].body
}
// `match e { arms }`: a variable scrutinee is matched directly; anything else is bound ONCE to a fresh variable, then matched
pub open spec fn match_entry_ok(r: core::Expr, scrutinee: Expr, arms: Seq<Arm>, ty: Ty) -> bool {
    if scrutinee is EVar {
        exists|rs: Seq<Row>| matrix_of(rs, scrutinee->EVar_name@, arms) && r == #[trigger] rows_core(rs, ty)
    } else {
        r matches core::Expr::ELet { name, value, body, ty: t } && *value == core_of(scrutinee) && t == ty
            && exists|rs: Seq<Row>| matrix_of(rs, name@, arms) && *body == #[trigger] rows_core(rs, ty)
    }
}
