// ---- shims / specification for U-DERIVE (C18: what `#[derive(ToString)]` / `#[derive(ToJson)]` generate) ----
#[verifier::external_body] #[derive(Clone, Copy)] pub struct MySyntaxNodePtr { _p: u64 }
#[verifier::external_body] #[derive(Clone, Copy)] pub struct UnaryOp { _p: u64 }
pub enum BinaryOp { Add, Sub, Mul, Div, And, Or, Less, Greater, LessEq, GreaterEq, Eq, NotEq }      // common_defs::BinaryOp (copied: a plain enum)
#[verifier::external_body] pub fn str_to_string(s: &str) -> (r: String) ensures r@ == s@ { unimplemented!() }       // s.to_string()
#[verifier::external_body] pub fn str_eq(a: &String, b: &str) -> (r: bool) ensures r == (a@ == b@) { unimplemented!() }
#[verifier::external_body] pub fn ident_clone(i: &AstIdent) -> (r: AstIdent) ensures r == *i { unimplemented!() }    // derived Clone
#[verifier::external_body] pub fn string_new() -> (r: String) ensures r@ == Seq::<char>::empty() { unimplemented!() }

// a path of one segment
pub open spec fn ident_path(p: Path, name: Seq<char>) -> bool { p.segments@.len() == 1 && p.segments@[0].ident.0@ == name }
// `recv.name()` — a method call without arguments
pub open spec fn is_method_call(e: Expr, recv: Expr, name: Seq<char>) -> bool {
    e matches Expr::ECall { func, args, .. } && args@.len() == 0 && (*func matches Expr::EField { expr, field, .. } && *expr == recv && field.0@ == name)
}
// `fname(arg)` — a call of the global function `fname` with one argument
pub open spec fn is_fn_call1(e: Expr, fname: Seq<char>, arg: Expr) -> bool {
    e matches Expr::ECall { func, args, .. } && args@.len() == 1 && args@[0] == arg && (*func matches Expr::EPath { path, .. } && ident_path(path, fname))
}
pub open spec fn is_str_lit(e: Expr, s: Seq<char>) -> bool { e matches Expr::EString { value, .. } && value@ == s }
pub open spec fn numeric_ty(t: TypeExpr) -> bool {
    t is TInt8 || t is TInt16 || t is TInt32 || t is TInt64 || t is TUint8 || t is TUint16 || t is TUint32 || t is TUint64 || t is TFloat32 || t is TFloat64
}
// the runtime's to_string FUNCTION of a primitive type (builtin.gom declares one for each): `<type>_to_string`
pub open spec fn prim_to_string_fn(t: TypeExpr) -> Option<Seq<char>> {
    match t {
        TypeExpr::TUnit => Some("unit_to_string"@), TypeExpr::TBool => Some("bool_to_string"@),
        TypeExpr::TInt8 => Some("int8_to_string"@), TypeExpr::TInt16 => Some("int16_to_string"@), TypeExpr::TInt32 => Some("int32_to_string"@), TypeExpr::TInt64 => Some("int64_to_string"@),
        TypeExpr::TUint8 => Some("uint8_to_string"@), TypeExpr::TUint16 => Some("uint16_to_string"@), TypeExpr::TUint32 => Some("uint32_to_string"@), TypeExpr::TUint64 => Some("uint64_to_string"@),
        TypeExpr::TFloat32 => Some("float32_to_string"@), TypeExpr::TFloat64 => Some("float64_to_string"@),
        _ => None,
    }
}
// C18 (`never by generated code that fails in a later stage`): a value of primitive type is rendered by an operation that EXISTS for that type —
// the runtime function `<type>_to_string`, or, for int32 only (the one primitive type with an inherent to_string, builtins.rs), the method
pub open spec fn prim_rendered(r: Expr, value: Expr, t: TypeExpr) -> bool {
    (prim_to_string_fn(t) is Some && is_fn_call1(r, prim_to_string_fn(t)->0, value)) || (t is TInt32 && is_method_call(r, value, "to_string"@))
}
// C18, the JSON leaf of a value of declared type `ty`: a string goes through json_escape_string (quoted AND escaped), a bool through bool_to_json
// (true / false), a number is its decimal rendering, unit is `null`, anything else renders itself with its own to_json
pub open spec fn json_leaf(r: Expr, value: Expr, ty: Option<&TypeExpr>) -> bool {
    match ty {
        Some(t) => {
            if *t is TString { is_fn_call1(r, "json_escape_string"@, value) }
            else if *t is TBool { is_fn_call1(r, "bool_to_json"@, value) }
            else if numeric_ty(*t) { prim_rendered(r, value, *t) }
            else if *t is TUnit { is_str_lit(r, "null"@) }
            else { is_method_call(r, value, "to_json"@) }
        }
        None => is_method_call(r, value, "to_json"@),
    }
}
// C18, the ToString leaf: a string is itself, a value of another primitive type is rendered by an operation that exists for it, anything else
// (a user-defined type) renders itself with its own to_string
pub open spec fn string_leaf(r: Expr, value: Expr, ty: Option<&TypeExpr>) -> bool {
    match ty {
        Some(t) => {
            if *t is TString { r == value }
            else if prim_to_string_fn(*t) is Some { prim_rendered(r, value, *t) }
            else { is_method_call(r, value, "to_string"@) }
        }
        None => is_method_call(r, value, "to_string"@),
    }
}
// `e` is the left-nested chain p0 + p1 + .. + pn of exactly these parts (the empty string literal when there are none)
pub open spec fn chain(e: Expr, parts: Seq<Expr>) -> bool
    decreases parts.len(),
{
    if parts.len() == 0 { is_str_lit(e, Seq::<char>::empty()) }
    else if parts.len() == 1 { e == parts[0] }
    else { e matches Expr::EBinary { op, lhs, rhs, .. } && op is Add && *rhs == parts.last() && chain(*lhs, parts.drop_last()) }
}
// ---- struct bodies ----
pub open spec fn is_var(e: Expr, name: Seq<char>) -> bool { e matches Expr::EPath { path, .. } && ident_path(path, name) }
#[verifier::external_body] pub fn json_key(name: &String) -> (r: String) ensures r@ == "\""@ + name@ + "\":"@ { unimplemented!() }          // format!("\"{}\":", name)
// `let Name { f1: f1, .., fn: fn } = self;` — every field bound to a variable of its own name
pub open spec fn destructures_self(e: Expr, name: AstIdent, fields: Seq<(AstIdent, TypeExpr)>) -> bool {
    e matches Expr::ELet { pat, annotation, value, .. } && annotation is None && is_var(*value, "self"@)
    && (pat matches Pat::PStruct { name: pn, fields: pf, .. } && ident_path(pn, name.0@) && pf@.len() == fields.len()
        && forall|i: int| 0 <= i < fields.len() ==> (#[trigger] pf@[i]).0 == fields[i].0 && (pf@[i].1 matches Pat::PVar { name: vn, .. } && vn == fields[i].0))
}
// C18: `{"f1":<leaf1>,"f2":<leaf2>}` — an opening brace, for every field in declaration order its quoted name, a colon and its JSON leaf, commas
// between (not before the first, not after the last), a closing brace
pub open spec fn json_field_ok(parts: Seq<Expr>, fields: Seq<(AstIdent, TypeExpr)>, i: int) -> bool {
    (i > 0 ==> is_str_lit(parts[3 * i], ","@))
    && is_str_lit(parts[3 * i + 1], "\""@ + fields[i].0.0@ + "\":"@)
    && (exists|v: Expr| is_var(v, fields[i].0.0@) && #[trigger] json_leaf(parts[3 * i + 2], v, Some(&fields[i].1)))
}
pub open spec fn json_object_parts(parts: Seq<Expr>, fields: Seq<(AstIdent, TypeExpr)>) -> bool {
    let n = fields.len() as int;
    parts.len() == 3 * n + 1 && is_str_lit(parts[0], "{"@) && is_str_lit(parts[3 * n], "}"@)
    && forall|i: int| 0 <= i < n ==> #[trigger] json_field_ok(parts, fields, i)
}
// what has been pushed stays where it is
pub proof fn lemma_json_field_kept(a: Seq<Expr>, b: Seq<Expr>, fields: Seq<(AstIdent, TypeExpr)>, i: int)
    requires 0 <= i, 3 * i + 3 <= a.len() <= b.len(), forall|j: int| 0 <= j < a.len() ==> #[trigger] b[j] == a[j], json_field_ok(a, fields, i),
    ensures json_field_ok(b, fields, i),
{
    assert(b[3 * i] == a[3 * i] && b[3 * i + 1] == a[3 * i + 1] && b[3 * i + 2] == a[3 * i + 2]);
}
pub open spec fn struct_json_body(r: Expr, d: StructDef) -> bool {
    if d.fields@.len() == 0 { is_str_lit(r, "{}"@) }
    else {
        r matches Expr::EBlock { exprs, .. } && exprs@.len() == 2 && destructures_self(exprs@[0], d.name, d.fields@)
        && exists|parts: Seq<Expr>| #[trigger] chain(exprs@[1], parts) && json_object_parts(parts, d.fields@)
    }
}
pub trait VClone: Sized { fn vclone(&self) -> (r: Self) ensures r == *self; }       // derived Clone: an identical copy
impl VClone for AstIdent { #[verifier::external_body] fn vclone(&self) -> (r: Self) { unimplemented!() } }
// `format!("<pre>{}<post>", x)` with one placeholder: the text of x between the two literals
#[verifier::external_body] pub fn fmt1(pre: &str, x: &String, post: &str) -> (r: String) ensures r@ == pre@ + x@ + post@ { unimplemented!() }
// ---- ToString of a struct: `Name { f1: <leaf1>, f2: <leaf2> }` ----
pub open spec fn string_field_ok(parts: Seq<Expr>, fields: Seq<(AstIdent, TypeExpr)>, i: int) -> bool {
    is_str_lit(parts[3 * i + 1], ""@ + fields[i].0.0@ + ": "@)
    && (exists|v: Expr| is_var(v, fields[i].0.0@) && #[trigger] string_leaf(parts[3 * i + 2], v, Some(&fields[i].1)))
    && (i + 1 < fields.len() ==> is_str_lit(parts[3 * i + 3], ", "@))
}
pub open spec fn string_struct_parts(parts: Seq<Expr>, name: Seq<char>, fields: Seq<(AstIdent, TypeExpr)>) -> bool {
    let n = fields.len() as int;
    parts.len() == 3 * n + 1 && is_str_lit(parts[0], ""@ + name + " { "@) && is_str_lit(parts[3 * n], " }"@)
    && forall|i: int| 0 <= i < n ==> #[trigger] string_field_ok(parts, fields, i)
}
pub proof fn lemma_string_field_kept(a: Seq<Expr>, b: Seq<Expr>, fields: Seq<(AstIdent, TypeExpr)>, i: int)
    requires 0 <= i < fields.len(), (if i + 1 < fields.len() { 3 * i + 4 } else { 3 * i + 3 }) <= a.len() <= b.len(),
             forall|j: int| 0 <= j < a.len() ==> #[trigger] b[j] == a[j], string_field_ok(a, fields, i),
    ensures string_field_ok(b, fields, i),
{
    assert(b[3 * i + 1] == a[3 * i + 1] && b[3 * i + 2] == a[3 * i + 2]);
    if i + 1 < fields.len() { assert(b[3 * i + 3] == a[3 * i + 3]); }
}
pub open spec fn struct_string_body(r: Expr, d: StructDef) -> bool {
    if d.fields@.len() == 0 { is_str_lit(r, ""@ + d.name.0@ + " {}"@) }
    else {
        r matches Expr::EBlock { exprs, .. } && exprs@.len() == 2 && destructures_self(exprs@[0], d.name, d.fields@)
        && exists|parts: Seq<Expr>| #[trigger] chain(exprs@[1], parts) && string_struct_parts(parts, d.name.0@, d.fields@)
    }
}
// ---- which items ask for a derive ----
// parse_derive_targets (string code, not verified here): the trait names a `#[derive(A, B)]` attribute lists; None for any other attribute
pub uninterp spec fn targets_of(a: Attribute) -> Option<Seq<Seq<char>>>;
pub open spec fn views(v: Seq<String>) -> Seq<Seq<char>> { v.map_values(|s: String| s@) }
#[verifier::external_body]
pub fn parse_derive_targets(attr: &Attribute) -> (r: Option<Vec<String>>)
    ensures (r is Some) == (targets_of(*attr) is Some), r is Some ==> targets_of(*attr) == Some(views(r->0@)),
{ unimplemented!() }
#[verifier::external_body] pub fn string_eq_str(a: &String, b: &str) -> (r: bool) ensures r == (a@ == b@) { unimplemented!() }      // `a == b` (String == str)
// C18: the attribute asks for the trait
pub open spec fn lists(a: Attribute, t: Seq<char>) -> bool { targets_of(a) is Some && targets_of(a)->0.contains(t) }
// C18: SOME attribute of the item asks for the trait — every `#[derive(..)]` attribute counts, not just the first
pub open spec fn derives(attrs: Seq<Attribute>, t: Seq<char>) -> bool { exists|i: int| 0 <= i < attrs.len() && lists(#[trigger] attrs[i], t) }
// ---- the generated impl block ----
#[verifier::external_body] pub struct Diagnostic { _p: u64 }
#[verifier::external_body] pub fn generic_not_supported(kind: &str, name: &AstIdent, attr_ptr: &MySyntaxNodePtr) -> (r: Diagnostic) { unimplemented!() }
#[verifier::external_body] pub fn generic_not_supported_json(kind: &str, name: &AstIdent, attr_ptr: &MySyntaxNodePtr) -> (r: Diagnostic) { unimplemented!() }
pub open spec fn named_ty(t: TypeExpr, name: Seq<char>) -> bool { t matches TypeExpr::TCon { path } && ident_path(path, name) }
// `impl Name { fn <method>(self: Name) -> string { <body> } }` — an inherent impl, not generic, with exactly that one method
pub open spec fn derived_impl(b: ImplBlock, name: Seq<char>, method: Seq<char>) -> bool {
    b.trait_name is None && b.generics@.len() == 0 && named_ty(b.for_type, name) && b.methods@.len() == 1
    && b.methods@[0].name.0@ == method && b.methods@[0].generics@.len() == 0 && b.methods@[0].generic_bounds@.len() == 0
    && b.methods@[0].params@.len() == 1 && b.methods@[0].params@[0].0.0@ == "self"@ && named_ty(b.methods@[0].params@[0].1, name)
    && (b.methods@[0].ret_ty matches Some(t) && t is TString)
}
// ---- enum arms ----
// Path::from_idents(vec![a, b]) — the path `a::b`
#[verifier::external_body]
pub fn path_from_idents2(a: AstIdent, b: AstIdent) -> (r: Path) ensures r.segments@.len() == 2, r.segments@[0].ident == a, r.segments@[1].ident == b { unimplemented!() }
// `(0..n).map(|idx| AstIdent::new(&format!("__field{}", idx))).collect()`: n binders `__field0` .. with pairwise different names
pub uninterp spec fn binder_name(i: int) -> Seq<char>;
#[verifier::external_body]
pub fn field_binders(n: usize) -> (r: Vec<AstIdent>)
    ensures r@.len() == n, forall|i: int| 0 <= i < n ==> (#[trigger] r@[i]).0@ == binder_name(i),
            forall|i: int, j: int| 0 <= i < j < n ==> binder_name(i) != binder_name(j),
{ unimplemented!() }
// the pattern `Enum::Variant(b0, .., bn-1)` with variable binders of pairwise different names
pub open spec fn variant_pattern(p: Pat, en: AstIdent, vn: AstIdent, n: int) -> bool {
    p matches Pat::PConstr { constructor, args, .. } && constructor.segments@.len() == 2 && constructor.segments@[0].ident == en && constructor.segments@[1].ident == vn
    && args@.len() == n && (forall|i: int| 0 <= i < n ==> (#[trigger] args@[i] matches Pat::PVar { name, .. } && name.0@ == binder_name(i)))
    && (forall|i: int, j: int| 0 <= i < j < n ==> binder_name(i) != binder_name(j))
}
// C18: `{"tag":"Variant","fields":[<leaf0>,<leaf1>]}` — commas between the leaves only
pub open spec fn json_variant_field_ok(parts: Seq<Expr>, tys: Seq<TypeExpr>, i: int) -> bool {
    (i > 0 ==> is_str_lit(parts[2 * i], ","@))
    && (exists|v: Expr| is_var(v, binder_name(i)) && #[trigger] json_leaf(parts[2 * i + 1], v, Some(&tys[i])))
}
pub open spec fn json_variant_parts(parts: Seq<Expr>, vname: Seq<char>, tys: Seq<TypeExpr>) -> bool {
    let n = tys.len() as int;
    parts.len() == 2 * n + 1 && is_str_lit(parts[0], "{\"tag\":\""@ + vname + "\",\"fields\":["@) && is_str_lit(parts[2 * n], "]}"@)
    && forall|i: int| 0 <= i < n ==> #[trigger] json_variant_field_ok(parts, tys, i)
}
pub proof fn lemma_json_variant_field_kept(a: Seq<Expr>, b: Seq<Expr>, tys: Seq<TypeExpr>, i: int)
    requires 0 <= i, 2 * i + 2 <= a.len() <= b.len(), forall|j: int| 0 <= j < a.len() ==> #[trigger] b[j] == a[j], json_variant_field_ok(a, tys, i),
    ensures json_variant_field_ok(b, tys, i),
{
    assert(b[2 * i] == a[2 * i] && b[2 * i + 1] == a[2 * i + 1]);
}
pub open spec fn json_variant_arm(arm: Arm, en: AstIdent, vn: AstIdent, tys: Seq<TypeExpr>) -> bool {
    variant_pattern(arm.pat, en, vn, tys.len() as int)
    && if tys.len() == 0 { is_str_lit(arm.body, "{\"tag\":\""@ + vn.0@ + "\"}"@) }
       else { exists|parts: Seq<Expr>| #[trigger] chain(arm.body, parts) && json_variant_parts(parts, vn.0@, tys) }
}
// `format!("<pre>{}<mid>{}<post>", x, y)` with two placeholders
#[verifier::external_body] pub fn fmt2(pre: &str, x: &String, mid: &str, y: &String, post: &str) -> (r: String) ensures r@ == pre@ + x@ + mid@ + y@ + post@ { unimplemented!() }
// ---- ToString of an enum: `Enum::Variant` / `Enum::Variant(<leaf0>, <leaf1>)` ----
pub open spec fn string_variant_field_ok(parts: Seq<Expr>, tys: Seq<TypeExpr>, i: int) -> bool {
    (i > 0 ==> is_str_lit(parts[2 * i], ", "@))
    && (exists|v: Expr| is_var(v, binder_name(i)) && #[trigger] string_leaf(parts[2 * i + 1], v, Some(&tys[i])))
}
pub open spec fn string_variant_parts(parts: Seq<Expr>, ename: Seq<char>, vname: Seq<char>, tys: Seq<TypeExpr>) -> bool {
    let n = tys.len() as int;
    parts.len() == 2 * n + 1 && is_str_lit(parts[0], ""@ + ename + "::"@ + vname + "("@) && is_str_lit(parts[2 * n], ")"@)
    && forall|i: int| 0 <= i < n ==> #[trigger] string_variant_field_ok(parts, tys, i)
}
pub proof fn lemma_string_variant_field_kept(a: Seq<Expr>, b: Seq<Expr>, tys: Seq<TypeExpr>, i: int)
    requires 0 <= i, 2 * i + 2 <= a.len() <= b.len(), forall|j: int| 0 <= j < a.len() ==> #[trigger] b[j] == a[j], string_variant_field_ok(a, tys, i),
    ensures string_variant_field_ok(b, tys, i),
{
    assert(b[2 * i] == a[2 * i] && b[2 * i + 1] == a[2 * i + 1]);
}
pub open spec fn string_variant_arm(arm: Arm, en: AstIdent, vn: AstIdent, tys: Seq<TypeExpr>) -> bool {
    variant_pattern(arm.pat, en, vn, tys.len() as int)
    && if tys.len() == 0 { is_str_lit(arm.body, ""@ + en.0@ + "::"@ + vn.0@ + ""@) }
       else { exists|parts: Seq<Expr>| #[trigger] chain(arm.body, parts) && string_variant_parts(parts, en.0@, vn.0@, tys) }
}
// C18: `match self { <one arm per variant, in declaration order> }`
pub open spec fn enum_json_body(r: Expr, d: EnumDef) -> bool {
    r matches Expr::EMatch { expr, arms, .. } && is_var(*expr, "self"@) && arms@.len() == d.variants@.len()
    && forall|i: int| 0 <= i < arms@.len() ==> json_variant_arm(#[trigger] arms@[i], d.name, d.variants@[i].0, d.variants@[i].1@)
}
pub open spec fn enum_string_body(r: Expr, d: EnumDef) -> bool {
    r matches Expr::EMatch { expr, arms, .. } && is_var(*expr, "self"@) && arms@.len() == d.variants@.len()
    && forall|i: int| 0 <= i < arms@.len() ==> string_variant_arm(#[trigger] arms@[i], d.name, d.variants@[i].0, d.variants@[i].1@)
}
// ---- field types the generated method cannot render (fix 64a7fcd) ----
#[verifier::external_body] pub fn field_type_not_supported(trait_name: &str, kind: &str, name: &AstIdent, attr_ptr: &MySyntaxNodePtr) -> (r: Diagnostic) { unimplemented!() }
// tuples, arrays and function values have no to_string / to_json method and cannot get one
pub open spec fn no_method_ty(t: TypeExpr) -> bool { t is TTuple || t is TArray || t is TFunc }
pub open spec fn struct_unsupported(d: StructDef) -> bool {
    d.generics@.len() > 0 || exists|i: int| 0 <= i < d.fields@.len() && no_method_ty((#[trigger] d.fields@[i]).1)
}
pub open spec fn enum_unsupported(d: EnumDef) -> bool {
    d.generics@.len() > 0 || exists|i: int, j: int| 0 <= i < d.variants@.len() && 0 <= j < d.variants@[i].1@.len() && no_method_ty(#[trigger] d.variants@[i].1@[j])
}
// ---- expand: which item gets which impl, and where ----
impl VClone for Vec<AstIdent> { #[verifier::external_body] fn vclone(&self) -> (r: Self) { unimplemented!() } }
// diagnostics::Diagnostics: only the number of diagnostics pushed matters here; every diagnostic the derive builds has Severity::Error
// (generic_not_supported / generic_not_supported_json), so has_errors() is `something was pushed`
#[verifier::external_body] pub struct Diagnostics { _p: u64 }
impl Diagnostics {
    pub uninterp spec fn count(&self) -> nat;
    #[verifier::external_body] pub fn new() -> (r: Self) ensures r.count() == 0 { unimplemented!() }
    #[verifier::external_body] pub fn push(&mut self, d: Diagnostic) ensures final(self).count() == old(self).count() + 1 { unimplemented!() }
    #[verifier::external_body] pub fn has_errors(&self) -> (r: bool) ensures r == (self.count() > 0) { unimplemented!() }
}
pub open spec fn item_attrs(it: Item) -> Option<Seq<Attribute>> {
    match it { Item::StructDef(d) => Some(d.attrs@), Item::EnumDef(d) => Some(d.attrs@), _ => None }
}
pub open spec fn item_generic(it: Item) -> bool {
    match it { Item::StructDef(d) => struct_unsupported(d), Item::EnumDef(d) => enum_unsupported(d), _ => false }
}
// the item asks for the trait (only struct and enum definitions can)
pub open spec fn wants(it: Item, t: Seq<char>) -> bool { item_attrs(it) is Some && derives(item_attrs(it)->0, t) }
// C18: a type the derive cannot handle — a struct / enum asking for a derive that is generic or has a field of a tuple, array or function type
pub open spec fn unsupported(it: Item) -> bool { item_generic(it) && (wants(it, "ToString"@) || wants(it, "ToJson"@)) }
pub open spec fn is_tostring_impl(x: Item, it: Item) -> bool {
    x matches Item::ImplBlock(b) && match it {
        Item::StructDef(d) => derived_impl(b, d.name.0@, "to_string"@) && struct_string_body(b.methods@[0].body, d),
        Item::EnumDef(d) => derived_impl(b, d.name.0@, "to_string"@) && enum_string_body(b.methods@[0].body, d),
        _ => false,
    }
}
pub open spec fn is_tojson_impl(x: Item, it: Item) -> bool {
    x matches Item::ImplBlock(b) && match it {
        Item::StructDef(d) => derived_impl(b, d.name.0@, "to_json"@) && struct_json_body(b.methods@[0].body, d),
        Item::EnumDef(d) => derived_impl(b, d.name.0@, "to_json"@) && enum_json_body(b.methods@[0].body, d),
        _ => false,
    }
}
pub open spec fn b2n(b: bool) -> int { if b { 1 } else { 0 } }
// the number of output items the first k input items give: each item itself, followed by its derived impls
pub open spec fn offset(items: Seq<Item>, k: int) -> int
    decreases k,
{
    if k <= 0 { 0 } else { offset(items, k - 1) + 1 + b2n(wants(items[k - 1], "ToString"@)) + b2n(wants(items[k - 1], "ToJson"@)) }
}
// input item i owns the block of 1 + (number of derives it asks for) output items that starts at offset(i): the block holds the item itself, its
// to_string impl (if asked for) and its to_json impl (if asked for) — in whatever order (the order of top-level items has no meaning in goml)
pub open spec fn in_block(items: Seq<Item>, i: int, p: int) -> bool {
    offset(items, i) <= p < offset(items, i + 1)
}
pub open spec fn placed(items: Seq<Item>, out: Seq<Item>, i: int) -> bool {
    (exists|p: int| #[trigger] in_block(items, i, p) && out[p] == items[i])
    && (wants(items[i], "ToString"@) ==> exists|p: int| #[trigger] in_block(items, i, p) && is_tostring_impl(out[p], items[i]))
    && (wants(items[i], "ToJson"@) ==> exists|p: int| #[trigger] in_block(items, i, p) && is_tojson_impl(out[p], items[i]))
}
pub open spec fn expanded(items: Seq<Item>, out: Seq<Item>) -> bool {
    out.len() == offset(items, items.len() as int) && forall|i: int| 0 <= i < items.len() ==> #[trigger] placed(items, out, i)
}
// what the match of `expand` leaves in `derived_impls` when no diagnostic was pushed: the impls asked for, in whatever order
pub open spec fn impls_ok(di: Seq<ImplBlock>, it: Item) -> bool {
    let ts = wants(it, "ToString"@);
    let tj = wants(it, "ToJson"@);
    di.len() == b2n(ts) + b2n(tj)          // at most two: the positions are spelled out
    && (ts ==> (di.len() >= 1 && is_tostring_impl(Item::ImplBlock(di[0]), it)) || (di.len() >= 2 && is_tostring_impl(Item::ImplBlock(di[1]), it)))
    && (tj ==> (di.len() >= 1 && is_tojson_impl(Item::ImplBlock(di[0]), it)) || (di.len() >= 2 && is_tojson_impl(Item::ImplBlock(di[1]), it)))
}
pub proof fn lemma_offset_mono(items: Seq<Item>, i: int, k: int)
    requires 0 <= i <= k,
    ensures 0 <= offset(items, i) <= offset(items, k), i <= offset(items, i),
    decreases k,
{
    if i < k { lemma_offset_mono(items, i, k - 1); } else if k > 0 { lemma_offset_mono(items, i - 1, k - 1); }
}
// an item placed in a prefix of the output stays placed when the output grows
pub proof fn lemma_placed_kept(items: Seq<Item>, a: Seq<Item>, b: Seq<Item>, i: int)
    requires 0 <= i, offset(items, i + 1) <= a.len() <= b.len(), forall|q: int| 0 <= q < a.len() ==> #[trigger] b[q] == a[q], placed(items, a, i),
    ensures placed(items, b, i),
{
    lemma_offset_mono(items, i, i);
    let p0 = choose|p: int| #[trigger] in_block(items, i, p) && a[p] == items[i];
    assert(in_block(items, i, p0) && b[p0] == items[i]);
    if wants(items[i], "ToString"@) { let p = choose|p: int| #[trigger] in_block(items, i, p) && is_tostring_impl(a[p], items[i]); assert(in_block(items, i, p) && b[p] == a[p]); }
    if wants(items[i], "ToJson"@) { let p = choose|p: int| #[trigger] in_block(items, i, p) && is_tojson_impl(a[p], items[i]); assert(in_block(items, i, p) && b[p] == a[p]); }
}
// one round of expand's loop: the item and its impls are appended behind what was there
pub proof fn lemma_expand_step(items: Seq<Item>, k: int, a: Seq<Item>, b: Seq<Item>, di: Seq<ImplBlock>)
    requires 0 <= k < items.len(), a.len() == offset(items, k), b.len() == a.len() + 1 + di.len(),
             forall|q: int| 0 <= q < a.len() ==> #[trigger] b[q] == a[q], b[a.len() as int] == items[k],
             forall|q: int| 0 <= q < di.len() ==> #[trigger] b[a.len() + 1 + q] == Item::ImplBlock(di[q]),
             impls_ok(di, items[k]), forall|i: int| 0 <= i < k ==> #[trigger] placed(items, a, i),
    ensures b.len() == offset(items, k + 1), forall|i: int| 0 <= i < k + 1 ==> #[trigger] placed(items, b, i),
{
    let it = items[k];
    let ts = wants(it, "ToString"@);
    let tj = wants(it, "ToJson"@);
    lemma_offset_mono(items, k, k);
    assert(offset(items, k + 1) == offset(items, k) + 1 + b2n(ts) + b2n(tj));
    assert forall|i: int| 0 <= i < k implies placed(items, b, i) by { lemma_offset_mono(items, i + 1, k); lemma_placed_kept(items, a, b, i); }
    let o = offset(items, k);
    assert(in_block(items, k, o) && b[o] == it);
    if ts {
        let q: int = if di.len() >= 1 && is_tostring_impl(Item::ImplBlock(di[0]), it) { 0 } else { 1 };
        assert(in_block(items, k, o + 1 + q) && b[o + 1 + q] == Item::ImplBlock(di[q]));
    }
    if tj {
        let q: int = if di.len() >= 1 && is_tojson_impl(Item::ImplBlock(di[0]), it) { 0 } else { 1 };
        assert(in_block(items, k, o + 1 + q) && b[o + 1 + q] == Item::ImplBlock(di[q]));
    }
    assert(placed(items, b, k));
}
