// ---- shims for U-DIAGORD (C13: diagnostics come out in an order that is a function of the program, not of a hash seed) ----
#[verifier::external_body] pub struct Ty { _p: u64 }
#[verifier::external_body] pub struct FnScheme { _p: u64 }
pub enum Severity { Error, Warning }
pub enum Stage { Parser, Typer }

// diagnostics: the TEXT of every pushed diagnostic, in push order (this is what the user sees)
#[verifier::external_body] pub struct Diagnostic { _p: u64 }
impl Diagnostic {
    pub uninterp spec fn text(&self) -> Seq<char>;
    #[verifier::external_body]
    pub fn new(stage: Stage, severity: Severity, message: String) -> (r: Self) ensures r.text() == message@ { unimplemented!() }
}
#[verifier::external_body] pub struct Diagnostics { _p: u64 }
impl Diagnostics {
    pub uninterp spec fn view(&self) -> Seq<Seq<char>>;
    #[verifier::external_body]
    pub fn push(&mut self, diagnostic: Diagnostic) ensures final(self)@ == old(self)@.push(diagnostic.text()) { unimplemented!() }
}
// the message text is an (uninterpreted) function of the trait name and the method name (the type's Debug text is dropped)
pub uninterp spec fn missing_text(trait_name: Seq<char>, method: Seq<char>) -> Seq<char>;
#[verifier::external_body]
pub fn fmt_missing(trait_name: &String, for_ty: &Ty, method: &String) -> (r: String) ensures r@ == missing_text(trait_name@, method@) { unimplemented!() }

pub open spec fn views(v: Seq<String>) -> Seq<Seq<char>> { Seq::new(v.len(), |i: int| v[i]@) }

// std::collections::HashSet<String>: contents only.  ITERATION ORDER IS NOT A FUNCTION OF THE CONTENTS (it depends on the
// per-process hash seed): iter_order() promises the elements, each once, and nothing about their order.
#[verifier::external_body]
#[verifier::reject_recursive_types(K)]
pub struct HashSet<K> { _k: core::marker::PhantomData<K> }
impl HashSet<String> {
    pub uninterp spec fn view(&self) -> Set<Seq<char>>;
    #[verifier::external_body] pub fn contains(&self, k: &String) -> (r: bool) ensures r == self@.contains(k@) { unimplemented!() }
    #[verifier::external_body]
    pub fn iter_order(&self) -> (r: Vec<String>)
        ensures views(r@).no_duplicates(), views(r@).to_set() == self@,
    { unimplemented!() }
}
// the one order a deterministic compiler could use for a set: SOME fixed function of the contents
pub uninterp spec fn canonical(s: Set<Seq<char>>) -> Seq<Seq<char>>;

// indexmap::IndexMap<String, V>: keys() walks the INSERTION order, which is part of the map's value (for TraitDef.methods:
// the order the trait declares its methods in)
#[verifier::external_body]
#[verifier::reject_recursive_types(K)]
#[verifier::reject_recursive_types(V)]
pub struct IndexMap<K, V> { _k: core::marker::PhantomData<(K, V)> }
impl<V> IndexMap<String, V> {
    pub uninterp spec fn key_seq(&self) -> Seq<Seq<char>>;
    #[verifier::external_body]
    pub fn keys_vec(&self) -> (r: Vec<String>) ensures views(r@) == self.key_seq() { unimplemented!() }
}

// ---- the specification: one "missing method" diagnostic per declared-but-unimplemented method, in ORDER ----
pub open spec fn missing_msgs(tn: Seq<char>, order: Seq<Seq<char>>, done: Set<Seq<char>>, n: int) -> Seq<Seq<char>>
    decreases n,
{
    if n <= 0 || n > order.len() { Seq::empty() }
    else if done.contains(order[n - 1]) { missing_msgs(tn, order, done, n - 1) }
    else { missing_msgs(tn, order, done, n - 1).push(missing_text(tn, order[n - 1])) }
}

// ---- second fragment: Typer::check_pat, "unknown fields" of a struct pattern ----
#[verifier::external_body] pub struct PatId { _p: u64 }
// std::collections::HashMap<String, V>: key set only; the ORDER keys() yields is unspecified (hash order)
#[verifier::external_body]
#[verifier::reject_recursive_types(K)]
#[verifier::reject_recursive_types(V)]
pub struct HashMap<K, V> { _k: core::marker::PhantomData<(K, V)> }
impl<V> HashMap<String, V> {
    pub uninterp spec fn key_set(&self) -> Set<Seq<char>>;
    #[verifier::external_body] pub fn is_empty(&self) -> (r: bool) ensures r == (self.key_set() =~= Set::<Seq<char>>::empty()) { unimplemented!() }
    // `m.keys().cloned().collect::<Vec<_>>()`
    #[verifier::external_body]
    pub fn keys_vec(&self) -> (r: Vec<String>) ensures views(r@).no_duplicates(), views(r@).to_set() == self.key_set() { unimplemented!() }
}
// `<[String]>::sort`: on a duplicate-free vector the result is THE sorted sequence of its element set (a function of the contents)
#[verifier::external_body]
pub fn sort_strs(v: &mut Vec<String>)
    requires views(old(v)@).no_duplicates(),
    ensures views(final(v)@) == canonical(views(old(v)@).to_set()), views(final(v)@).no_duplicates(),
{ unimplemented!() }
pub uninterp spec fn join_text(parts: Seq<Seq<char>>, sep: Seq<char>) -> Seq<char>;
#[verifier::external_body]
pub fn join_strs(v: &Vec<String>, sep: &str) -> (r: String) ensures r@ == join_text(views(v@), sep@) { unimplemented!() }
pub uninterp spec fn unknown_text(name: Seq<char>, extra: Seq<char>) -> Seq<char>;
#[verifier::external_body]
pub fn fmt_unknown(name: &String, extra: &String) -> (r: String) ensures r@ == unknown_text(name@, extra@) { unimplemented!() }
#[verifier::external_body]
pub fn push_error(diagnostics: &mut Diagnostics, message: String) ensures final(diagnostics)@ == old(diagnostics)@.push(message@) { unimplemented!() }

// the typer and its environments as far as a variant of the unknown-fields block may use them: checking a sub-pattern may push any diagnostics
#[verifier::external_body] pub struct GenvShim { _p: u64 }
#[verifier::external_body] pub struct LocalEnvShim { _p: u64 }
#[verifier::external_body] pub struct TyShim { _p: u64 }
#[verifier::external_body] pub struct Typer { _p: u64 }
impl Typer {
    #[verifier::external_body] pub fn fresh_ty_var(&mut self) -> (r: TyShim) { unimplemented!() }
    #[verifier::external_body] pub fn check_pat(&mut self, genv: &GenvShim, local_env: &mut LocalEnvShim, diagnostics: &mut Diagnostics, id: PatId, expected: &TyShim) { unimplemented!() }
}
// `m.into_values()` / `m.values()`: the values in the hash map's iteration order — unspecified, different from run to run
#[verifier::external_body] pub fn iter_order<V>(m: &HashMap<String, V>) -> (r: Vec<V>) { unimplemented!() }
