// ---- shims / specification for U-SUBSTREPORT (C03: a type that still holds an inference variable after solving is reported) ----
#[verifier::external_body] pub struct Diagnostics { _p: u64 }
impl Diagnostics { pub uninterp spec fn n(&self) -> nat; }
#[verifier::external_body] pub fn push_error(diagnostics: &mut Diagnostics, msg: String) ensures final(diagnostics).n() == old(diagnostics).n() + 1 { unimplemented!() }
#[verifier::external_body] pub fn rt_msg() -> (r: String) { unimplemented!() }
#[verifier::external_body] pub fn vclone<T>(a: &T) -> (r: T) ensures r == *a { unimplemented!() }                 // `a.clone()` (derived Clone: an identical copy)
#[verifier::external_body] pub fn tv_copy(v: &TypeVar) -> (r: TypeVar) ensures r == *v { unimplemented!() }        // `*v` (TypeVar is Copy)
#[verifier::external_body] pub struct Typer { _p: u64 }
impl Typer {
    #[verifier::external_body] pub fn probe(&mut self, v: &TypeVar) -> (r: Option<Ty>) { unimplemented!() }          // self.uni.probe_value(*v)
    // the recursive call (induction hypothesis): a variable left in the result was reported
    #[verifier::external_body]
    pub fn subst_sub(&mut self, diagnostics: &mut Diagnostics, ty: &Ty) -> (r: Ty)
        ensures final(diagnostics).n() >= old(diagnostics).n(), has_tvar(r) ==> final(diagnostics).n() > old(diagnostics).n(),
    { unimplemented!() }
}
// any_tvar looks only at the first n items
pub proof fn any_tvar_prefix(s: Seq<Ty>, t: Seq<Ty>, n: int)
    requires 0 <= n <= s.len(), n <= t.len(), forall|i: int| 0 <= i < n ==> s[i] == t[i],
    ensures any_tvar(s, n) == any_tvar(t, n),
    decreases n,
{
    if n > 0 { any_tvar_prefix(s, t, n - 1); }
}
