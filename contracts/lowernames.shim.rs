// ---- shims / specification for U-LOWERNAMES (C20: lowering an item whose name the user has not typed yet does not panic) ----
// one shim stands for every CST node kind read here (cst::Fn, cst::Enum, cst::Trait, cst::TraitMethod, cst::Variant, cst::Param, cst::Struct, VarPat): after a parse
// error the node exists but ANY of its children may be missing
#[verifier::external_body] pub struct Node { _p: u64 }
#[verifier::external_body] pub struct SyntaxToken { _p: u64 }
#[verifier::external_body] pub struct SyntaxNode { _p: u64 }
#[verifier::external_body] pub struct TextRange { _p: u64 }
#[verifier::external_body] pub struct Attributes { _p: u64 }
#[verifier::external_body] pub struct AstAttrs { _p: u64 }
#[verifier::external_body] pub struct LowerCtx { _p: u64 }
impl Node {
    pub uninterp spec fn has_lident(&self) -> bool;
    pub uninterp spec fn has_uident(&self) -> bool;
    #[verifier::external_body] pub fn lident(&self) -> (r: Option<SyntaxToken>) ensures (r is Some) == self.has_lident() { unimplemented!() }
    #[verifier::external_body] pub fn uident(&self) -> (r: Option<SyntaxToken>) ensures (r is Some) == self.has_uident() { unimplemented!() }
    #[verifier::external_body] pub fn syntax(&self) -> (r: &SyntaxNode) { unimplemented!() }
    #[verifier::external_body] pub fn attributes(&self) -> (r: Attributes) { unimplemented!() }
}
impl SyntaxNode { #[verifier::external_body] pub fn text_range(&self) -> (r: TextRange) { unimplemented!() } }
impl SyntaxToken { #[verifier::external_body] pub fn to_string(&self) -> (r: String) { unimplemented!() } }
impl LowerCtx { #[verifier::external_body] pub fn push_error(&mut self, range: Option<TextRange>, message: &str) { unimplemented!() } }
#[verifier::external_body] pub fn lower_attributes(a: Attributes) -> (r: AstAttrs) { unimplemented!() }
