// ---- shims for U-CAPT ----
#[verifier::external_body] pub struct Ty { _p: u64 }            // crate::tast::Ty (only cloned here)
#[verifier::external_body] pub struct Prim { _p: u64 }
#[verifier::external_body] pub struct Constructor { _p: u64 }
#[verifier::external_body] pub struct UnaryOp { _p: u64 }
#[verifier::external_body] pub struct BinaryOp { _p: u64 }
#[verifier::external_body] pub struct TastIdent { _p: u64 }
#[verifier::external_body]
pub fn ty_clone(a: &Ty) -> (r: Ty) ensures r == *a { unimplemented!() }
#[verifier::external_body]
pub fn string_clone(a: &String) -> (r: String) ensures r == *a, r@ == a@ { unimplemented!() }
#[verifier::external_body]
pub fn string_eq(a: &String, b: &String) -> (r: bool) ensures r == (a@ == b@) { unimplemented!() }

// lift::Scope (layers of IndexMap<String, ScopeEntry>): the visible binding of each name
#[verifier::external_body] pub struct Scope { _p: u64 }
impl Scope {
    pub uninterp spec fn view(&self) -> Map<Seq<char>, ScopeEntry>;
    #[verifier::external_body]
    pub fn get(&self, name: &String) -> (r: Option<&ScopeEntry>)
        ensures r matches Some(e) ==> self@.contains_key(name@) && *e == self@[name@], r is None ==> !self@.contains_key(name@),
    { unimplemented!() }
}
// IndexMap<String, Ty>: the capture set being built (insertion order is not specified here)
#[verifier::external_body]
#[verifier::reject_recursive_types(K)]
#[verifier::reject_recursive_types(V)]
pub struct IndexMap<K, V> { _k: core::marker::PhantomData<(K, V)> }
impl IndexMap<String, Ty> {
    pub uninterp spec fn view(&self) -> Map<Seq<char>, Ty>;
    #[verifier::external_body]
    pub fn contains_key(&self, k: &String) -> (r: bool) ensures r == self@.contains_key(k@) { unimplemented!() }
    #[verifier::external_body]
    pub fn insert(&mut self, k: String, v: Ty) -> (r: Option<Ty>) ensures final(self)@ == old(self)@.insert(k@, v) { unimplemented!() }
}

// ---- C08: a closure captures exactly the free variables of its body that are bound in the defining scope ----
// the locally bound names (innermost last)
pub open spec fn names(b: Seq<String>) -> Seq<Seq<char>> { b.map_values(|s: String| s@) }

pub open spec fn free_in(e: LiftExpr, bs: Seq<Seq<char>>) -> Set<Seq<char>>
    decreases e,
{
    match e {
        LiftExpr::EVar { name, .. } => if bs.contains(name@) { Set::empty() } else { Set::empty().insert(name@) },
        LiftExpr::EPrim { .. } => Set::empty(),
        LiftExpr::EConstr { args, .. } => free_list(args@, args@.len() as int, bs),
        LiftExpr::ETuple { items, .. } => free_list(items@, items@.len() as int, bs),
        LiftExpr::EArray { items, .. } => free_list(items@, items@.len() as int, bs),
        LiftExpr::ELet { name, value, body, .. } => free_in(*value, bs).union(free_in(*body, bs.push(name@))),
        LiftExpr::EMatch { expr, arms, default, .. } => free_in(*expr, bs).union(free_arms(arms@, arms@.len() as int, bs))
            .union(match default { Some(d) => free_in(*d, bs), None => Set::empty() }),
        LiftExpr::EIf { cond, then_branch, else_branch, .. } => free_in(*cond, bs).union(free_in(*then_branch, bs)).union(free_in(*else_branch, bs)),
        LiftExpr::EWhile { cond, body, .. } => free_in(*cond, bs).union(free_in(*body, bs)),
        LiftExpr::EGo { expr, .. } => free_in(*expr, bs),
        LiftExpr::EConstrGet { expr, .. } => free_in(*expr, bs),
        LiftExpr::EUnary { expr, .. } => free_in(*expr, bs),
        LiftExpr::EBinary { lhs, rhs, .. } => free_in(*lhs, bs).union(free_in(*rhs, bs)),
        LiftExpr::ECall { func, args, .. } => free_in(*func, bs).union(free_list(args@, args@.len() as int, bs)),
        LiftExpr::EToDyn { expr, .. } => free_in(*expr, bs),
        LiftExpr::EDynCall { receiver, args, .. } => free_in(*receiver, bs).union(free_list(args@, args@.len() as int, bs)),
        LiftExpr::EProj { tuple, .. } => free_in(*tuple, bs),
    }
}
pub open spec fn free_list(es: Seq<LiftExpr>, n: int, bs: Seq<Seq<char>>) -> Set<Seq<char>>
    decreases es, n,
{
    if n <= 0 || n > es.len() { Set::empty() } else { free_list(es, n - 1, bs).union(free_in(es[n - 1], bs)) }
}
pub open spec fn free_arms(arms: Seq<LiftArm>, n: int, bs: Seq<Seq<char>>) -> Set<Seq<char>>
    decreases arms, n,
{
    if n <= 0 || n > arms.len() { Set::empty() } else { free_arms(arms, n - 1, bs).union(free_in(arms[n - 1].lhs, bs)).union(free_in(arms[n - 1].body, bs)) }
}

// `nc` is `oc` plus exactly the members of F that the scope binds, each with the scope's type; nothing else changes
pub open spec fn cap_ok(oc: Map<Seq<char>, Ty>, nc: Map<Seq<char>, Ty>, f: Set<Seq<char>>, sc: Map<Seq<char>, ScopeEntry>) -> bool {
    &&& forall|k: Seq<char>| #[trigger] nc.contains_key(k) <==> oc.contains_key(k) || (f.contains(k) && sc.contains_key(k))
    &&& forall|k: Seq<char>| oc.contains_key(k) ==> #[trigger] nc[k] == oc[k]
    &&& forall|k: Seq<char>| nc.contains_key(k) && !oc.contains_key(k) ==> #[trigger] nc[k] == sc[k].ty
}
pub proof fn lemma_cap_trans(a: Map<Seq<char>, Ty>, b: Map<Seq<char>, Ty>, c: Map<Seq<char>, Ty>, f1: Set<Seq<char>>, f2: Set<Seq<char>>, sc: Map<Seq<char>, ScopeEntry>)
    requires cap_ok(a, b, f1, sc), cap_ok(b, c, f2, sc),
    ensures cap_ok(a, c, f1.union(f2), sc),
{
    assert forall|k: Seq<char>| #[trigger] c.contains_key(k) <==> a.contains_key(k) || (f1.union(f2).contains(k) && sc.contains_key(k)) by {
        assert(b.contains_key(k) <==> a.contains_key(k) || (f1.contains(k) && sc.contains_key(k)));
    }
    assert forall|k: Seq<char>| a.contains_key(k) implies #[trigger] c[k] == a[k] by { assert(b.contains_key(k)); assert(b[k] == a[k]); }
    assert forall|k: Seq<char>| c.contains_key(k) && !a.contains_key(k) implies #[trigger] c[k] == sc[k].ty by {
        if b.contains_key(k) { assert(b[k] == sc[k].ty); assert(c[k] == b[k]); }
    }
}
pub proof fn lemma_cap_refl(a: Map<Seq<char>, Ty>, sc: Map<Seq<char>, ScopeEntry>)
    ensures cap_ok(a, a, Set::empty(), sc),
{
}
pub proof fn lemma_names_push(b: Seq<String>, s: String)
    ensures names(b.push(s)) =~= names(b).push(s@),
{
}

pub proof fn lemma_names_contains(b: Seq<String>, x: Seq<char>)
    ensures names(b).contains(x) <==> exists|j: int| 0 <= j < b.len() && (#[trigger] b[j])@ == x,
{
    if names(b).contains(x) {
        let i = choose|i: int| 0 <= i < names(b).len() && names(b)[i] == x;
        assert(b[i]@ == x);
    }
    if exists|j: int| 0 <= j < b.len() && (#[trigger] b[j])@ == x {
        let j = choose|j: int| 0 <= j < b.len() && (#[trigger] b[j])@ == x;
        assert(names(b)[j] == x);
    }
}
