// ---- shims / specification for U-DEPENV (C16: a package is type-checked against its DIRECT imports only) ----
#[verifier::external_body] pub struct CompilationError { _p: u64 }
#[verifier::external_body] pub fn compile_error(m: String) -> (r: CompilationError) { unimplemented!() }
#[verifier::external_body] pub fn rt_msg() -> (r: String) { unimplemented!() }
#[verifier::external_body] pub struct SourceFileAst { _p: u64 }
#[verifier::external_body] pub struct GlobalTypeEnv { _p: u64 }
#[verifier::external_body] pub struct HirInterface { _p: u64 }        // hir::PackageInterface
#[verifier::external_body] pub struct PackageExports { _p: u64 }
impl PackageExports {
    pub uninterp spec fn genv(&self) -> GlobalTypeEnv;
    #[verifier::external_body] pub fn to_genv(&self) -> (r: GlobalTypeEnv) ensures r == self.genv() { unimplemented!() }
}
impl HirInterface { #[verifier::external_body] pub fn vclone(&self) -> (r: Self) ensures r == *self { unimplemented!() } }
pub struct PackageInterface { pub exports: PackageExports, pub hir_interface: HirInterface }      // artifact::PackageInterface (fields used here)
pub struct PackageArtifact { pub interface: PackageInterface }                                    // pipeline::PackageArtifact (field used here)
#[verifier::external_body]
pub fn string_clone(a: &String) -> (r: String) ensures r@ == a@ { unimplemented!() }

pub uninterp spec fn key_view<Q: ?Sized>(k: &Q) -> Seq<char>;
pub broadcast proof fn key_view_string(k: &String) ensures #[trigger] key_view::<String>(k) == k@ { admit(); }
#[verifier::external_body]
#[verifier::reject_recursive_types(K)]
#[verifier::reject_recursive_types(V)]
pub struct HashMap<K, V> { _k: core::marker::PhantomData<(K, V)> }
impl<V> HashMap<String, V> {
    pub uninterp spec fn view(&self) -> Map<Seq<char>, V>;
    #[verifier::external_body] pub fn new() -> (r: Self) ensures r@ == Map::<Seq<char>, V>::empty() { unimplemented!() }
    #[verifier::external_body] pub fn insert(&mut self, k: String, v: V) -> (r: Option<V>) ensures final(self)@ == old(self)@.insert(k@, v) { unimplemented!() }
    #[verifier::external_body]
    pub fn get<Q: ?Sized>(&self, k: &Q) -> (r: Option<&V>)
        ensures r matches Some(v) ==> self@.contains_key(key_view(k)) && *v == self@[key_view(k)], r is None ==> !self@.contains_key(key_view(k)),
    { unimplemented!() }
}
pub open spec fn views(v: Seq<String>) -> Seq<Seq<char>> { Seq::new(v.len(), |i: int| v[i]@) }
#[verifier::external_body]
#[verifier::reject_recursive_types(K)]
pub struct HashSet<K> { _k: core::marker::PhantomData<K> }
impl HashSet<String> {
    pub uninterp spec fn view(&self) -> Set<Seq<char>>;
    // `s.iter().cloned().collect::<Vec<_>>()`: the elements, each once, in an unspecified order
    #[verifier::external_body]
    pub fn to_vec_any_order(&self) -> (r: Vec<String>) ensures views(r@).to_set() == self@ { unimplemented!() }
}
// `<[String]>::sort`: a permutation (same set of elements)
#[verifier::external_body]
pub fn sort_strs(v: &mut Vec<String>) ensures views(final(v)@).to_set() == views(old(v)@).to_set(), final(v)@.len() == old(v)@.len() { unimplemented!() }

// ---- the gate: what the type checker of one package may be given ----
// exactly the package's direct imports, each with the environment / HIR interface of THAT package's artifact
pub open spec fn envs_ok<A>(imports: Set<Seq<char>>, envs: Map<Seq<char>, GlobalTypeEnv>, arts: Map<Seq<char>, A>, exp: spec_fn(A) -> PackageExports) -> bool {
    &&& envs.dom() =~= imports
    &&& forall|d: Seq<char>| imports.contains(d) ==> arts.contains_key(d) && #[trigger] envs[d] == exp(arts[d]).genv()
}
pub open spec fn ifaces_ok<A>(imports: Set<Seq<char>>, ifs: Map<Seq<char>, HirInterface>, arts: Map<Seq<char>, A>, hi: spec_fn(A) -> HirInterface) -> bool {
    &&& ifs.dom() =~= imports
    &&& forall|d: Seq<char>| imports.contains(d) ==> arts.contains_key(d) && #[trigger] ifs[d] == hi(arts[d])
}
#[verifier::external_body]
pub fn typecheck_gate_a(imports: &HashSet<String>, arts: &HashMap<String, PackageArtifact>, deps_envs: HashMap<String, GlobalTypeEnv>, deps_interfaces: HashMap<String, HirInterface>) -> (r: Result<(), CompilationError>)
    requires envs_ok(imports@, deps_envs@, arts@, |a: PackageArtifact| a.interface.exports),
        ifaces_ok(imports@, deps_interfaces@, arts@, |a: PackageArtifact| a.interface.hir_interface),
{ unimplemented!() }
#[verifier::external_body]
pub fn typecheck_gate_b(imports: &HashSet<String>, arts: &HashMap<String, PackageInterface>, deps_envs: HashMap<String, GlobalTypeEnv>, deps_interfaces: HashMap<String, HirInterface>) -> (r: Result<(), CompilationError>)
    requires envs_ok(imports@, deps_envs@, arts@, |a: PackageInterface| a.exports),
        ifaces_ok(imports@, deps_interfaces@, arts@, |a: PackageInterface| a.hir_interface),
{ unimplemented!() }
