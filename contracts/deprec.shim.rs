// ---- shims for U-DEPREC (check_package / build_package up to type checking) ----
#[verifier::external_body] pub struct GlobalTypeEnv { _p: u64 }
#[verifier::external_body] pub struct SourceFiles { _p: u64 }          // Vec<hir::SourceFileAst>
#[verifier::external_body] pub struct ImportSet { _p: u64 }            // HashSet<String>
#[verifier::external_body] pub struct SourceList { _p: u64 }
pub struct PackageInputs { pub package: String, pub input_files: Vec<PathBuf>, pub interface_paths: Vec<PathBuf> }
pub uninterp spec fn genv_of(e: PackageExports) -> GlobalTypeEnv;
impl PackageExports {
    #[verifier::external_body]
    pub fn to_genv(&self) -> (r: GlobalTypeEnv) ensures r == genv_of(*self) { unimplemented!() }
}
impl ImportSet { pub uninterp spec fn view(&self) -> Set<Seq<char>>; }
#[verifier::external_body]
pub fn read_source_files(package: &String, input_files: &Vec<PathBuf>) -> (r: Result<(SourceFiles, ImportSet, SourceList), CompilationError>)
    ensures r is Ok ==> package@ != "Builtin"@        // the contract proved on the real function in U-LOADPKG (`!reserved_package_name(package@)`)
{ unimplemented!() }
// `imports.into_iter().collect(); sort(); dedup()`: the imported names, each once (order irrelevant to the contract)
#[verifier::external_body]
pub fn sorted_import_names(imports: ImportSet) -> (r: Vec<String>)
    ensures forall|i: int, j: int| 0 <= i < j < r@.len() ==> r@[i]@ != r@[j]@,
            forall|k: Seq<char>| imports@.contains(k) <==> exists|i: int| 0 <= i < r@.len() && (#[trigger] r@[i])@ == k,
{ unimplemented!() }
// HashMap<String, V> / BTreeMap<String, String> used as finite maps by key text
#[verifier::external_body]
#[verifier::reject_recursive_types(V)]
pub struct StrMap<V> { _v: core::marker::PhantomData<V> }
impl<V> StrMap<V> {
    pub uninterp spec fn view(&self) -> Map<Seq<char>, V>;
    #[verifier::external_body]
    pub fn new() -> (r: Self) ensures r@ == Map::<Seq<char>, V>::empty() { unimplemented!() }
    #[verifier::external_body]
    pub fn insert(&mut self, k: String, v: V) -> (r: Option<V>) ensures final(self)@ == old(self)@.insert(k@, v) { unimplemented!() }
}
impl DepMap {
    #[verifier::external_body]
    pub fn new() -> (r: Self) ensures r.view2() == Map::<Seq<char>, Seq<char>>::empty() { unimplemented!() }
    pub uninterp spec fn view2(&self) -> Map<Seq<char>, Seq<char>>;
    #[verifier::external_body]
    pub fn insert(&mut self, k: String, v: String) -> (r: Option<String>) ensures final(self).view2() == old(self).view2().insert(k@, v@) { unimplemented!() }
}
#[verifier::external_body]
pub fn string_clone(a: &String) -> (r: String) ensures r@ == a@ { unimplemented!() }
#[verifier::external_body]
pub fn str_eq_lit(a: &String, b: &str) -> (r: bool) ensures r == (a@ == b@) { unimplemented!() }
#[verifier::external_body]
pub fn hir_interface_clone(a: &PackageInterface) -> (r: PackageInterface) ensures r == *a { unimplemented!() }

// ---- C15: a package is type-checked against exactly the interfaces whose hashes it records ----
// for every dependency: ONE usable interface unit of that package supplies the environment, the HIR interface AND the recorded hash
pub open spec fn built_against(envs: Map<Seq<char>, GlobalTypeEnv>, ifaces: Map<Seq<char>, PackageInterface>, hashes: Map<Seq<char>, Seq<char>>) -> bool {
    &&& envs.dom() =~= hashes.dom() && ifaces.dom() =~= hashes.dom()
    &&& forall|d: Seq<char>| hashes.contains_key(d) ==> exists|u: InterfaceUnit| u.usable() && u.package@ == d
            && #[trigger] u.interface_hash@ == hashes[d] && envs[d] == genv_of(u.exports) && ifaces[d] == u.hir_interface
}
// the rest of check_package / build_package (type checking, Core generation): outside this unit, but it may only be entered
// with consistent inputs
#[verifier::external_body]
pub fn check_rest(package: &String, files: SourceFiles, deps_interfaces: StrMap<PackageInterface>, deps_envs: StrMap<GlobalTypeEnv>, dep_hashes: DepMap, Ghost(imports): Ghost<Set<Seq<char>>>)
    -> (r: Result<InterfaceUnit, CompilationError>)
    requires built_against(deps_envs@, deps_interfaces@, dep_hashes.view2()),
             not_self_import(imports, package@),
{ unimplemented!() }
#[verifier::external_body]
pub fn build_rest(package: &String, files: SourceFiles, sources: SourceList, deps_interfaces: StrMap<PackageInterface>, deps_envs: StrMap<GlobalTypeEnv>,
                  dep_hashes: DepMap, dep_units: Vec<InterfaceUnit>, Ghost(imports): Ghost<Set<Seq<char>>>) -> (r: Result<CoreUnit, CompilationError>)
    requires built_against(deps_envs@, deps_interfaces@, dep_hashes.view2()),
             not_self_import(imports, package@),
{ unimplemented!() }
// ---- C16: import cycles are errors — the 1-cycle `package A; import A` in the separate drivers ----
pub open spec fn not_self_import(imports: Set<Seq<char>>, package: Seq<char>) -> bool { !imports.contains(package) }
// k is among the names still to be visited (the work list is drained from the front)
pub open spec fn pending(v: Seq<String>, k: Seq<char>) -> bool
    decreases v.len(),
{
    v.len() > 0 && (v[0]@ == k || pending(v.remove(0), k))
}
pub proof fn lemma_pending_intro(v: Seq<String>, i: int, k: Seq<char>)
    requires 0 <= i < v.len(), v[i]@ == k,
    ensures pending(v, k),
    decreases i,
{
    if i > 0 { lemma_pending_intro(v.remove(0), i - 1, k); }
}
