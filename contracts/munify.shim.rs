// ---- shims for U-MUNIFY ----
// tast::TypeVar: an opaque id (only occurs inside Ty::TVar)
#[verifier::external_body] pub struct TypeVar { _p: u32 }

// Subst = IndexMap<String, Ty>: a finite map by key text (insertion order is irrelevant to unify)
#[verifier::external_body]
#[verifier::reject_recursive_types(K)]
#[verifier::reject_recursive_types(V)]
pub struct IndexMap<K, V> { _k: core::marker::PhantomData<(K, V)> }
pub type Subst = IndexMap<String, Ty>;
impl IndexMap<String, Ty> {
    pub uninterp spec fn view(&self) -> Map<Seq<char>, Ty>;
    #[verifier::external_body]
    pub fn get(&self, k: &String) -> (r: Option<&Ty>)
        ensures r matches Some(v) ==> self@.contains_key(k@) && *v == self@[k@], r is None ==> !self@.contains_key(k@),
    { unimplemented!() }
    #[verifier::external_body]
    pub fn insert(&mut self, k: String, v: Ty) -> (r: Option<Ty>)
        ensures final(self)@ == old(self)@.insert(k@, v),
    { unimplemented!() }
}
// derived PartialEq / Clone on Ty and String: structural equality / identical copy (assumed: they are #[derive]d)
#[verifier::external_body]
pub fn ty_ne(a: &Ty, b: &Ty) -> (r: bool) ensures r == (*a != *b) { unimplemented!() }
#[verifier::external_body]
pub fn ty_clone(a: &Ty) -> (r: Ty) ensures r == *a { unimplemented!() }
#[verifier::external_body]
pub fn string_ne(a: &String, b: &String) -> (r: bool) ensures r == (a@ != b@), r == (*a != *b) { unimplemented!() }
#[verifier::external_body]
pub fn string_clone(a: &String) -> (r: String) ensures r == *a { unimplemented!() }
#[verifier::external_body]
pub fn rt_msg() -> (r: String) { unimplemented!() }

// ---- C07: a call site's argument types determine the substitution ----
// a type without type parameters (what every type is after monomorphisation of the caller)
pub open spec fn param_free(t: Ty) -> bool
    decreases t,
{
    match t {
        Ty::TParam { .. } => false,
        Ty::TTuple { typs } => forall|i: int| 0 <= i < typs.len() ==> param_free(#[trigger] typs[i]),
        Ty::TApp { ty, args } => param_free(*ty) && forall|i: int| 0 <= i < args.len() ==> param_free(#[trigger] args[i]),
        Ty::TArray { elem, .. } => param_free(*elem),
        Ty::TVec { elem } => param_free(*elem),
        Ty::TRef { elem } => param_free(*elem),
        Ty::TFunc { params, ret_ty } => param_free(*ret_ty) && forall|i: int| 0 <= i < params.len() ==> param_free(#[trigger] params[i]),
        _ => true,
    }
}
pub open spec fn no_tvar(t: Ty) -> bool
    decreases t,
{
    match t {
        Ty::TVar(_) => false,
        Ty::TTuple { typs } => forall|i: int| 0 <= i < typs.len() ==> no_tvar(#[trigger] typs[i]),
        Ty::TApp { ty, args } => no_tvar(*ty) && forall|i: int| 0 <= i < args.len() ==> no_tvar(#[trigger] args[i]),
        Ty::TArray { elem, .. } => no_tvar(*elem),
        Ty::TVec { elem } => no_tvar(*elem),
        Ty::TRef { elem } => no_tvar(*elem),
        Ty::TFunc { params, ret_ty } => no_tvar(*ret_ty) && forall|i: int| 0 <= i < params.len() ==> no_tvar(#[trigger] params[i]),
        _ => true,
    }
}
