// ---- shims / specification for U-ROWDISPATCH (C06: compile_rows hands the rows to the case function of the branch variable's type) ----
pub uninterp spec fn bvar_of(rows: Seq<Row>) -> Variable;                 // branch_variable(&rows) (U-ROWS)
pub uninterp spec fn case_unit(rows: Seq<Row>, b: Variable) -> core::Expr;
pub uninterp spec fn case_bool(rows: Seq<Row>, b: Variable) -> core::Expr;
pub uninterp spec fn case_int(rows: Seq<Row>, b: Variable, ty: Ty, lit: Ty) -> core::Expr;
pub uninterp spec fn case_string(rows: Seq<Row>, b: Variable, ty: Ty) -> core::Expr;
pub uninterp spec fn case_enum(rows: Seq<Row>, b: Variable, ty: Ty, name: Seq<char>) -> core::Expr;
pub uninterp spec fn case_struct(rows: Seq<Row>, b: Variable, ty: Ty, name: Seq<char>, args: Seq<Ty>) -> core::Expr;
pub uninterp spec fn case_tuple(rows: Seq<Row>, b: Variable, typs: Seq<Ty>, ty: Ty) -> core::Expr;
#[verifier::external_body] pub fn branch_variable(rows: &Vec<Row>) -> (r: Variable) ensures r == bvar_of(rows@) { unimplemented!() }
#[verifier::external_body] pub fn tast_ident_new(name: &String) -> (r: TastIdent) ensures r.0@ == name@ { unimplemented!() }      // TastIdent::new(name)
#[verifier::external_body] pub fn compile_unit_case(genv: &GlobalTypeEnv, gensym: &Gensym, diagnostics: &mut Diagnostics, rows: Vec<Row>, bvar: &Variable, match_range: Option<TextRange>) -> (r: core::Expr)
    ensures r == case_unit(rows@, *bvar) { unimplemented!() }
#[verifier::external_body] pub fn compile_bool_case(genv: &GlobalTypeEnv, gensym: &Gensym, diagnostics: &mut Diagnostics, rows: Vec<Row>, bvar: &Variable, match_range: Option<TextRange>) -> (r: core::Expr)
    ensures r == case_bool(rows@, *bvar) { unimplemented!() }
#[verifier::external_body] pub fn compile_int_case(genv: &GlobalTypeEnv, gensym: &Gensym, diagnostics: &mut Diagnostics, rows: Vec<Row>, bvar: &Variable, ty: &Ty, literal_ty: Ty, match_range: Option<TextRange>) -> (r: core::Expr)
    ensures r == case_int(rows@, *bvar, *ty, literal_ty) { unimplemented!() }
#[verifier::external_body] pub fn compile_string_case(genv: &GlobalTypeEnv, gensym: &Gensym, diagnostics: &mut Diagnostics, rows: Vec<Row>, bvar: &Variable, ty: &Ty, match_range: Option<TextRange>) -> (r: core::Expr)
    ensures r == case_string(rows@, *bvar, *ty) { unimplemented!() }
#[verifier::external_body] pub fn compile_enum_case(genv: &GlobalTypeEnv, gensym: &Gensym, diagnostics: &mut Diagnostics, rows: Vec<Row>, bvar: &Variable, ty: &Ty, name: &TastIdent, match_range: Option<TextRange>) -> (r: core::Expr)
    ensures r == case_enum(rows@, *bvar, *ty, name.0@) { unimplemented!() }
#[verifier::external_body] pub fn compile_struct_case(genv: &GlobalTypeEnv, gensym: &Gensym, diagnostics: &mut Diagnostics, rows: Vec<Row>, bvar: &Variable, ty: &Ty, name: &TastIdent, type_args: &Vec<Ty>, match_range: Option<TextRange>) -> (r: core::Expr)
    ensures r == case_struct(rows@, *bvar, *ty, name.0@, type_args@) { unimplemented!() }
#[verifier::external_body] pub fn compile_tuple_case(genv: &GlobalTypeEnv, gensym: &Gensym, diagnostics: &mut Diagnostics, rows: Vec<Row>, bvar: &Variable, typs: &Vec<Ty>, ty: &Ty, match_range: Option<TextRange>) -> (r: core::Expr)
    ensures r == case_tuple(rows@, *bvar, typs@, *ty) { unimplemented!() }
#[verifier::external_body] pub fn no_type_args() -> (r: Vec<Ty>) ensures r@ == Seq::<Ty>::empty() { unimplemented!() }             // `&[]`
// what a pattern can be matched on (the typer accepts patterns of these types only)
pub open spec fn matchable(t: Ty) -> bool {
    match t {
        Ty::TUnit | Ty::TBool | Ty::TInt8 | Ty::TInt16 | Ty::TInt32 | Ty::TInt64 | Ty::TUint8 | Ty::TUint16 | Ty::TUint32 | Ty::TUint64 | Ty::TString => true,
        Ty::TEnum { .. } | Ty::TStruct { .. } | Ty::TTuple { .. } => true,
        Ty::TApp { ty, .. } => *ty is TEnum || *ty is TStruct,
        _ => false,
    }
}
// C06: the rows go to the case function OF THE BRANCH VARIABLE'S TYPE — an integer column is compared at its own width, an applied enum / struct by its own name with its own
// type arguments
pub open spec fn dispatch(rows: Seq<Row>, b: Variable, ty: Ty) -> core::Expr {
    match b.ty {
        Ty::TUnit => case_unit(rows, b),
        Ty::TBool => case_bool(rows, b),
        Ty::TInt8 | Ty::TInt16 | Ty::TInt32 | Ty::TInt64 | Ty::TUint8 | Ty::TUint16 | Ty::TUint32 | Ty::TUint64 => case_int(rows, b, ty, b.ty),
        Ty::TString => case_string(rows, b, ty),
        Ty::TEnum { name } => case_enum(rows, b, ty, name@),
        Ty::TStruct { name } => case_struct(rows, b, ty, name@, Seq::<Ty>::empty()),
        Ty::TApp { ty: base, args } => match *base {
            Ty::TEnum { name } => case_enum(rows, b, ty, name@),
            Ty::TStruct { name } => case_struct(rows, b, ty, name@, args@),
            _ => arbitrary(),
        },
        Ty::TTuple { typs } => case_tuple(rows, b, typs@, ty),
        _ => arbitrary(),
    }
}
