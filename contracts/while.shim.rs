// ---- shims / specification for U-WHILE (C09: `while` re-evaluates its condition before every iteration) ----
#[verifier::external_body] pub struct GlobalGoEnv { _p: u64 }
#[verifier::external_body] pub struct Gensym { _p: u64 }
impl Gensym { #[verifier::external_body] pub fn gensym(&self, prefix: &str) -> (r: String) { unimplemented!() } }
#[verifier::external_body] pub struct Ty { _p: u64 }
#[verifier::external_body] pub fn ty_is_tbool(t: &Ty) -> (r: bool) { unimplemented!() }
#[verifier::external_body] pub struct AExpr { _p: u64 }          // anf::AExpr (the loop's condition and body, already in A-normal form)
impl AExpr { #[verifier::external_body] pub fn get_ty(&self) -> (r: Ty) { unimplemented!() } }
// go::mangle::go_ident: a function of the name (U-GOIDENT does not exist: legality/uniqueness of names is C19, not claimed)
pub uninterp spec fn go_ident_spec(n: Seq<char>) -> Seq<char>;
#[verifier::external_body] pub fn go_ident(name: &String) -> (r: String) ensures r@ == go_ident_spec(name@) { unimplemented!() }
// the statements that evaluate an A-normal expression and store its value in `target` / evaluate it for effect only
pub uninterp spec fn assign_stmts(target: Seq<char>, e: AExpr) -> Seq<Stmt>;
pub uninterp spec fn effect_stmts(e: AExpr) -> Seq<Stmt>;
#[verifier::external_body]
pub fn compile_aexpr_assign(goenv: &GlobalGoEnv, gensym: &Gensym, target: &String, e: AExpr) -> (r: Vec<Stmt>)
    ensures r@ == assign_stmts(target@, e),
{ unimplemented!() }
#[verifier::external_body]
pub fn compile_aexpr_effect(goenv: &GlobalGoEnv, gensym: &Gensym, e: AExpr) -> (r: Vec<Stmt>)
    ensures r@ == effect_stmts(e),
{ unimplemented!() }
#[verifier::external_body]
pub fn vec_extend(v: &mut Vec<Stmt>, more: Vec<Stmt>) ensures final(v)@ == old(v)@ + more@ { unimplemented!() }       // Vec::extend(Vec)

// `if !c { break }`
pub open spec fn is_break_unless(s: Stmt, c: Seq<char>) -> bool {
    s matches Stmt::If { cond, then, else_ } && else_ is None && then.stmts@.len() == 1 && then.stmts@[0] is Break
    && (cond matches Expr::UnaryOp { op, expr, ty: _ } && op is Not && (*expr matches Expr::Var { name, ty: _ } && name@ == c))
}

// the two statements a `while` with condition `cond` and body `body` compiles to, c being the fresh condition variable
pub open spec fn while_shape(r: Seq<Stmt>, cond: AExpr, body: AExpr, c: Seq<char>) -> bool {
    let a = assign_stmts(c, cond);
    let cg = go_ident_spec(c);
    &&& r.len() == 2
    &&& (r[0] matches Stmt::VarDecl { name, ty: _, value } && value is None && name@ == cg)
    &&& (r[1] matches Stmt::Loop { body: lb }
            && lb.stmts@.len() == a.len() + 1 + effect_stmts(body).len()
            && lb.stmts@.subrange(0, a.len() as int) == a                                                   // the condition is evaluated INSIDE the loop, first
            && is_break_unless(lb.stmts@[a.len() as int], cg)                                              // then the exit test
            && lb.stmts@.subrange(a.len() as int + 1, lb.stmts@.len() as int) == effect_stmts(body))       // then the body
}

// ---- `if` evaluates only the selected branch ----
#[verifier::external_body] pub struct ImmExpr { _p: u64 }          // anf::ImmExpr (an atom: variable or constant)
pub uninterp spec fn imm_spec(i: ImmExpr) -> Expr;
#[verifier::external_body] pub fn compile_imm(goenv: &GlobalGoEnv, imm: &ImmExpr) -> (r: Expr) ensures r == imm_spec(*imm) { unimplemented!() }
// the Go statement for `if cond { then } else { else_ }`: the branches' statements are INSIDE the two blocks and nowhere else
pub open spec fn if_shape(r: Seq<Stmt>, cond: ImmExpr, t: Seq<Stmt>, e: Seq<Stmt>) -> bool {
    r.len() == 1 && (r[0] matches Stmt::If { cond: c, then: tb, else_: eb } && c == imm_spec(cond) && tb.stmts@ == t && eb is Some && eb->0.stmts@ == e)
}
