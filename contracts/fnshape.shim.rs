// ---- shims / specification for U-FNSHAPE (C02: a function's result variable is declared once, assigned, and returned) ----
pub uninterp spec fn go_ty_spec(t: Ty) -> GoType;                                  // go::goast::tast_ty_to_go_type (U-GOTYPE)
#[verifier::external_body] pub fn tast_ty_to_go_type(ty: &Ty) -> (r: GoType) ensures r == go_ty_spec(*ty) { unimplemented!() }
#[verifier::external_body]
pub fn compile_aexpr(goenv: &GlobalGoEnv, gensym: &Gensym, e: AExpr) -> (r: Vec<Stmt>) ensures r@ == effect_stmts(e) { unimplemented!() }
pub trait VClone: Sized { fn vclone(&self) -> (r: Self) ensures r == *self; }
impl VClone for GoType { #[verifier::external_body] fn vclone(&self) -> (r: Self) { unimplemented!() } }

pub open spec fn fn_shape_ok(r: GoFn, params: Seq<(String, Ty)>, ret: Ty, body: AExpr, name: String) -> bool {
    &&& r.name == name
    &&& r.params@.len() == params.len()
    &&& forall|j: int| 0 <= j < params.len() ==> (#[trigger] r.params@[j]).0@ == go_ident_spec(params[j].0@) && r.params@[j].1 == go_ty_spec(params[j].1)
    &&& if go_ty_spec(ret) is TVoid {
            r.ret_ty is None && r.body.stmts@ == effect_stmts(body)
        } else {
            let t = go_ty_spec(ret);
            r.ret_ty == Some(t)
            && exists|v: Seq<char>| #[trigger] result_var_shape(r.body.stmts@, v, t, body)
        }
}
// `var v T` ; <statements storing the body's value into v> ; `return v`
pub open spec fn result_var_shape(s: Seq<Stmt>, v: Seq<char>, t: GoType, body: AExpr) -> bool {
    let a = assign_stmts(v, body);
    &&& s.len() == a.len() + 2
    &&& (s[0] matches Stmt::VarDecl { name, ty, value } && value is None && name@ == go_ident_spec(v) && ty == t)
    &&& s.subrange(1, a.len() as int + 1) =~= a
    &&& (s[s.len() - 1] matches Stmt::Return { expr } && (expr matches Some(Expr::Var { name, ty }) && name@ == go_ident_spec(v) && ty == t))
}
impl VClone for String { #[verifier::external_body] fn vclone(&self) -> (r: Self) { unimplemented!() } }
