// Vacuity canary: must FAIL on every run. If it verifies, some shim axiom in this
// file is inconsistent and nothing the unit reports is believed (UNDECIDED).
proof fn verif_canary()
    ensures false,
{
}
