// ---- shims / specification for U-TYGATE (C16: every type written in a definition goes through the import gate) ----
#[verifier::external_body] pub struct AstTypeExpr { _p: u64 }          // ast::TypeExpr
#[verifier::external_body] pub struct HirTypeExpr { _p: u64 }          // hir::TypeExpr
#[verifier::external_body] pub struct AstAttribute { _p: u64 }
#[verifier::external_body] pub struct HirAttribute { _p: u64 }
pub struct AstIdent(pub String);
#[verifier::external_body] pub struct HirIdent { _p: u64 }
impl HirIdent { #[verifier::external_body] pub fn name(s: &str) -> (r: HirIdent) { unimplemented!() } }
#[verifier::external_body]
#[verifier::reject_recursive_types(K)]
pub struct HashSet<K> { _k: core::marker::PhantomData<K> }
impl HashSet<String> {
    pub uninterp spec fn view(&self) -> Set<Seq<char>>;
    #[verifier::external_body] pub fn new() -> (r: Self) ensures r@ == Set::<Seq<char>>::empty() { unimplemented!() }
}
#[verifier::external_body] pub fn full_def_name(package: &str, name: &str) -> (r: String) { unimplemented!() }          // U-RESERVED
#[verifier::external_body] pub fn type_param_set(params: &Vec<AstIdent>) -> (r: HashSet<String>) { unimplemented!() }
#[verifier::external_body] pub fn lower_attrs(a: &Vec<AstAttribute>) -> (r: Vec<HirAttribute>) { unimplemented!() }      // attrs.iter().map(|a| a.into()).collect()
#[verifier::external_body] pub fn lower_generics(g: &Vec<AstIdent>) -> (r: Vec<HirIdent>) { unimplemented!() }           // generics.iter().map(|g| HirIdent::name(&g.0)).collect()
#[verifier::external_body] pub fn string_clone(s: &String) -> (r: String) ensures r@ == s@ { unimplemented!() }
// THE GATE: NameResolution::lower_type_expr(ty, tparams, current_package, imports) — converts a written type and reports `package X not imported`
// for every qualified name whose package is neither the current one nor imported (U-PKGALLOW).  What it returns is an uninterpreted function of the
// type, the package and the import set (ASSUMED not to depend on the type-parameter set, which the function ignores today).
pub uninterp spec fn gated(ty: AstTypeExpr, pkg: Seq<char>, imports: Set<Seq<char>>) -> HirTypeExpr;
// the conversion WITHOUT the gate (`From<&ast::TypeExpr> for hir::TypeExpr`): some other function of the type
pub uninterp spec fn ungated(ty: AstTypeExpr) -> HirTypeExpr;
#[verifier::external_body] pub fn type_expr_into(ty: &AstTypeExpr) -> (r: HirTypeExpr) ensures r == ungated(*ty) { unimplemented!() }
#[verifier::external_body] pub struct NameResolution { _p: u64 }
impl NameResolution {
    #[verifier::external_body]
    pub fn lower_type_expr(&mut self, ty: &AstTypeExpr, tparams: &HashSet<String>, current_package: &str, imports: &HashSet<String>) -> (r: HirTypeExpr)
        ensures r == gated(*ty, current_package@, imports@) { unimplemented!() }
}
pub open spec fn tys_ok(src: Seq<AstTypeExpr>, out: Seq<HirTypeExpr>, pkg: Seq<char>, imports: Set<Seq<char>>) -> bool {
    out.len() == src.len() && forall|j: int| 0 <= j < src.len() ==> #[trigger] out[j] == gated(src[j], pkg, imports)
}
pub open spec fn named_tys_ok(src: Seq<(AstIdent, AstTypeExpr)>, out: Seq<(HirIdent, HirTypeExpr)>, pkg: Seq<char>, imports: Set<Seq<char>>) -> bool {
    out.len() == src.len() && forall|j: int| 0 <= j < src.len() ==> (#[trigger] out[j]).1 == gated(src[j].1, pkg, imports)
}
pub open spec fn opt_ty_ok(src: Option<AstTypeExpr>, out: Option<HirTypeExpr>, pkg: Seq<char>, imports: Set<Seq<char>>) -> bool {
    match src { Some(t) => out == Some(gated(t, pkg, imports)), None => out is None }
}
pub open spec fn sig_ok(src: AstTraitMethodSignature, out: HirTraitMethodSignature, pkg: Seq<char>, imports: Set<Seq<char>>) -> bool {
    tys_ok(src.params@, out.params@, pkg, imports) && out.ret_ty == gated(src.ret_ty, pkg, imports)
}
pub open spec fn variant_ok(src: (AstIdent, Vec<AstTypeExpr>), out: (HirIdent, Vec<HirTypeExpr>), pkg: Seq<char>, imports: Set<Seq<char>>) -> bool {
    tys_ok(src.1@, out.1@, pkg, imports)
}
