// ---- specification for typer::unify::occurs (C04: no cyclic type is ever bound to a type variable) ----
// does the type variable v occur anywhere in ty (syntactically; occurs() is called on normalised types)
pub open spec fn tv_in(v: TypeVar, ty: Ty) -> bool
    decreases ty,
{
    match ty {
        Ty::TVar(w) => w == v,
        Ty::TTuple { typs } => tv_in_list(v, typs@, typs@.len() as int),
        Ty::TApp { ty, args } => tv_in(v, *ty) || tv_in_list(v, args@, args@.len() as int),
        Ty::TArray { len: _, elem } => tv_in(v, *elem),
        Ty::TVec { elem } => tv_in(v, *elem),
        Ty::TRef { elem } => tv_in(v, *elem),
        Ty::TFunc { params, ret_ty } => tv_in_list(v, params@, params@.len() as int) || tv_in(v, *ret_ty),
        _ => false,
    }
}
// ... in one of the first n types of the list
pub open spec fn tv_in_list(v: TypeVar, ts: Seq<Ty>, n: int) -> bool
    decreases ts, n,
{
    if n <= 0 || n > ts.len() { false } else { tv_in_list(v, ts, n - 1) || tv_in(v, ts[n - 1]) }
}
pub proof fn lemma_tv_list_hit(v: TypeVar, ts: Seq<Ty>, k: int, n: int)
    requires 0 <= k < n <= ts.len(), tv_in(v, ts[k]),
    ensures tv_in_list(v, ts, n),
    decreases n,
{
    reveal_with_fuel(tv_in_list, 2);
    if k < n - 1 { lemma_tv_list_hit(v, ts, k, n - 1); }
}
// a hit at any position is a hit in the whole list
pub broadcast proof fn lemma_tv_list_any(v: TypeVar, ts: Seq<Ty>, k: int)
    requires 0 <= k < ts.len(), #[trigger] tv_in(v, ts[k]),
    ensures tv_in_list(v, ts, ts.len() as int),
{
    lemma_tv_list_hit(v, ts, k, ts.len() as int);
}
