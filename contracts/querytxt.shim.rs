// ---- shims / specification for U-QUERYTXT (C20: the byte-level helpers of the editor queries never panic, for every text and every offset) ----
#[derive(Clone, Copy)] pub struct TextSize { pub raw: u32 }                                            // text_size::TextSize: a byte offset
#[verifier::external_body] pub fn text_size_to_u32(t: TextSize) -> (r: u32) ensures r == t.raw { unimplemented!() }            // u32::from(offset)
#[verifier::external_body] pub fn text_size_from_u32(x: u32) -> (r: TextSize) ensures r.raw == x { unimplemented!() }         // TextSize::from(x)
// a &str as its UTF-8 bytes
pub uninterp spec fn bytes_of(s: &str) -> Seq<u8>;
#[verifier::external_body] pub fn str_as_bytes(s: &str) -> (r: &[u8]) ensures r@ == bytes_of(s) { unimplemented!() }          // s.as_bytes()
#[verifier::external_body] pub fn str_len(s: &str) -> (r: usize) ensures r == bytes_of(s).len() { unimplemented!() }           // s.len()
// i is a char boundary of s (std: index 0, the length, or a byte that is not a UTF-8 continuation byte 0b10xxxxxx)
pub open spec fn bboundary(b: Seq<u8>, i: int) -> bool { 0 <= i <= b.len() && (i == b.len() || !(0x80 <= b[i] < 0xC0)) }
pub open spec fn boundary(s: &str, i: int) -> bool { bboundary(bytes_of(s), i) }
// `&s[a..b]` PANICS unless a <= b <= len and both are char boundaries — the precondition is the no-panic obligation
#[verifier::external_body]
pub fn str_slice(s: &str, a: usize, b: usize) -> (r: &str)
    requires a <= b <= bytes_of(s).len(), boundary(s, a as int), boundary(s, b as int),
    ensures bytes_of(r) == bytes_of(s).subrange(a as int, b as int),
{ unimplemented!() }
// `s.get(a..b)`: never panics; Some exactly when `&s[a..b]` would not panic
#[verifier::external_body]
pub fn str_get(s: &str, a: usize, b: usize) -> (r: Option<&str>)
    ensures (r is Some) == (a <= b <= bytes_of(s).len() && boundary(s, a as int) && boundary(s, b as int)),
            r is Some ==> bytes_of(r->0) == bytes_of(s).subrange(a as int, b as int),
{ unimplemented!() }
pub uninterp spec fn string_bytes(s: String) -> Seq<u8>;
#[verifier::external_body] pub fn str_to_string(s: &str) -> (r: String) ensures string_bytes(r) == bytes_of(s) { unimplemented!() }
// `full.starts_with(p)`: the bytes of p are a prefix of the bytes of full; std: then p.len() is a char boundary of full
#[verifier::external_body]
pub fn str_starts_with(full: &str, p: &str) -> (r: bool)
    ensures r == (bytes_of(p).len() <= bytes_of(full).len() && bytes_of(full).subrange(0, bytes_of(p).len() as int) == bytes_of(p)),
            r ==> boundary(full, bytes_of(p).len() as int),
{ unimplemented!() }
#[verifier::external_body] pub fn str_is_empty(s: &str) -> (r: bool) ensures r == (bytes_of(s).len() == 0) { unimplemented!() }
#[verifier::external_body] pub fn str_contains_colons(s: &str) -> (r: bool) { unimplemented!() }                             // s.contains("::")
// the rest of path_segments_at_offset (trim_matches(':'), split("::"), filter, collect): string code, not verified here
#[verifier::external_body] pub fn segments_of(slice: &str) -> (r: Option<Vec<String>>) ensures r is Some ==> r->0@.len() > 0 { unimplemented!() }

pub open spec fn ident_byte(b: u8) -> bool { (0x61 <= b <= 0x7a) || (0x41 <= b <= 0x5a) || (0x30 <= b <= 0x39) || b == 0x5f }
pub open spec fn path_byte(b: u8) -> bool { ident_byte(b) || b == 0x3a }
// a &str is valid UTF-8: a continuation byte (0b10xxxxxx) never directly follows an ASCII byte (a complete one-byte character)
#[verifier::external_body]
pub proof fn axiom_utf8_after_ascii(s: &str, i: int)
    requires 0 < i < bytes_of(s).len(), bytes_of(s)[i - 1] < 0x80,
    ensures !(0x80 <= bytes_of(s)[i] < 0xC0),
{ }
// ---- hover_type: the cursor position ----
// line_index::LineIndex: offset(line, col) = start of the line + col — it does NOT look at the text, so the offset can lie beyond it
#[verifier::external_body] pub struct LineIndex { _p: u64 }
pub struct LineCol { pub line: u32, pub col: u32 }
#[verifier::external_body] pub fn line_index_new(src: &str) -> (r: LineIndex) { unimplemented!() }
impl LineIndex { #[verifier::external_body] pub fn offset(&self, lc: LineCol) -> (r: Option<TextSize>) { unimplemented!() } }
#[verifier::external_body] pub fn text_size_of(s: &str) -> (r: TextSize) ensures r.raw == bytes_of(s).len() { unimplemented!() }       // TextSize::of(src)
// the syntax tree of the file: lossless, so it spans exactly the text (C12)
#[verifier::external_body] pub struct CstFile { _p: u64 }
#[verifier::external_body] pub struct SyntaxToken { _p: u64 }
pub uninterp spec fn tree_len(f: &CstFile) -> nat;
pub uninterp spec fn token_is_ident(t: &SyntaxToken) -> bool;
pub enum TokenAtOffset { None, Single(SyntaxToken), Between(SyntaxToken, SyntaxToken) }
// rowan's SyntaxNode::token_at_offset PANICS (`Bad offset`) unless the offset lies inside the node's range — the precondition is the no-panic obligation
#[verifier::external_body]
pub fn token_at_offset(f: &CstFile, offset: TextSize) -> (r: TokenAtOffset) requires offset.raw <= tree_len(f) { unimplemented!() }
#[verifier::external_body] pub fn token_kind_is_ident(t: &SyntaxToken) -> (r: bool) ensures r == token_is_ident(t) { unimplemented!() }
#[verifier::external_body] pub fn rt_msg() -> (r: String) { unimplemented!() }
// ---- dot_completions / colon_colon_completions: the completion placeholder is inserted at the cursor ----
#[verifier::external_body] pub fn text_size_checked_sub(a: TextSize, n: u32) -> (r: Option<TextSize>) ensures r is Some == (a.raw >= n), r is Some ==> r->0.raw == a.raw - n { unimplemented!() }   // a.checked_sub(TextSize::from(n))
#[verifier::external_body] pub fn byte_at_is(s: &str, i: usize, b: u8) -> (r: bool) ensures r == (i < bytes_of(s).len() && bytes_of(s)[i as int] == b) { unimplemented!() }   // s.as_bytes().get(i) == Some(&b)
#[verifier::external_body] pub fn bytes_at_are_colons(s: &str, a: usize, b: usize) -> (r: bool) ensures r ==> (a <= b <= bytes_of(s).len()) { unimplemented!() }             // s.as_bytes().get(a..b) == Some(b"::")
#[verifier::external_body] pub fn string_is_empty(s: &String) -> (r: bool) ensures r == (string_bytes(*s).len() == 0) { unimplemented!() }
// `String::insert_str(idx, ..)` PANICS unless idx is a char boundary of the string
#[verifier::external_body]
pub fn string_insert_str(s: &mut String, idx: usize, t: &str) requires bboundary(string_bytes(*old(s)), idx as int) { unimplemented!() }
pub const COMPLETION_PLACEHOLDER: &'static str = "completion_placeholder";
// `s.as_bytes().get(a..b) == Some(lit)`: never panics (a range out of bounds gives None)
#[verifier::external_body] pub fn bytes_range_is(s: &str, a: usize, b: usize, lit: &str) -> (r: bool) { unimplemented!() }
#[verifier::external_body] pub fn str_differs(a: &str, b: &str) -> (r: bool) { unimplemented!() }            // a != b on strs
