// ---- shims / specification for U-FIELDINST (C03: the type of a field access is the declared field type with the struct's parameters replaced by the type arguments) ----
#[verifier::external_body] pub struct Diagnostics { _p: u64 }
impl Diagnostics { pub uninterp spec fn errors(&self) -> nat; }
#[verifier::external_body] pub fn push_error_msg(d: &mut Diagnostics) ensures final(d).errors() == old(d).errors() + 1 { unimplemented!() }   // super::util::push_error(diagnostics, format!(..))
pub struct StructDef { pub name: TastIdent, pub generics: Vec<TastIdent>, pub fields: Vec<(TastIdent, Ty)> }                                  // env::StructDef
#[verifier::external_body] pub fn subst_new() -> (r: Subst) ensures r@ == Map::<Seq<char>, Ty>::empty() { unimplemented!() }                  // HashMap::new()
#[verifier::external_body] pub fn ident_is(f: &TastIdent, s: &str) -> (r: bool) ensures r == (f.0@ == s@) { unimplemented!() }                // f.0 == s
// index of the first field called f (the number of fields when there is none)
pub open spec fn first_field(d: StructDef, f: TastIdent, k: int) -> int
    decreases d.fields@.len() - k,
{
    if k < 0 || k >= d.fields@.len() { d.fields@.len() as int } else if d.fields@[k].0.0@ == f.0@ { k } else { first_field(d, f, k + 1) }
}
pub open spec fn is_field(d: StructDef, f: TastIdent) -> bool { first_field(d, f, 0) < d.fields@.len() }
// `struct_def.fields.iter().find(|(fname, _)| fname == field)`: the FIRST field of that name (derived PartialEq on TastIdent: the text)
#[verifier::external_body]
pub fn find_field<'a>(d: &'a StructDef, f: &TastIdent) -> (r: Option<&'a (TastIdent, Ty)>)
    ensures (r is Some) == is_field(*d, *f), r matches Some(p) ==> *p == d.fields@[first_field(*d, *f, 0)],
{ unimplemented!() }
// the substitution parameter k -> argument k (a later parameter of the same name wins, as with HashMap::insert)
pub open spec fn zipmap(g: Seq<TastIdent>, a: Seq<Ty>, k: int) -> Map<Seq<char>, Ty>
    decreases k,
{
    if k <= 0 { Map::empty() } else { zipmap(g, a, k - 1).insert(g[k - 1].0@, a[k - 1]) }
}
