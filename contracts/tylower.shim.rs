// ---- shims / specification for U-TYLOWER (C11: a type is read as written — tuple types and function types) ----
#[verifier::external_body] pub struct Path { _p: u64 }
#[verifier::external_body] pub struct LowerCtx { _p: u64 }
#[verifier::external_body] pub struct TextRange { _p: u64 }
impl LowerCtx { #[verifier::external_body] pub fn push_error(&mut self, range: Option<TextRange>, message: &str) { unimplemented!() } }
#[verifier::external_body] pub struct MySyntaxNode { _p: u64 }
#[verifier::external_body] pub struct MySyntaxToken { _p: u64 }
impl MySyntaxNode { #[verifier::external_body] pub fn text_range(&self) -> (r: TextRange) { unimplemented!() } }
pub mod support {
    use super::*;
    // cst::support::token: the first child token of that kind — nothing is known about it here
    #[verifier::external_body] pub fn token(parent: &MySyntaxNode, kind: MySyntaxKind) -> (r: Option<MySyntaxToken>) { unimplemented!() }
}
// a CST type node (cst::Type and its variants' nodes): opaque; what matters is which child nodes it has, in order
#[verifier::external_body] pub struct TypeNode { _p: u64 }
#[verifier::external_body] pub struct TypeListNode { _p: u64 }
#[verifier::external_body] pub struct TupleTyNode { _p: u64 }
#[verifier::external_body] pub struct FuncTyNode { _p: u64 }
pub uninterp spec fn lowered(n: TypeNode) -> Option<TypeExpr>;                 // lower_ty(ctx, n): the recursive call
pub uninterp spec fn list_types(l: TypeListNode) -> Seq<TypeNode>;             // list.types(): the element types as written, in order
// `flat_map(|ty| lower_ty(ctx, ty))`: the lowered elements, in order, those that failed to lower left out (an error was pushed for them)
pub open spec fn lowered_all(s: Seq<TypeNode>) -> Seq<TypeExpr> decreases s.len() {
    if s.len() == 0 { Seq::empty() } else {
        let rest = lowered_all(s.drop_last());
        match lowered(s.last()) { Some(t) => rest.push(t), None => rest }
    }
}
impl TupleTyNode {
    pub uninterp spec fn list(&self) -> Option<TypeListNode>;
    #[verifier::external_body] pub fn type_list(&self) -> (r: Option<TypeListNode>) ensures r == self.list() { unimplemented!() }
    #[verifier::external_body] pub fn syntax(&self) -> (r: &MySyntaxNode) { unimplemented!() }
}
impl TypeListNode { #[verifier::external_body] pub fn syntax(&self) -> (r: &MySyntaxNode) { unimplemented!() } }
#[verifier::external_body] pub fn lower_ty_list(ctx: &mut LowerCtx, list: &TypeListNode) -> (r: Vec<TypeExpr>) ensures r@ == lowered_all(list_types(*list)) { unimplemented!() }
#[verifier::external_body] pub fn lower_ty(ctx: &mut LowerCtx, node: TypeNode) -> (r: Option<TypeExpr>) ensures r == lowered(node) { unimplemented!() }
// `it.types()` of a function type: an iterator over its child types; `next()` hands them out in order
pub struct TypeIter { pub ghost rest: Seq<TypeNode> }
impl FuncTyNode {
    pub uninterp spec fn children(&self) -> Seq<TypeNode>;
    #[verifier::external_body] pub fn types(&self) -> (r: TypeIter) ensures r.rest == self.children() { unimplemented!() }
    #[verifier::external_body] pub fn syntax(&self) -> (r: &MySyntaxNode) { unimplemented!() }
}
impl TypeIter {
    #[verifier::external_body] pub fn next(&mut self) -> (r: Option<TypeNode>)
        ensures old(self).rest.len() == 0 ==> r is None && final(self).rest == old(self).rest,
                old(self).rest.len() > 0 ==> r == Some(old(self).rest[0]) && final(self).rest == old(self).rest.subrange(1, old(self).rest.len() as int) { unimplemented!() }
}
#[verifier::external_body] pub fn vec_one(t: TypeExpr) -> (r: Vec<TypeExpr>) ensures r@ == seq![t] { unimplemented!() }     // vec![t]
// C11: `(T1, .., Tn)` is the tuple type of exactly the written element types, in order (n = 1 included: `(T)` is a one-element tuple in this
// grammar; that is what makes `((A, B)) -> C` a function of ONE pair)
pub open spec fn tuple_ty_ok(it: TupleTyNode, r: Option<TypeExpr>) -> bool {
    match it.list() { None => r is None, Some(l) => r matches Some(TypeExpr::TTuple { typs }) && typs@ == lowered_all(list_types(l)) }
}
// `P -> R`: the parameter list is P's components when P is written as a tuple `(..)`, else the single type P; the result is R
pub open spec fn func_ty_ok(it: FuncTyNode, r: Option<TypeExpr>) -> bool {
    let ch = it.children();
    if ch.len() < 2 { r is None } else {
        match (lowered(ch[0]), lowered(ch[1])) {
            (Some(p), Some(res)) => r matches Some(TypeExpr::TFunc { params, ret_ty }) && *ret_ty == res
                && (match p { TypeExpr::TTuple { typs } => params@ == typs@, other => params@ == seq![other] }),
            (None, _) => r is None,
            (Some(_), None) => r is None,
        }
    }
}
