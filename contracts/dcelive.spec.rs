// ---- shims / specification for U-DCELIVE (C02: dead-code elimination leaves no local variable declared and initialised but never read) ----
// std::collections::HashSet<String>: a finite set of names
#[verifier::external_body]
#[verifier::reject_recursive_types(K)]
pub struct HashSet<K> { _k: core::marker::PhantomData<K> }
impl View for HashSet<String> { type V = Set<Seq<char>>; uninterp spec fn view(&self) -> Set<Seq<char>>; }
impl HashSet<String> {
    #[verifier::external_body] pub fn new() -> (r: Self) ensures r@ == Set::<Seq<char>>::empty() { unimplemented!() }
    #[verifier::external_body] pub fn vclone(&self) -> (r: Self) ensures r@ == self@ { unimplemented!() }
    #[verifier::external_body] pub fn contains(&self, k: &String) -> (r: bool) ensures r == self@.contains(k@) { unimplemented!() }
    #[verifier::external_body] pub fn insert(&mut self, k: String) -> (r: bool) ensures final(self)@ == old(self)@.insert(k@) { unimplemented!() }
    #[verifier::external_body] pub fn remove(&mut self, k: &String) -> (r: bool) ensures final(self)@ == old(self)@.remove(k@) { unimplemented!() }
    #[verifier::external_body] pub fn extend(&mut self, other: HashSet<String>) ensures final(self)@ == old(self)@.union(other@) { unimplemented!() }
    #[verifier::external_body] pub fn union_with(&mut self, other: &HashSet<String>) ensures final(self)@ == old(self)@.union(other@) { unimplemented!() }   // for u in &other { self.insert(u.clone()) }
    #[verifier::external_body] pub fn is_disjoint(&self, other: &HashSet<String>) -> (r: bool) { unimplemented!() }
    #[verifier::external_body] pub fn is_empty(&self) -> (r: bool) { unimplemented!() }
}
pub trait VClone: Sized { fn vclone(&self) -> (r: Self) ensures r == *self; }
impl VClone for String { #[verifier::external_body] fn vclone(&self) -> (r: Self) { unimplemented!() } }
impl VClone for Expr { #[verifier::external_body] fn vclone(&self) -> (r: Self) { unimplemented!() } }
// the variables an expression READS (dce::vars_used_in_expr, not verified here): an uninterpreted function of the expression
pub uninterp spec fn expr_reads(e: Expr) -> Set<Seq<char>>;
#[verifier::external_body] pub fn vars_used_in_expr(e: &Expr) -> (r: HashSet<String>) ensures r@ == expr_reads(*e) { unimplemented!() }
#[verifier::external_body] pub fn add_uses_expr(live: &mut HashSet<String>, e: &Expr) ensures final(live)@ == old(live)@.union(expr_reads(*e)) { unimplemented!() }
#[verifier::external_body] pub fn free_vars_in_block(b: &Block) -> (r: HashSet<String>) { unimplemented!() }
#[verifier::external_body] pub fn underscore() -> (r: String) ensures r@ == "_"@ { unimplemented!() }          // "_".to_string()
#[verifier::external_body] pub fn str_eq(a: &str, b: &str) -> (r: bool) ensures r == (a@ == b@) { unimplemented!() }
#[verifier::external_body]
pub fn vec_reverse<T>(v: &mut Vec<T>) ensures final(v)@ == old(v)@.reverse() { unimplemented!() }             // <[T]>::reverse
pub uninterp spec fn dce_e(e: Expr) -> Expr;                                                                      // dce_expr (not verified here)
#[verifier::external_body] pub fn dce_expr(expr: Expr) -> (r: Expr) ensures r == dce_e(expr) { unimplemented!() }

pub open spec fn none() -> Set<Seq<char>> { Set::<Seq<char>>::empty() }
pub open spec fn one(n: Seq<char>) -> Set<Seq<char>> { Set::<Seq<char>>::empty().insert(n) }
pub open spec fn oexpr_reads(o: Option<Expr>) -> Set<Seq<char>> { match o { Some(e) => expr_reads(e), None => none() } }
// two sets of names per statement, at any depth: w == 0: the variables it READS (a declaration or an assignment does not read the variable it names);
// w == 1: the variables it ASSIGNS with `=` (what dce::assigned_vars_in_block collects)
pub open spec fn rd(w: int, x: Set<Seq<char>>) -> Set<Seq<char>> { if w == 0 { x } else { none() } }
pub open spec fn stmt_names(w: int, s: Stmt) -> Set<Seq<char>>
    decreases s,
{
    match s {
        Stmt::Expr(e) => rd(w, expr_reads(e)),
        Stmt::Go { call } => rd(w, expr_reads(call)),
        Stmt::VarDecl { name: _, ty: _, value } => rd(w, oexpr_reads(value)),
        Stmt::Assignment { name, value } => if w == 0 { expr_reads(value) } else { one(name@) },
        Stmt::IndexAssign { array, index, value } => rd(w, expr_reads(array).union(expr_reads(index)).union(expr_reads(value))),
        Stmt::PointerAssign { pointer, value } => rd(w, expr_reads(pointer).union(expr_reads(value))),
        Stmt::FieldAssign { target, value } => rd(w, expr_reads(target).union(expr_reads(value))),
        Stmt::Return { expr } => rd(w, oexpr_reads(expr)),
        Stmt::Break => none(),
        Stmt::Loop { body } => seq_names(w, body.stmts@, body.stmts@.len() as int),
        Stmt::If { cond, then, else_ } => rd(w, expr_reads(cond)).union(seq_names(w, then.stmts@, then.stmts@.len() as int))
            .union(match else_ { Some(b) => seq_names(w, b.stmts@, b.stmts@.len() as int), None => none() }),
        Stmt::SwitchExpr { expr, cases, default } => rd(w, expr_reads(expr)).union(cases_names(w, cases@, cases@.len() as int))
            .union(match default { Some(b) => seq_names(w, b.stmts@, b.stmts@.len() as int), None => none() }),
        Stmt::SwitchType { bind: _, expr, cases, default } => rd(w, expr_reads(expr)).union(tcases_names(w, cases@, cases@.len() as int))
            .union(match default { Some(b) => seq_names(w, b.stmts@, b.stmts@.len() as int), None => none() }),
    }
}
pub open spec fn seq_names(w: int, l: Seq<Stmt>, k: int) -> Set<Seq<char>>
    decreases l, k,
{
    if k <= 0 || k > l.len() { none() } else { seq_names(w, l, k - 1).union(stmt_names(w, l[k - 1])) }
}
pub open spec fn cases_names(w: int, l: Seq<(Expr, Block)>, k: int) -> Set<Seq<char>>
    decreases l, k,
{
    if k <= 0 || k > l.len() { none() } else { cases_names(w, l, k - 1).union(rd(w, expr_reads(l[k - 1].0))).union(seq_names(w, l[k - 1].1.stmts@, l[k - 1].1.stmts@.len() as int)) }
}
pub open spec fn tcases_names(w: int, l: Seq<(GoType, Block)>, k: int) -> Set<Seq<char>>
    decreases l, k,
{
    if k <= 0 || k > l.len() { none() } else { tcases_names(w, l, k - 1).union(seq_names(w, l[k - 1].1.stmts@, l[k - 1].1.stmts@.len() as int)) }
}
pub open spec fn all_names(w: int, l: Seq<Stmt>) -> Set<Seq<char>> { seq_names(w, l, l.len() as int) }
pub open spec fn all_cnames(w: int, l: Seq<(Expr, Block)>) -> Set<Seq<char>> { cases_names(w, l, l.len() as int) }
pub open spec fn all_tnames(w: int, l: Seq<(GoType, Block)>) -> Set<Seq<char>> { tcases_names(w, l, l.len() as int) }
pub open spec fn stmt_reads(s: Stmt) -> Set<Seq<char>> { stmt_names(0, s) }
pub open spec fn all_reads(l: Seq<Stmt>) -> Set<Seq<char>> { all_names(0, l) }
pub open spec fn all_cases(l: Seq<(Expr, Block)>) -> Set<Seq<char>> { all_cnames(0, l) }
pub open spec fn all_tcases(l: Seq<(GoType, Block)>) -> Set<Seq<char>> { all_tnames(0, l) }
pub open spec fn all_assigned(l: Seq<Stmt>) -> Set<Seq<char>> { all_names(1, l) }

pub proof fn lemma_seq_prefix(w: int, a: Seq<Stmt>, b: Seq<Stmt>, k: int)
    requires 0 <= k <= a.len(), k <= b.len(), forall|j: int| 0 <= j < k ==> a[j] == b[j],
    ensures seq_names(w, a, k) == seq_names(w, b, k),
    decreases k,
{
    if k > 0 { lemma_seq_prefix(w, a, b, k - 1); }
}
pub proof fn lemma_cases_prefix(w: int, a: Seq<(Expr, Block)>, b: Seq<(Expr, Block)>, k: int)
    requires 0 <= k <= a.len(), k <= b.len(), forall|j: int| 0 <= j < k ==> a[j] == b[j],
    ensures cases_names(w, a, k) == cases_names(w, b, k),
    decreases k,
{
    if k > 0 { lemma_cases_prefix(w, a, b, k - 1); }
}
pub proof fn lemma_tcases_prefix(w: int, a: Seq<(GoType, Block)>, b: Seq<(GoType, Block)>, k: int)
    requires 0 <= k <= a.len(), k <= b.len(), forall|j: int| 0 <= j < k ==> a[j] == b[j],
    ensures tcases_names(w, a, k) == tcases_names(w, b, k),
    decreases k,
{
    if k > 0 { lemma_tcases_prefix(w, a, b, k - 1); }
}
// appending a statement adds exactly its names
pub broadcast proof fn lemma_reads_push(w: int, o: Seq<Stmt>, s: Stmt)
    ensures #[trigger] all_names(w, o.push(s)) == all_names(w, o).union(stmt_names(w, s)),
{
    lemma_seq_prefix(w, o.push(s), o, o.len() as int);
}
pub broadcast proof fn lemma_cases_push(w: int, o: Seq<(Expr, Block)>, c: (Expr, Block))
    ensures #[trigger] all_cnames(w, o.push(c)) == all_cnames(w, o).union(rd(w, expr_reads(c.0))).union(all_names(w, c.1.stmts@)),
{
    lemma_cases_prefix(w, o.push(c), o, o.len() as int);
}
pub broadcast proof fn lemma_tcases_push(w: int, o: Seq<(GoType, Block)>, c: (GoType, Block))
    ensures #[trigger] all_tnames(w, o.push(c)) == all_tnames(w, o).union(all_names(w, c.1.stmts@)),
{
    lemma_tcases_prefix(w, o.push(c), o, o.len() as int);
}
pub proof fn lemma_reads_concat(w: int, a: Seq<Stmt>, b: Seq<Stmt>)
    ensures all_names(w, a + b) == all_names(w, a).union(all_names(w, b)),
    decreases b.len(),
{
    if b.len() == 0 {
        assert(a + b =~= a);
        assert(all_names(w, a).union(all_names(w, b)) =~= all_names(w, a));
    } else {
        let b1 = b.drop_last();
        assert(a + b =~= (a + b1).push(b.last()));
        assert(b =~= b1.push(b.last()));
        lemma_reads_concat(w, a, b1);
        lemma_reads_push(w, a + b1, b.last());
        lemma_reads_push(w, b1, b.last());
        assert(all_names(w, a + b) =~= all_names(w, a).union(all_names(w, b)));
    }
}
// the order of the statements plays no part in the names they read / assign
pub proof fn lemma_reads_reverse(w: int, l: Seq<Stmt>)
    ensures all_names(w, l.reverse()) == all_names(w, l),
    decreases l.len(),
{
    if l.len() > 0 {
        let p = l.drop_last();
        let one_ = Seq::<Stmt>::empty().push(l.last());
        assert(l =~= p.push(l.last()));
        assert(l.reverse() =~= one_ + p.reverse());
        lemma_reads_reverse(w, p);
        lemma_reads_concat(w, one_, p.reverse());
        lemma_reads_push(w, Seq::<Stmt>::empty(), l.last());
        lemma_reads_push(w, p, l.last());
        assert(all_names(w, l.reverse()) =~= all_names(w, l));
    } else {
        assert(l.reverse() =~= l);
    }
}
// C02: in `o` — the kept statements in SCANNING order, the block's last statement first — every declaration (other than of the blank `_`) is read by a
// statement that follows it in the block (at any depth), or is live on exit of the block
pub open spec fn decls_used(o: Seq<Stmt>, lo: Set<Seq<char>>) -> bool {
    forall|k: int| 0 <= k < o.len() ==> ((#[trigger] o[k]) matches Stmt::VarDecl { name, ty: _, value: _ } ==> (name@ == "_"@ || all_reads(o.take(k)).union(lo).contains(name@)))
}
pub broadcast proof fn lemma_decls_push(o: Seq<Stmt>, s: Stmt, lo: Set<Seq<char>>)
    requires decls_used(o, lo), s matches Stmt::VarDecl { name, ty: _, value: _ } ==> (name@ == "_"@ || all_reads(o).union(lo).contains(name@)),
    ensures #[trigger] decls_used(o.push(s), lo),
{
    let n = o.push(s);
    assert forall|k: int| 0 <= k < n.len() implies ((#[trigger] n[k]) matches Stmt::VarDecl { name, ty: _, value: _ } ==> (name@ == "_"@ || all_reads(n.take(k)).union(lo).contains(name@))) by {
        if k < o.len() { assert(n.take(k) =~= o.take(k)); assert(n[k] == o[k]); } else { assert(n.take(k) =~= o); }
    }
}
// every variable the statements assign (other than the blank `_`) is read by one of them or live on exit: an assignment is kept only for a live variable
pub open spec fn assigned_are_read(l: Seq<Stmt>, lo: Set<Seq<char>>) -> bool {
    forall|n: Seq<char>| #[trigger] all_names(1, l).contains(n) && n != "_"@ ==> all_names(0, l).union(lo).contains(n)
}
pub open spec fn names_are_read(ns: Set<Seq<char>>, l: Seq<Stmt>, lo: Set<Seq<char>>) -> bool {
    forall|n: Seq<char>| #[trigger] ns.contains(n) && n != "_"@ ==> all_reads(l).union(lo).contains(n)
}
