// ---- shims / specification for U-DCELIVE (C02: dead-code elimination leaves no local variable declared and initialised but never read) ----
// std::collections::HashSet<String>: a finite set of names
#[verifier::external_body]
#[verifier::reject_recursive_types(K)]
pub struct HashSet<K> { _k: core::marker::PhantomData<K> }
impl View for HashSet<String> { type V = Set<Seq<char>>; uninterp spec fn view(&self) -> Set<Seq<char>>; }
impl HashSet<String> {
    #[verifier::external_body] pub fn new() -> (r: Self) ensures r@ == Set::<Seq<char>>::empty() { unimplemented!() }
    #[verifier::external_body] pub fn vclone(&self) -> (r: Self) ensures r@ == self@ { unimplemented!() }
    #[verifier::external_body] pub fn contains(&self, k: &String) -> (r: bool) ensures r == self@.contains(k@) { unimplemented!() }
    #[verifier::external_body] pub fn insert(&mut self, k: String) -> (r: bool) ensures final(self)@ == old(self)@.insert(k@) { unimplemented!() }
    #[verifier::external_body] pub fn remove(&mut self, k: &String) -> (r: bool) ensures final(self)@ == old(self)@.remove(k@) { unimplemented!() }
    #[verifier::external_body] pub fn extend(&mut self, other: HashSet<String>) ensures final(self)@ == old(self)@.union(other@) { unimplemented!() }
    #[verifier::external_body] pub fn union_with(&mut self, other: &HashSet<String>) ensures final(self)@ == old(self)@.union(other@) { unimplemented!() }   // for u in &other { self.insert(u.clone()) }
    #[verifier::external_body] pub fn is_disjoint(&self, other: &HashSet<String>) -> (r: bool) { unimplemented!() }
    #[verifier::external_body] pub fn is_empty(&self) -> (r: bool) { unimplemented!() }
}
pub trait VClone: Sized { fn vclone(&self) -> (r: Self) ensures r == *self; }
impl VClone for String { #[verifier::external_body] fn vclone(&self) -> (r: Self) { unimplemented!() } }
impl VClone for Expr { #[verifier::external_body] fn vclone(&self) -> (r: Self) { unimplemented!() } }
// the variables an expression READS (dce::vars_used_in_expr, not verified here): an uninterpreted function of the expression
pub uninterp spec fn expr_reads(e: Expr) -> Set<Seq<char>>;
#[verifier::external_body] pub fn vars_used_in_expr(e: &Expr) -> (r: HashSet<String>) ensures r@ == expr_reads(*e) { unimplemented!() }
#[verifier::external_body] pub fn add_uses_expr(live: &mut HashSet<String>, e: &Expr) ensures final(live)@ == old(live)@.union(expr_reads(*e)) { unimplemented!() }
#[verifier::external_body] pub fn assigned_vars_in_block(b: &Block) -> (r: HashSet<String>) { unimplemented!() }
#[verifier::external_body] pub fn free_vars_in_block(b: &Block) -> (r: HashSet<String>) { unimplemented!() }
#[verifier::external_body] pub fn underscore() -> (r: String) ensures r@ == "_"@ { unimplemented!() }          // "_".to_string()
#[verifier::external_body] pub fn str_eq(a: &str, b: &str) -> (r: bool) ensures r == (a@ == b@) { unimplemented!() }
#[verifier::external_body]
pub fn vec_reverse<T>(v: &mut Vec<T>) ensures final(v)@ == old(v)@.reverse() { unimplemented!() }             // <[T]>::reverse
pub uninterp spec fn dce_e(e: Expr) -> Expr;                                                                      // dce_expr (not verified here)
#[verifier::external_body] pub fn dce_expr(expr: Expr) -> (r: Expr) ensures r == dce_e(expr) { unimplemented!() }

pub open spec fn none() -> Set<Seq<char>> { Set::<Seq<char>>::empty() }
pub open spec fn oexpr_reads(o: Option<Expr>) -> Set<Seq<char>> { match o { Some(e) => expr_reads(e), None => none() } }
// the variables a statement reads, at any depth (a declaration or an assignment does not read the variable it names)
pub open spec fn stmt_reads(s: Stmt) -> Set<Seq<char>>
    decreases s,
{
    match s {
        Stmt::Expr(e) => expr_reads(e),
        Stmt::Go { call } => expr_reads(call),
        Stmt::VarDecl { name: _, ty: _, value } => oexpr_reads(value),
        Stmt::Assignment { name: _, value } => expr_reads(value),
        Stmt::IndexAssign { array, index, value } => expr_reads(array).union(expr_reads(index)).union(expr_reads(value)),
        Stmt::PointerAssign { pointer, value } => expr_reads(pointer).union(expr_reads(value)),
        Stmt::FieldAssign { target, value } => expr_reads(target).union(expr_reads(value)),
        Stmt::Return { expr } => oexpr_reads(expr),
        Stmt::Break => none(),
        Stmt::Loop { body } => seq_reads(body.stmts@, body.stmts@.len() as int),
        Stmt::If { cond, then, else_ } => expr_reads(cond).union(seq_reads(then.stmts@, then.stmts@.len() as int))
            .union(match else_ { Some(b) => seq_reads(b.stmts@, b.stmts@.len() as int), None => none() }),
        Stmt::SwitchExpr { expr, cases, default } => expr_reads(expr).union(cases_reads(cases@, cases@.len() as int))
            .union(match default { Some(b) => seq_reads(b.stmts@, b.stmts@.len() as int), None => none() }),
        Stmt::SwitchType { bind: _, expr, cases, default } => expr_reads(expr).union(tcases_reads(cases@, cases@.len() as int))
            .union(match default { Some(b) => seq_reads(b.stmts@, b.stmts@.len() as int), None => none() }),
    }
}
pub open spec fn seq_reads(l: Seq<Stmt>, k: int) -> Set<Seq<char>>
    decreases l, k,
{
    if k <= 0 || k > l.len() { none() } else { seq_reads(l, k - 1).union(stmt_reads(l[k - 1])) }
}
pub open spec fn cases_reads(l: Seq<(Expr, Block)>, k: int) -> Set<Seq<char>>
    decreases l, k,
{
    if k <= 0 || k > l.len() { none() } else { cases_reads(l, k - 1).union(expr_reads(l[k - 1].0)).union(seq_reads(l[k - 1].1.stmts@, l[k - 1].1.stmts@.len() as int)) }
}
pub open spec fn tcases_reads(l: Seq<(GoType, Block)>, k: int) -> Set<Seq<char>>
    decreases l, k,
{
    if k <= 0 || k > l.len() { none() } else { tcases_reads(l, k - 1).union(seq_reads(l[k - 1].1.stmts@, l[k - 1].1.stmts@.len() as int)) }
}
pub open spec fn all_reads(l: Seq<Stmt>) -> Set<Seq<char>> { seq_reads(l, l.len() as int) }
pub open spec fn all_cases(l: Seq<(Expr, Block)>) -> Set<Seq<char>> { cases_reads(l, l.len() as int) }
pub open spec fn all_tcases(l: Seq<(GoType, Block)>) -> Set<Seq<char>> { tcases_reads(l, l.len() as int) }

pub proof fn lemma_seq_prefix(a: Seq<Stmt>, b: Seq<Stmt>, k: int)
    requires 0 <= k <= a.len(), k <= b.len(), forall|j: int| 0 <= j < k ==> a[j] == b[j],
    ensures seq_reads(a, k) == seq_reads(b, k),
    decreases k,
{
    if k > 0 { lemma_seq_prefix(a, b, k - 1); }
}
pub proof fn lemma_cases_prefix(a: Seq<(Expr, Block)>, b: Seq<(Expr, Block)>, k: int)
    requires 0 <= k <= a.len(), k <= b.len(), forall|j: int| 0 <= j < k ==> a[j] == b[j],
    ensures cases_reads(a, k) == cases_reads(b, k),
    decreases k,
{
    if k > 0 { lemma_cases_prefix(a, b, k - 1); }
}
pub proof fn lemma_tcases_prefix(a: Seq<(GoType, Block)>, b: Seq<(GoType, Block)>, k: int)
    requires 0 <= k <= a.len(), k <= b.len(), forall|j: int| 0 <= j < k ==> a[j] == b[j],
    ensures tcases_reads(a, k) == tcases_reads(b, k),
    decreases k,
{
    if k > 0 { lemma_tcases_prefix(a, b, k - 1); }
}
// appending a statement adds exactly its reads
pub broadcast proof fn lemma_reads_push(o: Seq<Stmt>, s: Stmt)
    ensures #[trigger] all_reads(o.push(s)) == all_reads(o).union(stmt_reads(s)),
{
    lemma_seq_prefix(o.push(s), o, o.len() as int);
}
pub broadcast proof fn lemma_cases_push(o: Seq<(Expr, Block)>, c: (Expr, Block))
    ensures #[trigger] all_cases(o.push(c)) == all_cases(o).union(expr_reads(c.0)).union(all_reads(c.1.stmts@)),
{
    lemma_cases_prefix(o.push(c), o, o.len() as int);
}
pub broadcast proof fn lemma_tcases_push(o: Seq<(GoType, Block)>, c: (GoType, Block))
    ensures #[trigger] all_tcases(o.push(c)) == all_tcases(o).union(all_reads(c.1.stmts@)),
{
    lemma_tcases_prefix(o.push(c), o, o.len() as int);
}
pub proof fn lemma_reads_concat(a: Seq<Stmt>, b: Seq<Stmt>)
    ensures all_reads(a + b) == all_reads(a).union(all_reads(b)),
    decreases b.len(),
{
    if b.len() == 0 {
        assert(a + b =~= a);
        assert(all_reads(a).union(all_reads(b)) =~= all_reads(a));
    } else {
        let b1 = b.drop_last();
        assert(a + b =~= (a + b1).push(b.last()));
        assert(b =~= b1.push(b.last()));
        lemma_reads_concat(a, b1);
        lemma_reads_push(a + b1, b.last());
        lemma_reads_push(b1, b.last());
        assert(all_reads(a + b) =~= all_reads(a).union(all_reads(b)));
    }
}
// the order of the statements plays no part in what they read
pub proof fn lemma_reads_reverse(l: Seq<Stmt>)
    ensures all_reads(l.reverse()) == all_reads(l),
    decreases l.len(),
{
    if l.len() > 0 {
        let p = l.drop_last();
        let one = Seq::<Stmt>::empty().push(l.last());
        assert(l =~= p.push(l.last()));
        assert(l.reverse() =~= one + p.reverse());
        lemma_reads_reverse(p);
        lemma_reads_concat(one, p.reverse());
        lemma_reads_push(Seq::<Stmt>::empty(), l.last());
        lemma_reads_push(p, l.last());
        assert(all_reads(l.reverse()) =~= all_reads(l));
    } else {
        assert(l.reverse() =~= l);
    }
}
// C02: in `o` — the kept statements in SCANNING order, the block's last statement first — every declaration that carries an initialiser is read by a
// statement that follows it in the block (at any depth), or is live on exit of the block
pub open spec fn decls_used(o: Seq<Stmt>, lo: Set<Seq<char>>) -> bool {
    forall|k: int| 0 <= k < o.len() ==> ((#[trigger] o[k]) matches Stmt::VarDecl { name, ty: _, value: Some(_) } ==> all_reads(o.take(k)).union(lo).contains(name@))
}
pub broadcast proof fn lemma_decls_push(o: Seq<Stmt>, s: Stmt, lo: Set<Seq<char>>)
    requires decls_used(o, lo), s matches Stmt::VarDecl { name, ty: _, value: Some(_) } ==> all_reads(o).union(lo).contains(name@),
    ensures #[trigger] decls_used(o.push(s), lo),
{
    let n = o.push(s);
    assert forall|k: int| 0 <= k < n.len() implies ((#[trigger] n[k]) matches Stmt::VarDecl { name, ty: _, value: Some(_) } ==> all_reads(n.take(k)).union(lo).contains(name@)) by {
        if k < o.len() { assert(n.take(k) =~= o.take(k)); assert(n[k] == o[k]); } else { assert(n.take(k) =~= o); }
    }
}
