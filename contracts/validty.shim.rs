// ---- shims / specification for U-VALIDTY (C04 / C03: validate_ty looks at EVERY component of a written type) ----
#[verifier::external_body] pub struct TypeVar { _p: u32 }
#[verifier::external_body] pub struct PackageTypeEnv { _p: u64 }
#[verifier::external_body] pub struct Diagnostics { _p: u64 }
impl Diagnostics { pub uninterp spec fn n(&self) -> nat; }
#[verifier::external_body]
#[verifier::reject_recursive_types(K)]
pub struct HashSet<K> { _k: core::marker::PhantomData<K> }
impl HashSet<String> { pub uninterp spec fn view(&self) -> Set<Seq<char>>; }
// what is wrong with ONE node of a type, not looking at its components: an unknown type parameter, an unknown constructor, a constructor applied to the wrong number of
// arguments, a `dyn` of an unknown or non-dyn-safe trait.  The code of these checks (environment look-ups) is replaced by this stub in the unit: NOT verified here
pub uninterp spec fn node_bad0(genv: PackageTypeEnv, t: Ty, tparams: Set<Seq<char>>) -> bool;
// only a type parameter, a `dyn`, a named type and a type application can be wrong BY THEMSELVES
pub open spec fn node_bad(genv: PackageTypeEnv, t: Ty, tparams: Set<Seq<char>>) -> bool {
    (t is TParam || t is TDyn || t is TEnum || t is TStruct || t is TApp) && node_bad0(genv, t, tparams)
}
#[verifier::external_body]
pub fn node_check(genv: &PackageTypeEnv, diagnostics: &mut Diagnostics, ty: &Ty, tparams: &HashSet<String>)
    ensures final(diagnostics).n() >= old(diagnostics).n(), node_bad(*genv, *ty, tparams@) ==> final(diagnostics).n() > old(diagnostics).n(),
{ unimplemented!() }
// C04 (mono panics on an ill-formed application that reaches it) / C03: a type is rejected when ANY node of it is bad — the node itself, a tuple element, a function
// type's parameter OR RESULT, the element of a Vec / Ref / array, a type argument
pub open spec fn any_bad(genv: PackageTypeEnv, t: Ty, tp: Set<Seq<char>>) -> bool decreases t {
    node_bad(genv, t, tp) || match t {
        Ty::TTuple { typs } => some_bad(genv, typs@, typs@.len() as int, tp),
        Ty::TFunc { params, ret_ty } => some_bad(genv, params@, params@.len() as int, tp) || any_bad(genv, *ret_ty, tp),
        Ty::TVec { elem } => any_bad(genv, *elem, tp),
        Ty::TRef { elem } => any_bad(genv, *elem, tp),
        Ty::TArray { elem, .. } => any_bad(genv, *elem, tp),
        Ty::TApp { args, .. } => some_bad(genv, args@, args@.len() as int, tp),
        _ => false,
    }
}
pub open spec fn some_bad(genv: PackageTypeEnv, ts: Seq<Ty>, n: int, tp: Set<Seq<char>>) -> bool decreases ts, n {
    if n <= 0 || n > ts.len() { false } else { some_bad(genv, ts, n - 1, tp) || any_bad(genv, ts[n - 1], tp) }
}
