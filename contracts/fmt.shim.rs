// ---- `format!` with plain `{}` placeholders (rule fmt_concat): literal pieces and the Display texts of the arguments, concatenated in order ----
// Display of an unsigned integer (std, ASSUMED): its decimal digits — no `_`, different numbers have different texts
pub uninterp spec fn dec(n: int) -> Seq<char>;
#[verifier::external_body] pub proof fn dec_digits(n: int) ensures !dec(n).contains('_') { }
#[verifier::external_body] pub proof fn dec_injective(a: int, b: int) requires dec(a) == dec(b), a >= 0, b >= 0 ensures a == b { }
pub trait FmtArg { spec fn fmt_text(&self) -> Seq<char>; }
impl FmtArg for String { open spec fn fmt_text(&self) -> Seq<char> { self@ } }
impl<'a> FmtArg for &'a str { open spec fn fmt_text(&self) -> Seq<char> { self@ } }
impl<'a> FmtArg for &'a String { open spec fn fmt_text(&self) -> Seq<char> { self@ } }
impl FmtArg for usize { open spec fn fmt_text(&self) -> Seq<char> { dec(*self as int) } }
impl<'a> FmtArg for &'a usize { open spec fn fmt_text(&self) -> Seq<char> { dec(**self as int) } }
impl FmtArg for u32 { open spec fn fmt_text(&self) -> Seq<char> { dec(*self as int) } }
#[verifier::external_body] pub fn fmt_lit(s: &str) -> (r: String) ensures r@ == s@ { unimplemented!() }
#[verifier::external_body] pub fn fmt_str(a: String, b: &str) -> (r: String) ensures r@ == a@ + b@ { unimplemented!() }
#[verifier::external_body] pub fn fmt_arg<T: FmtArg>(a: String, b: &T) -> (r: String) ensures r@ == a@ + b.fmt_text() { unimplemented!() }
