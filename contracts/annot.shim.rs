// ---- shims / specification for U-ANNOT (C03 / C04: type annotations inside bodies are validated) ----
#[verifier::external_body] pub struct TypeExpr { _p: u64 }                 // hir::TypeExpr
#[verifier::external_body] #[derive(Clone, Copy)] pub struct PatId { _p: u64 }
#[verifier::external_body] pub struct TparamsEnv { _p: u64 }               // Vec<TastIdent>: the type parameters in scope
#[verifier::external_body] pub struct NameSet { _p: u64 }                  // HashSet<String>
impl LocalTypeEnv { #[verifier::external_body] pub fn current_tparams_env(&self) -> (r: TparamsEnv) { unimplemented!() } }
// tast::Ty::from_hir: the type a written type expression denotes (no validity check of its own)
pub uninterp spec fn ty_of_hir(t: TypeExpr) -> Ty;
#[verifier::external_body] pub fn ty_from_hir(genv: &PackageTypeEnv, t: &TypeExpr, tparams: &TparamsEnv) -> (r: Ty) ensures r == ty_of_hir(*t) { unimplemented!() }
// typer::util::validate_ty: reports unknown type constructors, wrong numbers of type arguments, unbound type parameters and traits that are
// not dyn-safe as diagnostics.  `validated` (a ghost log on the diagnostics sink) records which types went through it
impl Diagnostics { pub uninterp spec fn validated(&self) -> Set<Ty>; }
#[verifier::external_body] pub fn tparam_names(t: &TparamsEnv) -> (r: NameSet) { unimplemented!() }    // tparams_env.iter().map(|t| t.0.clone()).collect()
#[verifier::external_body]
pub fn validate_ty(genv: &PackageTypeEnv, diagnostics: &mut Diagnostics, ty: &Ty, tparams: &NameSet)
    ensures final(diagnostics).validated() == old(diagnostics).validated().insert(*ty),
{ unimplemented!() }
impl Typer {
    // the other recursive entry points: they leave the log of validated types alone (they may add to it)
    #[verifier::external_body]
    pub fn check_expr_a(&mut self, genv: &PackageTypeEnv, local_env: &mut LocalTypeEnv, diagnostics: &mut Diagnostics, e: ExprId, expected: &Ty) -> (r: Expr)
        requires old(diagnostics).validated().contains(*expected),          // GATE: an annotation reaches the checker only after validate_ty saw it
        ensures old(diagnostics).validated().subset_of(final(diagnostics).validated()),
    { unimplemented!() }
    #[verifier::external_body]
    pub fn infer_expr(&mut self, genv: &PackageTypeEnv, local_env: &mut LocalTypeEnv, diagnostics: &mut Diagnostics, e: ExprId) -> (r: Expr)
        ensures old(diagnostics).validated().subset_of(final(diagnostics).validated()),
    { unimplemented!() }
    #[verifier::external_body]
    pub fn check_pat(&mut self, genv: &PackageTypeEnv, local_env: &mut LocalTypeEnv, diagnostics: &mut Diagnostics, p: PatId, ty: &Ty) -> (r: Pat)
        ensures old(diagnostics).validated().subset_of(final(diagnostics).validated()),
    { unimplemented!() }
}
impl Expr { #[verifier::external_body] pub fn get_ty(&self) -> (r: Ty) { unimplemented!() } }
// C03/C04: an annotated let — the annotation's type has been validated when the function returns
pub open spec fn annotation_validated(annotation: Option<TypeExpr>, d: &Diagnostics) -> bool {
    annotation matches Some(t) ==> d.validated().contains(ty_of_hir(t))
}
