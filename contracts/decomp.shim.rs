// ---- shims / specification for U-DECOMP (C06 / C03: the constructor name and the type arguments of a struct / enum type, in order) ----
pub struct TastIdent(pub String);
#[verifier::external_body] pub fn string_clone(s: &String) -> (r: String) ensures r == *s { unimplemented!() }                      // derived Clone
#[verifier::external_body] pub fn extend_cloned(v: &mut Vec<Ty>, more: &Vec<Ty>) ensures final(v)@ == old(v)@ + more@ { unimplemented!() }   // v.extend(more.iter().cloned())
// the type `C[a1..][b1..]..` read as (C, a1.. b1.. ..): the head's name, and the arguments of every application from the innermost outwards
pub open spec fn decomp(ty: Ty, want_struct: bool) -> Option<(String, Seq<Ty>)>
    decreases ty,
{
    match ty {
        Ty::TStruct { name } => if want_struct { Some((name, Seq::<Ty>::empty())) } else { None },
        Ty::TEnum { name } => if want_struct { None } else { Some((name, Seq::<Ty>::empty())) },
        Ty::TApp { ty: base, args } => match decomp(*base, want_struct) { Some((n, c)) => Some((n, c + args@)), None => None },
        _ => None,
    }
}
pub open spec fn decomp_result(r: Option<(TastIdent, Vec<Ty>)>, want: Option<(String, Seq<Ty>)>) -> bool {
    match (r, want) { (Some((n, c)), Some((wn, wc))) => n.0 == wn && c@ == wc, (None, None) => true, _ => false }
}
impl TastIdent { #[verifier::external_body] pub fn new(name: &String) -> (r: TastIdent) ensures r.0 == *name { unimplemented!() } }      // TastIdent::new(name) = TastIdent(name.to_string()) (U-INHERENT verifies it)
#[verifier::external_body] pub fn vclone<T>(a: &T) -> (r: T) ensures r == *a { unimplemented!() }      // any other `.clone()`: an identical copy
