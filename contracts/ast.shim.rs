// inside `pub mod ast`: foreign / irrelevant payload types
#[verifier::external_body] #[derive(Clone, Copy)] pub struct MySyntaxNodePtr { _p: u64 }
#[verifier::external_body] pub struct Path { _p: u64 }
#[verifier::external_body] pub struct TypeExpr { _p: u64 }
#[verifier::external_body] #[derive(Clone, Copy)] pub struct UnaryOp { _p: u64 }
#[verifier::external_body] #[derive(Clone, Copy)] pub struct BinaryOp { _p: u64 }
