// ---- shims for U-INTLIT ----
#[verifier::external_body] pub struct TypeVar { _p: u32 }
#[verifier::external_body] pub struct Typer { _p: u64 }     // the methods under contract do not read any Typer state

// std: `str::parse::<T>()` for the integer types, std::num::{ParseIntError, IntErrorKind}
pub enum IntErrorKind { Empty, InvalidDigit, PosOverflow, NegOverflow, Zero }
#[verifier::external_body] pub struct ParseIntError { _p: u64 }
impl ParseIntError {
    #[verifier::external_body]
    pub fn kind(&self) -> (r: &IntErrorKind) { unimplemented!() }
}
// the text is a decimal integer literal (optional sign, digits) / its mathematical value
pub uninterp spec fn decimal_ok(s: Seq<char>) -> bool;
pub uninterp spec fn decimal_value(s: Seq<char>) -> int;
// the mathematical value of a machine integer of type T (defined below for the eight integer types)
pub uninterp spec fn int_of<T>(v: T) -> int;
pub broadcast proof fn int_of_i8(v: i8) ensures #[trigger] int_of::<i8>(v) == v as int { admit(); }
pub broadcast proof fn int_of_i16(v: i16) ensures #[trigger] int_of::<i16>(v) == v as int { admit(); }
pub broadcast proof fn int_of_i32(v: i32) ensures #[trigger] int_of::<i32>(v) == v as int { admit(); }
pub broadcast proof fn int_of_i64(v: i64) ensures #[trigger] int_of::<i64>(v) == v as int { admit(); }
pub broadcast proof fn int_of_u8(v: u8) ensures #[trigger] int_of::<u8>(v) == v as int { admit(); }
pub broadcast proof fn int_of_u16(v: u16) ensures #[trigger] int_of::<u16>(v) == v as int { admit(); }
pub broadcast proof fn int_of_u32(v: u32) ensures #[trigger] int_of::<u32>(v) == v as int { admit(); }
pub broadcast proof fn int_of_u64(v: u64) ensures #[trigger] int_of::<u64>(v) == v as int { admit(); }
pub broadcast group int_of_axioms { int_of_i8, int_of_i16, int_of_i32, int_of_i64, int_of_u8, int_of_u16, int_of_u32, int_of_u64 }

// assumed contract of `<str>::parse::<T>()` for integer T: Ok(v) only for a decimal literal whose value is v
#[verifier::external_body]
pub fn parse_int<T>(s: &str) -> (r: Result<T, ParseIntError>)
    ensures r matches Ok(v) ==> decimal_ok(s@) && int_of::<T>(v) == decimal_value(s@),
{ unimplemented!() }
#[verifier::external_body]
pub fn str_starts_with_minus(s: &str) -> (r: bool) { unimplemented!() }

// ---- C10: an accepted integer literal denotes exactly the written value at the annotated type ----
pub open spec fn is_int_ty(t: Ty) -> bool {
    t is TInt8 || t is TInt16 || t is TInt32 || t is TInt64 || t is TUint8 || t is TUint16 || t is TUint32 || t is TUint64
}
pub open spec fn prim_for_ty(p: Prim, t: Ty) -> bool {
    match (p, t) {
        (Prim::Int8 { .. }, Ty::TInt8) | (Prim::Int16 { .. }, Ty::TInt16) | (Prim::Int32 { .. }, Ty::TInt32) | (Prim::Int64 { .. }, Ty::TInt64)
        | (Prim::UInt8 { .. }, Ty::TUint8) | (Prim::UInt16 { .. }, Ty::TUint16) | (Prim::UInt32 { .. }, Ty::TUint32) | (Prim::UInt64 { .. }, Ty::TUint64) => true,
        _ => false,
    }
}
pub open spec fn prim_int_value(p: Prim) -> int {
    match p {
        Prim::Int8 { value } => value as int, Prim::Int16 { value } => value as int, Prim::Int32 { value } => value as int, Prim::Int64 { value } => value as int,
        Prim::UInt8 { value } => value as int, Prim::UInt16 { value } => value as int, Prim::UInt32 { value } => value as int, Prim::UInt64 { value } => value as int,
        _ => 0,
    }
}
