// ---- shims / specification for U-LOWERTYPE (C16: lower_type_expr reports every qualified name whose package may not be named) ----
pub struct AstIdent(pub String);
#[verifier::external_body] pub struct HirPath { _p: u64 }
impl HirPath { #[verifier::external_body] pub fn from_ident(name: String) -> (r: HirPath) { unimplemented!() } }
pub struct PackageName(pub String);
impl PackageName { #[verifier::external_body] pub fn as_str(&self) -> (r: &str) ensures r@ == self.0@ { unimplemented!() } }
pub struct HirQualifiedPath { pub package: Option<PackageName>, pub path: HirPath }          // hir::QualifiedPath
impl Path {
    #[verifier::external_body] pub fn len(&self) -> (r: usize) ensures r == self.segments@.len() { unimplemented!() }
    #[verifier::external_body] pub fn last_ident(&self) -> (r: Option<&AstIdent>) { unimplemented!() }
}
// the package a written path names (hir.rs, `impl From<&ast::Path> for QualifiedPath`: no package for a path of at most one segment, else the FIRST segment)
pub open spec fn pkg_of(p: Path) -> Option<Seq<char>> { if p.segments@.len() <= 1 { None } else { Some(p.segments@[0].ident.0@) } }
#[verifier::external_body] pub fn qualified_from(path: &Path) -> (r: HirQualifiedPath)            // `path.into()`  (ASSUMED to be that From impl)
    ensures r.package matches Some(p) ==> pkg_of(*path) == Some(p.0@), r.package is None ==> pkg_of(*path) is None { unimplemented!() }
#[verifier::external_body] pub fn string_clone(s: &String) -> (r: String) ensures r@ == s@ { unimplemented!() }
#[verifier::external_body] pub fn str_to_string(s: &str) -> (r: String) ensures r@ == s@ { unimplemented!() }
#[verifier::external_body] pub fn rt_msg() -> (r: String) { unimplemented!() }
// NameResolution: only its diagnostics count matters here
#[verifier::external_body] pub struct NameResolution { _p: u64 }
impl NameResolution {
    pub uninterp spec fn n_errors(&self) -> nat;
    #[verifier::external_body] pub fn error(&mut self, message: String) ensures final(self).n_errors() == old(self).n_errors() + 1 { unimplemented!() }
    #[verifier::external_body] pub fn ice(&mut self, message: &str) ensures final(self).n_errors() == old(self).n_errors() + 1 { unimplemented!() }
}
// C16: SOME qualified name in the written type — at any depth, as a type constructor or as the trait of a `dyn` — names a package that is neither
// the current one, nor Builtin, nor imported
pub open spec fn foreign_path(p: Path, cur: Seq<char>, imports: Set<Seq<char>>) -> bool { pkg_of(p) matches Some(k) && !may_name(k, cur, imports) }
pub open spec fn names_foreign(t: TypeExpr, cur: Seq<char>, imports: Set<Seq<char>>) -> bool decreases t {
    match t {
        TypeExpr::TCon { path } => foreign_path(path, cur, imports),
        TypeExpr::TDyn { trait_path } => foreign_path(trait_path, cur, imports),
        TypeExpr::TTuple { typs } => any_foreign(typs@, typs@.len() as int, cur, imports),
        TypeExpr::TApp { ty, args } => names_foreign(*ty, cur, imports) || any_foreign(args@, args@.len() as int, cur, imports),
        TypeExpr::TArray { elem, .. } => names_foreign(*elem, cur, imports),
        TypeExpr::TFunc { params, ret_ty } => any_foreign(params@, params@.len() as int, cur, imports) || names_foreign(*ret_ty, cur, imports),
        _ => false,
    }
}
pub open spec fn any_foreign(ts: Seq<TypeExpr>, n: int, cur: Seq<char>, imports: Set<Seq<char>>) -> bool decreases ts, n {
    if n <= 0 || n > ts.len() { false } else { any_foreign(ts, n - 1, cur, imports) || names_foreign(ts[n - 1], cur, imports) }
}
// the gate-less conversion `From<&ast::TypeExpr> for hir::TypeExpr`: reports nothing
#[verifier::external_body] pub fn type_expr_into(t: &TypeExpr) -> (r: HirTypeExpr) { unimplemented!() }
