// ---- shims / specification for U-CLILINK (C15: the `link` command hands link_cores only artifacts that went through separate::read_core) ----
#[verifier::external_body] pub struct CoreUnit { _p: u64 }
impl CoreUnit {
    // the artifact came out of separate::read_core (U-ART: current versions, right package, embedded interface hash valid, deps == interface deps)
    pub uninterp spec fn checked(&self) -> bool;
}
#[verifier::external_body] pub struct CompilationError { _p: u64 }
#[verifier::external_body] pub struct AnyError { _p: u64 }          // anyhow::Error
#[verifier::external_body] pub struct LinkOutput { _p: u64 }
#[verifier::external_body]
pub fn read_core(path: &PathBuf) -> (r: Result<CoreUnit, CompilationError>)
    ensures r matches Ok(u) ==> u.checked(),
{ unimplemented!() }
// separate::link_cores: its own consistency checks (U-LINK) are stated for artifacts that were read by read_core
#[verifier::external_body]
pub fn link_cores(units: Vec<CoreUnit>) -> (r: Result<LinkOutput, CompilationError>)
    requires forall|i: int| 0 <= i < units@.len() ==> (#[trigger] units@[i]).checked(),
{ unimplemented!() }
#[verifier::external_body] pub fn any_err() -> (r: AnyError) { unimplemented!() }      // anyhow!(..): the message is dropped
