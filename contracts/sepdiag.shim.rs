// ---- shims / specification for U-SEPDIAG (C14: the separate driver reports what the whole-program driver reports: name-resolution AND typer errors) ----
#[verifier::external_body] pub struct SourceFiles { _p: u64 }                 // Vec<hir::SourceFileAst>
#[verifier::external_body] pub struct IfaceMap { _p: u64 }                    // HashMap<String, hir::PackageInterface>
#[verifier::external_body] pub struct EnvMap { _p: u64 }                      // HashMap<String, GlobalTypeEnv>
#[verifier::external_body] pub struct PackageId { _p: u64 }
#[verifier::external_body] pub struct Hir { _p: u64 }
#[verifier::external_body] pub struct HirTable { _p: u64 }
#[verifier::external_body] pub struct PackageInterface { _p: u64 }
#[verifier::external_body] pub struct TastFile { _p: u64 }
#[verifier::external_body] pub struct TypeEnv { _p: u64 }
#[verifier::external_body] pub struct TraitEnv { _p: u64 }
#[verifier::external_body] pub struct ValueEnv { _p: u64 }
pub struct GlobalTypeEnv { pub type_env: TypeEnv, pub trait_env: TraitEnv, pub value_env: ValueEnv }
pub struct PackageExports { pub type_env: TypeEnv, pub trait_env: TraitEnv, pub value_env: ValueEnv }
pub trait VClone: Sized { fn vclone(&self) -> (r: Self) ensures r == *self; }
impl VClone for TypeEnv { #[verifier::external_body] fn vclone(&self) -> (r: Self) { unimplemented!() } }
impl VClone for TraitEnv { #[verifier::external_body] fn vclone(&self) -> (r: Self) { unimplemented!() } }
impl VClone for ValueEnv { #[verifier::external_body] fn vclone(&self) -> (r: Self) { unimplemented!() } }
// diagnostics: only the number of ERRORS is modelled
#[verifier::external_body] pub struct Diagnostics { _p: u64 }
impl Diagnostics {
    pub uninterp spec fn errors(&self) -> nat;
    #[verifier::external_body] pub fn append(&mut self, other: &mut Diagnostics) ensures final(self).errors() == old(self).errors() + old(other).errors(), final(other).errors() == 0 { unimplemented!() }
}
// name resolution / lowering and the type checker: their error counts are uninterpreted functions of what they are given
pub uninterp spec fn hir_errors(files: SourceFiles, deps: IfaceMap) -> nat;
pub uninterp spec fn typer_errors(hir: Hir, table: HirTable, package: Seq<char>, deps: EnvMap) -> nat;
pub uninterp spec fn lowered(files: SourceFiles, deps: IfaceMap) -> (Hir, HirTable);
#[verifier::external_body] pub fn package_id_for_name(package: &str) -> (r: PackageId) { unimplemented!() }
#[verifier::external_body]
pub fn lower_to_hir_files_with_env(id: PackageId, files: SourceFiles, deps: &IfaceMap) -> (r: (Hir, HirTable, Diagnostics))
    ensures r.2.errors() == hir_errors(files, *deps), (r.0, r.1) == lowered(files, *deps),
{ unimplemented!() }
#[verifier::external_body] pub fn interface_from_hir(hir: &Hir, table: &HirTable) -> (r: PackageInterface) { unimplemented!() }
#[verifier::external_body] pub fn global_type_env_new() -> (r: GlobalTypeEnv) { unimplemented!() }
#[verifier::external_body]
pub fn check_file_with_env(hir: Hir, table: HirTable, genv: GlobalTypeEnv, package: &str, deps: EnvMap) -> (r: (TastFile, GlobalTypeEnv, Diagnostics))
    ensures r.2.errors() == typer_errors(hir, table, package@, deps),
{ unimplemented!() }
// ---- the whole-program twin: pipeline::typecheck_package ----
pub struct PackageUnit { pub name: String, pub files: SourceFiles }                       // packages::PackageUnit: the two fields read
impl VClone for SourceFiles { #[verifier::external_body] fn vclone(&self) -> (r: Self) { unimplemented!() } }
pub struct PkgInterface { pub exports: PackageExports, pub hir_interface: PackageInterface }    // pipeline::PackageInterface
pub struct PackageArtifact { pub tast: TastFile, pub interface: PkgInterface, pub diagnostics: Diagnostics }
#[verifier::external_body] pub fn string_as_str(s: &String) -> (r: &str) ensures r@ == s@ { unimplemented!() }
