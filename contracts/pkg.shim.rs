// ---- shims for U-PKGALLOW ----
// HashSet<String> / &str: membership and equality by text
#[verifier::external_body]
#[verifier::reject_recursive_types(K)]
pub struct HashSet<K> { _k: core::marker::PhantomData<K> }
impl HashSet<String> {
    pub uninterp spec fn view(&self) -> Set<Seq<char>>;
    #[verifier::external_body]
    pub fn contains(&self, k: &str) -> (r: bool) ensures r == self@.contains(k@) { unimplemented!() }
}
#[verifier::external_body]
pub fn str_eq(a: &str, b: &str) -> (r: bool) ensures r == (a@ == b@) { unimplemented!() }
// opaque payloads of ResolutionContext
#[verifier::external_body] pub struct BuiltinMap { _p: u64 }
#[verifier::external_body] pub struct DefMap { _p: u64 }
#[verifier::external_body] pub struct DepsMap { _p: u64 }
#[verifier::external_body] pub struct ConstructorIndex { _p: u64 }

// ---- C16: a package can name only its own items, builtins and items of packages it imports ----
pub open spec fn may_name(package: Seq<char>, current: Seq<char>, imports: Set<Seq<char>>) -> bool {
    package == current || package == "Builtin"@ || imports.contains(package)
}
