// ---- shims / specification for U-COHERE (C16: at most one impl per (trait, type) across the project) ----
#[verifier::external_body] pub struct Ty { _p: u64 }
#[verifier::external_body] pub struct ImplDef { _p: u64 }
#[verifier::external_body] pub struct CompilationError { _p: u64 }
#[verifier::external_body] pub fn rt_msg() -> (r: String) { unimplemented!() }
// diagnostics: how many were pushed
pub enum Severity { Error, Warning }
pub enum Stage { Parser, Typer }
#[verifier::external_body] pub struct Diagnostic { _p: u64 }
impl Diagnostic { #[verifier::external_body] pub fn new(stage: Stage, severity: Severity, message: String) -> (r: Self) { unimplemented!() } }
#[verifier::external_body] pub struct Diagnostics { _p: u64 }
impl Diagnostics {
    pub uninterp spec fn errors(&self) -> nat;       // number of error diagnostics pushed so far
    #[verifier::external_body] pub fn push(&mut self, d: Diagnostic) ensures final(self).errors() == old(self).errors() + 1 { unimplemented!() }
}
// IndexMap<(String, Ty), ImplDef>: the trait-impl table, by key
#[verifier::external_body] pub struct ImplMap { _p: u64 }
impl ImplMap {
    pub uninterp spec fn has(&self, k: (String, Ty)) -> bool;
    #[verifier::external_body] pub fn contains_key(&self, key: &(String, Ty)) -> (r: bool) ensures r == self.has(*key) { unimplemented!() }
    // `m.iter()`: every key exactly as stored, each once
    #[verifier::external_body]
    pub fn entries(&self) -> (r: Vec<(&(String, Ty), &ImplDef)>)
        ensures forall|i: int| 0 <= i < r@.len() ==> self.has(*(#[trigger] r@[i]).0),
                forall|k: (String, Ty)| self.has(k) ==> exists|i: int| 0 <= i < r@.len() && *(#[trigger] r@[i]).0 == k,
    { unimplemented!() }
}
pub struct TraitEnv { pub trait_impls: ImplMap }
pub struct GlobalTypeEnv { pub trait_env: TraitEnv }
pub struct PackageExports { pub trait_env: TraitEnv }
impl PackageExports {
    // merges the package's definitions into the project-wide environment (artifact.rs; not verified here)
    #[verifier::external_body]
    pub fn apply_to(&self, genv: &mut GlobalTypeEnv)
        ensures forall|k: (String, Ty)| #[trigger] final(genv).trait_env.trait_impls.has(k) == (old(genv).trait_env.trait_impls.has(k) || self.trait_env.trait_impls.has(k)),
    { unimplemented!() }
}
pub struct PackageInterface { pub exports: PackageExports }
pub struct PackageArtifact { pub interface: PackageInterface }       // pipeline::PackageArtifact / artifact::CoreUnit (field used here)

// some impl of the package being merged is already present in the project-wide environment
pub open spec fn clashes(pkg: ImplMap, global: ImplMap) -> bool { exists|k: (String, Ty)| #[trigger] pkg.has(k) && global.has(k) }
