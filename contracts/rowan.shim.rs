// ---- shim for rowan::{SyntaxKind, GreenNode, GreenNodeBuilder} (external crate; not verified) ----
// Faithful to rowan-0.16.1 src/green/builder.rs: `finish_node` pops `parents` (panics when empty);
// `finish` asserts exactly one top-level child and that it is a node.  Ghost state:
//   depth      number of started, unfinished nodes (parents.len())
//   top_nodes  finished nodes at top level;  top_tokens  tokens emitted at top level
//   toks       every token handed to the builder, in order, as (raw kind, text)
pub struct SyntaxKind(pub u16);

#[verifier::external_body]
pub struct GreenNode { _p: u64 }
impl GreenNode {
    // the (kind, text) leaves of the tree in document order
    pub uninterp spec fn leaves(&self) -> Seq<(u16, Seq<char>)>;
}

#[verifier::external_body]
pub struct GreenNodeBuilder { _p: u64 }
impl GreenNodeBuilder {
    pub uninterp spec fn depth(&self) -> nat;
    pub uninterp spec fn top_nodes(&self) -> nat;
    pub uninterp spec fn top_tokens(&self) -> nat;
    pub uninterp spec fn toks(&self) -> Seq<(u16, Seq<char>)>;

    #[verifier::external_body]
    pub fn new() -> (r: Self)
        ensures r.depth() == 0, r.top_nodes() == 0, r.top_tokens() == 0, r.toks() == Seq::<(u16, Seq<char>)>::empty(),
    { unimplemented!() }

    #[verifier::external_body]
    pub fn start_node(&mut self, kind: SyntaxKind)
        ensures final(self).depth() == old(self).depth() + 1, final(self).top_nodes() == old(self).top_nodes(),
                final(self).top_tokens() == old(self).top_tokens(), final(self).toks() == old(self).toks(),
    { unimplemented!() }

    #[verifier::external_body]
    pub fn finish_node(&mut self)
        requires old(self).depth() >= 1,
        ensures final(self).depth() == old(self).depth() - 1,
                final(self).top_nodes() == old(self).top_nodes() + if old(self).depth() == 1 { 1nat } else { 0nat },
                final(self).top_tokens() == old(self).top_tokens(), final(self).toks() == old(self).toks(),
    { unimplemented!() }

    #[verifier::external_body]
    pub fn token(&mut self, kind: SyntaxKind, text: &str)
        ensures final(self).depth() == old(self).depth(), final(self).top_nodes() == old(self).top_nodes(),
                final(self).top_tokens() == old(self).top_tokens() + if old(self).depth() == 0 { 1nat } else { 0nat },
                final(self).toks() == old(self).toks().push((kind.0, text@)),
    { unimplemented!() }

    #[verifier::external_body]
    pub fn finish(self) -> (r: GreenNode)
        requires self.top_nodes() == 1, self.top_tokens() == 0,
        // with depth 0 nothing is left in an unfinished node, so the single root holds every token
        ensures self.depth() == 0 ==> r.leaves() == self.toks(),
    { unimplemented!() }
}
