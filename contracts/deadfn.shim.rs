// ---- shims / specification for U-DEADFN (C02: a function the emitted code still refers to is never pruned as dead) ----
#[verifier::external_body]
#[verifier::reject_recursive_types(K)]
pub struct HashSet<K> { _k: core::marker::PhantomData<K> }
impl HashSet<String> {
    pub uninterp spec fn view(&self) -> Set<Seq<char>>;
    #[verifier::external_body] pub fn new() -> (r: Self) ensures r@ == Set::<Seq<char>>::empty() { unimplemented!() }
    #[verifier::external_body] pub fn contains(&self, k: &String) -> (r: bool) ensures r == self@.contains(k@) { unimplemented!() }
    #[verifier::external_body] pub fn insert(&mut self, k: String) -> (r: bool) ensures final(self)@ == old(self)@.insert(k@) { unimplemented!() }
}
pub trait VClone: Sized { fn vclone(&self) -> (r: Self) ensures r == *self; }
impl VClone for String { #[verifier::external_body] fn vclone(&self) -> (r: Self) { unimplemented!() } }

// the names used as a variable anywhere inside an expression / a statement / a block (callee position included: a function is referred to by its name)
pub open spec fn vars_e(e: Expr) -> Set<Seq<char>>
    decreases e,
{
    match e {
        Expr::Var { name, .. } => set![name@],
        Expr::Call { func, args, .. } => vars_e(*func) + vars_es(args@, args@.len() as int),
        Expr::FieldAccess { obj, .. } => vars_e(*obj),
        Expr::Index { array, index, .. } => vars_e(*array) + vars_e(*index),
        Expr::Cast { expr, .. } => vars_e(*expr),
        Expr::StructLiteral { fields, .. } => vars_fs(fields@, fields@.len() as int),
        Expr::ArrayLiteral { elems, .. } => vars_es(elems@, elems@.len() as int),
        Expr::Block { stmts, expr, .. } => vars_ss(stmts@, stmts@.len() as int) + (if expr is Some { vars_e(*expr->0) } else { Set::empty() }),
        Expr::UnaryOp { expr, .. } => vars_e(*expr),
        Expr::BinaryOp { lhs, rhs, .. } => vars_e(*lhs) + vars_e(*rhs),
        _ => Set::empty(),
    }
}
pub open spec fn vars_es(es: Seq<Expr>, n: int) -> Set<Seq<char>>
    decreases es, n,
{
    if n <= 0 || n > es.len() { Set::empty() } else { vars_es(es, n - 1) + vars_e(es[n - 1]) }
}
pub open spec fn vars_fs(fs: Seq<(String, Expr)>, n: int) -> Set<Seq<char>>
    decreases fs, n,
{
    if n <= 0 || n > fs.len() { Set::empty() } else { vars_fs(fs, n - 1) + vars_e(fs[n - 1].1) }
}
pub open spec fn vars_ss(ss: Seq<Stmt>, n: int) -> Set<Seq<char>>
    decreases ss, n,
{
    if n <= 0 || n > ss.len() { Set::empty() } else { vars_ss(ss, n - 1) + vars_s(ss[n - 1]) }
}
pub open spec fn vars_b(b: Block) -> Set<Seq<char>>
    decreases b,
{
    vars_ss(b.stmts@, b.stmts@.len() as int)
}
pub open spec fn opt_b(b: Option<Block>) -> Set<Seq<char>>
    decreases b,
{
    if b is Some { vars_b(b->0) } else { Set::empty() }
}
pub open spec fn vars_cases(cs: Seq<(Expr, Block)>, n: int) -> Set<Seq<char>>
    decreases cs, n,
{
    if n <= 0 || n > cs.len() { Set::empty() } else { vars_cases(cs, n - 1) + vars_e(cs[n - 1].0) + vars_b(cs[n - 1].1) }
}
pub open spec fn vars_tcases(cs: Seq<(GoType, Block)>, n: int) -> Set<Seq<char>>
    decreases cs, n,
{
    if n <= 0 || n > cs.len() { Set::empty() } else { vars_tcases(cs, n - 1) + vars_b(cs[n - 1].1) }
}
pub open spec fn vars_s(s: Stmt) -> Set<Seq<char>>
    decreases s,
{
    match s {
        Stmt::Expr(e) => vars_e(e),
        Stmt::Go { call } => vars_e(call),
        Stmt::VarDecl { value, .. } => if value is Some { vars_e(value->0) } else { Set::empty() },
        Stmt::Assignment { value, .. } => vars_e(value),
        Stmt::IndexAssign { array, index, value } => vars_e(array) + vars_e(index) + vars_e(value),
        Stmt::PointerAssign { pointer, value } => vars_e(pointer) + vars_e(value),
        Stmt::FieldAssign { target, value } => vars_e(target) + vars_e(value),
        Stmt::Return { expr } => if expr is Some { vars_e(expr->0) } else { Set::empty() },
        Stmt::If { cond, then, else_ } => vars_e(cond) + vars_b(then) + opt_b(else_),
        Stmt::SwitchExpr { expr, cases, default } => vars_e(expr) + vars_cases(cases@, cases@.len() as int) + opt_b(default),
        Stmt::SwitchType { expr, cases, default, .. } => vars_e(expr) + vars_tcases(cases@, cases@.len() as int) + opt_b(default),
        Stmt::Loop { body } => vars_b(body),
        Stmt::Break => Set::empty(),
    }
}
// nothing recorded is lost, and every FUNCTION name used inside is recorded
pub open spec fn calls_ok(used: Set<Seq<char>>, fns: Set<Seq<char>>, c0: Set<Seq<char>>, c1: Set<Seq<char>>) -> bool {
    c0.subset_of(c1) && used.intersect(fns).subset_of(c1)
}
