// ---- specification vocabulary for crates/parser/src/input.rs ----
pub open spec fn is_trivia_k(k: TokenKind) -> bool { k is Whitespace || k is Comment }

// index of the first non-trivia token at or after c (== len if none)
pub open spec fn skip_trivia(ts: Seq<Token>, c: int) -> int
    decreases ts.len() - c,
{
    if 0 <= c < ts.len() && is_trivia_k(ts[c].kind) { skip_trivia(ts, c + 1) } else { c }
}

pub open spec fn kind_at(ts: Seq<Token>, c: int) -> TokenKind {
    if 0 <= c < ts.len() { ts[c].kind } else { TokenKind::Eof }
}

// kind of the n-th (0-based) non-trivia token at or after c, Eof if there is none
pub open spec fn nth_kind(ts: Seq<Token>, c: int, n: int) -> TokenKind
    decreases ts.len() - c,
{
    if c < 0 || c >= ts.len() { TokenKind::Eof }
    else if is_trivia_k(ts[c].kind) { nth_kind(ts, c + 1, n) }
    else if n == 0 { ts[c].kind }
    else { nth_kind(ts, c + 1, n - 1) }
}

// number of non-trivia tokens among ts[0..n)
pub open spec fn nontrivia(ts: Seq<Token>, n: int) -> int
    decreases n,
{
    if n <= 0 { 0 } else { nontrivia(ts, n - 1) + if is_trivia_k(ts[n - 1].kind) { 0int } else { 1int } }
}

pub proof fn lemma_skip_trivia_bounds(ts: Seq<Token>, c: int)
    requires 0 <= c <= ts.len(),
    ensures c <= skip_trivia(ts, c) <= ts.len(),
            nontrivia(ts, skip_trivia(ts, c)) == nontrivia(ts, c),
            skip_trivia(ts, c) < ts.len() ==> !is_trivia_k(ts[skip_trivia(ts, c)].kind),
            skip_trivia(ts, skip_trivia(ts, c)) == skip_trivia(ts, c),
    decreases ts.len() - c,
{
    if c < ts.len() && is_trivia_k(ts[c].kind) {
        lemma_skip_trivia_bounds(ts, c + 1);
    }
}

impl<'t> Input<'t> {
    pub open spec fn wf(&self) -> bool { self.cursor <= self.tokens.len() }
}
