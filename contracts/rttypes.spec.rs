// ---- shims / specification for U-RTTYPES (C02: every tuple / array / ref type the emitted Go names has its runtime definition) ----
#[verifier::external_body]
#[verifier::reject_recursive_types(T)]
pub struct IndexSet<T> { _t: core::marker::PhantomData<T> }
impl IndexSet<Ty> {
    pub uninterp spec fn view(&self) -> Set<Ty>;
    // IndexSet::insert: true iff the value was not present
    #[verifier::external_body] pub fn insert(&mut self, t: Ty) -> (r: bool) ensures final(self)@ == old(self)@.insert(t), r == !old(self)@.contains(t) { unimplemented!() }
}
#[verifier::external_body] pub fn ty_clone(t: &Ty) -> (r: Ty) ensures r == *t { unimplemented!() }     // derived Clone
pub struct Collector { pub tuples: IndexSet<Ty>, pub arrays: IndexSet<Ty>, pub refs: IndexSet<Ty> }

// the types whose Go spelling needs a definition the compiler generates on demand (TupleN_.. structs, array and ref helpers)
pub open spec fn rt(t: Ty) -> bool { t is TTuple || t is TArray || t is TRef }
// `t` occurs in `ty` — as `ty` itself or inside a tuple component, an array / Vec / ref element, a type argument, a parameter or result type:
// exactly the positions whose Go spelling is part of the Go spelling of `ty` (tast_ty_to_go_type)
pub open spec fn sub(ty: Ty, t: Ty) -> bool
    decreases ty,
{
    ty == t || match ty {
        Ty::TTuple { typs } => exists|i: int| 0 <= i < typs.len() && sub(#[trigger] typs[i], t),
        Ty::TArray { elem, .. } => sub(*elem, t),
        Ty::TVec { elem } => sub(*elem, t),
        Ty::TRef { elem } => sub(*elem, t),
        Ty::TApp { ty: head, args } => sub(*head, t) || exists|i: int| 0 <= i < args.len() && sub(#[trigger] args[i], t),
        Ty::TFunc { params, ret_ty } => (exists|i: int| 0 <= i < params.len() && sub(#[trigger] params[i], t)) || sub(*ret_ty, t),
        _ => false,
    }
}
pub open spec fn member(c: Collector, t: Ty) -> bool { c.tuples@.contains(t) || c.arrays@.contains(t) || c.refs@.contains(t) }
pub open spec fn has(c: Collector, t: Ty) -> bool {
    (t is TTuple && c.tuples@.contains(t)) || (t is TArray && c.arrays@.contains(t)) || (t is TRef && c.refs@.contains(t))
}
// every runtime type that occurs in `ty` has been collected
pub open spec fn covers(c: Collector, ty: Ty) -> bool { forall|t: Ty| rt(t) && #[trigger] sub(ty, t) ==> has(c, t) }
pub open spec fn grows(c0: Collector, c1: Collector) -> bool {
    c0.tuples@.subset_of(c1.tuples@) && c0.arrays@.subset_of(c1.arrays@) && c0.refs@.subset_of(c1.refs@)
}
// the sets are closed: whatever is collected has its own components collected too (so an element found present need not be walked again)
pub open spec fn closed(c: Collector) -> bool { forall|u: Ty| #[trigger] member(c, u) ==> covers(c, u) }
pub open spec fn ty_size(ty: Ty) -> nat
    decreases ty,
{
    1 + match ty {
        Ty::TTuple { typs } => tys_size(typs@),
        Ty::TArray { elem, .. } => ty_size(*elem),
        Ty::TVec { elem } => ty_size(*elem),
        Ty::TRef { elem } => ty_size(*elem),
        Ty::TApp { ty: head, args } => ty_size(*head) + tys_size(args@),
        Ty::TFunc { params, ret_ty } => tys_size(params@) + ty_size(*ret_ty),
        _ => 0,
    }
}
pub open spec fn tys_size(ts: Seq<Ty>) -> nat
    decreases ts,
{
    if ts.len() == 0 { 0 } else { tys_size(ts.drop_last()) + ty_size(ts.last()) }
}
pub proof fn lemma_elem_smaller(ts: Seq<Ty>, i: int)
    requires 0 <= i < ts.len(),
    ensures ty_size(ts[i]) <= tys_size(ts),
    decreases ts.len(),
{
    if i < ts.len() - 1 { lemma_elem_smaller(ts.drop_last(), i); }
}
pub proof fn lemma_sub_size(ty: Ty, t: Ty)
    requires sub(ty, t),
    ensures ty_size(t) <= ty_size(ty),
    decreases ty,
{
    if ty != t {
        match ty {
            Ty::TTuple { typs } => { let i = choose|i: int| 0 <= i < typs.len() && sub(#[trigger] typs[i], t); lemma_sub_size(typs[i], t); lemma_elem_smaller(typs@, i); }
            Ty::TArray { elem, .. } => { lemma_sub_size(*elem, t); }
            Ty::TVec { elem } => { lemma_sub_size(*elem, t); }
            Ty::TRef { elem } => { lemma_sub_size(*elem, t); }
            Ty::TApp { ty: head, args } => {
                if sub(*head, t) { lemma_sub_size(*head, t); } else { let i = choose|i: int| 0 <= i < args.len() && sub(#[trigger] args[i], t); lemma_sub_size(args[i], t); lemma_elem_smaller(args@, i); }
            }
            Ty::TFunc { params, ret_ty } => {
                if sub(*ret_ty, t) { lemma_sub_size(*ret_ty, t); } else { let i = choose|i: int| 0 <= i < params.len() && sub(#[trigger] params[i], t); lemma_sub_size(params[i], t); lemma_elem_smaller(params@, i); }
            }
            _ => {}
        }
    }
}
// the walk's contract (see DESIGN §3 U-RTTYPES): members no larger than `ty` are already complete; afterwards `ty` is covered and every NEW member is complete
pub open spec fn pre_ok(c: Collector, ty: Ty) -> bool { forall|u: Ty| #[trigger] member(c, u) && ty_size(u) <= ty_size(ty) ==> covers(c, u) }
pub open spec fn post_ok(c0: Collector, c1: Collector, ty: Ty) -> bool {
    grows(c0, c1) && covers(c1, ty) && (forall|u: Ty| #[trigger] member(c1, u) && !member(c0, u) ==> covers(c1, u))
}
pub proof fn lemma_covers_mono(a: Collector, b: Collector, ty: Ty)
    requires grows(a, b), covers(a, ty),
    ensures covers(b, ty),
{
    assert forall|t: Ty| rt(t) && #[trigger] sub(ty, t) implies has(b, t) by { assert(has(a, t)); }
}
// ---- bookkeeping of the walk over the components of `ty0` (c0: the collector at entry; done: the components walked so far) ----
pub open spec fn inv_small(c: Collector, ty0: Ty) -> bool { forall|u: Ty| #[trigger] member(c, u) && ty_size(u) < ty_size(ty0) ==> covers(c, u) }
pub open spec fn inv_new(c: Collector, c0: Collector, ty0: Ty) -> bool { forall|u: Ty| #[trigger] member(c, u) && !member(c0, u) && u != ty0 ==> covers(c, u) }
pub open spec fn walked(c: Collector, c0: Collector, ty0: Ty, done: Set<Ty>) -> bool {
    grows(c0, c) && inv_small(c, ty0) && inv_new(c, c0, ty0) && forall|x: Ty| #[trigger] done.contains(x) ==> covers(c, x)
}
// x is a direct component of ty0
pub open spec fn child_of(ty0: Ty, x: Ty) -> bool {
    match ty0 {
        Ty::TTuple { typs } => exists|i: int| 0 <= i < typs.len() && #[trigger] typs@[i] == x,
        Ty::TArray { elem, .. } => *elem == x,
        Ty::TVec { elem } => *elem == x,
        Ty::TRef { elem } => *elem == x,
        Ty::TApp { ty: head, args } => *head == x || exists|i: int| 0 <= i < args.len() && #[trigger] args@[i] == x,
        Ty::TFunc { params, ret_ty } => *ret_ty == x || exists|i: int| 0 <= i < params.len() && #[trigger] params@[i] == x,
        _ => false,
    }
}
pub proof fn lemma_child_smaller(ty0: Ty, x: Ty)
    requires child_of(ty0, x),
    ensures ty_size(x) < ty_size(ty0),
{
    match ty0 {
        Ty::TTuple { typs } => { let i = choose|i: int| 0 <= i < typs.len() && #[trigger] typs@[i] == x; lemma_elem_smaller(typs@, i); }
        Ty::TApp { ty: head, args } => { if *head != x { let i = choose|i: int| 0 <= i < args.len() && #[trigger] args@[i] == x; lemma_elem_smaller(args@, i); } }
        Ty::TFunc { params, ret_ty } => { if *ret_ty != x { let i = choose|i: int| 0 <= i < params.len() && #[trigger] params@[i] == x; lemma_elem_smaller(params@, i); } }
        _ => {}
    }
}
pub proof fn lemma_sub_child(ty0: Ty, t: Ty)
    requires sub(ty0, t), t != ty0,
    ensures exists|x: Ty| child_of(ty0, x) && #[trigger] sub(x, t),
{
    match ty0 {
        Ty::TTuple { typs } => { let i = choose|i: int| 0 <= i < typs.len() && sub(#[trigger] typs[i], t); assert(child_of(ty0, typs@[i]) && sub(typs[i], t)); }
        Ty::TArray { elem, .. } => { assert(child_of(ty0, *elem) && sub(*elem, t)); }
        Ty::TVec { elem } => { assert(child_of(ty0, *elem) && sub(*elem, t)); }
        Ty::TRef { elem } => { assert(child_of(ty0, *elem) && sub(*elem, t)); }
        Ty::TApp { ty: head, args } => {
            if sub(*head, t) { assert(child_of(ty0, *head) && sub(*head, t)); }
            else { let i = choose|i: int| 0 <= i < args.len() && sub(#[trigger] args[i], t); assert(child_of(ty0, args@[i]) && sub(args[i], t)); }
        }
        Ty::TFunc { params, ret_ty } => {
            if sub(*ret_ty, t) { assert(child_of(ty0, *ret_ty) && sub(*ret_ty, t)); }
            else { let i = choose|i: int| 0 <= i < params.len() && sub(#[trigger] params[i], t); assert(child_of(ty0, params@[i]) && sub(params[i], t)); }
        }
        _ => {}
    }
}
// at entry nothing has been walked
pub proof fn lemma_walk_start(c0: Collector, ty0: Ty)
    requires pre_ok(c0, ty0),
    ensures walked(c0, c0, ty0, Set::<Ty>::empty()),
{
}
// between two calls the code may only have added `ty0` itself
pub proof fn lemma_walk_resume(prev: Collector, c: Collector, c0: Collector, ty0: Ty, done: Set<Ty>)
    requires walked(prev, c0, ty0, done), grows(prev, c), forall|u: Ty| #[trigger] member(c, u) ==> member(prev, u) || u == ty0,
    ensures walked(c, c0, ty0, done),
{
    assert forall|u: Ty| #[trigger] member(c, u) && ty_size(u) < ty_size(ty0) implies covers(c, u) by { assert(member(prev, u)); lemma_covers_mono(prev, c, u); }
    assert forall|u: Ty| #[trigger] member(c, u) && !member(c0, u) && u != ty0 implies covers(c, u) by { assert(member(prev, u)); lemma_covers_mono(prev, c, u); }
    assert forall|x: Ty| #[trigger] done.contains(x) implies covers(c, x) by { lemma_covers_mono(prev, c, x); }
}
// the recursive call on a component x may be made ...
pub proof fn lemma_walk_pre(c: Collector, c0: Collector, ty0: Ty, done: Set<Ty>, x: Ty)
    requires walked(c, c0, ty0, done), child_of(ty0, x),
    ensures pre_ok(c, x),
{
    lemma_child_smaller(ty0, x);
}
// ... and adds x to what has been walked
pub proof fn lemma_walk_call(c: Collector, c1: Collector, c0: Collector, ty0: Ty, done: Set<Ty>, x: Ty)
    requires walked(c, c0, ty0, done), post_ok(c, c1, x),
    ensures walked(c1, c0, ty0, done.insert(x)),
{
    assert forall|u: Ty| #[trigger] member(c1, u) && ty_size(u) < ty_size(ty0) implies covers(c1, u) by { if member(c, u) { lemma_covers_mono(c, c1, u); } }
    assert forall|u: Ty| #[trigger] member(c1, u) && !member(c0, u) && u != ty0 implies covers(c1, u) by { if member(c, u) { lemma_covers_mono(c, c1, u); } }
    assert forall|y: Ty| #[trigger] done.insert(x).contains(y) implies covers(c1, y) by { if y != x { lemma_covers_mono(c, c1, y); } }
}
// at the end: either the type was present at entry (then it was complete already), or every component has been walked and the type itself added
pub proof fn lemma_walk_done(c: Collector, c0: Collector, ty0: Ty, done: Set<Ty>)
    requires pre_ok(c0, ty0), walked(c, c0, ty0, done),
             member(c0, ty0) || ((forall|x: Ty| #[trigger] child_of(ty0, x) ==> done.contains(x)) && (rt(ty0) ==> has(c, ty0))),
    ensures post_ok(c0, c, ty0),
{
    if member(c0, ty0) {
        lemma_covers_mono(c0, c, ty0);
    } else {
        assert forall|t: Ty| rt(t) && #[trigger] sub(ty0, t) implies has(c, t) by {
            if t != ty0 { lemma_sub_child(ty0, t); let x = choose|x: Ty| child_of(ty0, x) && #[trigger] sub(x, t); assert(done.contains(x)); assert(covers(c, x)); }
        }
    }
}
// ---- the type definitions (collect_defs) ----
pub struct TastIdent(pub String);
pub struct StructDef { pub name: TastIdent, pub generics: Vec<TastIdent>, pub fields: Vec<(TastIdent, Ty)> }
pub struct EnumDef { pub name: TastIdent, pub generics: Vec<TastIdent>, pub variants: Vec<(TastIdent, Vec<Ty>)> }
#[verifier::external_body] pub struct GlobalGoEnv { _p: () }
// GlobalGoEnv::structs() / enums(): the definitions the back end knows, as (name, definition) pairs in iteration order
pub uninterp spec fn env_structs(g: &GlobalGoEnv) -> Seq<(TastIdent, StructDef)>;
pub uninterp spec fn env_enums(g: &GlobalGoEnv) -> Seq<(TastIdent, EnumDef)>;
#[verifier::external_body] pub fn goenv_structs(g: &GlobalGoEnv) -> (r: Vec<(TastIdent, StructDef)>) ensures r@ == env_structs(g) { unimplemented!() }
#[verifier::external_body] pub fn goenv_enums(g: &GlobalGoEnv) -> (r: Vec<(TastIdent, EnumDef)>) ensures r@ == env_enums(g) { unimplemented!() }
// which definitions gen_type_definition emits: the code's own predicates (shared by gen_type_definition and the collector), uninterpreted here
pub uninterp spec fn emitted_struct(name: TastIdent, def: StructDef) -> bool;
pub uninterp spec fn emitted_enum(name: TastIdent, def: EnumDef) -> bool;
#[verifier::external_body] pub fn struct_def_is_emitted(name: &TastIdent, def: &StructDef) -> (r: bool) ensures r == emitted_struct(*name, *def) { unimplemented!() }
#[verifier::external_body] pub fn enum_def_is_emitted(name: &TastIdent, def: &EnumDef) -> (r: bool) ensures r == emitted_enum(*name, *def) { unimplemented!() }
// every type a field of this (emitted) definition is spelled with is covered
pub open spec fn struct_covered(c: Collector, d: StructDef) -> bool { forall|j: int| 0 <= j < d.fields@.len() ==> covers(c, (#[trigger] d.fields@[j]).1) }
pub open spec fn variant_covered(c: Collector, v: (TastIdent, Vec<Ty>)) -> bool { forall|j: int| 0 <= j < v.1@.len() ==> covers(c, #[trigger] v.1@[j]) }
pub open spec fn enum_covered(c: Collector, d: EnumDef) -> bool { forall|i: int| 0 <= i < d.variants@.len() ==> variant_covered(c, #[trigger] d.variants@[i]) }
pub open spec fn defs_covered(c: Collector, g: &GlobalGoEnv) -> bool {
    (forall|i: int| 0 <= i < env_structs(g).len() && emitted_struct((#[trigger] env_structs(g)[i]).0, env_structs(g)[i].1) ==> struct_covered(c, env_structs(g)[i].1))
    && (forall|i: int| 0 <= i < env_enums(g).len() && emitted_enum((#[trigger] env_enums(g)[i]).0, env_enums(g)[i].1) ==> enum_covered(c, env_enums(g)[i].1))
}
// a call of collect_type on a closed collector leaves it closed
pub proof fn lemma_closed_call(c: Collector, c1: Collector, ty: Ty)
    requires closed(c), post_ok(c, c1, ty),
    ensures closed(c1), grows(c, c1),
{
    assert forall|u: Ty| #[trigger] member(c1, u) implies covers(c1, u) by { if member(c, u) { lemma_covers_mono(c, c1, u); } }
}
pub proof fn lemma_struct_covered_mono(a: Collector, b: Collector, d: StructDef)
    requires grows(a, b), struct_covered(a, d), ensures struct_covered(b, d),
{ assert forall|j: int| 0 <= j < d.fields@.len() implies covers(b, (#[trigger] d.fields@[j]).1) by { lemma_covers_mono(a, b, d.fields@[j].1); } }
pub proof fn lemma_variant_covered_mono(a: Collector, b: Collector, v: (TastIdent, Vec<Ty>))
    requires grows(a, b), variant_covered(a, v), ensures variant_covered(b, v),
{ assert forall|j: int| 0 <= j < v.1@.len() implies covers(b, #[trigger] v.1@[j]) by { lemma_covers_mono(a, b, v.1@[j]); } }
pub proof fn lemma_enum_covered_mono(a: Collector, b: Collector, d: EnumDef)
    requires grows(a, b), enum_covered(a, d), ensures enum_covered(b, d),
{ assert forall|i: int| 0 <= i < d.variants@.len() implies variant_covered(b, #[trigger] d.variants@[i]) by { lemma_variant_covered_mono(a, b, d.variants@[i]); } }
pub proof fn lemma_covers_mono_all(a: Collector, b: Collector)
    requires grows(a, b),
    ensures forall|ty: Ty| #[trigger] covers(a, ty) ==> covers(b, ty),
{
    assert forall|ty: Ty| #[trigger] covers(a, ty) implies covers(b, ty) by { lemma_covers_mono(a, b, ty); }
}
// ---- collect_file: the function bodies first (walk not verified here: it reaches the sets only through collect_type), then the definitions ----
#[verifier::external_body] pub struct AnfFn { _p: () }
pub struct AnfFile { pub toplevels: Vec<AnfFn> }
#[verifier::external_body]
pub fn collect_fn(c: &mut Collector, item: &AnfFn)
    requires closed(*old(c)),
    ensures closed(*final(c)), grows(*old(c), *final(c)),
            forall|g: &GlobalGoEnv| #[trigger] defs_covered(*old(c), g) ==> defs_covered(*final(c), g),      // a consequence of `grows` (lemma_covers_mono)
{ unimplemented!() }
