// ---- specification vocabulary for crates/parser/src/parser.rs ----
// number of Advance events among evs[0..n)
pub open spec fn count_adv(evs: Seq<Event>, n: int) -> int
    decreases n,
{
    if n <= 0 { 0 } else { count_adv(evs, n - 1) + if evs[n - 1] is Advance { 1int } else { 0int } }
}

// forward_parent links point forward to an Open event inside the vector
pub open spec fn fp_ok(evs: Seq<Event>, i: int) -> bool {
    match evs[i] {
        Event::Open { kind: _, forward_parent: Some(f) } => f >= 1 && i + f < evs.len() && evs[i + f as int] is Open,
        _ => true,
    }
}
pub open spec fn events_wf(evs: Seq<Event>) -> bool {
    forall|i: int| 0 <= i < evs.len() ==> #[trigger] fp_ok(evs, i)
}

// a diagnostic's range is absent or the range of some token of the input
pub open spec fn range_ok(ts: Seq<Token>, r: Option<TextRange>) -> bool {
    r is None || exists|i: int| 0 <= i < ts.len() && #[trigger] ts[i].range == r->0
}
pub open spec fn diags_ok(ts: Seq<Token>, ds: Seq<Option<TextRange>>) -> bool {
    forall|j: int| 0 <= j < ds.len() ==> range_ok(ts, #[trigger] ds[j])
}

pub open spec fn marker_ok(evs: Seq<Event>, index: usize) -> bool {
    index < evs.len() && evs[index as int] is Open
}

// events only grow (except for the explicit `events.pop()` undo) and Open positions stay Open
pub open spec fn events_extend(old_evs: Seq<Event>, new_evs: Seq<Event>) -> bool {
    &&& old_evs.len() <= new_evs.len()
    &&& forall|i: int| 0 <= i < old_evs.len() && #[trigger] old_evs[i] is Open ==> new_evs[i] is Open
    &&& forall|i: int| 0 <= i < old_evs.len() && !(#[trigger] old_evs[i] is Open) ==> new_evs[i] == old_evs[i]
}

impl<'t> Parser<'t> {
    // representation invariant of the parser between any two public operations
    pub open spec fn wf(&self) -> bool {
        &&& self.input.wf()
        &&& self.fuel <= 256
        &&& events_wf(self.events@)
        &&& count_adv(self.events@, self.events@.len() as int) >= nontrivia(self.input.tokens@, self.input.cursor as int)
        &&& diags_ok(self.input.tokens@, self.diagnostics.view())
    }
    // everything a parser operation must leave alone unless it says otherwise
    pub open spec fn same_input(&self, o: &Self) -> bool {
        self.input.tokens == o.input.tokens && self.filename == o.filename
    }
}

pub proof fn lemma_count_adv_push(evs: Seq<Event>, e: Event)
    ensures count_adv(evs.push(e), evs.len() as int + 1) == count_adv(evs, evs.len() as int) + if e is Advance { 1int } else { 0int },
{
    lemma_count_adv_prefix(evs.push(e), evs, evs.len() as int);
}

pub proof fn lemma_count_adv_prefix(a: Seq<Event>, b: Seq<Event>, n: int)
    requires 0 <= n <= a.len(), n <= b.len(), forall|i: int| 0 <= i < n ==> (a[i] is Advance) == (b[i] is Advance),
    ensures count_adv(a, n) == count_adv(b, n),
    decreases n,
{
    if n > 0 { lemma_count_adv_prefix(a, b, n - 1); }
}

pub proof fn lemma_nontrivia_step(ts: Seq<Token>, c: int)
    requires 0 <= c < ts.len(),
    ensures nontrivia(ts, c + 1) == nontrivia(ts, c) + if is_trivia_k(ts[c].kind) { 0int } else { 1int },
{
}
