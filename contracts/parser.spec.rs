// ---- specification vocabulary for crates/parser/src/parser.rs ----
// number of Advance events among evs[0..n)
pub open spec fn count_adv(evs: Seq<Event>, n: int) -> int
    decreases n,
{
    if n <= 0 { 0 } else { count_adv(evs, n - 1) + if evs[n - 1] is Advance { 1int } else { 0int } }
}

// forward_parent links point forward to an Open event inside the vector
pub open spec fn fp_ok(evs: Seq<Event>, i: int) -> bool {
    match evs[i] {
        Event::Open { kind: _, forward_parent: Some(f) } => f >= 1 && i + f < evs.len() && evs[i + f as int] is Open,
        _ => true,
    }
}
pub open spec fn events_wf(evs: Seq<Event>) -> bool {
    forall|i: int| 0 <= i < evs.len() ==> #[trigger] fp_ok(evs, i)
}

// ---- node nesting (what rowan's GreenNodeBuilder needs) ----
pub open spec fn tomb() -> Event { Event::Open { kind: MySyntaxKind::TombStone, forward_parent: None } }
pub open spec fn nt_open(e: Event) -> bool { e is Open && e->kind != MySyntaxKind::TombStone }
// effect of one event on rowan's node stack: a non-tombstone Open starts a node, Close finishes one
pub open spec fn delta(e: Event) -> int { if nt_open(e) { 1 } else if e is Close { -1 } else { 0 } }
pub open spec fn pd(evs: Seq<Event>, n: int) -> int
    decreases n,
{
    if n <= 0 { 0 } else { pd(evs, n - 1) + delta(evs[n - 1]) }
}
// the stream is one well-nested tree: depth is >= 1 strictly inside and returns to 0 exactly at the end
pub open spec fn balanced(evs: Seq<Event>) -> bool {
    &&& evs.len() >= 2
    &&& pd(evs, evs.len() as int) == 0
    &&& forall|i: int| 1 <= i < evs.len() ==> #[trigger] pd(evs, i) >= 1
}
// every prefix of the stream has at least as many started nodes as finished ones (pending markers count 0)
pub open spec fn pd_ok(evs: Seq<Event>) -> bool {
    forall|i: int| 0 <= i <= evs.len() ==> #[trigger] pd(evs, i) >= 0
}
pub open spec fn is_tomb(e: Event) -> bool { e == tomb() }

// a diagnostic's range is absent or the range of some token of the input
pub open spec fn range_ok(ts: Seq<Token>, r: Option<TextRange>) -> bool {
    r is None || exists|i: int| 0 <= i < ts.len() && #[trigger] ts[i].range == r->0
}
pub open spec fn diags_ok(ts: Seq<Token>, ds: Seq<Option<TextRange>>) -> bool {
    forall|j: int| 0 <= j < ds.len() ==> range_ok(ts, #[trigger] ds[j])
}

// a MarkerClosed points at a completed node (an Open event with a real kind)
pub open spec fn marker_ok(evs: Seq<Event>, index: usize) -> bool {
    index < evs.len() && nt_open(evs[index as int])
}
// a live MarkerOpened points at a still-pending tombstone
pub open spec fn marker_ok_o(evs: Seq<Event>, index: usize) -> bool {
    index < evs.len() && is_tomb(evs[index as int])
}

// events only grow (except for the explicit `events.pop()` undo) and Open positions stay Open
// `ex` is the index of the one pending marker the operation is allowed to complete (-1: none): every other pending
// tombstone stays a tombstone, so a caller's open markers survive any call that is not handed them.
pub open spec fn events_extend(old_evs: Seq<Event>, new_evs: Seq<Event>, ex: int) -> bool {
    &&& old_evs.len() <= new_evs.len()
    &&& forall|i: int| 0 <= i < old_evs.len() && #[trigger] old_evs[i] is Open ==> new_evs[i] is Open
    &&& forall|i: int| 0 <= i < old_evs.len() && !(#[trigger] old_evs[i] is Open) ==> new_evs[i] == old_evs[i]
    &&& forall|i: int| 0 <= i < old_evs.len() && i != ex && is_tomb(#[trigger] old_evs[i]) ==> is_tomb(new_evs[i])
    &&& forall|i: int| 0 <= i < old_evs.len() && nt_open(#[trigger] old_evs[i]) ==> nt_open(new_evs[i])
}

impl<'t> Parser<'t> {
    // representation invariant of the parser between any two public operations
    // (opaque: the grammar functions only pass it along; the core operations reveal it)
    #[verifier::opaque]
    pub open spec fn wf(&self) -> bool {
        &&& self.input.wf()
        &&& self.input.tokens@.len() <= 0x7fff_fff0   // inputs with >= 2^31 tokens are not covered (TextSize is u32 anyway)
        &&& self.fuel <= 256
        &&& events_wf(self.events@)
        &&& count_adv(self.events@, self.events@.len() as int) >= nontrivia(self.input.tokens@, self.input.cursor as int)
        &&& diags_ok(self.input.tokens@, self.diagnostics.view())
        // node nesting: started-minus-finished never negative on any prefix, and zero overall
        // (a Close is only ever pushed together with turning a pending tombstone into a node)
        &&& pd_ok(self.events@)
        &&& pd(self.events@, self.events@.len() as int) == 0
    }
    // everything a parser operation must leave alone unless it says otherwise
    pub open spec fn same_input(&self, o: &Self) -> bool {
        self.input.tokens == o.input.tokens && self.filename == o.filename
    }
}

pub proof fn lemma_count_adv_push(evs: Seq<Event>, e: Event)
    ensures count_adv(evs.push(e), evs.len() as int + 1) == count_adv(evs, evs.len() as int) + if e is Advance { 1int } else { 0int },
{
    lemma_count_adv_prefix(evs.push(e), evs, evs.len() as int);
}

pub proof fn lemma_count_adv_prefix(a: Seq<Event>, b: Seq<Event>, n: int)
    requires 0 <= n <= a.len(), n <= b.len(), forall|i: int| 0 <= i < n ==> (a[i] is Advance) == (b[i] is Advance),
    ensures count_adv(a, n) == count_adv(b, n),
    decreases n,
{
    if n > 0 { lemma_count_adv_prefix(a, b, n - 1); }
}

pub proof fn lemma_pd_prefix(a: Seq<Event>, b: Seq<Event>, n: int)
    requires 0 <= n <= a.len(), n <= b.len(), forall|i: int| 0 <= i < n ==> delta(#[trigger] a[i]) == delta(b[i]),
    ensures pd(a, n) == pd(b, n),
    decreases n,
{
    if n > 0 { lemma_pd_prefix(a, b, n - 1); }
}
// pushing an event whose delta is 0 keeps pd_ok and the total
pub proof fn lemma_pd_push0(evs: Seq<Event>, e: Event)
    requires pd_ok(evs), delta(e) == 0,
    ensures pd_ok(evs.push(e)), pd(evs.push(e), evs.len() as int + 1) == pd(evs, evs.len() as int),
{
    let n = evs.push(e);
    assert forall|i: int| 0 <= i <= n.len() implies #[trigger] pd(n, i) >= 0 by {
        if i <= evs.len() { lemma_pd_prefix(n, evs, i); assert(pd(evs, i) >= 0); }
        else { lemma_pd_prefix(n, evs, evs.len() as int); assert(pd(evs, evs.len() as int) >= 0); }
    }
    lemma_pd_prefix(n, evs, evs.len() as int);
}
// same deltas everywhere (e.g. only a forward_parent changed): pd_ok and total carry over
pub proof fn lemma_pd_same(a: Seq<Event>, b: Seq<Event>)
    requires a.len() == b.len(), pd_ok(a), forall|i: int| 0 <= i < a.len() ==> delta(#[trigger] a[i]) == delta(b[i]),
    ensures pd_ok(b), pd(b, b.len() as int) == pd(a, a.len() as int),
{
    assert forall|i: int| 0 <= i <= b.len() implies #[trigger] pd(b, i) >= 0 by { lemma_pd_prefix(a, b, i); assert(pd(a, i) >= 0); }
    lemma_pd_prefix(a, b, a.len() as int);
}
// completing the pending tombstone at idx as a real node and appending its Close
pub proof fn lemma_pd_close(evs: Seq<Event>, idx: int, kind: MySyntaxKind)
    requires pd_ok(evs), 0 <= idx < evs.len(), is_tomb(evs[idx]), kind != MySyntaxKind::TombStone,
    ensures ({ let n = evs.update(idx, Event::Open { kind, forward_parent: None }).push(Event::Close);
               &&& pd_ok(n) &&& pd(n, n.len() as int) == pd(evs, evs.len() as int)
               &&& forall|i: int| 0 <= i <= evs.len() ==> #[trigger] pd(n, i) == pd(evs, i) + if i > idx { 1int } else { 0int } }),
{
    let m = evs.update(idx, Event::Open { kind, forward_parent: None });
    let n = m.push(Event::Close);
    lemma_pd_bump(evs, m, idx, evs.len() as int);
    assert forall|i: int| 0 <= i <= evs.len() implies #[trigger] pd(n, i) == pd(evs, i) + if i > idx { 1int } else { 0int } by {
        lemma_pd_bump(evs, m, idx, i);
        lemma_pd_prefix(n, m, i);
    }
    assert forall|i: int| 0 <= i <= n.len() implies #[trigger] pd(n, i) >= 0 by {
        if i <= evs.len() { assert(pd(evs, i) >= 0); }
        else { assert(pd(evs, evs.len() as int) >= 0); lemma_pd_prefix(n, m, evs.len() as int); }
    }
    lemma_pd_prefix(n, m, evs.len() as int);
}
pub proof fn lemma_pd_bump(evs: Seq<Event>, m: Seq<Event>, idx: int, n: int)
    requires 0 <= idx < evs.len(), m.len() == evs.len(), 0 <= n <= evs.len(), delta(evs[idx]) == 0, delta(m[idx]) == 1,
        forall|i: int| 0 <= i < evs.len() && i != idx ==> #[trigger] m[i] == evs[i],
    ensures pd(m, n) == pd(evs, n) + if n > idx { 1int } else { 0int },
    decreases n,
{
    if n > 0 { lemma_pd_bump(evs, m, idx, n - 1); }
}

pub proof fn lemma_nontrivia_step(ts: Seq<Token>, c: int)
    requires 0 <= c < ts.len(),
    ensures nontrivia(ts, c + 1) == nontrivia(ts, c) + if is_trivia_k(ts[c].kind) { 0int } else { 1int },
{
}

// ---- termination measure (C04: the parser never hangs) ----
// at_eof: only trivia is left.  Once true it stays true; every peek then answers Eof.
#[verifier::opaque]
pub open spec fn at_eof(p: Parser) -> bool {
    skip_trivia(p.input.tokens@, p.input.cursor as int) == p.input.tokens@.len()
}
pub open spec fn nt_left(p: Parser) -> int {
    nontrivia(p.input.tokens@, p.input.tokens@.len() as int) - nontrivia(p.input.tokens@, p.input.cursor as int)
}
// mu never increases; it strictly decreases whenever a non-trivia token is consumed and whenever a look-ahead is
// answered from the input (fuel > 0) before the end of input.  257 > the largest fuel value + 1.
// (nt_left is >= 1 whenever !at_eof, lemma_nontrivia_suffix; the clamp makes `mu >= 0` hold by definition, which is what
//  Verus' integer `decreases` needs at every loop end and recursive call)
pub open spec fn nt_left1(p: Parser) -> int { if nt_left(p) >= 1 { nt_left(p) } else { 1 } }
#[verifier::opaque]
pub open spec fn mu(p: Parser) -> int {
    if at_eof(p) { 0 } else { nt_left1(p) * 257 + p.fuel as int + 1 }
}
// a stalled parser: look-ahead budget exhausted although input remains (every peek answers Eof)
pub open spec fn stalled(p: Parser) -> bool { p.fuel == 0 && !at_eof(p) }

// ---- look-ahead budget bookkeeping (C04: the in-function assert!(p.at(..)) / unreachable!() never fire) ----
// number of non-trivia tokens consumed so far; the kind the next look-ahead sees while fuel remains
#[verifier::opaque]
pub open spec fn ntpos(p: Parser) -> int { nontrivia(p.input.tokens@, p.input.cursor as int) }
#[verifier::opaque]
pub open spec fn next_kind(p: Parser) -> TokenKind { nth_kind(p.input.tokens@, p.input.cursor as int, 0) }
// look-aheads made since the last consumed token
pub open spec fn spent(p: Parser) -> int { 256 - p.fuel as int }
pub open spec fn dec(f: u32) -> int { if f > 0 { f as int - 1 } else { 0 } }

pub proof fn lemma_skip_same_view(p: Parser, q: Parser)
    requires p.input.wf(), q.input.tokens == p.input.tokens,
        q.input.cursor == skip_trivia(p.input.tokens@, p.input.cursor as int) || q.input.cursor == p.input.cursor,
    ensures ntpos(q) == ntpos(p), next_kind(q) == next_kind(p),
{
    reveal(ntpos); reveal(next_kind);
    lemma_skip_trivia_bounds(p.input.tokens@, p.input.cursor as int);
    lemma_nth_skip(p.input.tokens@, p.input.cursor as int, 0);
}
pub proof fn lemma_nth_skip(ts: Seq<Token>, c: int, n: int)
    requires 0 <= c <= ts.len(),
    ensures nth_kind(ts, skip_trivia(ts, c), n) == nth_kind(ts, c, n),
    decreases ts.len() - c,
{
    if c < ts.len() && is_trivia_k(ts[c].kind) { lemma_nth_skip(ts, c + 1, n); }
}

// once stalled, a parser stays stalled until it makes progress
pub open spec fn stay(o: Parser, n: Parser) -> bool { stalled(o) ==> (mu(n) < mu(o) || stalled(n)) }

pub proof fn lemma_nontrivia_suffix(ts: Seq<Token>, c: int)
    requires 0 <= c <= ts.len(),
    ensures
        nontrivia(ts, c) <= nontrivia(ts, ts.len() as int),
        skip_trivia(ts, c) < ts.len() ==> nontrivia(ts, c) < nontrivia(ts, ts.len() as int),
        skip_trivia(ts, c) == ts.len() ==> nontrivia(ts, c) == nontrivia(ts, ts.len() as int),
    decreases ts.len() - c,
{
    lemma_skip_trivia_bounds(ts, c);
    let s = skip_trivia(ts, c);
    lemma_nontrivia_le(ts, s, ts.len() as int);
    if s < ts.len() {
        lemma_nontrivia_le(ts, s + 1, ts.len() as int);
        assert(nontrivia(ts, s + 1) == nontrivia(ts, s) + 1);
    }
}
pub proof fn lemma_nontrivia_le(ts: Seq<Token>, a: int, b: int)
    requires 0 <= a <= b <= ts.len(),
    ensures nontrivia(ts, a) <= nontrivia(ts, b),
    decreases b - a,
{
    if a < b { lemma_nontrivia_le(ts, a, b - 1); }
}

// effect of the input-level moves on mu
pub proof fn lemma_mu_skip(p: Parser, q: Parser)
    requires p.input.wf(), q.input.tokens == p.input.tokens,
        q.input.cursor == skip_trivia(p.input.tokens@, p.input.cursor as int) || q.input.cursor == p.input.cursor,
    ensures at_eof(q) == at_eof(p), nt_left(q) == nt_left(p),
        q.fuel == p.fuel ==> mu(q) == mu(p), q.fuel < p.fuel ==> mu(q) <= mu(p), (q.fuel < p.fuel && !at_eof(p)) ==> mu(q) < mu(p),
{
    reveal(at_eof); reveal(mu);
    lemma_skip_trivia_bounds(p.input.tokens@, p.input.cursor as int);
}
pub proof fn lemma_mu_advance(p: Parser, q: Parser)
    requires p.input.wf(), q.input.tokens == p.input.tokens, p.fuel <= 256, q.fuel <= 256,
        ({ let c = skip_trivia(p.input.tokens@, p.input.cursor as int);
           q.input.cursor == if c < p.input.tokens@.len() { c + 1 } else { c } }),
    ensures mu(q) <= mu(p), !at_eof(p) ==> mu(q) < mu(p), at_eof(p) ==> at_eof(q),
{
    reveal(at_eof); reveal(mu);
    let ts = p.input.tokens@;
    lemma_skip_trivia_bounds(ts, p.input.cursor as int);
    let c = skip_trivia(ts, p.input.cursor as int);
    lemma_nontrivia_suffix(ts, p.input.cursor as int);
    if c < ts.len() {
        lemma_nontrivia_suffix(ts, c + 1);
        lemma_skip_trivia_bounds(ts, c + 1);
        assert(nontrivia(ts, c + 1) == nontrivia(ts, c) + 1);
    }
}
