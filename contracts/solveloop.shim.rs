// ---- shims / specification for U-SOLVELOOP (C03: no recorded constraint leaves Typer::solve unaccounted for) ----
#[verifier::external_body] pub struct TypeVar { _p: u32 }
// the unification table (ena) — opaque; ucount() is GHOST bookkeeping: how many top-level equations unify has accepted so far
#[verifier::external_body] pub struct Uni { _p: u64 }
impl Uni { pub uninterp spec fn ucount(&self) -> nat; }
pub struct Typer { pub constraints: Vec<Constraint>, pub uni: Uni }
#[verifier::external_body] pub struct StructDef { _p: u64 }
#[verifier::external_body] pub struct StructMap { _p: u64 }
impl StructMap { #[verifier::external_body] pub fn get(&self, k: &TastIdent) -> (r: Option<&StructDef>) { unimplemented!() } }
#[verifier::external_body] pub struct GlobalTypeEnv { _p: u64 }
impl GlobalTypeEnv { #[verifier::external_body] pub fn structs(&self) -> (r: &StructMap) { unimplemented!() } }
#[verifier::external_body] pub struct PackageTypeEnv { _p: u64 }
#[verifier::external_body] pub fn resolve_type_name<'a>(genv: &'a PackageTypeEnv, name: &String) -> (r: (String, &'a GlobalTypeEnv)) { unimplemented!() }
#[verifier::external_body] pub fn decompose_struct_type(ty: &Ty) -> (r: Option<(TastIdent, Vec<Ty>)>) { unimplemented!() }
// the nested helper `is_concrete` of solve (dropped from the verified text: which receiver types count as concrete is U-CONCRETE's subject)
#[verifier::external_body] pub fn is_concrete(norm_ty: &Ty) -> (r: bool) { unimplemented!() }
#[verifier::external_body] pub fn vec_first<T>(v: &Vec<T>) -> (r: Option<&T>) ensures v@.len() == 0 ==> r is None, v@.len() > 0 ==> (r matches Some(x) && *x == v@[0]) { unimplemented!() }   // <[T]>::first
#[verifier::external_body] pub fn vec_take<T>(v: &mut Vec<T>) -> (r: Vec<T>) ensures r@ == old(v)@, final(v)@ == Seq::<T>::empty() { unimplemented!() }   // std::mem::take / drain(..): the old contents, V left empty
#[verifier::external_body] pub fn vec_extend<T>(v: &mut Vec<T>, more: Vec<T>) ensures final(v)@ == old(v)@ + more@ { unimplemented!() }       // Vec::extend(Vec)
// typer::util::push_error: one error diagnostic
#[verifier::external_body] pub fn push_error(diagnostics: &mut Diagnostics, msg: String) ensures final(diagnostics)@.len() == old(diagnostics)@.len() + 1 { unimplemented!() }
// instantiate_struct_field_ty: ASSUMED here — `None` comes with an error (a consequence of the contract U-FIELDINST proves: None only for an arity mismatch or a missing field, both reported)
#[verifier::external_body]
pub fn instantiate_struct_field_ty(diagnostics: &mut Diagnostics, struct_def: &StructDef, type_args: &Vec<Ty>, field: &TastIdent) -> (r: Option<Ty>)
    ensures final(diagnostics)@.len() >= old(diagnostics)@.len(), r is None ==> final(diagnostics)@.len() > old(diagnostics)@.len(),
{ unimplemented!() }
impl Typer {
    // unify: ASSUMED here — `false` comes with a diagnostic (U-TUNIFY proves it); `true` is one more accepted equation (ghost count); the pending list is not its business
    #[verifier::external_body]
    pub fn unify(&mut self, diagnostics: &mut Diagnostics, l: &Ty, r: &Ty) -> (ok: bool)
        ensures final(diagnostics)@.len() >= old(diagnostics)@.len(), final(self).constraints == old(self).constraints,
                ok ==> final(self).uni.ucount() == old(self).uni.ucount() + 1,
                !ok ==> final(self).uni.ucount() == old(self).uni.ucount() && final(diagnostics)@.len() > old(diagnostics)@.len(),
    { unimplemented!() }
    #[verifier::external_body]
    pub fn norm(&mut self, ty: &Ty) -> (r: Ty) ensures final(self).uni.ucount() == old(self).uni.ucount(), final(self).constraints == old(self).constraints { unimplemented!() }
    // the arm `ty if is_concrete(ty) => { .. }` of the Overloaded case: ASSUMED here — exactly one of {a diagnostic, a pending equation} is added
    // (U-OVERLOAD proves it against the real block: overload_ok, clause `accounted`)
    #[verifier::external_body]
    pub fn overload_concrete(&mut self, genv: &PackageTypeEnv, diagnostics: &mut Diagnostics, still_pending: &mut Vec<Constraint>, changed: &mut bool,
                             op: &TastIdent, trait_name: &TastIdent, self_ty: &Ty)
        ensures final(diagnostics)@.len() >= old(diagnostics)@.len(), final(still_pending)@.len() >= old(still_pending)@.len(),
                final(diagnostics)@.len() + final(still_pending)@.len() == old(diagnostics)@.len() + old(still_pending)@.len() + 1,
                final(self).uni.ucount() == old(self).uni.ucount(), final(self).constraints == old(self).constraints,
    { unimplemented!() }
}
// what solve owes every constraint: each one drained is answered by an accepted equation, a diagnostic, or a constraint left pending
pub open spec fn settled(u0: nat, d0: nat, u1: nat, d1: nat, pending: nat) -> int { (u1 - u0) + (d1 - d0) + pending }
