// ---- shims / specification for U-GENSYM (C19: a compiler temporary cannot collide with a user-chosen name) ----
pub open spec fn g_alpha(c: char) -> bool { ('a' <= c && c <= 'z') || ('A' <= c && c <= 'Z') }
pub open spec fn g_digit(c: char) -> bool { '0' <= c && c <= '9' }
// what a goml program can write as a name (the lexer's identifier rule `[A-Za-z][A-Za-z_0-9]*`)
pub open spec fn goml_ident(s: Seq<char>) -> bool {
    s.len() > 0 && g_alpha(s[0]) && forall|i: int| 0 <= i < s.len() ==> g_alpha(#[trigger] s[i]) || g_digit(s[i]) || s[i] == '_'
}
// `format!("{}{}", prefix, n)`: the prefix followed by the decimal digits of n
#[verifier::external_body]
pub fn fmt_prefix_num(prefix: &str, n: i32) -> (r: String)
    ensures r@.len() > prefix@.len(), r@.subrange(0, prefix@.len() as int) == prefix@,
{ unimplemented!() }
