// ---- shims for U-ROWS (C06) ----
#[verifier::external_body] pub struct TypeVar { _p: u32 }
#[verifier::external_body] pub struct Prim { _p: u64 }
#[verifier::external_body] pub struct Constructor { _p: u64 }
#[verifier::external_body] pub struct UnaryOp { _p: u64 }
#[verifier::external_body] pub struct BinaryOp { _p: u64 }
#[verifier::external_body] pub struct ClosureParam { _p: u64 }
#[verifier::external_body] pub struct MySyntaxNodePtr { _p: u64 }
pub trait VClone: Sized { fn vclone(&self) -> (r: Self) ensures r == *self; }
impl VClone for Pat { #[verifier::external_body] fn vclone(&self) -> (r: Self) { unimplemented!() } }
impl VClone for Expr { #[verifier::external_body] fn vclone(&self) -> (r: Self) { unimplemented!() } }
#[verifier::external_body]
pub fn str_to_string(s: &str) -> (r: String) ensures r@ == s@ { unimplemented!() }
#[verifier::external_body]
pub fn string_eq_str(a: &String, b: &str) -> (r: bool) ensures r == (a@ == b@) { unimplemented!() }

impl VClone for String { #[verifier::external_body] fn vclone(&self) -> (r: Self) { unimplemented!() } }
impl VClone for Ty { #[verifier::external_body] fn vclone(&self) -> (r: Self) { unimplemented!() } }
#[verifier::external_body]
pub fn vec_take<T>(v: &mut Vec<T>) -> (r: Vec<T>) ensures r@ == old(v)@, final(v)@ == Seq::<T>::empty() { unimplemented!() }   // rule vec_retain
impl Expr { #[verifier::external_body] pub fn get_ty(&self) -> (r: Ty) { unimplemented!() } }
impl Pat { #[verifier::external_body] pub fn get_ty(&self) -> (r: Ty) { unimplemented!() } }

// ---- move_variable_patterns: a column whose pattern is a variable binds that variable to the COLUMN's scrutinee variable ----
pub open spec fn is_var_col(c: Column) -> bool { c.pat is PVar }
pub open spec fn is_wild_col(c: Column) -> bool { c.pat is PWild }
// the columns that remain: those that still test something, in their original order
pub open spec fn kept_cols(cs: Seq<Column>, n: int) -> Seq<Column>
    decreases n,
{
    if n <= 0 || n > cs.len() { Seq::empty() }
    else if is_var_col(cs[n - 1]) || is_wild_col(cs[n - 1]) { kept_cols(cs, n - 1) }
    else { kept_cols(cs, n - 1).push(cs[n - 1]) }
}
// `body` is `let <pattern variable> = <column variable>; inner` (as a two-expression block)
pub open spec fn binds_col(body: Expr, c: Column, inner: Expr) -> bool {
    body matches Expr::EBlock { exprs, ty: _ } && exprs@.len() == 2 && exprs@[1] == inner
    && (exprs@[0] matches Expr::ELet { pat, value, ty: _ }
        && (pat matches Pat::PVar { name, ty: _, astptr: _ } && c.pat matches Pat::PVar { name: n2, ty: _, astptr: _ } && name@ == n2@)
        && (*value matches Expr::EVar { name: vn, ty: _, astptr: _ } && vn@ == c.var@))
}
// the body after the first n columns were processed: one binding per variable column, the LATER column outermost
pub open spec fn wrapped(body: Expr, cs: Seq<Column>, n: int, body0: Expr) -> bool
    decreases n,
{
    if n <= 0 || n > cs.len() { body == body0 }
    else if is_var_col(cs[n - 1]) { exists|inner: Expr| #[trigger] binds_col(body, cs[n - 1], inner) && wrapped(inner, cs, n - 1, body0) }
    else { wrapped(body, cs, n - 1, body0) }
}

// ---- head of compile_rows: the two base cases of match compilation ----
pub type CoreExpr = core::Expr;                                       // core::Expr (extracted above, in `mod core`)
#[verifier::external_body] pub struct GlobalTypeEnv { _p: u64 }
#[verifier::external_body] pub struct Gensym { _p: u64 }
#[verifier::external_body] pub struct Diagnostics { _p: u64 }
#[verifier::external_body] #[derive(Clone, Copy)] pub struct TextRange { _p: u64 }
pub uninterp spec fn missing_of(ty: Ty) -> CoreExpr;                  // the call to the runtime's `missing` (the program fails there)
pub uninterp spec fn core_of(e: Expr) -> CoreExpr;                    // compile_expr's result
#[verifier::external_body] pub fn emissing(ty: &Ty) -> (r: CoreExpr) ensures r == missing_of(*ty) { unimplemented!() }
#[verifier::external_body]
pub fn compile_expr(e: &Expr, genv: &GlobalTypeEnv, gensym: &Gensym, diagnostics: &mut Diagnostics) -> (r: CoreExpr) ensures r == core_of(*e) { unimplemented!() }
// everything compile_rows does once neither base case applies (choice of the branch variable, splitting per constructor ...): not verified
#[verifier::external_body]
pub fn compile_rows_rest(genv: &GlobalTypeEnv, gensym: &Gensym, diagnostics: &mut Diagnostics, rows: Vec<Row>, ty: &Ty, match_range: Option<TextRange>) -> (r: CoreExpr)
{ unimplemented!() }
// what move_variable_patterns (verified above) does to one row
pub open spec fn moved(o: Row, n: Row) -> bool {
    n.columns@ == kept_cols(o.columns@, o.columns@.len() as int) && wrapped(n.body, o.columns@, o.columns@.len() as int, o.body)
}

// ---- compile_bool_case: splitting the rows on a boolean scrutinee variable ----
pub struct Variable { pub name: String, pub ty: Ty }                  // compile_match::Variable (extracted text would be identical; only read here)
pub uninterp spec fn var_core(v: Variable) -> core::Expr;
impl Variable { #[verifier::external_body] pub fn to_core(&self) -> (r: core::Expr) ensures r == var_core(*self) { unimplemented!() } }
impl Prim {
    pub uninterp spec fn bool_of(&self) -> Option<bool>;
    #[verifier::external_body] pub fn as_bool(&self) -> (r: Option<bool>) ensures r == self.bool_of() { unimplemented!() }
}
pub uninterp spec fn ebool_spec(b: bool) -> core::Expr;
#[verifier::external_body] pub fn core_ebool(value: bool) -> (r: core::Expr) ensures r == ebool_spec(value) { unimplemented!() }
#[verifier::external_body] pub fn first_row_ty(rows: &Vec<Row>) -> (r: Ty) { unimplemented!() }    // rows.first().map(|r| r.get_ty()).unwrap_or(Ty::TUnit)
impl VClone for Row { #[verifier::external_body] fn vclone(&self) -> (r: Self) { unimplemented!() } }
// the recursive call: the decision tree for a sub-matrix, as an uninterpreted function of the rows
pub uninterp spec fn rows_core(rows: Seq<Row>, ty: Ty) -> core::Expr;
#[verifier::external_body]
pub fn compile_rows_rec(genv: &GlobalTypeEnv, gensym: &Gensym, diagnostics: &mut Diagnostics, rows: Vec<Row>, ty: &Ty, match_range: Option<TextRange>) -> (r: core::Expr)
    ensures r == rows_core(rows@, *ty),
{ unimplemented!() }
#[verifier::external_body] pub fn unreached<T>() -> (r: T) requires false { unimplemented!() }

// index of the row's FIRST column for variable v, if any
pub open spec fn col_of(r: Row, v: Seq<char>, k: int) -> bool {
    0 <= k < r.columns@.len() && r.columns@[k].var@ == v && forall|j: int| 0 <= j < k ==> (#[trigger] r.columns@[j]).var@ != v
}
pub open spec fn no_col(r: Row, v: Seq<char>) -> bool { forall|j: int| 0 <= j < r.columns@.len() ==> (#[trigger] r.columns@[j]).var@ != v }
// what ONE row contributes to the sub-matrix for `v == side`: itself if it does not test v; itself minus the test if it tests
// `v == side`; nothing if it tests the other value
pub open spec fn bool_img(r: Row, v: Seq<char>, side: bool, o: Seq<Row>) -> bool {
    ||| (no_col(r, v) && o.len() == 1 && o[0].body == r.body && o[0].columns@ == r.columns@)
    ||| (exists|k: int| #[trigger] col_of(r, v, k) && (r.columns@[k].pat matches Pat::PPrim { value, ty: _ } && value.bool_of() == Some(side))
            && o.len() == 1 && o[0].body == r.body && o[0].columns@ == r.columns@.remove(k))
    ||| (exists|k: int| #[trigger] col_of(r, v, k) && (r.columns@[k].pat matches Pat::PPrim { value, ty: _ } && value.bool_of() == Some(!side)) && o.len() == 0)
}
// outs is, in order, the contributions of the first n rows: the RELATIVE ORDER OF ROWS IS KEPT (first match stays first)
pub open spec fn bool_split(ins: Seq<Row>, n: int, v: Seq<char>, side: bool, outs: Seq<Row>) -> bool
    decreases n,
{
    if n <= 0 || n > ins.len() { outs.len() == 0 }
    else {
        ||| (bool_img(ins[n - 1], v, side, Seq::<Row>::empty()) && bool_split(ins, n - 1, v, side, outs))
        ||| (outs.len() >= 1 && bool_img(ins[n - 1], v, side, seq![outs.last()]) && bool_split(ins, n - 1, v, side, outs.drop_last()))
    }
}

// ---- compile_constructor_cases: splitting the rows on a constructor-typed scrutinee variable (enums, and structs as one-constructor enums) ----
#[verifier::external_body] pub struct EnumConstructor { _p: u64 }
impl EnumConstructor {
    pub uninterp spec fn idx(&self) -> usize;
    #[verifier::external_body] pub fn enum_index(&self) -> (r: usize) ensures r == self.idx() { unimplemented!() }
}
impl Constructor {
    pub uninterp spec fn enum_part(&self) -> Option<EnumConstructor>;
    #[verifier::external_body] pub fn as_enum(&self) -> (r: Option<&EnumConstructor>) ensures r matches Some(e) ==> self.enum_part() == Some(*e), r is None ==> self.enum_part() is None { unimplemented!() }
}
impl VClone for Constructor { #[verifier::external_body] fn vclone(&self) -> (r: Self) { unimplemented!() } }
// `vars.into_iter().map(|var| var.to_core()).collect()`
#[verifier::external_body]
pub fn vars_to_core(vars: Vec<Variable>) -> (r: Vec<core::Expr>)
    ensures r@.len() == vars@.len(), forall|i: int| 0 <= i < vars@.len() ==> #[trigger] r@[i] == var_core(vars@[i]),
{ unimplemented!() }
// which case (variant index) a constructor pattern belongs to
pub open spec fn pat_case(p: Pat) -> Option<int> {
    match p { Pat::PConstr { constructor, .. } => match constructor.enum_part() { Some(e) => Some(e.idx() as int), None => None }, _ => None }
}
// the new columns for a constructor pattern's sub-patterns: sub-pattern i is tested against the case's i-th fresh variable
pub open spec fn sub_cols(cs: Seq<Column>, vars: Seq<Variable>, args: Seq<Pat>) -> bool {
    cs.len() == (if vars.len() <= args.len() { vars.len() } else { args.len() })
    && forall|i: int| 0 <= i < cs.len() ==> (#[trigger] cs[i]).var@ == vars[i].name@ && cs[i].pat == args[i]
}
// what ONE row contributes to the sub-matrix of case c: itself if it does not test v; if it tests `v is case c`, itself minus that
// test plus the tests of the sub-patterns (appended, in order); nothing if it tests another case
pub open spec fn ctor_img(r: Row, v: Seq<char>, c: int, vars: Seq<Variable>, o: Seq<Row>) -> bool {
    ||| (no_col(r, v) && o.len() == 1 && o[0].body == r.body && o[0].columns@ == r.columns@)
    ||| (exists|k: int| #[trigger] col_of(r, v, k) && pat_case(r.columns@[k].pat) == Some(c) && o.len() == 1 && o[0].body == r.body
            && o[0].columns@.len() >= r.columns@.len() - 1
            && o[0].columns@.subrange(0, r.columns@.len() - 1) == r.columns@.remove(k)
            && sub_cols(o[0].columns@.subrange(r.columns@.len() - 1, o[0].columns@.len() as int), vars, r.columns@[k].pat->PConstr_args@))
    ||| (exists|k: int| #[trigger] col_of(r, v, k) && pat_case(r.columns@[k].pat) is Some && pat_case(r.columns@[k].pat) != Some(c) && o.len() == 0)
}
pub open spec fn ctor_split(ins: Seq<Row>, n: int, v: Seq<char>, c: int, vars: Seq<Variable>, outs: Seq<Row>) -> bool
    decreases n,
{
    if n <= 0 || n > ins.len() { outs.len() == 0 }
    else {
        ||| (ctor_img(ins[n - 1], v, c, vars, Seq::<Row>::empty()) && ctor_split(ins, n - 1, v, c, vars, outs))
        ||| (outs.len() >= 1 && ctor_img(ins[n - 1], v, c, vars, seq![outs.last()]) && ctor_split(ins, n - 1, v, c, vars, outs.drop_last()))
    }
}
