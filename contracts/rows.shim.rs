// ---- shims for U-ROWS (C06) ----
#[verifier::external_body] pub struct TypeVar { _p: u32 }
#[verifier::external_body] pub struct Prim { _p: u64 }
#[verifier::external_body] pub struct Constructor { _p: u64 }
#[verifier::external_body] pub struct UnaryOp { _p: u64 }
#[verifier::external_body] pub struct BinaryOp { _p: u64 }
#[verifier::external_body] pub struct ClosureParam { _p: u64 }
#[verifier::external_body] pub struct MySyntaxNodePtr { _p: u64 }
pub trait VClone: Sized { fn vclone(&self) -> (r: Self) ensures r == *self; }
impl VClone for Pat { #[verifier::external_body] fn vclone(&self) -> (r: Self) { unimplemented!() } }
impl VClone for Expr { #[verifier::external_body] fn vclone(&self) -> (r: Self) { unimplemented!() } }
#[verifier::external_body]
pub fn str_to_string(s: &str) -> (r: String) ensures r@ == s@ { unimplemented!() }
#[verifier::external_body]
pub fn string_eq_str(a: &String, b: &str) -> (r: bool) ensures r == (a@ == b@) { unimplemented!() }
