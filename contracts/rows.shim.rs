// ---- shims for U-ROWS (C06) ----
use std::hash::Hash;
use std::collections::HashMap;
#[verifier::external_body] pub struct TypeVar { _p: u32 }
#[verifier::external_body] pub struct Prim { _p: u64 }
#[verifier::external_body] pub struct Constructor { _p: u64 }
#[verifier::external_body] pub struct ClosureParam { _p: u64 }
#[verifier::external_body] pub struct MySyntaxNodePtr { _p: u64 }
pub trait VClone: Sized { fn vclone(&self) -> (r: Self) ensures r == *self; }
impl VClone for Pat { #[verifier::external_body] fn vclone(&self) -> (r: Self) { unimplemented!() } }
impl VClone for Expr { #[verifier::external_body] fn vclone(&self) -> (r: Self) { unimplemented!() } }
#[verifier::external_body]
pub fn str_to_string(s: &str) -> (r: String) ensures r@ == s@ { unimplemented!() }
#[verifier::external_body]
pub fn string_eq_str(a: &String, b: &str) -> (r: bool) ensures r == (a@ == b@) { unimplemented!() }

impl VClone for String { #[verifier::external_body] fn vclone(&self) -> (r: Self) { unimplemented!() } }
impl VClone for Ty { #[verifier::external_body] fn vclone(&self) -> (r: Self) { unimplemented!() } }
#[verifier::external_body]
pub fn vec_take<T>(v: &mut Vec<T>) -> (r: Vec<T>) ensures r@ == old(v)@, final(v)@ == Seq::<T>::empty() { unimplemented!() }   // rules vec_retain, mem_take (std::mem::take on a Vec leaves Vec::default(), the empty vector)
impl Expr { #[verifier::external_body] pub fn get_ty(&self) -> (r: Ty) { unimplemented!() } }
impl Pat { pub uninterp spec fn ty_of(&self) -> Ty; #[verifier::external_body] pub fn get_ty(&self) -> (r: Ty) ensures r == self.ty_of() { unimplemented!() } }

// ---- move_variable_patterns: a column whose pattern is a variable binds that variable to the COLUMN's scrutinee variable ----
pub open spec fn is_var_col(c: Column) -> bool { c.pat is PVar }
pub open spec fn is_wild_col(c: Column) -> bool { c.pat is PWild }
// the columns that remain: those that still test something, in their original order
pub open spec fn kept_cols(cs: Seq<Column>, n: int) -> Seq<Column>
    decreases n,
{
    if n <= 0 || n > cs.len() { Seq::empty() }
    else if is_var_col(cs[n - 1]) || is_wild_col(cs[n - 1]) { kept_cols(cs, n - 1) }
    else { kept_cols(cs, n - 1).push(cs[n - 1]) }
}
// `body` is `let <pattern variable> = <column variable>; inner` (as a two-expression block)
pub open spec fn binds_col(body: Expr, c: Column, inner: Expr) -> bool {
    body matches Expr::EBlock { exprs, ty: _ } && exprs@.len() == 2 && exprs@[1] == inner
    && (exprs@[0] matches Expr::ELet { pat, value, ty: _ }
        && (pat matches Pat::PVar { name, ty: _, astptr: _ } && c.pat matches Pat::PVar { name: n2, ty: _, astptr: _ } && name@ == n2@)
        && (*value matches Expr::EVar { name: vn, ty: _, astptr: _ } && vn@ == c.var@))
}
// the body after the first n columns were processed: one binding per variable column, the LATER column outermost
pub open spec fn wrapped(body: Expr, cs: Seq<Column>, n: int, body0: Expr) -> bool
    decreases n,
{
    if n <= 0 || n > cs.len() { body == body0 }
    else if is_var_col(cs[n - 1]) { exists|inner: Expr| #[trigger] binds_col(body, cs[n - 1], inner) && wrapped(inner, cs, n - 1, body0) }
    else { wrapped(body, cs, n - 1, body0) }
}

// ---- head of compile_rows: the two base cases of match compilation ----
pub type CoreExpr = core::Expr;                                       // core::Expr (extracted above, in `mod core`)
#[verifier::external_body] pub struct GlobalTypeEnv { _p: u64 }
#[verifier::external_body] pub struct Gensym { _p: u64 }
#[verifier::external_body] pub struct Diagnostics { _p: u64 }
#[verifier::external_body] #[derive(Clone, Copy)] pub struct TextRange { _p: u64 }
pub uninterp spec fn missing_of(ty: Ty) -> CoreExpr;                  // the call to the runtime's `missing` (the program fails there)
pub uninterp spec fn core_of(e: Expr) -> CoreExpr;                    // compile_expr's result
#[verifier::external_body] pub fn emissing(ty: &Ty) -> (r: CoreExpr) ensures r == missing_of(*ty) { unimplemented!() }
#[verifier::external_body]
pub fn compile_expr(e: &Expr, genv: &GlobalTypeEnv, gensym: &Gensym, diagnostics: &mut Diagnostics) -> (r: CoreExpr) ensures r == core_of(*e) { unimplemented!() }
// everything compile_rows does once neither base case applies (choice of the branch variable, splitting per constructor ...): not verified
#[verifier::external_body]
pub fn compile_rows_rest(genv: &GlobalTypeEnv, gensym: &Gensym, diagnostics: &mut Diagnostics, rows: Vec<Row>, ty: &Ty, match_range: Option<TextRange>) -> (r: CoreExpr)
    requires rows@.len() > 0, rows@[0].columns@.len() > 0,      // branch_variable's precondition (it indexes rows[0] and unwraps a max over its columns)
{ unimplemented!() }
// what move_variable_patterns (verified above) does to one row
pub open spec fn moved(o: Row, n: Row) -> bool {
    n.columns@ == kept_cols(o.columns@, o.columns@.len() as int) && wrapped(n.body, o.columns@, o.columns@.len() as int, o.body)
}

// ---- compile_bool_case: splitting the rows on a boolean scrutinee variable ----
pub struct Variable { pub name: String, pub ty: Ty }                  // compile_match::Variable (extracted text would be identical; only read here)
pub uninterp spec fn var_core(v: Variable) -> core::Expr;
impl Variable { #[verifier::external_body] pub fn to_core(&self) -> (r: core::Expr) ensures r == var_core(*self) { unimplemented!() } }
impl Prim {
    pub uninterp spec fn bool_of(&self) -> Option<bool>;
    #[verifier::external_body] pub fn as_bool(&self) -> (r: Option<bool>) ensures r == self.bool_of() { unimplemented!() }
}
pub uninterp spec fn ebool_spec(b: bool) -> core::Expr;
#[verifier::external_body] pub fn core_ebool(value: bool) -> (r: core::Expr) ensures r == ebool_spec(value) { unimplemented!() }
#[verifier::external_body] pub fn first_row_ty(rows: &Vec<Row>) -> (r: Ty) { unimplemented!() }    // rows.first().map(|r| r.get_ty()).unwrap_or(Ty::TUnit)
impl VClone for Row { #[verifier::external_body] fn vclone(&self) -> (r: Self) { unimplemented!() } }
impl VClone for Vec<Row> { #[verifier::external_body] fn vclone(&self) -> (r: Self) { unimplemented!() } }
// the recursive call: the decision tree for a sub-matrix, as an uninterpreted function of the rows
pub uninterp spec fn rows_core(rows: Seq<Row>, ty: Ty) -> core::Expr;
#[verifier::external_body]
pub fn compile_rows_rec(genv: &GlobalTypeEnv, gensym: &Gensym, diagnostics: &mut Diagnostics, rows: Vec<Row>, ty: &Ty, match_range: Option<TextRange>) -> (r: core::Expr)
    ensures r == rows_core(rows@, *ty), rows@.len() == 0 ==> r == missing_of(*ty),      // the second clause is what the verified head of compile_rows does
{ unimplemented!() }
#[verifier::external_body] pub fn unreached<T>() -> (r: T) requires false { unimplemented!() }

// index of the row's FIRST column for variable v, if any
pub open spec fn col_of(r: Row, v: Seq<char>, k: int) -> bool {
    0 <= k < r.columns@.len() && r.columns@[k].var@ == v && forall|j: int| 0 <= j < k ==> (#[trigger] r.columns@[j]).var@ != v
}
pub open spec fn no_col(r: Row, v: Seq<char>) -> bool { forall|j: int| 0 <= j < r.columns@.len() ==> (#[trigger] r.columns@[j]).var@ != v }
// what ONE row contributes to the sub-matrix for `v == side`: itself if it does not test v; itself minus the test if it tests
// `v == side`; nothing if it tests the other value
pub open spec fn bool_img(r: Row, v: Seq<char>, side: bool, o: Seq<Row>) -> bool {
    ||| (no_col(r, v) && o.len() == 1 && o[0].body == r.body && o[0].columns@ == r.columns@)
    ||| (exists|k: int| #[trigger] col_of(r, v, k) && (r.columns@[k].pat matches Pat::PPrim { value, ty: _ } && value.bool_of() == Some(side))
            && o.len() == 1 && o[0].body == r.body && o[0].columns@ == r.columns@.remove(k))
    ||| (exists|k: int| #[trigger] col_of(r, v, k) && (r.columns@[k].pat matches Pat::PPrim { value, ty: _ } && value.bool_of() == Some(!side)) && o.len() == 0)
}
// outs is, in order, the contributions of the first n rows: the RELATIVE ORDER OF ROWS IS KEPT (first match stays first)
pub open spec fn bool_split(ins: Seq<Row>, n: int, v: Seq<char>, side: bool, outs: Seq<Row>) -> bool
    decreases n,
{
    if n <= 0 || n > ins.len() { outs.len() == 0 }
    else {
        ||| (bool_img(ins[n - 1], v, side, Seq::<Row>::empty()) && bool_split(ins, n - 1, v, side, outs))
        ||| (outs.len() >= 1 && bool_img(ins[n - 1], v, side, seq![outs.last()]) && bool_split(ins, n - 1, v, side, outs.drop_last()))
    }
}

// ---- compile_constructor_cases: splitting the rows on a constructor-typed scrutinee variable (enums, and structs as one-constructor enums) ----
#[verifier::external_body] pub struct EnumConstructor { _p: u64 }
impl EnumConstructor {
    pub uninterp spec fn idx(&self) -> usize;
    #[verifier::external_body] pub fn enum_index(&self) -> (r: usize) ensures r == self.idx() { unimplemented!() }
}
impl Constructor {
    pub uninterp spec fn enum_part(&self) -> Option<EnumConstructor>;
    #[verifier::external_body] pub fn as_enum(&self) -> (r: Option<&EnumConstructor>) ensures r matches Some(e) ==> self.enum_part() == Some(*e), r is None ==> self.enum_part() is None { unimplemented!() }
}
impl VClone for Constructor { #[verifier::external_body] fn vclone(&self) -> (r: Self) { unimplemented!() } }
// `vars.into_iter().map(|var| var.to_core()).collect()`
#[verifier::external_body]
pub fn vars_to_core(vars: Vec<Variable>) -> (r: Vec<core::Expr>)
    ensures r@.len() == vars@.len(), forall|i: int| 0 <= i < vars@.len() ==> #[trigger] r@[i] == var_core(vars@[i]),
{ unimplemented!() }
// which case (variant index) a constructor pattern belongs to
pub open spec fn pat_case(p: Pat) -> Option<int> {
    match p { Pat::PConstr { constructor, .. } => match constructor.enum_part() { Some(e) => Some(e.idx() as int), None => None }, _ => None }
}
// the new columns for a constructor pattern's sub-patterns: sub-pattern i is tested against the case's i-th fresh variable
pub open spec fn sub_cols(cs: Seq<Column>, vars: Seq<Variable>, args: Seq<Pat>) -> bool {
    cs.len() == (if vars.len() <= args.len() { vars.len() } else { args.len() })
    && forall|i: int| 0 <= i < cs.len() ==> (#[trigger] cs[i]).var@ == vars[i].name@ && cs[i].pat == args[i]
}
// what ONE row contributes to the sub-matrix of case c: itself if it does not test v; if it tests `v is case c`, itself minus that
// test plus the tests of the sub-patterns (appended, in order); nothing if it tests another case
pub open spec fn ctor_img(r: Row, v: Seq<char>, c: int, vars: Seq<Variable>, o: Seq<Row>) -> bool {
    ||| (no_col(r, v) && o.len() == 1 && o[0].body == r.body && o[0].columns@ == r.columns@)
    ||| (exists|k: int| #[trigger] col_of(r, v, k) && pat_case(r.columns@[k].pat) == Some(c) && o.len() == 1 && o[0].body == r.body
            && o[0].columns@.len() >= r.columns@.len() - 1
            && o[0].columns@.subrange(0, r.columns@.len() - 1) == r.columns@.remove(k)
            && sub_cols(o[0].columns@.subrange(r.columns@.len() - 1, o[0].columns@.len() as int), vars, r.columns@[k].pat->PConstr_args@))
    ||| (exists|k: int| #[trigger] col_of(r, v, k) && pat_case(r.columns@[k].pat) is Some && pat_case(r.columns@[k].pat) != Some(c) && o.len() == 0)
}
pub open spec fn ctor_split(ins: Seq<Row>, n: int, v: Seq<char>, c: int, vars: Seq<Variable>, outs: Seq<Row>) -> bool
    decreases n,
{
    if n <= 0 || n > ins.len() { outs.len() == 0 }
    else {
        ||| (ctor_img(ins[n - 1], v, c, vars, Seq::<Row>::empty()) && ctor_split(ins, n - 1, v, c, vars, outs))
        ||| (outs.len() >= 1 && ctor_img(ins[n - 1], v, c, vars, seq![outs.last()]) && ctor_split(ins, n - 1, v, c, vars, outs.drop_last()))
    }
}

// ---- compile_string_case / compile_int_case_impl: splitting the rows on a literal-typed scrutinee (literal arms, wildcard rows, default) ----
// The spec is generic in the literal key K and the function kf that reads a pattern literal's key (strings: Prim::str_of; integers:
// the `extract` closure handed to compile_int_case_impl, see ext_of).
impl Prim {
    pub uninterp spec fn str_of(&self) -> Option<Seq<char>>;
    #[verifier::external_body] pub fn as_str(&self) -> (r: Option<&str>) ensures r matches Some(s) ==> self.str_of() == Some(s@), r is None ==> self.str_of() is None { unimplemented!() }
}
pub open spec fn str_kf() -> spec_fn(Prim) -> Option<Seq<char>> { |p: Prim| p.str_of() }
// the function computed by an `extract` closure (meaningful when the closure is deterministic, which the fragment requires)
pub open spec fn ext_of<T, F: Fn(&Prim) -> Option<T>>(f: F) -> spec_fn(Prim) -> Option<T> { |p: Prim| choose|o: Option<T>| f.ensures((&p,), o) }
pub open spec fn ext_ok<T, F: Fn(&Prim) -> Option<T>>(f: F) -> bool {
    &&& forall|p: &Prim| #[trigger] f.requires((p,))
    &&& forall|p: &Prim, o1: Option<T>, o2: Option<T>| f.ensures((p,), o1) && f.ensures((p,), o2) ==> o1 == o2
}
// IndexMap<String, Vec<Row>> / IndexMap<T, Vec<Row>>: the sub-matrix per literal, in order of first appearance
#[verifier::external_body] pub struct ValMap { _p: u64 }
impl ValMap {
    pub uninterp spec fn entries(&self) -> Seq<(Seq<char>, Seq<Row>)>;
    pub open spec fn has(&self, k: Seq<char>) -> bool { exists|i: int| 0 <= i < self.entries().len() && (#[trigger] self.entries()[i]).0 == k }
    #[verifier::external_body] pub fn new() -> (r: Self) ensures r.entries().len() == 0 { unimplemented!() }
    #[verifier::external_body] pub fn contains_key(&self, k: &String) -> (r: bool) ensures r == self.has(k@) { unimplemented!() }
    // `entry(k).or_insert_with(..)` on an absent key: a new entry at the END
    #[verifier::external_body]
    pub fn insert_new(&mut self, k: String, v: Vec<Row>)
        requires !old(self).has(k@),
        ensures final(self).entries() == old(self).entries().push((k@, v@)),
    { unimplemented!() }
    // `entry(k).or_insert_with(..).push(row)` once the key is present
    #[verifier::external_body]
    pub fn push_to(&mut self, k: &String, row: Row)
        requires old(self).has(k@),
        ensures final(self).entries().len() == old(self).entries().len(),
            forall|i: int| 0 <= i < old(self).entries().len() ==> (#[trigger] final(self).entries()[i]).0 == old(self).entries()[i].0
                && final(self).entries()[i].1 == (if old(self).entries()[i].0 == k@ { old(self).entries()[i].1.push(row) } else { old(self).entries()[i].1 }),
    { unimplemented!() }
    // `for rows in m.values_mut() { rows.push(row.clone()) }`
    #[verifier::external_body]
    pub fn push_all(&mut self, row: &Row)
        ensures final(self).entries().len() == old(self).entries().len(),
            forall|i: int| 0 <= i < old(self).entries().len() ==> (#[trigger] final(self).entries()[i]).0 == old(self).entries()[i].0
                && final(self).entries()[i].1 == old(self).entries()[i].1.push(*row),
    { unimplemented!() }
}
// the same for a Copy key (integers): the key is its own view; `Eq` on it is assumed to be equality
#[verifier::external_body] #[verifier::reject_recursive_types(T)] pub struct IntMap<T> { _p: std::marker::PhantomData<T> }
impl<T: Copy> IntMap<T> {
    pub uninterp spec fn entries(&self) -> Seq<(T, Seq<Row>)>;
    pub open spec fn has(&self, k: T) -> bool { exists|i: int| 0 <= i < self.entries().len() && (#[trigger] self.entries()[i]).0 == k }
    #[verifier::external_body] pub fn new() -> (r: Self) ensures r.entries().len() == 0 { unimplemented!() }
    #[verifier::external_body] pub fn contains_key(&self, k: &T) -> (r: bool) ensures r == self.has(*k) { unimplemented!() }
    #[verifier::external_body]
    pub fn insert_new(&mut self, k: T, v: Vec<Row>)
        requires !old(self).has(k),
        ensures final(self).entries() == old(self).entries().push((k, v@)),
    { unimplemented!() }
    #[verifier::external_body]
    pub fn push_to(&mut self, k: &T, row: Row)
        requires old(self).has(*k),
        ensures final(self).entries().len() == old(self).entries().len(),
            forall|i: int| 0 <= i < old(self).entries().len() ==> (#[trigger] final(self).entries()[i]).0 == old(self).entries()[i].0
                && final(self).entries()[i].1 == (if old(self).entries()[i].0 == *k { old(self).entries()[i].1.push(row) } else { old(self).entries()[i].1 }),
    { unimplemented!() }
    #[verifier::external_body]
    pub fn push_all(&mut self, row: &Row)
        ensures final(self).entries().len() == old(self).entries().len(),
            forall|i: int| 0 <= i < old(self).entries().len() ==> (#[trigger] final(self).entries()[i]).0 == old(self).entries()[i].0
                && final(self).entries()[i].1 == old(self).entries()[i].1.push(*row),
    { unimplemented!() }
}
// the literal a row's test on v compares with (None: wildcard)
pub open spec fn lit_at<K>(r: Row, k: int, kf: spec_fn(Prim) -> Option<K>) -> Option<K> {
    match r.columns@[k].pat { Pat::PPrim { value, ty: _ } => kf(value), _ => None }
}
pub open spec fn tests_lit<K>(r: Row, v: Seq<char>, kf: spec_fn(Prim) -> Option<K>, s: K) -> bool { exists|k: int| #[trigger] col_of(r, v, k) && lit_at(r, k, kf) == Some(s) }
// what ONE row contributes to the sub-matrix of literal `key` (None: the default sub-matrix): a row that does not constrain v
// (no test, or a wildcard test) goes to EVERY sub-matrix incl. the default; a row testing literal s goes to the sub-matrix of s only
pub open spec fn lit_img<K>(r: Row, v: Seq<char>, kf: spec_fn(Prim) -> Option<K>, key: Option<K>, o: Seq<Row>) -> bool {
    ||| (no_col(r, v) && o.len() == 1 && o[0].body == r.body && o[0].columns@ == r.columns@)
    ||| (exists|k: int| #[trigger] col_of(r, v, k) && (r.columns@[k].pat is PWild || (lit_at(r, k, kf) is Some && lit_at(r, k, kf) == key))
            && o.len() == 1 && o[0].body == r.body && o[0].columns@ == r.columns@.remove(k))
    ||| (exists|k: int| #[trigger] col_of(r, v, k) && lit_at(r, k, kf) is Some && lit_at(r, k, kf) != key && o.len() == 0)
}
pub open spec fn lit_split<K>(ins: Seq<Row>, n: int, v: Seq<char>, kf: spec_fn(Prim) -> Option<K>, key: Option<K>, outs: Seq<Row>) -> bool
    decreases n,
{
    if n <= 0 || n > ins.len() { outs.len() == 0 }
    else {
        ||| (lit_img(ins[n - 1], v, kf, key, Seq::<Row>::empty()) && lit_split(ins, n - 1, v, kf, key, outs))
        ||| (outs.len() >= 1 && lit_img(ins[n - 1], v, kf, key, seq![outs.last()]) && lit_split(ins, n - 1, v, kf, key, outs.drop_last()))
    }
}
// a literal no row has tested so far gets exactly what the default gets: ALL earlier unconstrained rows, in order (they keep priority)
pub proof fn lemma_split_unseen<K>(ins: Seq<Row>, n: int, v: Seq<char>, kf: spec_fn(Prim) -> Option<K>, s: K, outs: Seq<Row>)
    requires 0 <= n <= ins.len(), lit_split(ins, n, v, kf, None, outs), forall|j: int| 0 <= j < n ==> !tests_lit(#[trigger] ins[j], v, kf, s),
    ensures lit_split(ins, n, v, kf, Some(s), outs),
    decreases n,
{
    if n > 0 {
        let r = ins[n - 1];
        assert(!tests_lit(r, v, kf, s));
        if lit_img(r, v, kf, None, Seq::<Row>::empty()) && lit_split(ins, n - 1, v, kf, None, outs) {
            lemma_split_unseen(ins, n - 1, v, kf, s, outs);
            let k = choose|k: int| #[trigger] col_of(r, v, k) && lit_at(r, k, kf) is Some && lit_at(r, k, kf) != None::<K>;
            assert(col_of(r, v, k));
            assert(lit_at(r, k, kf) != Some(s)) by { if lit_at(r, k, kf) == Some(s) { assert(tests_lit(r, v, kf, s)); } }
            assert(lit_img(r, v, kf, Some(s), Seq::<Row>::empty()));
        } else {
            lemma_split_unseen(ins, n - 1, v, kf, s, outs.drop_last());
            assert(lit_img(r, v, kf, Some(s), seq![outs.last()]));
        }
    }
}

// ---- tails of compile_string_case / compile_int_case_impl: the switch built from the sub-matrices ----
impl ValMap {
    #[verifier::external_body] pub fn len(&self) -> (r: usize) ensures r == self.entries().len() { unimplemented!() }
    // `into_iter()`: entries leave in order of first appearance
    #[verifier::external_body]
    pub fn pop_front(&mut self) -> (r: (String, Vec<Row>))
        requires old(self).entries().len() > 0,
        ensures r.0@ == old(self).entries()[0].0, r.1@ == old(self).entries()[0].1, final(self).entries() == old(self).entries().subrange(1, old(self).entries().len() as int),
    { unimplemented!() }
}
impl<T: Copy> IntMap<T> {
    #[verifier::external_body] pub fn len(&self) -> (r: usize) ensures r == self.entries().len() { unimplemented!() }
    #[verifier::external_body]
    pub fn pop_front(&mut self) -> (r: (T, Vec<Row>))
        requires old(self).entries().len() > 0,
        ensures r.0 == old(self).entries()[0].0, r.1@ == old(self).entries()[0].1, final(self).entries() == old(self).entries().subrange(1, old(self).entries().len() as int),
    { unimplemented!() }
}
impl Prim { #[verifier::external_body] pub fn string(value: String) -> (r: Prim) ensures r.str_of() == Some(value@) { unimplemented!() } }
#[verifier::external_body] pub fn rt_msg() -> (r: String) { unimplemented!() }
pub enum Severity { Error, Warning }
#[verifier::external_body] pub struct Stage { _p: u64 }
impl Stage { #[verifier::external_body] pub fn other(name: &str) -> (r: Stage) { unimplemented!() } }
#[verifier::external_body] pub struct Diagnostic { _p: u64 }
impl Diagnostic {
    pub uninterp spec fn is_error(&self) -> bool;
    #[verifier::external_body] pub fn new(stage: Stage, severity: Severity, message: String) -> (r: Diagnostic) ensures r.is_error() == (severity is Error) { unimplemented!() }
    #[verifier::external_body] pub fn with_range(self, range: Option<TextRange>) -> (r: Diagnostic) ensures r.is_error() == self.is_error() { unimplemented!() }
}
impl Diagnostics {
    pub uninterp spec fn errors(&self) -> nat;
    #[verifier::external_body] pub fn push(&mut self, d: Diagnostic) ensures final(self).errors() == old(self).errors() + (if d.is_error() { 1nat } else { 0nat }) { unimplemented!() }
}
// the switch over literal keys: one arm per sub-matrix (the ORDER of the arms is not constrained: arms of distinct literals are
// disjoint, so it does not matter for which arm is taken), the default arm from the default sub-matrix
pub open spec fn arm_of<K>(a: core::Arm, e: (K, Seq<Row>), ty: Ty, lhs_ok: spec_fn(K, core::Expr) -> bool) -> bool {
    lhs_ok(e.0, a.lhs) && a.body == rows_core(e.1, ty)
}
// (opaque: a `forall i exists j` / `forall j exists i` pair would otherwise feed each other's triggers for ever)
#[verifier::opaque]
pub open spec fn has_entry<K>(es: Seq<(K, Seq<Row>)>, a: core::Arm, ty: Ty, lhs_ok: spec_fn(K, core::Expr) -> bool) -> bool {
    exists|j: int| 0 <= j < es.len() && arm_of(a, #[trigger] es[j], ty, lhs_ok)
}
#[verifier::opaque]
pub open spec fn has_arm<K>(arms: Seq<core::Arm>, e: (K, Seq<Row>), ty: Ty, lhs_ok: spec_fn(K, core::Expr) -> bool) -> bool {
    exists|i: int| 0 <= i < arms.len() && arm_of(#[trigger] arms[i], e, ty, lhs_ok)
}
pub open spec fn lit_switch<K>(r: core::Expr, bvar: Variable, es: Seq<(K, Seq<Row>)>, dflt: Seq<Row>, ty: Ty, lhs_ok: spec_fn(K, core::Expr) -> bool) -> bool {
    r matches core::Expr::EMatch { expr, arms, default, ty: _ }
    && *expr == var_core(bvar) && arms@.len() == es.len()
    && (forall|i: int| 0 <= i < arms@.len() ==> has_entry(es, #[trigger] arms@[i], ty, lhs_ok))
    && (forall|j: int| 0 <= j < es.len() ==> has_arm(arms@, #[trigger] es[j], ty, lhs_ok))
    // the default arm is the decision tree of the default sub-matrix; with NO unconstrained row that tree is the `missing` call: a value
    // none of the literals matches makes the program fail there (C06), it does not fall out of the switch with a zero value
    && (default matches Some(d) && *d == rows_core(dflt, ty) && (dflt.len() == 0 ==> *d == missing_of(ty)))
}
pub open spec fn str_lhs() -> spec_fn(Seq<char>, core::Expr) -> bool {
    |k: Seq<char>, e: core::Expr| e matches core::Expr::EPrim { value, ty } && value.str_of() == Some(k) && ty is TString
}
pub open spec fn int_lhs<T, F: Fn(T) -> Prim>(f: F, lty: Ty) -> spec_fn(T, core::Expr) -> bool {
    |k: T, e: core::Expr| e matches core::Expr::EPrim { value, ty } && f.ensures((k,), value) && ty == lty
}

// ---- compile_tuple_case: a tuple scrutinee is taken apart into fresh variables, its sub-patterns become columns on them ----
impl Gensym { #[verifier::external_body] pub fn gensym(&self, prefix: &str) -> (r: String) { unimplemented!() } }
pub uninterp spec fn eunit_spec() -> core::Expr;                       // core::eunit(): the unit literal (an EPrim)
#[verifier::external_body] pub fn core_eunit() -> (r: core::Expr) ensures r == eunit_spec(), !(r is ELet) { unimplemented!() }
#[verifier::external_body] pub fn string_eq(a: &String, b: &String) -> (r: bool) ensures r == (a@ == b@) { unimplemented!() }
// `let names[i] = bvar.i in let names[i+1] = bvar.(i+1) in .. inner`: component i is bound to the i-th fresh variable, with the i-th component type
pub open spec fn proj_chain(names: Seq<String>, bvar: Variable, typs: Seq<Ty>, ty: Ty, i: int, inner: core::Expr) -> core::Expr
    decreases names.len() - i,
{
    if i < 0 || i >= names.len() { inner }
    else {
        core::Expr::ELet { name: names[i], value: Box::new(core::Expr::EProj { tuple: Box::new(var_core(bvar)), index: i as usize, ty: typs[i] }),
                           body: Box::new(proj_chain(names, bvar, typs, ty, i + 1, inner)), ty }
    }
}
pub open spec fn replace_tail(e: core::Expr, r: core::Expr) -> core::Expr
    decreases e,
{
    match e { core::Expr::ELet { name, value, body, ty } => core::Expr::ELet { name, value, body: Box::new(replace_tail(*body, r)), ty }, _ => r }
}
pub proof fn lemma_chain_tail(names: Seq<String>, bvar: Variable, typs: Seq<Ty>, ty: Ty, i: int, hole: core::Expr, inner: core::Expr)
    requires !(hole is ELet), 0 <= i <= names.len(),
    ensures replace_tail(proj_chain(names, bvar, typs, ty, i, hole), inner) == proj_chain(names, bvar, typs, ty, i, inner),
    decreases names.len() - i,
{
    if i < names.len() { lemma_chain_tail(names, bvar, typs, ty, i + 1, hole, inner); }
}
// the columns of one row after the split: every column on the tuple variable is replaced, IN PLACE, by one column per sub-pattern
// (sub-pattern i against the i-th fresh variable); the other columns are kept, in order
pub open spec fn sub_tuple_cols(names: Seq<String>, items: Seq<Pat>, n: int) -> Seq<Column>
    decreases n,
{
    if n <= 0 { Seq::<Column>::empty() } else { sub_tuple_cols(names, items, n - 1).push(Column { var: names[n - 1], pat: items[n - 1] }) }
}
pub open spec fn tuple_cols(cols: Seq<Column>, v: Seq<char>, names: Seq<String>, n: int) -> Seq<Column>
    decreases n,
{
    if n <= 0 { Seq::<Column>::empty() }
    else {
        let c = cols[n - 1];
        let pre = tuple_cols(cols, v, names, n - 1);
        if c.var@ == v { pre + sub_tuple_cols(names, c.pat->PTuple_items@, c.pat->PTuple_items@.len() as int) } else { pre.push(c) }
    }
}
pub open spec fn tuple_rows(ins: Seq<Row>, v: Seq<char>, names: Seq<String>, outs: Seq<Row>) -> bool {
    outs.len() == ins.len()
    && forall|k: int| 0 <= k < ins.len() ==> (#[trigger] outs[k]).body == ins[k].body && outs[k].columns@ == tuple_cols(ins[k].columns@, v, names, ins[k].columns@.len() as int)
}
// the same lets with the LAST component outermost (the projections are pure and the variables fresh, so the order of the lets is immaterial)
pub open spec fn proj_chain_desc(names: Seq<String>, bvar: Variable, typs: Seq<Ty>, ty: Ty, k: int, inner: core::Expr) -> core::Expr
    decreases k,
{
    if k <= 0 || k > names.len() { inner }
    else {
        core::Expr::ELet { name: names[k - 1], value: Box::new(core::Expr::EProj { tuple: Box::new(var_core(bvar)), index: (k - 1) as usize, ty: typs[k - 1] }),
                           body: Box::new(proj_chain_desc(names, bvar, typs, ty, k - 1, inner)), ty }
    }
}
pub proof fn lemma_chain_desc_tail(names: Seq<String>, bvar: Variable, typs: Seq<Ty>, ty: Ty, k: int, hole: core::Expr, inner: core::Expr)
    requires !(hole is ELet), 0 <= k <= names.len(),
    ensures replace_tail(proj_chain_desc(names, bvar, typs, ty, k, hole), inner) == proj_chain_desc(names, bvar, typs, ty, k, inner),
    decreases k,
{
    if k > 0 { lemma_chain_desc_tail(names, bvar, typs, ty, k - 1, hole, inner); }
}
pub open spec fn tuple_case_of(r: core::Expr, rows: Seq<Row>, bvar: Variable, typs: Seq<Ty>, ty: Ty, names: Seq<String>, rs: Seq<Row>) -> bool {
    names.len() == typs.len() && tuple_rows(rows, bvar.name@, names, rs)
    && (r == proj_chain(names, bvar, typs, ty, 0, rows_core(rs, ty)) || r == proj_chain_desc(names, bvar, typs, ty, names.len() as int, rows_core(rs, ty)))
}

// ---- compile_unit_case: a unit scrutinee has one value; every row stays, minus its test on the variable ----
pub open spec fn unit_row(i: Row, v: Seq<char>, o: Row) -> bool {
    o.body == i.body && ((no_col(i, v) && o.columns@ == i.columns@) || (exists|k: int| #[trigger] col_of(i, v, k) && o.columns@ == i.columns@.remove(k)))
}
pub open spec fn unit_rows(ins: Seq<Row>, v: Seq<char>, outs: Seq<Row>) -> bool {
    outs.len() == ins.len() && forall|k: int| 0 <= k < ins.len() ==> unit_row(ins[k], v, #[trigger] outs[k])
}
pub open spec fn unit_case_of(r: core::Expr, rows: Seq<Row>, bvar: Variable, rs: Seq<Row>) -> bool {
    unit_rows(rows, bvar.name@, rs)
    && (r matches core::Expr::EMatch { expr, arms, default, ty: _ } && *expr == var_core(bvar) && default is None && arms@.len() == 1
        && arms@[0].lhs == eunit_spec() && arms@[0].body == rows_core(rs, bvar.ty))
}
#[verifier::external_body] pub fn vec_one_arm(a: core::Arm) -> (r: Vec<core::Arm>) ensures r@ == seq![a] { unimplemented!() }   // vec![a]

// ---- compile_enum_case / compile_struct_case: the fields of a constructor are bound to the case's fresh variables ----
// `let vars[i] = bvar.<ctor>.field_i in ..`: field i goes to the i-th variable, at that variable's type (asc: first field outermost;
// desc: last field outermost — the field reads are pure and the variables fresh, so either nesting is right)
pub open spec fn get_let(vars: Seq<Variable>, bvar: Variable, ctor: Constructor, ty: Ty, i: int, body: core::Expr) -> core::Expr {
    core::Expr::ELet { name: vars[i].name, value: Box::new(core::Expr::EConstrGet { expr: Box::new(var_core(bvar)), constructor: ctor, field_index: i as usize, ty: vars[i].ty }),
                       body: Box::new(body), ty }
}
pub open spec fn get_chain(vars: Seq<Variable>, bvar: Variable, ctor: Constructor, ty: Ty, i: int, inner: core::Expr) -> core::Expr
    decreases vars.len() - i,
{
    if i < 0 || i >= vars.len() { inner } else { get_let(vars, bvar, ctor, ty, i, get_chain(vars, bvar, ctor, ty, i + 1, inner)) }
}
pub open spec fn get_chain_desc(vars: Seq<Variable>, bvar: Variable, ctor: Constructor, ty: Ty, k: int, inner: core::Expr) -> core::Expr
    decreases k,
{
    if k <= 0 || k > vars.len() { inner } else { get_let(vars, bvar, ctor, ty, k - 1, get_chain_desc(vars, bvar, ctor, ty, k - 1, inner)) }
}
pub open spec fn is_get_chain(e: core::Expr, vars: Seq<Variable>, bvar: Variable, ctor: Constructor, ty: Ty, inner: core::Expr) -> bool {
    e == get_chain(vars, bvar, ctor, ty, 0, inner) || e == get_chain_desc(vars, bvar, ctor, ty, vars.len() as int, inner)
}
pub proof fn lemma_get_chain_tail(vars: Seq<Variable>, bvar: Variable, ctor: Constructor, ty: Ty, i: int, hole: core::Expr, inner: core::Expr)
    requires !(hole is ELet), 0 <= i <= vars.len(),
    ensures replace_tail(get_chain(vars, bvar, ctor, ty, i, hole), inner) == get_chain(vars, bvar, ctor, ty, i, inner),
    decreases vars.len() - i,
{
    if i < vars.len() { lemma_get_chain_tail(vars, bvar, ctor, ty, i + 1, hole, inner); }
}
pub proof fn lemma_get_chain_desc_tail(vars: Seq<Variable>, bvar: Variable, ctor: Constructor, ty: Ty, k: int, hole: core::Expr, inner: core::Expr)
    requires !(hole is ELet), 0 <= k <= vars.len(),
    ensures replace_tail(get_chain_desc(vars, bvar, ctor, ty, k, hole), inner) == get_chain_desc(vars, bvar, ctor, ty, k, inner),
    decreases k,
{
    if k > 0 { lemma_get_chain_desc_tail(vars, bvar, ctor, ty, k - 1, hole, inner); }
}
// the two lemmas as one fact about either nesting
pub proof fn lemma_is_get_chain_tail(e: core::Expr, vars: Seq<Variable>, bvar: Variable, ctor: Constructor, ty: Ty, hole: core::Expr, inner: core::Expr)
    requires !(hole is ELet), is_get_chain(e, vars, bvar, ctor, ty, hole),
    ensures is_get_chain(replace_tail(e, inner), vars, bvar, ctor, ty, inner),
{
    lemma_get_chain_tail(vars, bvar, ctor, ty, 0, hole, inner);
    lemma_get_chain_desc_tail(vars, bvar, ctor, ty, vars.len() as int, hole, inner);
}
impl VClone for Variable { #[verifier::external_body] fn vclone(&self) -> (r: Self) { unimplemented!() } }
impl Constructor { #[verifier::external_body] pub fn is_struct(&self) -> (r: bool) { unimplemented!() } }
// compile_struct_case's rewritten columns: a column on the struct variable is replaced, in place, by one column per field pattern
// (field pattern i against the i-th field variable; zip: as many as there are of both)
pub open spec fn sub_field_cols(vars: Seq<Variable>, args: Seq<Pat>, n: int) -> Seq<Column>
    decreases n,
{
    if n <= 0 { Seq::<Column>::empty() } else { sub_field_cols(vars, args, n - 1).push(Column { var: vars[n - 1].name, pat: args[n - 1] }) }
}
pub open spec fn min_len(a: int, b: int) -> int { if a <= b { a } else { b } }
pub open spec fn struct_cols(cols: Seq<Column>, v: Seq<char>, vars: Seq<Variable>, n: int) -> Seq<Column>
    decreases n,
{
    if n <= 0 { Seq::<Column>::empty() }
    else {
        let c = cols[n - 1];
        let pre = struct_cols(cols, v, vars, n - 1);
        if c.var@ == v { pre + sub_field_cols(vars, c.pat->PConstr_args@, min_len(vars.len() as int, c.pat->PConstr_args@.len() as int)) } else { pre.push(c) }
    }
}
pub open spec fn struct_rows(ins: Seq<Row>, v: Seq<char>, vars: Seq<Variable>, outs: Seq<Row>) -> bool {
    outs.len() == ins.len()
    && forall|k: int| 0 <= k < ins.len() ==> (#[trigger] outs[k]).body == ins[k].body && outs[k].columns@ == struct_cols(ins[k].columns@, v, vars, ins[k].columns@.len() as int)
}
pub open spec fn struct_case_of(r: core::Expr, rows: Seq<Row>, bvar: Variable, vars: Seq<Variable>, ctor: Constructor, ty: Ty, rs: Seq<Row>) -> bool {
    struct_rows(rows, bvar.name@, vars, rs) && is_get_chain(r, vars, bvar, ctor, ty, rows_core(rs, ty))
}

// ---- compile_enum_case: one ConstructorCase per variant, case i being the variant with index i ----
impl EnumConstructor { pub uninterp spec fn variant_name(&self) -> TastIdent; pub uninterp spec fn type_name_of(&self) -> TastIdent; }
// Constructor::Enum(common::EnumConstructor { type_name, variant, index })
#[verifier::external_body]
pub fn mk_enum_constructor(type_name: TastIdent, variant: TastIdent, index: usize) -> (r: Constructor)
    ensures r.enum_part() matches Some(e) && e.idx() == index && e.variant_name() == variant && e.type_name_of() == type_name,
{ unimplemented!() }
impl VClone for TastIdent { #[verifier::external_body] fn vclone(&self) -> (r: Self) { unimplemented!() } }
#[verifier::external_body] pub fn substitute_ty_params(ty: &Ty, subst: &HashMap<String, Ty>) -> (r: Ty) { unimplemented!() }

// ---- branch_variable: the variable the next split is on ----
// HashMap<&String, usize> used as a counter (the counts only steer a size heuristic: no specification)
#[verifier::external_body] pub struct CountMap { _p: u64 }
impl CountMap {
    #[verifier::external_body] pub fn new() -> (r: Self) { unimplemented!() }
    #[verifier::external_body] pub fn bump(&mut self, k: &String) { unimplemented!() }                     // *m.entry(k).or_insert(0) += 1
    #[verifier::external_body] pub fn get_count(&self, k: &String) -> (r: usize) { unimplemented!() }      // m[k]
}
// HashMap<String, Ty>
#[verifier::external_body] pub struct TyMap { _p: u64 }
impl TyMap {
    pub uninterp spec fn view(&self) -> Map<Seq<char>, Ty>;
    #[verifier::external_body] pub fn new() -> (r: Self) ensures r@ == Map::<Seq<char>, Ty>::empty() { unimplemented!() }
    #[verifier::external_body] pub fn insert(&mut self, k: String, v: Ty) ensures final(self)@ == old(self)@.insert(k@, v) { unimplemented!() }
    #[verifier::external_body] pub fn contains_key(&self, k: &String) -> (r: bool) ensures r == self@.dom().contains(k@) { unimplemented!() }
    // m[&k]: panics when the key is absent
    #[verifier::external_body] pub fn index(&self, k: &String) -> (r: &Ty) requires self@.dom().contains(k@), ensures *r == self@[k@] { unimplemented!() }
}
// t is the type of some pattern that some row tests against variable v
pub open spec fn tested_at(rows: Seq<Row>, v: Seq<char>, t: Ty) -> bool {
    exists|i: int, j: int| 0 <= i < rows.len() && 0 <= j < rows[i].columns@.len() && (#[trigger] rows[i].columns@[j]).var@ == v && rows[i].columns@[j].pat.ty_of() == t
}

