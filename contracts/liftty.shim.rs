// ---- shims / specification for U-LIFTTY (C08: the types lambda lifting puts on tuples, projections and struct fields) ----
#[verifier::external_body] pub struct Prim { _p: u64 }
#[verifier::external_body] pub struct UnaryOp { _p: u64 }
#[verifier::external_body] pub struct BinaryOp { _p: u64 }
#[verifier::external_body] pub struct EnumConstructor { _p: u64 }
#[verifier::external_body] pub struct TypeVar { _p: u32 }
#[verifier::external_body] pub struct MonoExpr { _p: u64 }             // the expression before lifting: only handed to the recursive call
pub trait VClone: Sized { fn vclone(&self) -> (r: Self) ensures r == *self; }
impl VClone for Ty { #[verifier::external_body] fn vclone(&self) -> (r: Self) { unimplemented!() } }
impl VClone for String { #[verifier::external_body] fn vclone(&self) -> (r: Self) { unimplemented!() } }
// lift::ScopeEntry / Scope: what is known about a variable in scope
pub struct ScopeEntry { pub ty: Ty, pub closure_struct: Option<String> }
#[verifier::external_body] pub struct Scope { _p: u64 }
impl Scope {
    pub uninterp spec fn entry_of(&self, name: Seq<char>) -> Option<ScopeEntry>;
    // the stack of layers (innermost last); entry_of looks a name up from the innermost layer outwards
    pub uninterp spec fn layers(&self) -> Seq<Map<Seq<char>, ScopeEntry>>;
    #[verifier::external_body] pub fn push_layer(&mut self) ensures final(self).layers() == old(self).layers().push(Map::<Seq<char>, ScopeEntry>::empty()) { unimplemented!() }
    #[verifier::external_body] pub fn pop_layer(&mut self) requires old(self).layers().len() > 0, ensures final(self).layers() == old(self).layers().drop_last() { unimplemented!() }
    #[verifier::external_body]
    pub fn insert(&mut self, name: String, entry: ScopeEntry)
        requires old(self).layers().len() > 0,
        ensures final(self).layers() == old(self).layers().drop_last().push(old(self).layers().last().insert(name@, entry)),
    { unimplemented!() }
    #[verifier::external_body] pub fn get(&self, name: &str) -> (r: Option<&ScopeEntry>) ensures r matches Some(e) ==> self.entry_of(name@) == Some(*e), r is None ==> self.entry_of(name@) is None { unimplemented!() }
}
impl VClone for Option<String> { #[verifier::external_body] fn vclone(&self) -> (r: Self) { unimplemented!() } }
#[verifier::external_body] pub fn str_to_string(s: &str) -> (r: String) ensures r@ == s@ { unimplemented!() }
#[verifier::external_body] pub fn vec_extend_lift(v: &mut Vec<LiftExpr>, more: Vec<LiftExpr>) ensures final(v)@ == old(v)@ + more@ { unimplemented!() }   // Vec::extend(Vec)
// the lifting state: which struct names are closure environments (State::closure_types)
#[verifier::external_body] pub struct State { _p: u64 }
impl State {
    pub uninterp spec fn closure_of(&self, ty: Ty) -> Option<String>;     // State::closure_struct_for_ty
    #[verifier::external_body] pub fn closure_struct_for_ty(&self, ty: &Ty) -> (r: Option<String>) ensures r == self.closure_of(*ty) { unimplemented!() }
    pub uninterp spec fn apply_of(&self, struct_name: Seq<char>) -> Option<Seq<char>>;                  // State::apply_fn_for_struct
    #[verifier::external_body] pub fn apply_fn_for_struct(&self, struct_name: &str) -> (r: Option<&str>) ensures r matches Some(a) ==> self.apply_of(struct_name@) == Some(a@), r is None ==> self.apply_of(struct_name@) is None { unimplemented!() }
    pub uninterp spec fn contains_closure(&self, ty: Ty) -> bool;                                       // State::ty_contains_closure
    #[verifier::external_body] pub fn ty_contains_closure(&self, ty: &Ty) -> (r: bool) ensures r == self.contains_closure(*ty) { unimplemented!() }
    pub uninterp spec fn func_ty(&self, name: Seq<char>) -> Option<Ty>;                                   // state.liftenv.get_func(name)
    #[verifier::external_body] pub fn get_func_ty(&self, name: &str) -> (r: Option<Ty>) ensures r == self.func_ty(name@) { unimplemented!() }
}
// the recursive call (an arbitrary lifted expression; the state may change, but not which types are closure environments)
#[verifier::external_body]
pub fn transform_expr(state: &mut State, scope: &mut Scope, expr: MonoExpr) -> (r: LiftExpr)
    ensures forall|t: Ty| final(state).closure_of(t) == old(state).closure_of(t), forall|n: Seq<char>| final(scope).entry_of(n) == old(scope).entry_of(n), forall|n: Seq<char>| final(state).apply_of(n) == old(state).apply_of(n), final(scope).layers() == old(scope).layers(),
{ unimplemented!() }
#[verifier::external_body] pub fn unbox(b: Box<MonoExpr>) -> (r: MonoExpr) { unimplemented!() }      // `*tuple`
// the type carried by a lifted expression
pub open spec fn lift_ty(e: LiftExpr) -> Ty {
    match e {
        LiftExpr::EVar { ty, .. } => ty, LiftExpr::EPrim { ty, .. } => ty, LiftExpr::EConstr { ty, .. } => ty, LiftExpr::ETuple { ty, .. } => ty,
        LiftExpr::EArray { ty, .. } => ty, LiftExpr::ELet { ty, .. } => ty, LiftExpr::EMatch { ty, .. } => ty, LiftExpr::EIf { ty, .. } => ty,
        LiftExpr::EWhile { ty, .. } => ty, LiftExpr::EGo { ty, .. } => ty, LiftExpr::EConstrGet { ty, .. } => ty, LiftExpr::EUnary { ty, .. } => ty,
        LiftExpr::EBinary { ty, .. } => ty, LiftExpr::ECall { ty, .. } => ty, LiftExpr::EToDyn { ty, .. } => ty, LiftExpr::EDynCall { ty, .. } => ty,
        LiftExpr::EProj { ty, .. } => ty,
    }
}
// the types of a tuple's items, in order
pub open spec fn item_tys(items: Seq<LiftExpr>, typs: Seq<Ty>) -> bool {
    typs.len() == items.len() && forall|i: int| 0 <= i < items.len() ==> #[trigger] typs[i] == lift_ty(items[i])
}
// struct literal: a field whose argument holds closure environment s is re-declared as that struct; every other field keeps its type
pub open spec fn fields_retyped(old_f: Seq<(TastIdent, Ty)>, new_f: Seq<(TastIdent, Ty)>, cs: Seq<Option<String>>) -> bool {
    new_f.len() == old_f.len()
    && forall|i: int| 0 <= i < old_f.len() ==> (#[trigger] new_f[i]).0 == old_f[i].0
        && new_f[i].1 == (if i < cs.len() && cs[i] is Some { Ty::TStruct { name: cs[i]->0 } } else { old_f[i].1 })
}
// the closure struct a scope entry stands for: the recorded one, else the one its type names
pub open spec fn entry_closure(state: &State, e: ScopeEntry) -> Option<String> {
    if e.closure_struct is Some { e.closure_struct } else { state.closure_of(e.ty) }
}
// a call whose callee is a variable holding closure environment s with apply function f becomes `f(x: s, args..)`:
// the closure itself first, the original arguments after it, in order
// the type of a call of apply function f: f's own result type when that holds a closure environment (a closure that yields a closure), else
// the type the call had before lifting
pub open spec fn apply_call_ty(state: &State, f: Seq<char>, ty: Ty) -> Ty {
    match state.func_ty(f) {
        Some(Ty::TFunc { ret_ty, .. }) => if state.contains_closure(*ret_ty) { *ret_ty } else { ty },
        _ => ty,
    }
}
pub open spec fn closure_call(state: &State, r: LiftExpr, x: Seq<char>, e: ScopeEntry, s: String, f: Seq<char>, args: Seq<LiftExpr>, ty: Ty) -> bool {
    r matches LiftExpr::ECall { func, args: ca, ty: rt } && rt == apply_call_ty(state, f, ty)
    && (*func matches LiftExpr::EVar { name: fnm, ty: fty } && fnm@ == f && fty == e.ty)
    && ca@.len() == args.len() + 1
    && (ca@[0] matches LiftExpr::EVar { name: cn, ty: cty } && cn@ == x && cty == Ty::TStruct { name: s })
    && ca@.subrange(1, ca@.len() as int) == args
}
#[verifier::external_body] pub fn ty_unbox_clone(b: &Box<Ty>) -> (r: Ty) ensures r == **b { unimplemented!() }     // *ret_ty.clone()
// fe / la: the lifted callee and the lifted arguments.  C08: "called from any position a function type allows": whenever the callee holds a
// closure environment with an apply function — known from the variable's scope entry or from the callee's lifted type — the call goes to
// that function with the closure first; only a callee that is no closure is kept as it is
pub open spec fn call_ok(r: LiftExpr, fe: LiftExpr, la: Seq<LiftExpr>, scope: &Scope, state: &State, ty: Ty) -> bool {
    if fe is EVar && scope.entry_of(fe->EVar_name@) is Some && entry_closure(state, scope.entry_of(fe->EVar_name@)->0) is Some
        && state.apply_of(entry_closure(state, scope.entry_of(fe->EVar_name@)->0)->0@) is Some {
        let e = scope.entry_of(fe->EVar_name@)->0;
        let s = entry_closure(state, e)->0;
        closure_call(state, r, fe->EVar_name@, e, s, state.apply_of(s@)->0, la, ty)
    } else if state.closure_of(lift_ty(fe)) is Some && state.apply_of(state.closure_of(lift_ty(fe))->0@) is Some {
        // the callee is no such variable, but its VALUE is a closure environment (a call result, a projection, ..): same treatment
        value_closure_call(state, r, fe, state.apply_of(state.closure_of(lift_ty(fe))->0@)->0, la, ty)
    } else {
        r matches LiftExpr::ECall { func, args, ty: _ } && *func == fe && args@ == la
    }
}
pub open spec fn value_closure_call(state: &State, r: LiftExpr, fe: LiftExpr, f: Seq<char>, args: Seq<LiftExpr>, ty: Ty) -> bool {
    r matches LiftExpr::ECall { func, args: ca, ty: rt } && rt == apply_call_ty(state, f, ty)
    && (*func matches LiftExpr::EVar { name: fnm, .. } && fnm@ == f)
    && ca@.len() == args.len() + 1 && ca@[0] == fe
    && ca@.subrange(1, ca@.len() as int) == args
}
// the transformation of a let's BODY: a gate whose precondition says what the body must see — the let-bound variable in the innermost
// layer, with the lifted VALUE's type and the closure environment that type names (so calls through it go to the apply function)
#[verifier::external_body]
pub fn transform_let_body(state: &mut State, scope: &mut Scope, expr: MonoExpr, Ghost(name): Ghost<Seq<char>>, Ghost(vty): Ghost<Ty>) -> (r: LiftExpr)
    requires old(scope).layers().len() > 0, old(scope).layers().last().contains_key(name),
        old(scope).layers().last()[name] == (ScopeEntry { ty: vty, closure_struct: old(state).closure_of(vty) }),
    ensures final(scope).layers() == old(scope).layers(), forall|t: Ty| final(state).closure_of(t) == old(state).closure_of(t),
{ unimplemented!() }
#[verifier::external_body] pub fn transform_closure_named(state: &mut State, scope: &mut Scope, params: Vec<ClosureParam>, body: MonoExpr, ty: Ty, name: Option<String>) -> (r: LiftExpr)
    ensures final(scope).layers() == old(scope).layers(), forall|t: Ty| final(state).closure_of(t) == old(state).closure_of(t),
{ unimplemented!() }
#[verifier::external_body] pub struct ClosureParam { _p: u64 }
// what `*value` is: a closure literal (lifted with the binding's name) or anything else
pub enum LetValue { Closure { params: Vec<ClosureParam>, body: Box<MonoExpr>, ty: Ty }, Other(MonoExpr) }
#[verifier::external_body] pub fn let_value_of(value: Box<MonoExpr>) -> (r: LetValue) { unimplemented!() }
#[verifier::external_body] pub fn unbox_ty(b: Box<Ty>) -> (r: Ty) ensures r == *b { unimplemented!() }          // `*ret_ty` on an owned Box
#[verifier::external_body] pub fn ty_ne(a: &Ty, b: &Ty) -> (r: bool) ensures r == (*a != *b) { unimplemented!() }           // derived PartialEq
// C08 ("every flow of a function value (.. array ..)"): an item of an array literal that holds a closure environment has exactly the array's
// element type — otherwise the element comes out again at the pre-lifting function type and is "called" as a Go func
pub open spec fn array_items_typed(state: &State, items: Seq<LiftExpr>, at: Ty) -> bool {
    forall|i: int| 0 <= i < items.len() && state.contains_closure(lift_ty(#[trigger] items[i])) ==> (at matches Ty::TArray { elem, .. } && *elem == lift_ty(items[i]))
}


// ---- a variable use (fragment lift_var): the type comes from the innermost scope entry, which records what the lifting made of the binder ----
pub open spec fn var_ty_ok(scope: &Scope, state: &State, name: Seq<char>, own: Ty, t: Ty) -> bool {
    match scope.entry_of(name) {
        Some(e) => match e.closure_struct {
            Some(s) => t matches Ty::TStruct { name: sn } && sn@ == s@,
            None => t == e.ty,
        },
        None => match state.func_ty(name) { Some(ft) => t == ft, None => t == own },
    }
}

// ---- the per-function tail of lift::lambda_lift (fragment lift_fn_ret): the emitted function and the type recorded for its callers agree ----
impl State {
    #[verifier::external_body]
    pub fn insert_func_ty(&mut self, name: String, ty: Ty)                                             // state.liftenv.insert_func(name, ty)
        ensures final(self).func_ty(name@) == Some(ty), forall|n: Seq<char>| n != name@ ==> final(self).func_ty(n) == old(self).func_ty(n),
                forall|t: Ty| final(self).contains_closure(t) == old(self).contains_closure(t), forall|t: Ty| final(self).closure_of(t) == old(self).closure_of(t),
    { unimplemented!() }
}
impl VClone for Vec<(String, Ty)> { #[verifier::external_body] fn vclone(&self) -> (r: Self) { unimplemented!() } }
// the result type a lifted function gets: the lifted body's type when that differs from the declared one and holds a closure environment
// (a function RETURNING a closure returns the environment struct), else the declared type
pub open spec fn lifted_ret(state: &State, declared: Ty, body_ty: Ty) -> Ty {
    if body_ty != declared && state.contains_closure(body_ty) { body_ty } else { declared }
}
pub open spec fn fn_emitted_ok(st0: &State, st1: &State, name: String, params: Vec<(String, Ty)>, declared: Ty, body: LiftExpr, out0: Seq<LiftFn>, out1: Seq<LiftFn>) -> bool {
    out1.len() == out0.len() + 1 && out1.subrange(0, out0.len() as int) =~= out0
    && ({ let g = out1[out0.len() as int];
          g.name == name && g.params == params && g.body == body && g.ret_ty == lifted_ret(st0, declared, lift_ty(body))
          // callers read the function's type from the environment: it is the type of the function as emitted
          && (st1.func_ty(name@) matches Some(ft) && (ft matches Ty::TFunc { params: ps, ret_ty }
              && *ret_ty == g.ret_ty && ps@.len() == params@.len() && forall|i: int| 0 <= i < ps@.len() ==> #[trigger] ps@[i] == params@[i].1)) })
}

// ---- fragment lift_constr_get: a field taken out of a struct / variant carries the field's type AS THE LIFTING RE-DECLARED IT ----
pub uninterp spec fn struct_field_spec(st: &State, type_name: TastIdent, idx: usize) -> Option<Ty>;        // lift::get_struct_field_ty
pub uninterp spec fn enum_field_spec(st: &State, c: EnumConstructor, idx: usize) -> Option<Ty>;            // lift::get_enum_field_ty
#[verifier::external_body] pub fn get_struct_field_ty(state: &State, struct_name: &TastIdent, field_index: usize) -> (r: Option<Ty>) ensures r == struct_field_spec(state, *struct_name, field_index) { unimplemented!() }
#[verifier::external_body] pub fn get_enum_field_ty(state: &State, constructor: &EnumConstructor, field_index: usize) -> (r: Option<Ty>) ensures r == enum_field_spec(state, *constructor, field_index) { unimplemented!() }
pub open spec fn constr_get_ty_ok(st: &State, c: Constructor, idx: usize, own: Ty, t: Ty) -> bool {
    let declared = match c { Constructor::Struct(sc) => struct_field_spec(st, sc.type_name, idx), Constructor::Enum(ec) => enum_field_spec(st, ec, idx) };
    match declared { Some(d) => t == d, None => t == own }
}

// ---- fragment lift_if: C08 ("stored, returned, passed .. from any position a function type allows"): an `if` whose lifted branch holds a closure
// environment has exactly that branch's type — otherwise the value comes out at the pre-lifting function type and is "called" as a Go func
pub open spec fn if_branches_typed(state: &State, t: LiftExpr, e: LiftExpr, ty: Ty) -> bool {
    (state.contains_closure(lift_ty(t)) ==> ty == lift_ty(t)) && (state.contains_closure(lift_ty(e)) ==> ty == lift_ty(e))
}
