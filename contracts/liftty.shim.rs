// ---- shims / specification for U-LIFTTY (C08: the types lambda lifting puts on tuples, projections and struct fields) ----
#[verifier::external_body] pub struct Prim { _p: u64 }
#[verifier::external_body] pub struct UnaryOp { _p: u64 }
#[verifier::external_body] pub struct BinaryOp { _p: u64 }
#[verifier::external_body] pub struct EnumConstructor { _p: u64 }
#[verifier::external_body] pub struct TypeVar { _p: u32 }
#[verifier::external_body] pub struct MonoExpr { _p: u64 }             // the expression before lifting: only handed to the recursive call
pub trait VClone: Sized { fn vclone(&self) -> (r: Self) ensures r == *self; }
impl VClone for Ty { #[verifier::external_body] fn vclone(&self) -> (r: Self) { unimplemented!() } }
impl VClone for String { #[verifier::external_body] fn vclone(&self) -> (r: Self) { unimplemented!() } }
#[verifier::external_body] pub struct Scope { _p: u64 }
// the lifting state: which struct names are closure environments (State::closure_types)
#[verifier::external_body] pub struct State { _p: u64 }
impl State {
    pub uninterp spec fn closure_of(&self, ty: Ty) -> Option<String>;     // State::closure_struct_for_ty
    #[verifier::external_body] pub fn closure_struct_for_ty(&self, ty: &Ty) -> (r: Option<String>) ensures r == self.closure_of(*ty) { unimplemented!() }
}
// the recursive call (an arbitrary lifted expression; the state may change, but not which types are closure environments)
#[verifier::external_body]
pub fn transform_expr(state: &mut State, scope: &mut Scope, expr: MonoExpr) -> (r: LiftExpr)
    ensures forall|t: Ty| final(state).closure_of(t) == old(state).closure_of(t),
{ unimplemented!() }
#[verifier::external_body] pub fn unbox(b: Box<MonoExpr>) -> (r: MonoExpr) { unimplemented!() }      // `*tuple`
// the type carried by a lifted expression
pub open spec fn lift_ty(e: LiftExpr) -> Ty {
    match e {
        LiftExpr::EVar { ty, .. } => ty, LiftExpr::EPrim { ty, .. } => ty, LiftExpr::EConstr { ty, .. } => ty, LiftExpr::ETuple { ty, .. } => ty,
        LiftExpr::EArray { ty, .. } => ty, LiftExpr::ELet { ty, .. } => ty, LiftExpr::EMatch { ty, .. } => ty, LiftExpr::EIf { ty, .. } => ty,
        LiftExpr::EWhile { ty, .. } => ty, LiftExpr::EGo { ty, .. } => ty, LiftExpr::EConstrGet { ty, .. } => ty, LiftExpr::EUnary { ty, .. } => ty,
        LiftExpr::EBinary { ty, .. } => ty, LiftExpr::ECall { ty, .. } => ty, LiftExpr::EToDyn { ty, .. } => ty, LiftExpr::EDynCall { ty, .. } => ty,
        LiftExpr::EProj { ty, .. } => ty,
    }
}
// the types of a tuple's items, in order
pub open spec fn item_tys(items: Seq<LiftExpr>, typs: Seq<Ty>) -> bool {
    typs.len() == items.len() && forall|i: int| 0 <= i < items.len() ==> #[trigger] typs[i] == lift_ty(items[i])
}
// struct literal: a field whose argument holds closure environment s is re-declared as that struct; every other field keeps its type
pub open spec fn fields_retyped(old_f: Seq<(TastIdent, Ty)>, new_f: Seq<(TastIdent, Ty)>, cs: Seq<Option<String>>) -> bool {
    new_f.len() == old_f.len()
    && forall|i: int| 0 <= i < old_f.len() ==> (#[trigger] new_f[i]).0 == old_f[i].0
        && new_f[i].1 == (if i < cs.len() && cs[i] is Some { Ty::TStruct { name: cs[i]->0 } } else { old_f[i].1 })
}
