// ---- shims for U-HIRORDER (C13: the order in which the packages of a project are lowered — it fixes the package ids of the project HIR) ----
#[verifier::external_body] pub struct Grouped { _p: u64 }          // HashMap<PackageName, Vec<SourceFileAst>>: ITERATION ORDER IS NOT A FUNCTION OF THE CONTENTS
#[verifier::external_body] pub struct PackageName { _p: u64 }
#[verifier::external_body] pub fn main_name() -> (r: PackageName) { unimplemented!() }          // PackageName("Main".to_string())
impl Grouped { #[verifier::external_body] pub fn contains_key(&self, k: &PackageName) -> (r: bool) { unimplemented!() } }
// NVec = a Vec<PackageName>; `det`: its element ORDER is a function of the program (see discover.shim.rs for the discipline)
#[verifier::external_body] pub struct NVec { _p: u64 }
impl NVec {
    pub uninterp spec fn det(&self) -> bool;
    #[verifier::external_body] pub fn new() -> (r: Self) ensures r.det() { unimplemented!() }
    // `grouped.keys().[filter(..).]cloned().collect()`: the keys of a hash map in iteration order
    #[verifier::external_body] pub fn from_hash_keys(g: &Grouped) -> (r: Self) ensures !r.det() { unimplemented!() }
    #[verifier::external_body] pub fn from_hash_keys_not_main(g: &Grouped) -> (r: Self) ensures !r.det() { unimplemented!() }
    // `v.sort_by(|a, b| a.0.cmp(&b.0))` / `v.sort()`: a total order on the names — the result is a function of the contents
    #[verifier::external_body] pub fn sort_by_name(&mut self) ensures final(self).det() { unimplemented!() }
    // `v.sort_by_key(f)` / `v.sort_by(..)` with any other key: a STABLE sort — elements with equal keys keep their relative order, so the
    // result is a function of the contents only if the input order already was
    #[verifier::external_body] pub fn stable_sort_by_other_key(&mut self) ensures final(self).det() == old(self).det() { unimplemented!() }
    #[verifier::external_body] pub fn push(&mut self, n: PackageName) ensures final(self).det() == old(self).det() { unimplemented!() }
    #[verifier::external_body] pub fn extend(&mut self, other: NVec) ensures final(self).det() == (old(self).det() && other.det()) { unimplemented!() }
}
