// ---- shims for U-TMONO ----
#[verifier::external_body] pub struct TypeVar { _p: u32 }
#[verifier::external_body] pub struct GlobalMonoEnv { _p: u64 }
// IndexMap<TastIdent, EnumDef/StructDef>: only key membership (by the identifier's text) matters here
#[verifier::external_body]
#[verifier::reject_recursive_types(V)]
pub struct DefMap<V> { _v: core::marker::PhantomData<V> }
impl<V> DefMap<V> {
    pub uninterp spec fn keys(&self) -> Set<Seq<char>>;
    #[verifier::external_body]
    pub fn contains_key(&self, k: &TastIdent) -> (r: bool) ensures r == self.keys().contains(k.0@) { unimplemented!() }
}
#[verifier::external_body] pub struct InstMap { _p: u64 }      // IndexMap<(String, Vec<Ty>), TastIdent>

// Ty::get_constr_name_unsafe (tast.rs): the head constructor's name; panics on anything else (a precondition here)
pub open spec fn has_constr_name(t: Ty) -> bool
    decreases t,
{
    match t { Ty::TEnum { .. } | Ty::TStruct { .. } | Ty::TVec { .. } | Ty::TRef { .. } => true, Ty::TApp { ty, .. } => has_constr_name(*ty), _ => false }
}
pub open spec fn constr_name(t: Ty) -> Seq<char>
    decreases t,
{
    match t {
        Ty::TEnum { name } => name@, Ty::TStruct { name } => name@, Ty::TApp { ty, .. } => constr_name(*ty),
        Ty::TVec { .. } => "Vec"@, Ty::TRef { .. } => "Ref"@, _ => Seq::<char>::empty(),
    }
}
#[verifier::external_body]
pub fn get_constr_name_unsafe(t: &Ty) -> (r: String)
    requires has_constr_name(*t),
    ensures r@ == constr_name(*t),
{ unimplemented!() }
#[verifier::external_body]
pub fn tast_ident_new(name: &str) -> (r: TastIdent) ensures r.0@ == name@ { unimplemented!() }
#[verifier::external_body]
pub fn string_clone(a: &String) -> (r: String) ensures r == *a { unimplemented!() }
#[verifier::external_body]
pub fn ty_clone(a: &Ty) -> (r: Ty) ensures r == *a { unimplemented!() }

// ---- C07: after type monomorphisation no application of a generic enum/struct remains ----
// `known` = the generic enum and struct definitions by name
pub open spec fn collapsed(t: Ty, known: Set<Seq<char>>) -> bool
    decreases t,
{
    match t {
        Ty::TApp { ty, args } => !(args.len() > 0 && has_constr_name(*ty) && known.contains(constr_name(*ty)))
            && collapsed(*ty, known) && forall|i: int| 0 <= i < args.len() ==> collapsed(#[trigger] args[i], known),
        Ty::TTuple { typs } => forall|i: int| 0 <= i < typs.len() ==> collapsed(#[trigger] typs[i], known),
        Ty::TFunc { params, ret_ty } => collapsed(*ret_ty, known) && forall|i: int| 0 <= i < params.len() ==> collapsed(#[trigger] params[i], known),
        Ty::TArray { elem, .. } => collapsed(*elem, known),
        Ty::TVec { elem } => collapsed(*elem, known),
        Ty::TRef { elem } => collapsed(*elem, known),
        _ => true,
    }
}
// every application inside t is `Name[args]` with a plain enum/struct name as head (what the typer produces; for other heads
// get_constr_name_unsafe panics or the head itself would be rewritten)
pub open spec fn apps_wellformed(t: Ty) -> bool
    decreases t,
{
    match t {
        Ty::TApp { ty, args } => (*ty is TEnum || *ty is TStruct) && forall|i: int| 0 <= i < args.len() ==> apps_wellformed(#[trigger] args[i]),
        Ty::TTuple { typs } => forall|i: int| 0 <= i < typs.len() ==> apps_wellformed(#[trigger] typs[i]),
        Ty::TFunc { params, ret_ty } => apps_wellformed(*ret_ty) && forall|i: int| 0 <= i < params.len() ==> apps_wellformed(#[trigger] params[i]),
        Ty::TArray { elem, .. } => apps_wellformed(*elem),
        Ty::TVec { elem } => apps_wellformed(*elem),
        Ty::TRef { elem } => apps_wellformed(*elem),
        _ => true,
    }
}
impl<'a> TypeMono<'a> {
    pub open spec fn known(&self) -> Set<Seq<char>> { self.enum_base.keys().union(self.struct_base.keys()) }
}
