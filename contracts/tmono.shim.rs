// ---- shims for U-TMONO ----
#[verifier::external_body] pub struct TypeVar { _p: u32 }
#[verifier::external_body] pub struct GlobalMonoEnv { _p: u64 }
// IndexMap<TastIdent, EnumDef/StructDef>: only key membership (by the identifier's text) matters here
#[verifier::external_body]
#[verifier::reject_recursive_types(V)]
pub struct DefMap<V> { _v: core::marker::PhantomData<V> }
impl<V> DefMap<V> {
    pub uninterp spec fn keys(&self) -> Set<Seq<char>>;
    #[verifier::external_body]
    pub fn contains_key(&self, k: &TastIdent) -> (r: bool) ensures r == self.keys().contains(k.0@) { unimplemented!() }
}
// IndexMap<(String, Vec<Ty>), TastIdent>: the instance table (opaque here: only that lookups/inserts do not touch anything else)
#[verifier::external_body] pub struct InstMap { _p: u64 }
impl InstMap {
    // which instantiation keys are memoised (the mapped names are not specified)
    pub uninterp spec fn has(&self, k: (Seq<char>, Seq<Ty>)) -> bool;
    // the names handed out so far (the table's values)
    pub uninterp spec fn names(&self) -> Set<Seq<char>>;
    #[verifier::external_body] pub fn has_name(&self, n: &TastIdent) -> (r: bool) ensures r == self.names().contains(n.0@) { unimplemented!() }      // self.map.values().any(|v| *v == n)
    #[verifier::external_body]
    pub fn get(&self, k: &(String, Vec<Ty>)) -> (r: Option<&TastIdent>)
        ensures (r is Some) == self.has((k.0@, k.1@)),
    { unimplemented!() }
    #[verifier::external_body]
    pub fn insert(&mut self, k: (String, Vec<Ty>), v: TastIdent) -> (r: Option<TastIdent>)
        ensures forall|q: (Seq<char>, Seq<Ty>)| #[trigger] final(self).has(q) == (old(self).has(q) || q == (k.0@, k.1@)),
    { unimplemented!() }
}
// the memo table only grows
pub open spec fn memo_grows(o: InstMap, n: InstMap) -> bool { forall|q: (Seq<char>, Seq<Ty>)| #[trigger] o.has(q) ==> n.has(q) }
impl<V> DefMap<V> {
    pub uninterp spec fn at(&self, k: Seq<char>) -> V;
    #[verifier::external_body]
    pub fn get(&self, k: &TastIdent) -> (r: Option<&V>)
        ensures r matches Some(v) ==> self.keys().contains(k.0@) && *v == self.at(k.0@), r is None ==> !self.keys().contains(k.0@),
    { unimplemented!() }
}
// the substitution built for one instance: IndexMap<String, Ty>, a finite map by parameter name
#[verifier::external_body]
#[verifier::reject_recursive_types(K)]
#[verifier::reject_recursive_types(V)]
pub struct IndexMap<K, V> { _k: core::marker::PhantomData<(K, V)> }
impl IndexMap<String, Ty> {
    pub uninterp spec fn view(&self) -> Map<Seq<char>, Ty>;
    #[verifier::external_body]
    pub fn new() -> (r: Self) ensures r@ == Map::<Seq<char>, Ty>::empty() { unimplemented!() }
    #[verifier::external_body]
    pub fn insert(&mut self, k: String, v: Ty) -> (r: Option<Ty>) ensures final(self)@ == old(self)@.insert(k@, v) { unimplemented!() }
}
#[verifier::external_body]
pub fn subst_ty(ty: &Ty, s: &IndexMap<String, Ty>) -> (r: Ty)
    // mono::subst_ty keeps application heads as they are and only replaces type parameters (by the bound types)
    ensures r == subst_ty_spec(*ty, *s),
{ unimplemented!() }
// what subst_ty does to well-formedness (assumed; subst_ty itself is not in this unit)
pub broadcast proof fn subst_ty_twf(ty: Ty, s: IndexMap<String, Ty>, r: Ty, enums: DefMap<EnumDef>, structs: DefMap<StructDef>)
    requires twf(ty, enums, structs), forall|k: Seq<char>| s@.contains_key(k) ==> twf(#[trigger] s@[k], enums, structs),
        #[trigger] subst_ty_spec(ty, s) == r,
    ensures #[trigger] twf(r, enums, structs),
{ admit(); }
pub uninterp spec fn subst_ty_spec(ty: Ty, s: IndexMap<String, Ty>) -> Ty;
impl GlobalMonoEnv {
    #[verifier::external_body] pub fn insert_enum(&mut self, d: EnumDef) { unimplemented!() }
    #[verifier::external_body] pub fn insert_struct(&mut self, d: StructDef) { unimplemented!() }
}
#[verifier::external_body]
pub fn ident_clone(a: &TastIdent) -> (r: TastIdent) ensures r == *a { unimplemented!() }
#[verifier::external_body]
pub fn key_of(name: &str, args: &Vec<Ty>) -> (r: (String, Vec<Ty>)) ensures r.0@ == name@, r.1@ == args@ { unimplemented!() }
#[verifier::external_body]
pub fn key_clone(k: &(String, Vec<Ty>)) -> (r: (String, Vec<Ty>)) ensures r == *k { unimplemented!() }
#[verifier::external_body]
pub fn enumdef_variants_clone(d: &EnumDef) -> (r: Vec<(TastIdent, Vec<Ty>)>) ensures r@ == d.variants@ { unimplemented!() }
#[verifier::external_body]
pub fn structdef_fields_clone(d: &StructDef) -> (r: Vec<(TastIdent, Ty)>) ensures r@ == d.fields@ { unimplemented!() }
#[verifier::external_body]
pub fn structdef_clone(d: &StructDef) -> (r: StructDef) ensures r == *d { unimplemented!() }
#[verifier::external_body]
pub fn rt_msg() -> (r: String) { unimplemented!() }
#[verifier::external_body]
pub fn rt_empty_string() -> (r: String) { unimplemented!() }

// the definitions the typer hands over: application heads are plain names everywhere in the generic definitions
pub open spec fn distinct_names(g: Seq<TastIdent>) -> bool { forall|i: int, j: int| 0 <= i < j < g.len() ==> g[i].0@ != g[j].0@ }
pub open spec fn enumdef_ok(d: EnumDef, enums: DefMap<EnumDef>, structs: DefMap<StructDef>) -> bool {
    distinct_names(d.generics@) &&
    forall|i: int, j: int| 0 <= i < d.variants@.len() && 0 <= j < d.variants@[i].1@.len() ==> twf(#[trigger] d.variants@[i].1@[j], enums, structs)
}
pub open spec fn structdef_ok(d: StructDef, enums: DefMap<EnumDef>, structs: DefMap<StructDef>) -> bool {
    distinct_names(d.generics@) &&
    forall|i: int| 0 <= i < d.fields@.len() ==> twf((#[trigger] d.fields@[i]).1, enums, structs)
}
// C07: an instance is the generic definition with its parameters bound to exactly the instantiation arguments
pub open spec fn binds_params(s: Map<Seq<char>, Ty>, generics: Seq<TastIdent>, args: Seq<Ty>, n: int) -> bool {
    &&& forall|j: int| 0 <= j < n ==> s.contains_key((#[trigger] generics[j]).0@) && s[generics[j].0@] == args[j]
    &&& forall|k: Seq<char>| s.contains_key(k) ==> exists|j: int| 0 <= j < n && (#[trigger] generics[j]).0@ == k
}

// Ty::get_constr_name_unsafe (tast.rs): the head constructor's name; panics on anything else (a precondition here)
pub open spec fn has_constr_name(t: Ty) -> bool
    decreases t,
{
    match t { Ty::TEnum { .. } | Ty::TStruct { .. } | Ty::TVec { .. } | Ty::TRef { .. } => true, Ty::TApp { ty, .. } => has_constr_name(*ty), _ => false }
}
pub open spec fn constr_name(t: Ty) -> Seq<char>
    decreases t,
{
    match t {
        Ty::TEnum { name } => name@, Ty::TStruct { name } => name@, Ty::TApp { ty, .. } => constr_name(*ty),
        Ty::TVec { .. } => "Vec"@, Ty::TRef { .. } => "Ref"@, _ => Seq::<char>::empty(),
    }
}
#[verifier::external_body]
pub fn get_constr_name_unsafe(t: &Ty) -> (r: String)
    requires has_constr_name(*t),
    ensures r@ == constr_name(*t),
{ unimplemented!() }
#[verifier::external_body]
pub fn tast_ident_new(name: &str) -> (r: TastIdent) ensures r.0@ == name@ { unimplemented!() }
#[verifier::external_body]
pub fn string_clone(a: &String) -> (r: String) ensures r == *a { unimplemented!() }
#[verifier::external_body]
pub fn ty_clone(a: &Ty) -> (r: Ty) ensures r == *a { unimplemented!() }

// ---- C07: after type monomorphisation no application of a generic enum/struct remains ----
// `known` = the generic enum and struct definitions by name
pub open spec fn collapsed(t: Ty, known: Set<Seq<char>>) -> bool
    decreases t,
{
    match t {
        Ty::TApp { ty, args } => !(args.len() > 0 && has_constr_name(*ty) && known.contains(constr_name(*ty)))
            && collapsed(*ty, known) && forall|i: int| 0 <= i < args.len() ==> collapsed(#[trigger] args[i], known),
        Ty::TTuple { typs } => forall|i: int| 0 <= i < typs.len() ==> collapsed(#[trigger] typs[i], known),
        Ty::TFunc { params, ret_ty } => collapsed(*ret_ty, known) && forall|i: int| 0 <= i < params.len() ==> collapsed(#[trigger] params[i], known),
        Ty::TArray { elem, .. } => collapsed(*elem, known),
        Ty::TVec { elem } => collapsed(*elem, known),
        Ty::TRef { elem } => collapsed(*elem, known),
        _ => true,
    }
}
// well-formed input types (what the typer produces; assumed): every application inside t is `Name[args]` with a plain enum/struct
// name as head, and a known generic is applied to as many arguments as it declares parameters
pub open spec fn arity_of(name: Seq<char>, enums: DefMap<EnumDef>, structs: DefMap<StructDef>) -> Option<int> {
    if enums.keys().contains(name) { Some(enums.at(name).generics@.len() as int) }
    else if structs.keys().contains(name) { Some(structs.at(name).generics@.len() as int) }
    else { None }
}
pub open spec fn twf(t: Ty, enums: DefMap<EnumDef>, structs: DefMap<StructDef>) -> bool
    decreases t,
{
    match t {
        Ty::TApp { ty, args } => (*ty is TEnum || *ty is TStruct)
            && (arity_of(constr_name(*ty), enums, structs) matches Some(n) ==> args.len() == n)
            && forall|i: int| 0 <= i < args.len() ==> twf(#[trigger] args[i], enums, structs),
        Ty::TTuple { typs } => forall|i: int| 0 <= i < typs.len() ==> twf(#[trigger] typs[i], enums, structs),
        Ty::TFunc { params, ret_ty } => twf(*ret_ty, enums, structs) && forall|i: int| 0 <= i < params.len() ==> twf(#[trigger] params[i], enums, structs),
        Ty::TArray { elem, .. } => twf(*elem, enums, structs),
        Ty::TVec { elem } => twf(*elem, enums, structs),
        Ty::TRef { elem } => twf(*elem, enums, structs),
        _ => true,
    }
}
impl<'a> TypeMono<'a> {
    pub open spec fn known(&self) -> Set<Seq<char>> { self.enum_base.keys().union(self.struct_base.keys()) }
    // the generic definitions are well formed and instantiated at their declared arity (established by the typer; assumed here)
    pub open spec fn defs_ok(&self) -> bool {
        &&& forall|k: Seq<char>| self.enum_base.keys().contains(k) ==> enumdef_ok(#[trigger] self.enum_base.at(k), self.enum_base, self.struct_base)
        &&& forall|k: Seq<char>| self.struct_base.keys().contains(k) ==> structdef_ok(#[trigger] self.struct_base.at(k), self.enum_base, self.struct_base)
    }
}
#[verifier::external_body] pub fn push_underscore(name: String) -> (r: String) { unimplemented!() }      // name.push('_')
