// ---- shims / specification for U-NORMSHAPE (C03: Typer::norm keeps the shape of a type; only inference variables are looked through) ----
#[verifier::external_body] pub struct Typer { _p: u64 }
// the recursive call: r is THE normal form of t (whatever the table says) — the induction hypothesis is only that the call was made on the right component
pub uninterp spec fn normed(t: Ty, r: Ty) -> bool;
#[verifier::external_body] pub fn vclone<T>(a: &T) -> (r: T) ensures r == *a { unimplemented!() }                 // `a.clone()` (derived Clone: an identical copy)
#[verifier::external_body] pub fn tv_copy(v: &TypeVar) -> (r: TypeVar) ensures r == *v { unimplemented!() }        // `*v` (TypeVar is Copy)
impl Typer {
    #[verifier::external_body] pub fn probe(&mut self, v: &TypeVar) -> (r: Option<Ty>) { unimplemented!() }          // self.uni.probe_value(*v)
    #[verifier::external_body] pub fn find(&mut self, v: &TypeVar) -> (r: TypeVar) { unimplemented!() }              // self.uni.find(*v): the class's representative
    #[verifier::external_body] pub fn norm_sub(&mut self, ty: &Ty) -> (r: Ty) ensures normed(*ty, r) { unimplemented!() }
}
pub open spec fn all_normed(a: Seq<Ty>, b: Seq<Ty>) -> bool { a.len() == b.len() && forall|i: int| 0 <= i < a.len() ==> normed(#[trigger] a[i], b[i]) }
// one level of norm: a type that is not an inference variable keeps its constructor, its names and its array length; every component is the normal form
// of the corresponding component (same position, same count).  A variable: its binding's normal form, or (unbound) a variable.
pub open spec fn norm_level(t: Ty, r: Ty) -> bool {
    match t {
        Ty::TVar(_) => r is TVar || exists|b: Ty| normed(b, r),
        Ty::TTuple { typs } => r matches Ty::TTuple { typs: t2 } && all_normed(typs@, t2@),
        Ty::TApp { ty, args } => r matches Ty::TApp { ty: h2, args: a2 } && normed(*ty, *h2) && all_normed(args@, a2@),
        Ty::TArray { len, elem } => r matches Ty::TArray { len: l2, elem: e2 } && l2 == len && normed(*elem, *e2),
        Ty::TVec { elem } => r matches Ty::TVec { elem: e2 } && normed(*elem, *e2),
        Ty::TRef { elem } => r matches Ty::TRef { elem: e2 } && normed(*elem, *e2),
        Ty::TFunc { params, ret_ty } => r matches Ty::TFunc { params: p2, ret_ty: r2 } && all_normed(params@, p2@) && normed(*ret_ty, *r2),
        _ => r == t,
    }
}
