// ---- shims / specification for U-MWORK (C07: an instance is the generic definition at its substitution, under its own name) ----
impl Ctx { pub uninterp spec fn orig_fn(&self, name: Seq<char>) -> Option<Fn>; }
#[verifier::external_body]
pub fn orig_fn_get<'a>(ctx: &'a Ctx, name: &String) -> (r: Option<&'a Fn>)
    ensures r matches Some(f) ==> ctx.orig_fn(name@) == Some(*f), r is None ==> ctx.orig_fn(name@) is None,
{ unimplemented!() }
#[verifier::external_body]
pub fn unreached<T>() -> (r: T) requires false { unimplemented!() }
// out1 is out0 plus ONE function: f at substitution s, named `name`
pub open spec fn instance_built(f: Fn, s: Map<Seq<char>, Ty>, name: String, out0: Seq<MonoFn>, out1: Seq<MonoFn>) -> bool {
    out1.len() == out0.len() + 1 && out1.subrange(0, out0.len() as int) =~= out0
    && ({ let g = out1[out0.len() as int];
          g.name == name
          && g.ret_ty == subst_res(f.ret_ty, s)
          && is_mono(f.body, s, g.body)
          && g.params@.len() == f.params@.len()
          && forall|j: int| 0 <= j < f.params@.len() ==> (#[trigger] g.params@[j]).0 == f.params@[j].0 && g.params@[j].1 == subst_res(f.params@[j].1, s) })
}
// derived Clone: an identical copy (method form, so that auto-deref picks the impl `.clone()` would)
pub trait VClone: Sized { fn vclone(&self) -> (r: Self) ensures r == *self; }
impl VClone for Ty { #[verifier::external_body] fn vclone(&self) -> (r: Self) { unimplemented!() } }
impl VClone for String { #[verifier::external_body] fn vclone(&self) -> (r: Self) { unimplemented!() } }
impl VClone for Expr { #[verifier::external_body] fn vclone(&self) -> (r: Self) { unimplemented!() } }
impl VClone for Vec<(String, Ty)> { #[verifier::external_body] fn vclone(&self) -> (r: Self) { unimplemented!() } }
