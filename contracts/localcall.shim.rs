// ---- shims / specification for U-LOCALCALL (C03: a call of a local function value agrees with the callee's type) ----
#[verifier::external_body] pub struct TypeVar { _p: u32 }
#[verifier::external_body] pub struct Prim { _p: u64 }
#[verifier::external_body] pub struct Constructor { _p: u64 }
pub struct ClosureParam { pub name: String, pub ty: Ty, pub astptr: Option<MySyntaxNodePtr> }        // tast::ClosureParam
#[verifier::external_body] #[derive(Clone, Copy)] pub struct MySyntaxNodePtr { _p: u64 }
#[verifier::external_body] #[derive(Clone, Copy)] pub struct ExprId { _p: u32 }
#[verifier::external_body] #[derive(Clone, Copy)] pub struct LocalId { _p: u32 }
#[verifier::external_body] pub struct PackageTypeEnv { _p: u64 }
#[verifier::external_body] pub struct Diagnostics { _p: u64 }
#[verifier::external_body] pub fn push_ice(diagnostics: &mut Diagnostics, msg: String) { unimplemented!() }
#[verifier::external_body] pub fn rt_msg() -> (r: String) { unimplemented!() }
#[verifier::external_body] pub struct LocalTypeEnv { _p: u64 }
impl LocalTypeEnv {
    #[verifier::external_body] pub fn lookup_var(&mut self, name: LocalId) -> (r: Option<Ty>) { unimplemented!() }      // the type the environment records for the local
}
pub trait VClone: Sized { fn vclone(&self) -> (r: Self) ensures r == *self; }
impl VClone for Ty { #[verifier::external_body] fn vclone(&self) -> (r: Self) { unimplemented!() } }
impl VClone for String { #[verifier::external_body] fn vclone(&self) -> (r: Self) { unimplemented!() } }
#[verifier::external_body] pub fn exprids_to_vec(a: &Vec<ExprId>) -> (r: Vec<ExprId>) ensures r@ == a@ { unimplemented!() }      // args.to_vec()
// r is an elaboration of the HIR expression e in inference mode (Typer::infer_expr)
pub uninterp spec fn inferred(e: ExprId, r: Expr) -> bool;
#[verifier::external_body] pub struct Typer { _p: u64 }
impl Typer {
    pub uninterp spec fn constraints(&self) -> Seq<Constraint>;
    pub uninterp spec fn recorded(&self) -> Set<Constraint>;        // the same constraints as a set: everything ever pushed (nothing is removed while an expression is elaborated)
    #[verifier::external_body] pub fn push_constraint(&mut self, c: Constraint) ensures final(self).constraints() == old(self).constraints().push(c), final(self).recorded() == old(self).recorded().insert(c) { unimplemented!() }
    #[verifier::external_body]
    pub fn infer_expr(&mut self, genv: &PackageTypeEnv, local_env: &mut LocalTypeEnv, diagnostics: &mut Diagnostics, e: ExprId) -> (r: Expr)
        ensures inferred(e, r), elaborated(e, r), old(self).recorded().subset_of(final(self).recorded()), final(diagnostics).errors() >= old(diagnostics).errors(),      // diagnostics only grow
    { unimplemented!() }
    #[verifier::external_body] pub fn fresh_ty_var(&mut self) -> (r: Ty) ensures final(self).constraints() == old(self).constraints(), final(self).recorded() == old(self).recorded() { unimplemented!() }
    #[verifier::external_body] pub fn error_expr(&mut self, astptr: Option<MySyntaxNodePtr>) -> (r: Expr) ensures final(self).constraints() == old(self).constraints(), final(self).recorded() == old(self).recorded(), !(r is ECall) { unimplemented!() }
    #[verifier::external_body] pub fn local_ident_name(&self, name: LocalId) -> (r: String) { unimplemented!() }                 // self.hir_table.local_ident_name
    #[verifier::external_body] pub fn record_expr_ty(&mut self, e: ExprId, ty: Ty) ensures final(self).constraints() == old(self).constraints(), final(self).recorded() == old(self).recorded() { unimplemented!() }
    #[verifier::external_body] pub fn record_name_ref_elab(&mut self, e: ExprId, elab: NameRefElab) ensures final(self).constraints() == old(self).constraints(), final(self).recorded() == old(self).recorded() { unimplemented!() }
    #[verifier::external_body] pub fn record_call_elab(&mut self, e: ExprId, elab: CallElab) ensures final(self).constraints() == old(self).constraints(), final(self).recorded() == old(self).recorded() { unimplemented!() }
}
pub open spec fn expr_ty(e: Expr) -> Ty {
    match e {
        Expr::EVar { ty, .. } => ty, Expr::EPrim { ty, .. } => ty, Expr::EConstr { ty, .. } => ty, Expr::ETuple { ty, .. } => ty,
        Expr::EArray { ty, .. } => ty, Expr::EClosure { ty, .. } => ty, Expr::ELet { ty, .. } => ty, Expr::EBlock { ty, .. } => ty,
        Expr::EMatch { ty, .. } => ty, Expr::EIf { ty, .. } => ty, Expr::EWhile { ty, .. } => ty, Expr::EGo { ty, .. } => ty,
        Expr::ECall { ty, .. } => ty, Expr::EUnary { ty, .. } => ty, Expr::EProj { ty, .. } => ty, Expr::EField { ty, .. } => ty,
        Expr::EBinary { ty, .. } => ty, Expr::ETraitMethod { ty, .. } => ty, Expr::EDynTraitMethod { ty, .. } => ty,
        Expr::EInherentMethod { ty, .. } => ty, Expr::EToDyn { ty, .. } => ty,
    }
}
// `f(a1 .. an)` with f a local: every argument is elaborated once, in order; a constraint is recorded that equates the callee's own type with
// `(types of the elaborated arguments) -> t`, t being the type the call expression is given
pub open spec fn call_site_ty(rr: Ty, a: Seq<Expr>, ty: Ty) -> bool {
    rr matches Ty::TFunc { params, ret_ty } && *ret_ty == ty && params@.len() == a.len() && forall|i: int| 0 <= i < a.len() ==> #[trigger] params@[i] == expr_ty(a[i])
}
pub open spec fn local_call_ok(args: Seq<ExprId>, r: Expr, rec: Set<Constraint>) -> bool {
    r matches Expr::ECall { func, args: a, ty } ==> {
        &&& a@.len() == args.len()
        &&& forall|i: int| 0 <= i < args.len() ==> inferred(#[trigger] args[i], a@[i])
        &&& exists|rr: Ty| #[trigger] rec.contains(Constraint::TypeEqual(expr_ty(*func), rr)) && call_site_ty(rr, a@, ty)
    }
}

// a call by name, from the construction of the call-site function type on
pub open spec fn named_tail_ok(r: Expr, inst_ty: Ty, arg_types: Seq<Ty>, args_tast: Seq<Expr>, ret_ty: Ty, rec: Set<Constraint>) -> bool {
    &&& r matches Expr::ECall { func, args: a, ty } && a@ == args_tast && ty == ret_ty && expr_ty(*func) == inst_ty
    &&& exists|rr: Ty| #[trigger] rec.contains(Constraint::TypeEqual(inst_ty, rr)) && (rr matches Ty::TFunc { params, ret_ty: rt } && params@ == arg_types && *rt == ret_ty)
}

// ---- the arguments of a call by name (fragment call_named_args): checked against the callee's parameter types ----
// r is an elaboration of e in checking mode against `expected` (Typer::check_expr: the result is constrained to that type)
pub uninterp spec fn checked_as(e: ExprId, expected: Ty, r: Expr) -> bool;
pub uninterp spec fn is_inst(scheme: Ty, t: Ty) -> bool;                          // Typer::inst_ty (U-INST)
pub uninterp spec fn fn_type_of(genv: PackageTypeEnv, hint: Seq<char>) -> Option<Ty>;
#[verifier::external_body]
pub fn lookup_function_type_by_hint(genv: &PackageTypeEnv, hint: &str) -> (r: Option<Ty>) ensures r == fn_type_of(*genv, hint@) { unimplemented!() }
impl Typer {
    #[verifier::external_body]
    pub fn check_expr(&mut self, genv: &PackageTypeEnv, local_env: &mut LocalTypeEnv, diagnostics: &mut Diagnostics, e: ExprId, expected: &Ty) -> (r: Expr)
        ensures checked_as(e, *expected, r), elaborated(e, r), old(self).recorded().subset_of(final(self).recorded()),
    { unimplemented!() }
    #[verifier::external_body] pub fn inst_ty(&mut self, ty: &Ty) -> (r: Ty) ensures is_inst(*ty, r) { unimplemented!() }
}
// e was elaborated once (in checking mode against SOME expected type, or in inference mode): which mode is used decides how much is accepted
// (literal typing, closure parameters, dyn coercion), not soundness — the equation of the function types is what ties the argument to its parameter
pub open spec fn elaborated(e: ExprId, r: Expr) -> bool { inferred(e, r) || exists|t: Ty| #[trigger] checked_as(e, t, r) }
pub open spec fn named_args_ok(genv: PackageTypeEnv, hint: Seq<char>, args: Seq<ExprId>, r: Option<(Ty, Vec<Expr>, Vec<Ty>)>) -> bool {
    match r {
        None => fn_type_of(genv, hint) is None,
        Some(t) => {
            let (inst, a, tys) = t;
            &&& fn_type_of(genv, hint) matches Some(ft) && is_inst(ft, inst)
            &&& a@.len() == args.len() && tys@.len() == args.len()
            &&& forall|i: int| 0 <= i < args.len() ==> #[trigger] tys@[i] == expr_ty(a@[i])
            // every argument is elaborated once, in order (when the declared parameter list fits the call the code checks it against its parameter's type)
            &&& forall|i: int| 0 <= i < args.len() ==> elaborated(#[trigger] args[i], a@[i])
        }
    }
}

// ---- U-INFERCTRL: the typing rules of if / while / go / tuple / field access as equations recorded ----
#[verifier::external_body] pub struct HirIdent { _p: u64 }
impl HirIdent { pub uninterp spec fn text(&self) -> Seq<char>; #[verifier::external_body] pub fn to_ident_name(&self) -> (r: String) ensures r@ == self.text() { unimplemented!() } }
#[verifier::external_body] pub fn no_params() -> (r: Vec<Ty>) ensures r@.len() == 0 { unimplemented!() }        // vec![]

// ---- operators (U-INFERCTRL) ----
pub open spec fn is_arith(op: BinaryOp) -> bool { op is Add || op is Sub || op is Mul || op is Div }
pub open spec fn is_logic(op: BinaryOp) -> bool { op is And || op is Or }
pub open spec fn binary_rule_ok(op: BinaryOp, l: Expr, r: Expr, ty: Ty, rec: Set<Constraint>) -> bool {
    if is_arith(op) {
        // both operands have the type of the result
        rec.contains(Constraint::TypeEqual(expr_ty(l), ty)) && rec.contains(Constraint::TypeEqual(expr_ty(r), ty))
    } else if is_logic(op) {
        ty is TBool && rec.contains(Constraint::TypeEqual(expr_ty(l), Ty::TBool)) && rec.contains(Constraint::TypeEqual(expr_ty(r), Ty::TBool))
    } else {
        // comparison / equality: a bool; the two operands have ONE type
        ty is TBool && (rec.contains(Constraint::TypeEqual(expr_ty(l), expr_ty(r))) || rec.contains(Constraint::TypeEqual(expr_ty(r), expr_ty(l))))
    }
}

// ---- match (U-INFERCTRL) ----
#[verifier::external_body] #[derive(Clone, Copy)] pub struct PatId { _p: u32 }
pub struct HirArm { pub pat: PatId, pub body: ExprId }                     // hir::Arm
// r is an elaboration of pattern p checked against a scrutinee of type t (Typer::check_pat: U-PATLIT / U-STRUCTPAT prove what the cases do)
pub uninterp spec fn pat_checked(p: PatId, t: Ty, r: Pat) -> bool;
impl LocalTypeEnv {
    // the innermost scope was opened and nothing has been bound in it yet
    pub uninterp spec fn top_fresh(&self) -> bool;
    #[verifier::external_body] pub fn push_scope(&mut self) ensures final(self).top_fresh() { unimplemented!() }
    #[verifier::external_body] pub fn pop_scope(&mut self, diagnostics: &mut Diagnostics) { unimplemented!() }
}
impl Typer {
    // C05: an arm's pattern binds its variables in a scope opened for that arm alone
    #[verifier::external_body]
    pub fn check_pat(&mut self, genv: &PackageTypeEnv, local_env: &mut LocalTypeEnv, diagnostics: &mut Diagnostics, pat: PatId, ty: &Ty) -> (r: Pat)
        requires old(local_env).top_fresh(),
        ensures pat_checked(pat, *ty, r), old(self).recorded().subset_of(final(self).recorded()),
    { unimplemented!() }
}
pub open spec fn match_rule_ok(scrut: ExprId, arms: Seq<HirArm>, r: Expr, rec: Set<Constraint>) -> bool {
    r matches Expr::EMatch { expr: x, arms: a, ty, astptr: _ } && inferred(scrut, *x) && a@.len() == arms.len()
    && forall|i: int| 0 <= i < arms.len() ==>
          // every arm's pattern is checked against the SCRUTINEE's type, every arm's body has the type of the match
          pat_checked(arms[i].pat, expr_ty(*x), (#[trigger] a@[i]).pat) && inferred(arms[i].body, a@[i].body) && rec.contains(Constraint::TypeEqual(expr_ty(a@[i].body), ty))
}
pub open spec fn ty_of_expr(e: Expr) -> Ty { expr_ty(e) }

// ---- constructor application (fragment constr_args of Typer::infer_constructor_expr) ----
impl VClone for Constructor { #[verifier::external_body] fn vclone(&self) -> (r: Self) { unimplemented!() } }
impl VClone for Vec<Ty> { #[verifier::external_body] fn vclone(&self) -> (r: Self) { unimplemented!() } }
impl VClone for Box<Ty> { #[verifier::external_body] fn vclone(&self) -> (r: Self) { unimplemented!() } }
impl Typer { #[verifier::external_body] pub fn record_constructor_expr(&mut self, e: ExprId, c: Constructor) ensures final(self).constraints() == old(self).constraints(), final(self).recorded() == old(self).recorded() { unimplemented!() } }
pub open spec fn constr_ok(scheme: Ty, args: Seq<ExprId>, c: Constructor, r: Expr, rec: Set<Constraint>) -> bool {
    r matches Expr::EConstr { constructor, args: a, ty } && constructor == c
    && exists|inst: Ty| #[trigger] is_inst(scheme, inst) && (match inst {
        // a constructor with fields: each argument is elaborated once, in order (the code checks it against the declared type of its field); the value has the constructor's result type;
        // the instantiated constructor type is equated with (types of the elaborated arguments) -> that result type
        Ty::TFunc { params, ret_ty } => ty == *ret_ty
            && (params@.len() > 0 ==> a@.len() <= args.len() && (params@.len() == args.len() ==> a@.len() == args.len())
                  && forall|i: int| 0 <= i < a@.len() ==> elaborated(#[trigger] args[i], a@[i]))
            && (a@.len() > 0 ==> exists|ft: Ty| #[trigger] rec.contains(Constraint::TypeEqual(inst, ft)) && call_site_ty(ft, a@, ty)),
        // a constant constructor: the value has the constructor's own type
        _ => ty == inst,
    })
}

// ---- patterns: wildcard, variable, tuple (U-INFERCTRL) ----
impl LocalTypeEnv {
    pub uninterp spec fn bound(&self, name: LocalId) -> Option<Ty>;                   // the type the innermost scope records for the local
    #[verifier::external_body] pub fn insert_var(&mut self, name: LocalId, ty: Ty) ensures final(self).bound(name) == Some(ty) { unimplemented!() }
}
impl Typer {
    #[verifier::external_body] pub fn record_local_ty(&mut self, name: LocalId, ty: Ty) ensures final(self).constraints() == old(self).constraints(), final(self).recorded() == old(self).recorded() { unimplemented!() }
    // a sub-pattern of a pattern: checked in the scope of the pattern it is part of
    #[verifier::external_body]
    pub fn check_sub_pat(&mut self, genv: &PackageTypeEnv, local_env: &mut LocalTypeEnv, diagnostics: &mut Diagnostics, pat: PatId, ty: &Ty) -> (r: Pat)
        ensures pat_checked(pat, *ty, r), sub_elab(pat, r), old(self).recorded().subset_of(final(self).recorded()),
    { unimplemented!() }
    // `(0..n).map(|_| self.fresh_ty_var()).collect()`: n fresh inference variables
    #[verifier::external_body] pub fn fresh_ty_vars(&mut self, n: usize) -> (r: Vec<Ty>) ensures r@.len() == n, final(self).constraints() == old(self).constraints(), final(self).recorded() == old(self).recorded() { unimplemented!() }
}
// r is the elaboration of sub-pattern p against SOME type
pub open spec fn sub_elab(p: PatId, r: Pat) -> bool { exists|t: Ty| #[trigger] pat_checked(p, t, r) }
pub open spec fn pat_ty(p: Pat) -> Ty {
    match p { Pat::PVar { ty, .. } => ty, Pat::PPrim { ty, .. } => ty, Pat::PConstr { ty, .. } => ty, Pat::PTuple { ty, .. } => ty, Pat::PWild { ty } => ty }
}
pub open spec fn tuple_pat_ok(pats: Seq<PatId>, ty: Ty, r: Pat, rec: Set<Constraint>) -> bool {
    r matches Pat::PTuple { items, ty: pt }
    // the pattern's type lists its items' types and is equated with the scrutinee's type
    && (pt matches Ty::TTuple { typs } && typs@.len() == items@.len() && forall|i: int| 0 <= i < items@.len() ==> #[trigger] typs@[i] == pat_ty(items@[i]))
    && rec.contains(Constraint::TypeEqual(pt, ty))
    // item i is the elaboration of sub-pattern i (the code checks it against component i of a scrutinee tuple type of that width; the equation above ties them in any case)
    && items@.len() == pats.len() && forall|i: int| 0 <= i < pats.len() ==> sub_elab(#[trigger] pats[i], items@[i])
}

// ---- closures (U-INFERCTRL infer_closure_expr) ----
#[verifier::external_body] pub struct HirTypeExpr { _p: u64 }
pub struct HirClosureParam { pub name: LocalId, pub ty: Option<HirTypeExpr>, pub astptr: MySyntaxNodePtr }      // hir::ClosureParam
#[verifier::external_body] pub struct HirTable { _p: u64 }
pub uninterp spec fn annot_ty(h: HirTypeExpr, t: Ty) -> bool;          // t is what Ty::from_hir makes of the written annotation h
impl Ty {
    #[verifier::external_body] pub fn from_hir(genv: &PackageTypeEnv, ty: &HirTypeExpr, tparams: &Vec<TastIdent>) -> (r: Ty) ensures annot_ty(*ty, r) { unimplemented!() }
}
#[verifier::external_body] pub fn validate_annotation(genv: &PackageTypeEnv, diagnostics: &mut Diagnostics, t: &Ty, tparams: &Vec<TastIdent>) { unimplemented!() }
impl LocalTypeEnv {
    #[verifier::external_body] pub fn begin_closure(&mut self) { unimplemented!() }
    #[verifier::external_body] pub fn current_tparams_env(&self) -> (r: Vec<TastIdent>) { unimplemented!() }
    #[verifier::external_body] pub fn end_closure(&mut self, diagnostics: &mut Diagnostics, hir_table: &HirTable) -> (r: Vec<(String, Ty)>) { unimplemented!() }
}
impl Typer { #[verifier::external_body] pub fn hir_table_ref(&self) -> (r: &HirTable) { unimplemented!() } }           // &self.hir_table
// a closure's type: one parameter type per parameter, in order — the written annotation where there is one — and the body's type as the result
pub open spec fn closure_rule_ok(params: Seq<HirClosureParam>, body: ExprId, r: Expr) -> bool {
    r matches Expr::EClosure { params: ps, body: b, ty, captures: _ } && elaborated(body, *b) && ps@.len() == params.len()
    && (ty matches Ty::TFunc { params: pt, ret_ty } && pt@.len() == params.len() && *ret_ty == expr_ty(*b)
        && forall|i: int| 0 <= i < params.len() ==> (#[trigger] pt@[i]) == ps@[i].ty && (params[i].ty matches Some(h) ==> annot_ty(h, pt@[i])))
}
// a closure in CHECKING mode: the same statement.  How much of the expected function type is pushed into the closure (expected parameter types for unannotated
// parameters, the body checked against the expected result) decides how much is accepted, not soundness: check_expr's tail (U-DYNVIS) equates the closure's
// type — built here from its parameters' types and its body's type — with the expected type whatever this function does with it.
pub open spec fn check_closure_ok(params: Seq<HirClosureParam>, body: ExprId, expected: Ty, r: Expr, rec: Set<Constraint>) -> bool { closure_rule_ok(params, body, r) }

// ---- blocks (U-INFERCTRL infer_block_expr(s) / check_block_expr(s)) ----
impl Prim { #[verifier::external_body] pub fn unit() -> (r: Prim) { unimplemented!() } }
// `v.last().map(|e| e.get_ty()).unwrap_or(Ty::TUnit)`: the last expression's type, unit for none
#[verifier::external_body] pub fn last_ty(v: &Vec<Expr>) -> (r: Ty) ensures v@.len() > 0 ==> r == expr_ty(v@[v@.len() - 1]), v@.len() == 0 ==> r is TUnit { unimplemented!() }
#[verifier::external_body] pub fn first_ty(v: &Vec<Expr>) -> (r: Ty) ensures v@.len() > 0 ==> r == expr_ty(v@[0]), v@.len() == 0 ==> r is TUnit { unimplemented!() }        // the same with `.first()`
pub open spec fn unit_value(r: Expr) -> bool { r matches Expr::EPrim { value: _, ty } && ty is TUnit }
// a non-empty block: every expression elaborated (in whichever mode: check_expr's tail equates the block's type with the expected type anyway), in order; the block has the type of its LAST expression
pub open spec fn block_rule_ok(exprs: Seq<ExprId>, r: Expr, expected: Option<Ty>) -> bool {
    r matches Expr::EBlock { exprs: a, ty } && a@.len() == exprs.len() && exprs.len() > 0 && ty == expr_ty(a@[a@.len() - 1])
    && (forall|i: int| 0 <= i < exprs.len() ==> elaborated(#[trigger] exprs[i], a@[i]))
}
pub open spec fn block_ok(exprs: Seq<ExprId>, r: Expr, expected: Option<Ty>) -> bool { if exprs.len() == 0 { unit_value(r) } else { block_rule_ok(exprs, r, expected) } }

// ---- projections (U-INFERCTRL infer_proj_expr): error diagnostics are counted ----
impl Diagnostics {
    pub uninterp spec fn errors(&self) -> nat;
    #[verifier::external_body] pub fn push(&mut self, d: Diagnostic) ensures final(self).errors() == old(self).errors() + 1 { unimplemented!() }      // only ever called with Severity::Error here (Diagnostic::new below)
}
pub enum Stage { Parser, Typer }
pub enum Severity { Error, Warning }
#[verifier::external_body] pub struct Diagnostic { _p: u64 }
impl Diagnostic { #[verifier::external_body] pub fn new(stage: Stage, severity: Severity, message: String) -> (r: Diagnostic) requires severity is Error { unimplemented!() } }
#[verifier::external_body] pub fn push_error(diagnostics: &mut Diagnostics, msg: String) ensures final(diagnostics).errors() == old(diagnostics).errors() + 1 { unimplemented!() }   // typer::util::push_error
// `v.get(i).cloned()`: a copy of the i-th item, None out of range
#[verifier::external_body] pub fn vec_get_cloned(v: &Vec<Ty>, i: usize) -> (r: Option<Ty>) ensures i < v@.len() ==> r == Some(v@[i as int]), i >= v@.len() ==> r is None { unimplemented!() }
// projection `t.i`: the i-th component's type when t's (syntactic) type is a tuple type that has one; anything else is an error
pub open spec fn proj_rule_ok(tuple: ExprId, index: usize, r: Expr, d0: nat, d1: nat) -> bool {
    r matches Expr::EProj { tuple: t, index: i, ty } && inferred(tuple, *t) && i == index && d1 >= d0
    && (match expr_ty(*t) { Ty::TTuple { typs } => if index < typs@.len() { ty == typs@[index as int] } else { d1 > d0 }, _ => d1 > d0 })
}

// ---- let (U-INFERCTRL infer_let_expr / check_let_expr) ----
impl Typer {
    // check_pat for the pattern of a `let`: by design it binds in the scope of the enclosing block (no scope of its own — that is the match arms' rule)
    #[verifier::external_body]
    pub fn check_pat_here(&mut self, genv: &PackageTypeEnv, local_env: &mut LocalTypeEnv, diagnostics: &mut Diagnostics, pat: PatId, ty: &Ty) -> (r: Pat)
        ensures pat_checked(pat, *ty, r), old(self).recorded().subset_of(final(self).recorded()),
    { unimplemented!() }
}
// `let p: T = e` — e is CHECKED against the annotation's type and p is checked against that type; `let p = e` — e is inferred and p is checked against e's type; a let has type unit
pub open spec fn let_rule_ok(pat: PatId, annotation: Option<HirTypeExpr>, value: ExprId, r: Expr, rec: Set<Constraint>) -> bool {
    r matches Expr::ELet { pat: p, value: v, ty } && ty is TUnit
    && (match annotation {
            // (checked against it, or inferred and then equated with it: which of the two is the code's business)
            Some(h) => exists|t: Ty| #[trigger] annot_ty(h, t) && pat_checked(pat, t, p) && (checked_as(value, t, *v) || (inferred(value, *v) && rec.contains(Constraint::TypeEqual(expr_ty(*v), t)))),
            None => inferred(value, *v) && pat_checked(pat, expr_ty(*v), p),
        })
}

// ---- struct literals (U-INFERCTRL, fragment struct_lit_tail) ----
#[verifier::external_body] pub struct StructLitArgElab { _p: u64 }
pub struct StructLitElab { pub constructor: Constructor, pub args: Vec<StructLitArgElab> }
impl Typer { #[verifier::external_body] pub fn record_struct_lit_elab(&mut self, e: ExprId, elab: StructLitElab) ensures final(self).constraints() == old(self).constraints(), final(self).recorded() == old(self).recorded() { unimplemented!() } }
// the value a struct literal elaborates to: the constructor applied to the (ordered) field values; its type is the instantiated constructor's result type, and that
// instantiated type is equated with (types of the field values, in order) -> (the value's type) — which is what ties every field value to its field's declared type
pub open spec fn struct_lit_ok(inst: Ty, c: Constructor, args: Seq<Expr>, r: Expr, rec: Set<Constraint>) -> bool {
    r matches Expr::EConstr { constructor, args: a, ty } && constructor == c && a@ == args
    && (match inst { Ty::TFunc { params: _, ret_ty } => ty == *ret_ty, _ => ty == inst })
    && (if a@.len() > 0 { exists|ft: Ty| #[trigger] rec.contains(Constraint::TypeEqual(inst, ft)) && call_site_ty(ft, a@, ty) } else { rec.contains(Constraint::TypeEqual(inst, ty)) })
}
