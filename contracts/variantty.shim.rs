// ---- shims / specification for U-VARIANTTY (C06: tag / case number i of an enum type is the i-th DECLARED variant) ----
#[verifier::external_body] pub struct TypeVar { _p: u32 }
#[verifier::external_body] pub struct GlobalGoEnv { _p: u64 }
impl TastIdent { #[verifier::external_body] pub fn new(name: &String) -> (r: TastIdent) ensures r.0@ == name@ { unimplemented!() } }
impl GlobalGoEnv {
    pub uninterp spec fn enum_of(&self, name: Seq<char>) -> Option<EnumDef>;
    #[verifier::external_body]
    pub fn get_enum(&self, name: &TastIdent) -> (r: Option<&EnumDef>)
        ensures r matches Some(d) ==> self.enum_of(name.0@) == Some(*d), r is None ==> self.enum_of(name.0@) is None,
    { unimplemented!() }
}
impl Ty {
    pub uninterp spec fn cname(&self) -> Seq<char>;                                // tast::Ty::get_constr_name_unsafe (U-CONSTRNAME: constr_name)
    #[verifier::external_body] pub fn get_constr_name_unsafe(&self) -> (r: String) ensures r@ == self.cname() { unimplemented!() }
}
pub uninterp spec fn vstruct_spec(goenv: GlobalGoEnv, enum_name: Seq<char>, variant: Seq<char>) -> Seq<char>;   // go::compile::variant_struct_name (U-VARNAME)
#[verifier::external_body]
pub fn variant_struct_name(goenv: &GlobalGoEnv, enum_name: &String, variant_name: &String) -> (r: String)
    ensures r@ == vstruct_spec(*goenv, enum_name@, variant_name@),
{ unimplemented!() }
pub uninterp spec fn go_ty_spec(t: Ty) -> GoType;                                  // go::goast::tast_ty_to_go_type (U-GOTYPE)
#[verifier::external_body] pub fn tast_ty_to_go_type(ty: &Ty) -> (r: GoType) ensures r == go_ty_spec(*ty) { unimplemented!() }

// the enum type's definition is known and has a variant number `index` (typing invariant of the Core / ANF the back end is given)
pub open spec fn variant_known(goenv: GlobalGoEnv, ty: Ty, index: usize) -> bool {
    goenv.enum_of(ty.cname()) matches Some(d) && (index as int) < d.variants@.len()
}
// the struct name of variant number `index`: variant_struct_name of (the enum, the name DECLARED at that position)
pub open spec fn variant_name_at(goenv: GlobalGoEnv, ty: Ty, index: usize) -> Seq<char> {
    vstruct_spec(goenv, ty.cname(), goenv.enum_of(ty.cname())->0.variants@[index as int].0.0@)
}
#[verifier::external_body] pub fn unreached<T>() -> (r: T) requires false { unimplemented!() }
