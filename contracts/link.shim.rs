// ---- shims for U-LINK (not verified): string-keyed maps with *unspecified iteration order* ----
pub uninterp spec fn key_view<Q: ?Sized>(k: &Q) -> Seq<char>;
pub broadcast proof fn key_view_string(k: &String) ensures #[trigger] key_view::<String>(k) == k@ { admit(); }
pub broadcast proof fn key_view_str(k: &str) ensures #[trigger] key_view::<str>(k) == k@ { admit(); }

// std::collections::HashMap<String, V>
#[verifier::external_body]
#[verifier::reject_recursive_types(K)]
#[verifier::reject_recursive_types(V)]
pub struct HashMap<K, V> { _k: core::marker::PhantomData<(K, V)> }
impl<V> HashMap<String, V> {
    pub uninterp spec fn view(&self) -> Map<Seq<char>, V>;
    #[verifier::external_body]
    pub fn new() -> (r: Self) ensures r@ == Map::<Seq<char>, V>::empty() { unimplemented!() }
    #[verifier::external_body]
    pub fn contains_key<Q: ?Sized>(&self, k: &Q) -> (r: bool) ensures r == self@.contains_key(key_view(k)) { unimplemented!() }
    #[verifier::external_body]
    pub fn insert(&mut self, k: String, v: V) -> (r: Option<V>) ensures final(self)@ == old(self)@.insert(k@, v) { unimplemented!() }
    #[verifier::external_body]
    pub fn get<Q: ?Sized>(&self, k: &Q) -> (r: Option<&V>)
        ensures r matches Some(v) ==> self@.contains_key(key_view(k)) && *v == self@[key_view(k)],
                r is None ==> !self@.contains_key(key_view(k)),
    { unimplemented!() }
    // `iter()` in an order this shim does not specify: each key exactly once
    #[verifier::external_body]
    pub fn entries(&self) -> (r: Vec<(&String, &V)>)
        ensures forall|i: int| 0 <= i < r@.len() ==> self@.contains_key(#[trigger] r@[i].0@) && *r@[i].1 == self@[r@[i].0@],
                forall|k: Seq<char>| self@.contains_key(k) ==> exists|i: int| 0 <= i < r@.len() && #[trigger] r@[i].0@ == k,
    { unimplemented!() }
}

// THE sorted sequence of a set of names: what iterating a BTreeMap/BTreeSet yields — a function of the contents
pub uninterp spec fn canonical(s: Set<Seq<char>>) -> Seq<Seq<char>>;
pub open spec fn ent_keys<V>(es: Seq<(&String, &V)>) -> Seq<Seq<char>> { Seq::new(es.len(), |i: int| es[i].0@) }

// std::collections::BTreeMap<String, V>: like the HashMap shim, but iteration follows the sorted key order
#[verifier::external_body]
#[verifier::reject_recursive_types(K)]
#[verifier::reject_recursive_types(V)]
pub struct BTreeMap<K, V> { _k: core::marker::PhantomData<(K, V)> }
impl<V> BTreeMap<String, V> {
    pub uninterp spec fn view(&self) -> Map<Seq<char>, V>;
    #[verifier::external_body]
    pub fn new() -> (r: Self) ensures r@ == Map::<Seq<char>, V>::empty() { unimplemented!() }
    #[verifier::external_body]
    pub fn contains_key<Q: ?Sized>(&self, k: &Q) -> (r: bool) ensures r == self@.contains_key(key_view(k)) { unimplemented!() }
    #[verifier::external_body]
    pub fn insert(&mut self, k: String, v: V) -> (r: Option<V>) ensures final(self)@ == old(self)@.insert(k@, v) { unimplemented!() }
    #[verifier::external_body]
    pub fn get<Q: ?Sized>(&self, k: &Q) -> (r: Option<&V>)
        ensures r matches Some(v) ==> self@.contains_key(key_view(k)) && *v == self@[key_view(k)],
                r is None ==> !self@.contains_key(key_view(k)),
    { unimplemented!() }
    #[verifier::external_body]
    pub fn entries(&self) -> (r: Vec<(&String, &V)>)
        ensures forall|i: int| 0 <= i < r@.len() ==> self@.contains_key(#[trigger] r@[i].0@) && *r@[i].1 == self@[r@[i].0@],
                forall|k: Seq<char>| self@.contains_key(k) ==> exists|i: int| 0 <= i < r@.len() && #[trigger] r@[i].0@ == k,
                ent_keys(r@) == canonical(self@.dom()),
    { unimplemented!() }
}

// BTreeMap<String, String> (the `deps` of a unit): iteration in sorted key order
impl DepMap {
    pub uninterp spec fn view(&self) -> Map<Seq<char>, Seq<char>>;
    #[verifier::external_body]
    pub fn entries(&self) -> (r: Vec<(&String, &String)>)
        ensures forall|i: int| 0 <= i < r@.len() ==> self@.contains_key(#[trigger] r@[i].0@) && r@[i].1@ == self@[r@[i].0@],
                forall|k: Seq<char>| self@.contains_key(k) ==> exists|i: int| 0 <= i < r@.len() && #[trigger] r@[i].0@ == k,
                ent_keys(r@) == canonical(self@.dom()),
    { unimplemented!() }
}
// the error of the dependency consistency check, naming the dependent and the dependency
#[verifier::external_body]
pub fn compile_error_dep(pkg: &String, dep: &String) -> (r: CompilationError)
    ensures r.is_dep(), r.pkg() == pkg@, r.dep() == dep@,
{ unimplemented!() }

// ---- C13: WHICH consistency error link_cores reports is a function of its inputs ----
// the check link_cores makes for one recorded dependency
pub open spec fn dep_bad(m: Map<Seq<char>, CoreUnit>, u: CoreUnit, d: Seq<char>) -> bool {
    !m.contains_key(d) || m[d].interface.interface_hash@ != u.deps@[d]
}
pub open spec fn unit_clean(m: Map<Seq<char>, CoreUnit>, k: Seq<char>) -> bool {
    m.contains_key(k) && forall|d: Seq<char>| (#[trigger] m[k].deps@.contains_key(d)) ==> !dep_bad(m, m[k], d)
}
// (p, d) is the FIRST failing (package, dependency) pair in sorted package order, then sorted dependency order
pub open spec fn first_bad(m: Map<Seq<char>, CoreUnit>, cores: Seq<CoreUnit>, p: Seq<char>, d: Seq<char>, i: int, j: int) -> bool {
    let names = canonical(m.dom());
    &&& indexed(m, cores, cores.len() as int)
    &&& 0 <= i < names.len() && names[i] == p && m.contains_key(p)
    &&& ({ let ds = canonical(m[p].deps@.dom());
           &&& 0 <= j < ds.len() && ds[j] == d && m[p].deps@.contains_key(d)
           &&& forall|i2: int| 0 <= i2 < i ==> unit_clean(m, #[trigger] names[i2])
           &&& forall|j2: int| 0 <= j2 < j ==> !dep_bad(m, m[p], #[trigger] ds[j2])
           &&& dep_bad(m, m[p], d) })
}

#[verifier::external_body] pub struct LinkOutput { _p: u64 }
#[verifier::external_body]
pub fn string_ne(a: &String, b: &String) -> (r: bool) ensures r == (a@ != b@) { a != b }
#[verifier::external_body]
pub fn core_file_has_main(f: &CoreFile) -> (r: bool) { unimplemented!() }
// separate::topo_sort (Kahn's algorithm over BTreeMaps; NOT verified): on success the order lists every package
#[verifier::external_body]
pub fn topo_sort(cores: &BYNAME_MAP<String, CoreUnit>) -> (r: Result<Vec<String>, CompilationError>)
    ensures r matches Ok(o) ==> forall|k: Seq<char>| cores@.contains_key(k) ==> exists|t: int| 0 <= t < o@.len() && (#[trigger] o@[t])@ == k,
            r matches Err(e) ==> !e.is_dep(),
{ unimplemented!() }
// everything link_cores does after the consistency checks (mono, lift, anf, go): outside this unit
#[verifier::external_body]
pub fn link_rest(by_name: BYNAME_MAP<String, CoreUnit>, order: Vec<String>) -> (r: Result<LinkOutput, CompilationError>)
    ensures r matches Err(e) ==> !e.is_dep(),
{ unimplemented!() }

// ---- C15: what `link` must guarantee about its inputs when it succeeds ----
// the hash a dependent recorded is the linked dependency's interface hash (as stored, or as recomputed from its contents)
pub open spec fn hash_matches(d: CoreUnit, h: Seq<char>) -> bool {
    d.interface.interface_hash@ == h || d.interface.hash_spec() == h
}
pub open spec fn deps_consistent(cores: Seq<CoreUnit>) -> bool {
    forall|i: int, dep: Seq<char>| 0 <= i < cores.len() && (#[trigger] cores[i].deps@.contains_key(dep)) ==>
        exists|j: int| 0 <= j < cores.len() && #[trigger] cores[j].package@ == dep
            && hash_matches(cores[j], cores[i].deps@[dep])
}
// every dependency recorded by the unit named k is linked with a matching hash
pub open spec fn unit_ok(m: Map<Seq<char>, CoreUnit>, k: Seq<char>) -> bool {
    m.contains_key(k) ==> forall|dep: Seq<char>| (#[trigger] m[k].deps@.contains_key(dep)) ==> m.contains_key(dep) && hash_matches(m[dep], m[k].deps@[dep])
}

// HashSet<&str> (used by some variants of the loop): a set of texts
#[verifier::external_body]
#[verifier::reject_recursive_types(K)]
pub struct HashSet<K> { _k: core::marker::PhantomData<K> }
impl<'a> HashSet<&'a str> {
    pub uninterp spec fn view(&self) -> Set<Seq<char>>;
    #[verifier::external_body]
    pub fn new() -> (r: Self) ensures r@ == Set::<Seq<char>>::empty() { unimplemented!() }
    #[verifier::external_body]
    pub fn contains(&self, k: &str) -> (r: bool) ensures r == self@.contains(k@) { unimplemented!() }
    #[verifier::external_body]
    pub fn insert(&mut self, k: &'a str) -> (r: bool) ensures final(self)@ == old(self)@.insert(k@) { unimplemented!() }
}
// by_name holds exactly the first n units, keyed by their (distinct) package names
pub open spec fn indexed(m: Map<Seq<char>, CoreUnit>, cores: Seq<CoreUnit>, n: int) -> bool {
    &&& forall|j: int| 0 <= j < n ==> m.contains_key(#[trigger] cores[j].package@) && m[cores[j].package@] == cores[j]
    &&& forall|k: Seq<char>| m.contains_key(k) ==> exists|j: int| 0 <= j < n && #[trigger] cores[j].package@ == k
}

pub proof fn lemma_indexed_step(m: Map<Seq<char>, CoreUnit>, cores: Seq<CoreUnit>, n: int, c: CoreUnit)
    requires indexed(m, cores, n), 0 <= n < cores.len(), c == cores[n], !m.contains_key(c.package@),
    ensures indexed(m.insert(c.package@, c), cores, n + 1),
{
    let m2 = m.insert(c.package@, c);
    assert forall|j: int| 0 <= j < n + 1 implies m2.contains_key(#[trigger] cores[j].package@) && m2[cores[j].package@] == cores[j] by {
        if j < n { assert(m.contains_key(cores[j].package@)); }
    }
    assert forall|k: Seq<char>| m2.contains_key(k) implies exists|j: int| 0 <= j < n + 1 && #[trigger] cores[j].package@ == k by {
        if k == c.package@ { assert(cores[n].package@ == k); }
        else { assert(m.contains_key(k)); let j = choose|j: int| 0 <= j < n && #[trigger] cores[j].package@ == k; assert(cores[j].package@ == k); }
    }
}

// from "every entry of by_name has all its recorded dependencies present with the recorded hash" to the property
pub proof fn lemma_link_final(m: Map<Seq<char>, CoreUnit>, cores: Seq<CoreUnit>)
    requires indexed(m, cores, cores.len() as int),
        forall|k: Seq<char>, dep: Seq<char>| m.contains_key(k) && (#[trigger] m[k].deps@.contains_key(dep)) ==>
            m.contains_key(dep) && hash_matches(m[dep], m[k].deps@[dep]),
    ensures deps_consistent(cores),
{
    assert forall|i: int, dep: Seq<char>| 0 <= i < cores.len() && (#[trigger] cores[i].deps@.contains_key(dep)) implies
        exists|j: int| 0 <= j < cores.len() && #[trigger] cores[j].package@ == dep
            && hash_matches(cores[j], cores[i].deps@[dep]) by {
        let k = cores[i].package@;
        assert(m.contains_key(k) && m[k] == cores[i]);
        assert(m[k].deps@.contains_key(dep));
        assert(m.contains_key(dep));
        let j = choose|j: int| 0 <= j < cores.len() && #[trigger] cores[j].package@ == dep;
        assert(m[cores[j].package@] == cores[j]);
    }
}

// variant: the consistency loop walks the topo order instead of the map
pub proof fn lemma_link_final_b(m: Map<Seq<char>, CoreUnit>, cores: Seq<CoreUnit>, order: Seq<String>)
    requires indexed(m, cores, cores.len() as int),
        forall|t: int| 0 <= t < order.len() ==> unit_ok(m, (#[trigger] order[t])@),
        forall|k: Seq<char>| m.contains_key(k) ==> exists|t: int| 0 <= t < order.len() && (#[trigger] order[t])@ == k,
    ensures deps_consistent(cores),
{
    assert forall|k: Seq<char>, dep: Seq<char>| m.contains_key(k) && (#[trigger] m[k].deps@.contains_key(dep)) implies
        m.contains_key(dep) && hash_matches(m[dep], m[k].deps@[dep]) by {
        let t = choose|t: int| 0 <= t < order.len() && (#[trigger] order[t])@ == k;
        assert(unit_ok(m, order[t]@));
    }
    lemma_link_final(m, cores);
}
