// ---- shims / specification for U-EXPORTS (C14: what a package exports is what its dependents' environments receive — every table) ----
#[verifier::external_body] pub struct TastIdent { _p: u64 }
#[verifier::external_body] pub struct EnumDef { _p: u64 }
#[verifier::external_body] pub struct StructDef { _p: u64 }
#[verifier::external_body] pub struct ExternType { _p: u64 }
#[verifier::external_body] pub struct TraitDef { _p: u64 }
#[verifier::external_body] pub struct Ty { _p: u64 }
#[verifier::external_body] pub struct ImplDef { _p: u64 }
#[verifier::external_body] pub struct InherentImplKey { _p: u64 }
#[verifier::external_body] pub struct FnScheme { _p: u64 }
#[verifier::external_body] pub struct ExternFunc { _p: u64 }
// derived Clone: an identical copy
#[verifier::external_body] pub fn vclone<T>(a: &T) -> (r: T) ensures r == *a { unimplemented!() }
// indexmap::IndexMap<K, V>: a finite map; `iter()` yields every key exactly once (in an order this shim does not specify)
#[verifier::external_body]
#[verifier::reject_recursive_types(K)]
#[verifier::reject_recursive_types(V)]
pub struct IndexMap<K, V> { _k: core::marker::PhantomData<(K, V)> }
impl<K, V> IndexMap<K, V> {
    pub uninterp spec fn view(&self) -> Map<K, V>;
    #[verifier::external_body]
    pub fn insert(&mut self, k: K, v: V) -> (r: Option<V>) ensures final(self)@ == old(self)@.insert(k, v) { unimplemented!() }
    #[verifier::external_body]
    pub fn entries(&self) -> (r: Vec<(&K, &V)>) ensures is_entries(self@, r@) { unimplemented!() }
}
pub open spec fn is_entries<K, V>(m: Map<K, V>, es: Seq<(&K, &V)>) -> bool {
    &&& forall|i: int| 0 <= i < es.len() ==> m.contains_key(*(#[trigger] es[i]).0) && *es[i].1 == m[*es[i].0]
    &&& forall|k: K| m.contains_key(k) ==> exists|i: int| 0 <= i < es.len() && *(#[trigger] es[i]).0 == k
    &&& forall|i: int, j: int| 0 <= i < j < es.len() ==> *(#[trigger] es[i]).0 != *(#[trigger] es[j]).0
}
// table `after` is table `before` with every entry of `exp` put in (an exported entry wins over one of the same key); nothing else changes
pub open spec fn merged<K, V>(before: Map<K, V>, exp: Map<K, V>, after: Map<K, V>) -> bool {
    &&& forall|k: K| #[trigger] exp.contains_key(k) ==> after.contains_key(k) && after[k] == exp[k]
    &&& forall|k: K| !(#[trigger] exp.contains_key(k)) ==> (after.contains_key(k) == before.contains_key(k)) && (before.contains_key(k) ==> after[k] == before[k])
}
// loop invariant: the first n entries are in, everything that is not among them is as before
pub open spec fn among<K, V>(es: Seq<(&K, &V)>, n: int, k: K) -> bool { exists|j: int| 0 <= j < n && *(#[trigger] es[j]).0 == k }
pub open spec fn merged_upto<K, V>(before: Map<K, V>, es: Seq<(&K, &V)>, n: int, cur: Map<K, V>) -> bool {
    &&& forall|j: int| 0 <= j < n ==> cur.contains_key(*(#[trigger] es[j]).0) && cur[*es[j].0] == *es[j].1
    &&& forall|k: K| !(#[trigger] among(es, n, k)) ==> (cur.contains_key(k) == before.contains_key(k)) && (before.contains_key(k) ==> cur[k] == before[k])
}
pub proof fn lemma_merge_step<K, V>(before: Map<K, V>, exp: Map<K, V>, es: Seq<(&K, &V)>, n: int, cur: Map<K, V>, k: K, v: V)
    requires 0 <= n < es.len(), is_entries(exp, es), merged_upto(before, es, n, cur), k == *es[n].0, v == *es[n].1,
    ensures merged_upto(before, es, n + 1, cur.insert(k, v)),
{
    let nxt = cur.insert(k, v);
    assert forall|j: int| 0 <= j < n + 1 implies nxt.contains_key(*(#[trigger] es[j]).0) && nxt[*es[j].0] == *es[j].1 by {
        if j < n { assert(*es[j].0 != *es[n].0); }
    }
    assert forall|kk: K| !(#[trigger] among(es, n + 1, kk)) implies
        (nxt.contains_key(kk) == before.contains_key(kk)) && (before.contains_key(kk) ==> nxt[kk] == before[kk]) by {
        if *es[n].0 == kk { assert(among(es, n + 1, kk)); }
        if among(es, n, kk) { let j = choose|j: int| 0 <= j < n && *(#[trigger] es[j]).0 == kk; assert(0 <= j < n + 1); assert(among(es, n + 1, kk)); }
    }
}
pub proof fn lemma_merge_start<K, V>(before: Map<K, V>, es: Seq<(&K, &V)>)
    ensures merged_upto(before, es, 0, before),
{
    assert forall|k: K| !(#[trigger] among(es, 0, k)) implies true by { }
}
pub proof fn lemma_merge_done<K, V>(before: Map<K, V>, exp: Map<K, V>, es: Seq<(&K, &V)>, cur: Map<K, V>)
    requires is_entries(exp, es), merged_upto(before, es, es.len() as int, cur),
    ensures merged(before, exp, cur),
{
    assert forall|k: K| #[trigger] exp.contains_key(k) implies cur.contains_key(k) && cur[k] == exp[k] by {
        let i = choose|i: int| 0 <= i < es.len() && *(#[trigger] es[i]).0 == k;
        assert(cur.contains_key(*es[i].0));
    }
    assert forall|k: K| !(#[trigger] exp.contains_key(k)) implies (cur.contains_key(k) == before.contains_key(k)) && (before.contains_key(k) ==> cur[k] == before[k]) by {
        if among(es, es.len() as int, k) { let j = choose|j: int| 0 <= j < es.len() && *(#[trigger] es[j]).0 == k; assert(exp.contains_key(*es[j].0)); }
    }
}
// constructors of empty tables (no contract: what they hold is not claimed)
impl TypeEnv { #[verifier::external_body] pub fn new() -> (r: Self) { unimplemented!() } }
impl TraitEnv { #[verifier::external_body] pub fn new() -> (r: Self) { unimplemented!() } }
impl ValueEnv { #[verifier::external_body] pub fn new() -> (r: Self) { unimplemented!() } }
