// ---- shims / specification for U-LOCALALLOC (C19 / C05: every new local gets the next free index of its package's table; a binder met again keeps its index) ----
#[verifier::external_body] #[derive(Clone, Copy)] pub struct PackageId { _p: u32 }
#[verifier::external_body] #[derive(Clone, Copy)] pub struct MySyntaxNodePtr { _p: u64 }
#[derive(Clone, Copy)] pub struct DefId { pub pkg: PackageId, pub idx: u32 }
#[derive(Clone, Copy)] pub struct LocalId { pub pkg: PackageId, pub idx: u32 }
pub struct LocalInfo { pub hint: String, pub origin: LocalKey }
#[verifier::external_body] pub fn str_to_string(s: &str) -> (r: String) ensures r@ == s@ { unimplemented!() }        // hint.to_string()
pub trait VClone: Sized { fn vclone(&self) -> (r: Self) ensures r == *self; }
impl VClone for LocalKey { #[verifier::external_body] fn vclone(&self) -> (r: Self) { unimplemented!() } }
// HashMap<LocalKey, LocalId>: a finite map
#[verifier::external_body] pub struct KeyMap { _p: u64 }
impl KeyMap {
    pub uninterp spec fn view(&self) -> Map<LocalKey, LocalId>;
    #[verifier::external_body] pub fn insert(&mut self, k: LocalKey, v: LocalId) -> (r: Option<LocalId>) ensures final(self)@ == old(self)@.insert(k, v) { unimplemented!() }
    #[verifier::external_body] pub fn get(&self, k: &LocalKey) -> (r: Option<&LocalId>) ensures r matches Some(v) ==> self@.contains_key(*k) && *v == self@[*k], r is None ==> !self@.contains_key(*k) { unimplemented!() }
}
// hir::HirTable: the fields the two allocators use
pub struct HirTable { pub package: PackageId, pub current_owner: Option<DefId>, pub local_counter: u32, pub local_interner: KeyMap, pub local_info: Vec<LocalInfo>,
                      pub def_interner: DefKeyMap, pub def_data: Vec<Def>, pub def_paths: Vec<Path> }
// representation invariant: every index handed out so far lies inside the table
pub open spec fn wf(t: HirTable) -> bool { forall|k: LocalKey| t.local_interner@.contains_key(k) ==> (#[trigger] t.local_interner@[k]).idx < t.local_info@.len() }
// a NEW local: the next free index, one entry more (with the hint), everything before untouched
pub open spec fn appended(old_t: HirTable, new_t: HirTable, r: LocalId, hint: Seq<char>) -> bool {
    r.idx as int == old_t.local_info@.len() && r.pkg == old_t.package && new_t.package == old_t.package
    && new_t.local_info@.len() == old_t.local_info@.len() + 1 && new_t.local_info@.subrange(0, old_t.local_info@.len() as int) =~= old_t.local_info@
    && new_t.local_info@[r.idx as int].hint@ == hint
}
pub open spec fn owner_outside(p: PackageId) -> DefId { DefId { pkg: p, idx: u32::MAX } }
// the key a source binder is remembered under: the definition being lowered (or the fallback owner) and the binder's position
pub open spec fn binder_key(t: HirTable, ptr: MySyntaxNodePtr) -> LocalKey {
    LocalKey::AstBinder { owner: (match t.current_owner { Some(o) => o, None => owner_outside(t.package) }), ptr }
}
// ---- definitions (alloc_def / alloc_def_with_path / def / def_path) ----
#[verifier::external_body] pub struct Def { _p: u64 }
#[verifier::external_body] pub struct Path { _p: u64 }
#[verifier::external_body] #[derive(Clone, Copy)] pub struct DefKind { _p: u8 }
impl VClone for Path { #[verifier::external_body] fn vclone(&self) -> (r: Self) { unimplemented!() } }
impl Path { pub uninterp spec fn of_ident(name: Seq<char>) -> Path; #[verifier::external_body] pub fn from_ident(name: String) -> (r: Path) ensures r == Path::of_ident(name@) { unimplemented!() } }
pub struct DefKey { pub path: Path, pub kind: DefKind, pub disamb: u32 }
#[verifier::external_body] pub struct DefKeyMap { _p: u64 }
impl DefKeyMap { #[verifier::external_body] pub fn insert(&mut self, k: DefKey, v: DefId) -> (r: Option<DefId>) { unimplemented!() } }
#[verifier::external_body] pub fn same_package(a: PackageId, b: PackageId) requires a == b { unimplemented!() }          // assert_eq!(id.pkg, self.package)
// definitions and their paths are stored side by side
pub open spec fn defs_wf(t: HirTable) -> bool { t.def_data@.len() == t.def_paths@.len() }
pub open spec fn def_appended(old_t: HirTable, new_t: HirTable, r: DefId, def: Def, path: Path) -> bool {
    r.idx as int == old_t.def_data@.len() && r.pkg == old_t.package && new_t.package == old_t.package
    && new_t.def_data@ =~= old_t.def_data@.push(def) && new_t.def_paths@ =~= old_t.def_paths@.push(path)
    && new_t.local_info@ == old_t.local_info@ && new_t.local_interner@ == old_t.local_interner@
}
