// ---- C15: what a usable artifact is ----
impl InterfaceUnit {
    pub open spec fn hash_spec(&self) -> Seq<char> {
        digest_of(self.format_version, self.compiler_abi, self.package@, self.exports, self.hir_interface, self.deps)
    }
    // an interface file the current compiler may use: written by this format version / ABI and unaltered
    pub open spec fn usable(&self) -> bool {
        &&& self.format_version == FORMAT_VERSION
        &&& self.compiler_abi == COMPILER_ABI
        &&& self.interface_hash@ == self.hash_spec()
    }
}
impl CoreUnit {
    pub open spec fn usable(&self) -> bool {
        &&& self.format_version == FORMAT_VERSION
        &&& self.compiler_abi == COMPILER_ABI
        &&& self.package@ == self.interface.package@
        &&& self.interface.usable()
        &&& self.deps == self.interface.deps
    }
}
