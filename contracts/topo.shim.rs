// ---- shims for U-TOPO ----
#[verifier::external_body] pub struct PathBuf { _p: u64 }
#[verifier::external_body] pub struct SourceFileAst { _p: u64 }
#[verifier::external_body] pub struct CompilationError { _p: u64 }
#[verifier::external_body] pub fn compile_error(m: String) -> (r: CompilationError) { unimplemented!() }
#[verifier::external_body] pub fn rt_msg() -> (r: String) { unimplemented!() }
#[verifier::external_body] pub fn str_to_string(a: &str) -> (r: String) ensures r@ == a@ { unimplemented!() }

pub uninterp spec fn key_view<Q: ?Sized>(k: &Q) -> Seq<char>;
pub broadcast proof fn key_view_string(k: &String) ensures #[trigger] key_view::<String>(k) == k@ { admit(); }
pub broadcast proof fn key_view_str(k: &str) ensures #[trigger] key_view::<str>(k) == k@ { admit(); }

#[verifier::external_body]
#[verifier::reject_recursive_types(K)]
pub struct HashSet<K> { _k: core::marker::PhantomData<K> }
impl HashSet<String> {
    pub uninterp spec fn view(&self) -> Set<Seq<char>>;
    #[verifier::external_body] pub fn new() -> (r: Self) ensures r@ == Set::<Seq<char>>::empty() { unimplemented!() }
    #[verifier::external_body] pub fn insert(&mut self, k: String) -> (r: bool) ensures final(self)@ == old(self)@.insert(k@) { unimplemented!() }
    #[verifier::external_body] pub fn contains<Q: ?Sized>(&self, k: &Q) -> (r: bool) ensures r == self@.contains(key_view(k)) { unimplemented!() }
    #[verifier::external_body] pub fn remove<Q: ?Sized>(&mut self, k: &Q) -> (r: bool) ensures final(self)@ == old(self)@.remove(key_view(k)) { unimplemented!() }
}
#[verifier::external_body]
#[verifier::reject_recursive_types(K)]
#[verifier::reject_recursive_types(V)]
pub struct HashMap<K, V> { _k: core::marker::PhantomData<(K, V)> }
impl<V> HashMap<String, V> {
    pub uninterp spec fn view(&self) -> Map<Seq<char>, V>;
    #[verifier::external_body] pub fn contains_key<Q: ?Sized>(&self, k: &Q) -> (r: bool) ensures r == self@.contains_key(key_view(k)) { unimplemented!() }
    #[verifier::external_body] pub fn get<Q: ?Sized>(&self, k: &Q) -> (r: Option<&V>)
        ensures r matches Some(v) ==> self@.contains_key(key_view(k)) && *v == self@[key_view(k)], r is None ==> !self@.contains_key(key_view(k)),
    { unimplemented!() }
}

// sequences that come out of hash collections (determinism discipline, see U-DISCOVER): in-order traversal requires `det`
#[verifier::external_body]
pub struct OVec { _p: u64 }
impl OVec {
    pub uninterp spec fn det(&self) -> bool;
    pub uninterp spec fn view(&self) -> Seq<String>;
    #[verifier::external_body] pub fn from_map_keys<V>(m: &HashMap<String, V>) -> (r: Self)
        ensures !r.det(), forall|k: Seq<char>| #![trigger m@.contains_key(k)] #![trigger in_order(r@, k)] m@.contains_key(k) <==> in_order(r@, k),
    { unimplemented!() }
    #[verifier::external_body] pub fn from_set(s: &HashSet<String>) -> (r: Self)
        ensures !r.det(), forall|k: Seq<char>| #![trigger s@.contains(k)] #![trigger in_order(r@, k)] s@.contains(k) <==> in_order(r@, k),
    { unimplemented!() }
    // sorting permutes: same elements
    #[verifier::external_body] pub fn sort(&mut self)
        ensures final(self).det(), final(self)@.len() == old(self)@.len(),
            forall|k: Seq<char>| #![trigger in_order(old(self)@, k)] #![trigger in_order(final(self)@, k)] in_order(old(self)@, k) <==> in_order(final(self)@, k),
    { unimplemented!() }
    #[verifier::external_body] pub fn len(&self) -> (r: usize) ensures r == self@.len() { unimplemented!() }
    // taking the first element is order-sensitive
    #[verifier::external_body] pub fn remove(&mut self, i: usize) -> (r: String)
        requires old(self).det(), i < old(self)@.len(),
        ensures final(self).det(), r == old(self)@[i as int], final(self)@ == old(self)@.remove(i as int),
    { unimplemented!() }
}

// ---- C16 / C13: the package order ----
pub open spec fn imports_of(g: PackageGraph, n: Seq<char>) -> Set<Seq<char>> { g.packages@[n].imports@ }
pub open spec fn pos_of(order: Seq<String>, n: Seq<char>) -> int { choose|i: int| 0 <= i < order.len() && (#[trigger] order[i])@ == n }
pub open spec fn in_order(order: Seq<String>, n: Seq<char>) -> bool { exists|i: int| 0 <= i < order.len() && (#[trigger] order[i])@ == n }
// `order` lists exactly the finished packages, each after everything it imports, and all of those exist
pub open spec fn topo_inv(g: PackageGraph, perm: Set<Seq<char>>, order: Seq<String>) -> bool {
    &&& forall|n: Seq<char>| perm.contains(n) <==> in_order(order, n)
    &&& forall|i: int, j: int| 0 <= i < j < order.len() ==> order[i]@ != order[j]@
    &&& forall|i: int, d: Seq<char>| 0 <= i < order.len() && g.packages@.contains_key(order[i]@) && (#[trigger] imports_of(g, order[i]@).contains(d)) ==>
            g.packages@.contains_key(d) && exists|j: int| 0 <= j < i && (#[trigger] order[j])@ == d
    &&& forall|i: int| 0 <= i < order.len() ==> g.packages@.contains_key((#[trigger] order[i])@)
}

pub proof fn lemma_in_order_remove0(v: Seq<String>, k: Seq<char>)
    requires v.len() > 0,
    ensures in_order(v, k) <==> (v[0]@ == k || in_order(v.remove(0), k)),
{
    let w = v.remove(0);
    if in_order(v, k) {
        let i = choose|i: int| 0 <= i < v.len() && (#[trigger] v[i])@ == k;
        if i > 0 { assert(w[i - 1]@ == k); }
    }
    if in_order(w, k) {
        let i = choose|i: int| 0 <= i < w.len() && (#[trigger] w[i])@ == k;
        assert(v[i + 1]@ == k);
    }
    if v[0]@ == k { assert(in_order(v, k)); }
}
pub proof fn lemma_in_order_push(v: Seq<String>, s: String, k: Seq<char>)
    ensures in_order(v.push(s), k) <==> (in_order(v, k) || s@ == k),
{
    let w = v.push(s);
    if in_order(w, k) {
        let i = choose|i: int| 0 <= i < w.len() && (#[trigger] w[i])@ == k;
        if i < v.len() { assert(v[i]@ == k); }
    }
    if in_order(v, k) {
        let i = choose|i: int| 0 <= i < v.len() && (#[trigger] v[i])@ == k;
        assert(w[i]@ == k);
    }
    if s@ == k { assert(w[v.len() as int]@ == k); }
}
// finishing a package whose imports are all finished: append it to the order
pub proof fn lemma_topo_push(g: PackageGraph, perm: Set<Seq<char>>, order: Seq<String>, s: String)
    requires topo_inv(g, perm, order), !perm.contains(s@), g.packages@.contains_key(s@),
        forall|d: Seq<char>| imports_of(g, s@).contains(d) ==> perm.contains(d),
    ensures topo_inv(g, perm.insert(s@), order.push(s)),
{
    let o2 = order.push(s);
    let p2 = perm.insert(s@);
    assert forall|n: Seq<char>| p2.contains(n) <==> in_order(o2, n) by { lemma_in_order_push(order, s, n); }
    assert forall|i: int, j: int| 0 <= i < j < o2.len() implies o2[i]@ != o2[j]@ by {
        if j == order.len() { if o2[i]@ == s@ { assert(in_order(order, s@)); } }
    }
    assert forall|i: int, d: Seq<char>| 0 <= i < o2.len() && g.packages@.contains_key(o2[i]@) && (#[trigger] imports_of(g, o2[i]@).contains(d)) implies
            g.packages@.contains_key(d) && exists|j: int| 0 <= j < i && (#[trigger] o2[j])@ == d by {
        if i < order.len() {
            assert(imports_of(g, order[i]@).contains(d));
            let j = choose|j: int| 0 <= j < i && (#[trigger] order[j])@ == d;
            assert(o2[j]@ == d);
        } else {
            assert(perm.contains(d));
            assert(in_order(order, d));
            let j = choose|j: int| 0 <= j < order.len() && (#[trigger] order[j])@ == d;
            assert(o2[j]@ == d);
            assert(g.packages@.contains_key(order[j]@));
        }
    }
    assert forall|i: int| 0 <= i < o2.len() implies g.packages@.contains_key((#[trigger] o2[i])@) by {
        if i < order.len() { assert(g.packages@.contains_key(order[i]@)); }
    }
}

// the result of topo_sort_packages: every package exactly once, after all its imports, which all exist
pub open spec fn topo_ok(g: PackageGraph, order: Seq<String>) -> bool {
    &&& forall|k: Seq<char>| #![trigger g.packages@.contains_key(k)] g.packages@.contains_key(k) ==> in_order(order, k)
    &&& forall|i: int, j: int| 0 <= i < j < order.len() ==> order[i]@ != order[j]@
    &&& forall|i: int, d: Seq<char>| 0 <= i < order.len() && g.packages@.contains_key(order[i]@) && (#[trigger] imports_of(g, order[i]@).contains(d)) ==>
            g.packages@.contains_key(d) && exists|j: int| 0 <= j < i && (#[trigger] order[j])@ == d
    &&& forall|i: int| 0 <= i < order.len() ==> g.packages@.contains_key((#[trigger] order[i])@)
}
