// ---- shims / specification for U-ANFREN (C05 / C19: the ANF renamer spells EVERY occurrence of a local — binder or use — the same way) ----
#[verifier::external_body] pub struct Ty { _p: u64 }
#[verifier::external_body] pub struct Prim { _p: u64 }
#[verifier::external_body] pub struct TastIdent { _p: u64 }
#[verifier::external_body] pub struct StructConstructor { _p: u64 }
#[verifier::external_body] pub struct EnumConstructor { _p: u64 }
// `name.replace(A, B)`: an uninterpreted function of the name and the two literals (what it does to the text is U-LOCALNAME / U-GOIDENT's subject; here only that every
// site uses THE SAME spelling: `ren` is DERIVED on every run as the spelling rename_imm gives a variable USE)
pub uninterp spec fn ren2(name: Seq<char>, from: Seq<char>, to: Seq<char>) -> Seq<char>;
#[verifier::external_body] pub fn rename_local(name: String, from: &str, to: &str) -> (r: String) ensures r@ == ren2(name@, from@, to@) { unimplemented!() }
pub open spec fn imm_renamed(i: ImmExpr, r: ImmExpr) -> bool {
    match i { ImmExpr::ImmVar { name, ty } => r matches ImmExpr::ImmVar { name: n2, ty: t2 } && n2@ == ren(name@) && t2 == ty, other => r == other }
}
pub open spec fn ren_imms(a: Seq<ImmExpr>, b: Seq<ImmExpr>) -> bool { a.len() == b.len() && forall|i: int| 0 <= i < a.len() ==> imm_renamed(#[trigger] a[i], b[i]) }
// `v.into_iter().map(rename_imm).collect()`: every item through rename_imm, in order (std's map/collect; rename_imm's contract)
#[verifier::external_body] pub fn map_rename_imm(v: Vec<ImmExpr>) -> (r: Vec<ImmExpr>) ensures ren_imms(v@, r@) { unimplemented!() }
// the recursive calls (induction hypothesis: only WHICH sub-expression the call was made on)
pub uninterp spec fn renamed_a(e: AExpr, r: AExpr) -> bool;
pub uninterp spec fn renamed_c(e: CExpr, r: CExpr) -> bool;
#[verifier::external_body] pub fn rename_aexpr_sub(e: AExpr) -> (r: AExpr) ensures renamed_a(e, r) { unimplemented!() }
#[verifier::external_body] pub fn rename_cexpr_sub(e: CExpr) -> (r: CExpr) ensures renamed_c(e, r) { unimplemented!() }
pub open spec fn ren_arms(a: Seq<Arm>, b: Seq<Arm>) -> bool { a.len() == b.len() && forall|i: int| 0 <= i < a.len() ==> imm_renamed(a[i].lhs, (#[trigger] b[i]).lhs) && renamed_a(a[i].body, b[i].body) }
// one level of rename_cexpr: same form, every immediate through ren_imm, every sub-expression through the renamer, everything else untouched
pub open spec fn ren_c_level(e: CExpr, r: CExpr) -> bool {
    match e {
        CExpr::CImm { imm } => r matches CExpr::CImm { imm: i2 } && imm_renamed(imm, i2),
        CExpr::EConstr { constructor, args, ty } => r matches CExpr::EConstr { constructor: c2, args: a2, ty: t2 } && c2 == constructor && t2 == ty && ren_imms(args@, a2@),
        CExpr::ETuple { items, ty } => r matches CExpr::ETuple { items: i2, ty: t2 } && t2 == ty && ren_imms(items@, i2@),
        CExpr::EArray { items, ty } => r matches CExpr::EArray { items: i2, ty: t2 } && t2 == ty && ren_imms(items@, i2@),
        CExpr::EMatch { expr, arms, default, ty } => r matches CExpr::EMatch { expr: x2, arms: a2, default: d2, ty: t2 } && t2 == ty && imm_renamed(*expr, *x2) && ren_arms(arms@, a2@)
            && (match default { Some(d) => d2 matches Some(dd) && renamed_a(*d, *dd), None => d2 is None }),
        CExpr::EIf { cond, then, else_, ty } => r matches CExpr::EIf { cond: c2, then: th2, else_: e2, ty: t2 } && t2 == ty && imm_renamed(*cond, *c2) && renamed_a(*then, *th2) && renamed_a(*else_, *e2),
        CExpr::EWhile { cond, body, ty } => r matches CExpr::EWhile { cond: c2, body: b2, ty: t2 } && t2 == ty && renamed_a(*cond, *c2) && renamed_a(*body, *b2),
        CExpr::EConstrGet { expr, constructor, field_index, ty } => r matches CExpr::EConstrGet { expr: x2, constructor: c2, field_index: f2, ty: t2 } && c2 == constructor && f2 == field_index && t2 == ty && imm_renamed(*expr, *x2),
        CExpr::EUnary { op, expr, ty } => r matches CExpr::EUnary { op: o2, expr: x2, ty: t2 } && o2 == op && t2 == ty && imm_renamed(*expr, *x2),
        CExpr::EBinary { op, lhs, rhs, ty } => r matches CExpr::EBinary { op: o2, lhs: l2, rhs: r2, ty: t2 } && o2 == op && t2 == ty && imm_renamed(*lhs, *l2) && imm_renamed(*rhs, *r2),
        CExpr::ECall { func, args, ty } => r matches CExpr::ECall { func: f2, args: a2, ty: t2 } && t2 == ty && imm_renamed(func, f2) && ren_imms(args@, a2@),
        CExpr::EToDyn { trait_name, for_ty, expr, ty } => r matches CExpr::EToDyn { trait_name: n2, for_ty: f2, expr: x2, ty: t2 } && n2 == trait_name && f2 == for_ty && t2 == ty && imm_renamed(expr, x2),
        CExpr::EDynCall { trait_name, method_name, receiver, args, ty } => r matches CExpr::EDynCall { trait_name: n2, method_name: m2, receiver: r2, args: a2, ty: t2 }
            && n2 == trait_name && m2 == method_name && t2 == ty && imm_renamed(receiver, r2) && ren_imms(args@, a2@),
        CExpr::EGo { closure, ty } => r matches CExpr::EGo { closure: c2, ty: t2 } && t2 == ty && imm_renamed(*closure, *c2),
        CExpr::EProj { tuple, index, ty } => r matches CExpr::EProj { tuple: x2, index: i2, ty: t2 } && i2 == index && t2 == ty && imm_renamed(*tuple, *x2),
    }
}
// one level of rename_aexpr: a let's BINDER is renamed by the same function as the uses
pub open spec fn ren_a_level(e: AExpr, r: AExpr) -> bool {
    match e {
        AExpr::ACExpr { expr } => r matches AExpr::ACExpr { expr: x2 } && renamed_c(expr, x2),
        AExpr::ALet { name, value, body, ty } => r matches AExpr::ALet { name: n2, value: v2, body: b2, ty: t2 } && n2@ == ren(name@) && t2 == ty && renamed_c(*value, *v2) && renamed_a(*body, *b2),
    }
}
