// ---- shims / specification for U-IMPLNAME (C17 / C19: the name of a trait impl function tells trait, type and method apart) ----
#[verifier::external_body] pub struct Ty { _p: u64 }
pub struct TastIdent(pub String);
pub uninterp spec fn compact(t: Ty) -> Seq<char>;                              // names::ty_compact: the type's pretty text without white space (pretty printer: out of reach)
#[verifier::external_body] pub fn ty_compact(ty: &Ty) -> (r: String) ensures r@ == compact(*ty) { unimplemented!() }
#[verifier::external_body] pub fn string_text(s: &String) -> (r: &str) ensures r@ == s@ { unimplemented!() }            // &String as &str
// `format!` with `{}` placeholders of strings: literal pieces and arguments concatenated in order
#[verifier::external_body] pub fn str_lit(s: &str) -> (r: String) ensures r@ == s@ { unimplemented!() }
#[verifier::external_body] pub fn str_cat(a: &String, b: &str) -> (r: String) ensures r@ == a@ + b@ { unimplemented!() }
// cancellation: the same text in front and behind
pub proof fn cat_cancel(a: Seq<char>, x: Seq<char>, y: Seq<char>, b: Seq<char>) requires a + x + b == a + y + b ensures x == y {
    assert((a + x + b).len() == a.len() + x.len() + b.len());
    assert((a + y + b).len() == a.len() + y.len() + b.len());
    assert(x.len() == y.len());
    assert forall|i: int| 0 <= i < x.len() implies x[i] == y[i] by { assert((a + x + b)[a.len() + i] == x[i]); assert((a + y + b)[a.len() + i] == y[i]); }
    assert(x =~= y);
}
// a name built from three components between four literal pieces; cancellation at each component
pub open spec fn cat7(a: Seq<char>, b: Seq<char>, c: Seq<char>, d: Seq<char>, e: Seq<char>, f: Seq<char>, g: Seq<char>) -> Seq<char> { a + b + c + d + e + f + g }
pub proof fn cat7_inj_b(a: Seq<char>, b1: Seq<char>, b2: Seq<char>, c: Seq<char>, d: Seq<char>, e: Seq<char>, f: Seq<char>, g: Seq<char>)
    requires cat7(a, b1, c, d, e, f, g) == cat7(a, b2, c, d, e, f, g) ensures b1 == b2 {
    let rest = c + d + e + f + g;
    assert(cat7(a, b1, c, d, e, f, g) =~= a + b1 + rest);
    assert(cat7(a, b2, c, d, e, f, g) =~= a + b2 + rest);
    cat_cancel(a, b1, b2, rest);
}
pub proof fn cat7_inj_d(a: Seq<char>, b: Seq<char>, c: Seq<char>, d1: Seq<char>, d2: Seq<char>, e: Seq<char>, f: Seq<char>, g: Seq<char>)
    requires cat7(a, b, c, d1, e, f, g) == cat7(a, b, c, d2, e, f, g) ensures d1 == d2 {
    let pre = a + b + c; let rest = e + f + g;
    assert(cat7(a, b, c, d1, e, f, g) =~= pre + d1 + rest);
    assert(cat7(a, b, c, d2, e, f, g) =~= pre + d2 + rest);
    cat_cancel(pre, d1, d2, rest);
}
pub proof fn cat7_inj_f(a: Seq<char>, b: Seq<char>, c: Seq<char>, d: Seq<char>, e: Seq<char>, f1: Seq<char>, f2: Seq<char>, g: Seq<char>)
    requires cat7(a, b, c, d, e, f1, g) == cat7(a, b, c, d, e, f2, g) ensures f1 == f2 {
    let pre = a + b + c + d + e;
    assert(cat7(a, b, c, d, e, f1, g) =~= pre + f1 + g);
    assert(cat7(a, b, c, d, e, f2, g) =~= pre + f2 + g);
    cat_cancel(pre, f1, f2, g);
}
