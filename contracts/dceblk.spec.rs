// ---- shims / specification for U-DCEBLK (C09: dead-code elimination drops only effect-free computations, in place) ----
// std::collections::HashSet<String>: liveness bookkeeping only — its contents are irrelevant to the contract (opaque)
#[verifier::external_body]
#[verifier::reject_recursive_types(K)]
pub struct HashSet<K> { _k: core::marker::PhantomData<K> }
impl HashSet<String> {
    #[verifier::external_body] pub fn new() -> (r: Self) { unimplemented!() }
    #[verifier::external_body] pub fn vclone(&self) -> (r: Self) { unimplemented!() }
    #[verifier::external_body] pub fn contains(&self, k: &String) -> (r: bool) { unimplemented!() }
    #[verifier::external_body] pub fn insert(&mut self, k: String) -> (r: bool) { unimplemented!() }
    #[verifier::external_body] pub fn remove(&mut self, k: &String) -> (r: bool) { unimplemented!() }
    #[verifier::external_body] pub fn extend(&mut self, other: HashSet<String>) { unimplemented!() }
    #[verifier::external_body] pub fn union_with(&mut self, other: &HashSet<String>) { unimplemented!() }   // for u in &other { self.insert(u.clone()) }
    #[verifier::external_body] pub fn is_disjoint(&self, other: &HashSet<String>) -> (r: bool) { unimplemented!() }
    #[verifier::external_body] pub fn is_empty(&self) -> (r: bool) { unimplemented!() }
}
pub trait VClone: Sized { fn vclone(&self) -> (r: Self) ensures r == *self; }
impl VClone for String { #[verifier::external_body] fn vclone(&self) -> (r: Self) { unimplemented!() } }
impl VClone for Expr { #[verifier::external_body] fn vclone(&self) -> (r: Self) { unimplemented!() } }
#[verifier::external_body] pub fn vars_used_in_expr(e: &Expr) -> (r: HashSet<String>) { unimplemented!() }
#[verifier::external_body] pub fn add_uses_expr(live: &mut HashSet<String>, e: &Expr) { unimplemented!() }
#[verifier::external_body] pub fn assigned_vars_in_block(b: &Block) -> (r: HashSet<String>) { unimplemented!() }
#[verifier::external_body] pub fn free_vars_in_block(b: &Block) -> (r: HashSet<String>) { unimplemented!() }
#[verifier::external_body] pub fn underscore() -> (r: String) ensures r@ == "_"@ { unimplemented!() }          // "_".to_string()
#[verifier::external_body]
pub fn vec_reverse<T>(v: &mut Vec<T>) ensures final(v)@ == old(v)@.reverse() { unimplemented!() }             // <[T]>::reverse

// dce_expr (DCE inside function literals; not verified here): its result, as an uninterpreted function of the expression
pub uninterp spec fn dce_e(e: Expr) -> Expr;
pub open spec fn dce_oe(o: Option<Expr>) -> Option<Expr> { match o { Some(e) => Some(dce_e(e)), None => None } }
#[verifier::external_body]
pub fn dce_expr(expr: Expr) -> (r: Expr) ensures r == dce_e(expr) { unimplemented!() }

// `s` keeps the evaluation of `v` and nothing else: `v` as an expression statement (calls, blocks) or `_ = v`
pub open spec fn eff_stmt_ok(v: Expr, s: Stmt) -> bool {
    (s == Stmt::Expr(v) && (v is Call || v is Block))
    || (s matches Stmt::Assignment { name, value } && name@ == "_"@ && value == v)
}
// C02: Go accepts a call as a statement unless the callee is a value-only builtin or a conversion (`append(v, x)` / `len(v)` / `int32(n)` alone: "not used")
pub open spec fn value_only_callee(n: Seq<char>) -> bool {
    n == "append"@ || n == "cap"@ || n == "len"@ || n == "make"@ || n == "new"@ || n == "int8"@ || n == "int16"@ || n == "int32"@ || n == "int64"@
    || n == "uint8"@ || n == "uint16"@ || n == "uint32"@ || n == "uint64"@ || n == "float32"@ || n == "float64"@ || n == "string"@
}
pub open spec fn stmt_callee_ok(f: Expr) -> bool { !(f matches Expr::Var { name, .. } && value_only_callee(name@)) }
pub open spec fn go_expr_stmt_ok(s: Stmt) -> bool {
    s matches Stmt::Expr(e) ==> (e is Block || (e matches Expr::Call { func, .. } && stmt_callee_ok(*func)))
}
#[verifier::external_body] pub fn str_eq(a: &str, b: &str) -> (r: bool) ensures r == (a@ == b@) { unimplemented!() }

// THE RULE: what dead-code elimination may turn ONE statement into (`o`: the statements standing in its place, in order).
// Every statement stays, with DCE applied inside it — except that a declaration / assignment whose variable is not needed
// may shrink to the bare evaluation of its right-hand side, and may vanish only if that right-hand side CANNOT have an effect.
pub open spec fn stmt_image(s: Stmt, o: Seq<Stmt>) -> bool
    decreases s,
{
    match s {
        Stmt::Expr(e) => o.len() == 1 && o[0] == Stmt::Expr(dce_e(e)),
        Stmt::Go { call } => o.len() == 1 && o[0] == (Stmt::Go { call: dce_e(call) }),
        Stmt::VarDecl { name, ty, value } => {
            let v = dce_oe(value);
            ||| (o.len() == 1 && o[0] == (Stmt::VarDecl { name, ty, value: v }))
            ||| (o.len() == 2 && v is Some && o[0] == (Stmt::VarDecl { name, ty, value: None }) && eff_stmt_ok(v->0, o[1]))
            ||| (o.len() == 1 && o[0] == (Stmt::VarDecl { name, ty, value: None }) && (v is None || !expr_may_effect(v->0)))
            ||| (o.len() == 1 && v is Some && eff_stmt_ok(v->0, o[0]))
            ||| (o.len() == 0 && (v is None || !expr_may_effect(v->0)))
        }
        Stmt::Assignment { name, value } => {
            let v = dce_e(value);
            ||| (o.len() == 1 && o[0] == (Stmt::Assignment { name, value: v }))
            ||| (o.len() == 1 && eff_stmt_ok(v, o[0]))
            ||| (o.len() == 0 && !expr_may_effect(v))
        }
        Stmt::IndexAssign { array, index, value } =>
            o.len() == 1 && o[0] == (Stmt::IndexAssign { array: dce_e(array), index: dce_e(index), value: dce_e(value) }),
        Stmt::PointerAssign { pointer, value } => o.len() == 1 && o[0] == (Stmt::PointerAssign { pointer: dce_e(pointer), value: dce_e(value) }),
        Stmt::FieldAssign { target, value } => o.len() == 1 && o[0] == (Stmt::FieldAssign { target: dce_e(target), value: dce_e(value) }),
        Stmt::Return { expr } => o.len() == 1 && o[0] == (Stmt::Return { expr: dce_oe(expr) }),
        Stmt::Break => o.len() == 1 && o[0] == Stmt::Break,
        Stmt::Loop { body } => o.len() == 1 && (o[0] matches Stmt::Loop { body: b2 } && aligned(body.stmts@, 0, b2.stmts@, 0)),
        // an `if` stays, with DCE applied inside — or vanishes as a whole, but only if its condition CANNOT have an effect and nothing of either branch remains
        Stmt::If { cond, then, else_ } => {
            ||| (o.len() == 1 && (o[0] matches Stmt::If { cond: c2, then: t2, else_: e2 }
                && c2 == dce_e(cond) && aligned(then.stmts@, 0, t2.stmts@, 0)
                && (else_ is Some <==> e2 is Some) && (else_ is Some ==> aligned(else_->0.stmts@, 0, e2->0.stmts@, 0))))
            ||| (o.len() == 0 && !expr_may_effect(dce_e(cond)) && aligned(then.stmts@, 0, Seq::<Stmt>::empty(), 0)
                && (else_ is Some ==> aligned(else_->0.stmts@, 0, Seq::<Stmt>::empty(), 0)))
        }
        Stmt::SwitchExpr { expr, cases, default } => o.len() == 1 && (o[0] matches Stmt::SwitchExpr { expr: x2, cases: c2, default: d2 }
            && x2 == dce_e(expr) && c2@.len() == cases@.len()
            && (forall|i: int| 0 <= i < cases@.len() ==> (#[trigger] c2@[i]).0 == dce_e(cases@[i].0) && aligned(cases@[i].1.stmts@, 0, c2@[i].1.stmts@, 0))
            && (default is Some <==> d2 is Some) && (default is Some ==> aligned(default->0.stmts@, 0, d2->0.stmts@, 0))),
        Stmt::SwitchType { bind, expr, cases, default } => o.len() == 1 && (o[0] matches Stmt::SwitchType { bind: b2, expr: x2, cases: c2, default: d2 }
            && x2 == dce_e(expr) && (b2 == bind || b2 is None) && c2@.len() == cases@.len()
            && (forall|i: int| 0 <= i < cases@.len() ==> (#[trigger] c2@[i]).0 == cases@[i].0 && aligned(cases@[i].1.stmts@, 0, c2@[i].1.stmts@, 0))
            && (default is Some <==> d2 is Some) && (default is Some ==> aligned(default->0.stmts@, 0, d2->0.stmts@, 0))),
    }
}
// outs[j..] is, in order and without anything else, the images of ins[i..]: nothing is dropped (except as stmt_image allows),
// nothing is duplicated, nothing is reordered
pub open spec fn aligned(ins: Seq<Stmt>, i: int, outs: Seq<Stmt>, j: int) -> bool
    decreases ins, ins.len() - i,
{
    if i < 0 || j < 0 || j > outs.len() { false }
    else if i >= ins.len() { j == outs.len() }
    else {
        ||| (stmt_image(ins[i], Seq::<Stmt>::empty()) && aligned(ins, i + 1, outs, j))
        ||| (j + 1 <= outs.len() && stmt_image(ins[i], outs.subrange(j, j + 1)) && aligned(ins, i + 1, outs, j + 1))
        ||| (j + 2 <= outs.len() && stmt_image(ins[i], outs.subrange(j, j + 2)) && aligned(ins, i + 1, outs, j + 2))
    }
}
// an alignment with an output of length 0 is an alignment with THE empty sequence (extensionality; broadcast inside dce_block_with_live)
pub broadcast proof fn lemma_aligned_empty(ins: Seq<Stmt>, i: int, a: Seq<Stmt>, j: int)
    requires #[trigger] aligned(ins, i, a, j), a.len() == 0,
    ensures aligned(ins, i, Seq::<Stmt>::empty(), j),
{
    assert(a =~= Seq::<Stmt>::empty());
}
// putting statements in front of the output shifts an alignment
pub proof fn lemma_aligned_shift(ins: Seq<Stmt>, i: int, outs: Seq<Stmt>, j: int, pre: Seq<Stmt>)
    requires aligned(ins, i, outs, j),
    ensures aligned(ins, i, pre + outs, j + pre.len()),
    decreases ins.len() - i,
{
    let po = pre + outs;
    if i < ins.len() {
        if stmt_image(ins[i], Seq::<Stmt>::empty()) && aligned(ins, i + 1, outs, j) {
            lemma_aligned_shift(ins, i + 1, outs, j, pre);
        } else if j + 1 <= outs.len() && stmt_image(ins[i], outs.subrange(j, j + 1)) && aligned(ins, i + 1, outs, j + 1) {
            lemma_aligned_shift(ins, i + 1, outs, j + 1, pre);
            assert(po.subrange(j + pre.len(), j + pre.len() + 1) =~= outs.subrange(j, j + 1));
        } else {
            lemma_aligned_shift(ins, i + 1, outs, j + 2, pre);
            assert(po.subrange(j + pre.len(), j + pre.len() + 2) =~= outs.subrange(j, j + 2));
        }
    }
}
// one backward step of the scan: `img` (0, 1 or 2 statements) is the image of ins[p-1] and the rest is already aligned
pub proof fn lemma_aligned_step(ins: Seq<Stmt>, p: int, rest: Seq<Stmt>, img: Seq<Stmt>)
    requires 1 <= p <= ins.len(), aligned(ins, p, rest, 0), img.len() <= 2, stmt_image(ins[p - 1], img),
    ensures aligned(ins, p - 1, img + rest, 0),
{
    lemma_aligned_shift(ins, p, rest, 0, img);
    let all = img + rest;
    assert(all.subrange(0, img.len() as int) =~= img);
    if img.len() == 0 { assert(img =~= Seq::<Stmt>::empty()); }
}
