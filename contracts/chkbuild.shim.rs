// ---- shims / specification for U-CHKBUILD (C14, third sentence: `check` and `build` of the same sources emit the same interface) ----
#[verifier::external_body] pub struct Tast { _p: u64 }
#[verifier::external_body] pub struct TyperDiagnostics { _p: u64 }
impl TyperDiagnostics { pub uninterp spec fn errors(&self) -> bool; #[verifier::external_body] pub fn has_errors(&self) -> (r: bool) ensures r == self.errors() { unimplemented!() } }
// the type checker of one package: a deterministic function of its inputs (C13 — assumed here, it is what makes the question meaningful)
pub uninterp spec fn tc_exports(package: Seq<char>, files: SourceFiles, ifaces: Map<Seq<char>, PackageInterface>, envs: Map<Seq<char>, GlobalTypeEnv>) -> PackageExports;
pub uninterp spec fn tc_hir(package: Seq<char>, files: SourceFiles, ifaces: Map<Seq<char>, PackageInterface>, envs: Map<Seq<char>, GlobalTypeEnv>) -> PackageInterface;
pub uninterp spec fn tc_fails(package: Seq<char>, files: SourceFiles, ifaces: Map<Seq<char>, PackageInterface>, envs: Map<Seq<char>, GlobalTypeEnv>) -> bool;
#[verifier::external_body]
pub fn typecheck_single_package(package: &String, files: SourceFiles, deps_interfaces: &StrMap<PackageInterface>, deps_envs: StrMap<GlobalTypeEnv>)
    -> (r: (Tast, PackageExports, PackageInterface, TyperDiagnostics))
    ensures r.1 == tc_exports(package@, files, deps_interfaces@, deps_envs@), r.2 == tc_hir(package@, files, deps_interfaces@, deps_envs@),
            r.3.errors() == tc_fails(package@, files, deps_interfaces@, deps_envs@), r.0 == tc_tast(package@, files, deps_interfaces@, deps_envs@),
{ unimplemented!() }
#[verifier::external_body] pub fn typer_error(diagnostics: TyperDiagnostics) -> (r: CompilationError) { unimplemented!() }          // CompilationError::Typer { diagnostics }
#[verifier::external_body] pub fn drop_tast(t: Tast) { unimplemented!() }
pub uninterp spec fn tc_tast(package: Seq<char>, files: SourceFiles, ifaces: Map<Seq<char>, PackageInterface>, envs: Map<Seq<char>, GlobalTypeEnv>) -> Tast;
// build only: Core generation (compile_match::compile_file) — the Core IR plays no part in the interface, but its ERRORS decide whether the package is accepted:
// a deterministic function of the environment the exports make and the typed tree, exactly like the whole-program driver's call
#[verifier::external_body] pub struct Gensym { _p: u64 }
#[verifier::external_body] pub struct MatchEnv { _p: u64 }                        // the GlobalTypeEnv the dependencies' and the package's own exports are applied to
pub uninterp spec fn env_of(own: PackageExports, deps: Seq<InterfaceUnit>) -> MatchEnv;
// `let gensym = Gensym::new(); let mut env = GlobalTypeEnv::new(); for dep in dep_units.iter() { dep.exports.apply_to(&mut env); } interface.exports.apply_to(&mut env);`
#[verifier::external_body] pub fn match_env(interface: &InterfaceUnit, dep_units: &Vec<InterfaceUnit>) -> (r: (Gensym, MatchEnv)) ensures r.1 == env_of(interface.exports, dep_units@) { unimplemented!() }
#[verifier::external_body] pub struct CompileDiagnostics { _p: u64 }
impl CompileDiagnostics { pub uninterp spec fn errors(&self) -> bool; #[verifier::external_body] pub fn has_errors(&self) -> (r: bool) ensures r == self.errors() { unimplemented!() } }
#[verifier::external_body] pub fn compile_diagnostics_new() -> (r: CompileDiagnostics) ensures !r.errors() { unimplemented!() }          // Diagnostics::new()
pub uninterp spec fn cm_fails(env: MatchEnv, tast: Tast) -> bool;
#[verifier::external_body]
pub fn compile_file(env: &MatchEnv, gensym: &Gensym, diagnostics: &mut CompileDiagnostics, tast: &Tast) -> (r: CoreFile)
    ensures final(diagnostics).errors() == (old(diagnostics).errors() || cm_fails(*env, *tast)) { unimplemented!() }
#[verifier::external_body] pub fn compile_stage_error(diagnostics: CompileDiagnostics) -> (r: CompilationError) { unimplemented!() }    // CompilationError::Compile { diagnostics }
// the interface both drivers must produce for these inputs: package, what the type checker exports, its HIR interface, the recorded dependency hashes
pub open spec fn is_interface_of(u: InterfaceUnit, package: Seq<char>, files: SourceFiles, ifaces: Map<Seq<char>, PackageInterface>, envs: Map<Seq<char>, GlobalTypeEnv>, hashes: DepMap) -> bool {
    u.usable() && u.package@ == package && u.exports == tc_exports(package, files, ifaces, envs) && u.hir_interface == tc_hir(package, files, ifaces, envs) && u.deps == hashes
}
// C14, third sentence: two interface units built for the same inputs agree in everything an interface file holds (the hash is a function of the rest: usable())
pub proof fn lemma_check_build_same_interface(a: InterfaceUnit, b: InterfaceUnit, package: Seq<char>, files: SourceFiles, ifaces: Map<Seq<char>, PackageInterface>,
                                              envs: Map<Seq<char>, GlobalTypeEnv>, hashes: DepMap)
    requires is_interface_of(a, package, files, ifaces, envs, hashes), is_interface_of(b, package, files, ifaces, envs, hashes),
    ensures a.package@ == b.package@, a.exports == b.exports, a.hir_interface == b.hir_interface, a.deps == b.deps,
            a.format_version == b.format_version, a.compiler_abi == b.compiler_abi, a.interface_hash@ == b.interface_hash@,
{
}
#[verifier::external_body] pub fn btreemap_new() -> (r: DepMap) ensures r.view2() == Map::<Seq<char>, Seq<char>>::empty() { unimplemented!() }
