// ---- shims / specification for U-CALLEETY (C20: what hover reports for the callee of `T::m(..)` is the type the compiler elaborated) ----
#[verifier::external_body] pub struct Ty { _p: u64 }
#[verifier::external_body] pub struct TastIdent { _p: u64 }
#[verifier::external_body] #[derive(Clone, Copy)] pub struct MySyntaxNodePtr { _p: u64 }
#[verifier::external_body] #[derive(Clone, Copy)] pub struct ExprId { _p: u32 }
pub trait VClone: Sized { fn vclone(&self) -> (r: Self) ensures r == *self; }
impl VClone for Ty { #[verifier::external_body] fn vclone(&self) -> (r: Self) { unimplemented!() } }
impl VClone for TastIdent { #[verifier::external_body] fn vclone(&self) -> (r: Self) { unimplemented!() } }
#[verifier::external_body] pub fn exprids_to_vec(a: &[ExprId]) -> (r: Vec<ExprId>) ensures r@ == a@ { unimplemented!() }      // args.to_vec()
// typer::results::TypeckResultsBuilder: three of its tables — the type of an expression (what hover_type reads), the elaboration of a name
// reference and of a call (what tast_builder builds the typed AST from)
#[verifier::external_body] pub struct TypeckResultsBuilder { _p: u64 }
impl TypeckResultsBuilder {
    pub uninterp spec fn ty_at(&self, e: ExprId) -> Option<Ty>;
    pub uninterp spec fn nameref_at(&self, e: ExprId) -> Option<NameRefElab>;
    pub uninterp spec fn call_at(&self, e: ExprId) -> Option<CallElab>;
    #[verifier::external_body] pub fn record_expr_ty(&mut self, e: ExprId, ty: Ty)
        ensures final(self).ty_at(e) == Some(ty), forall|x: ExprId| x != e ==> final(self).ty_at(x) == old(self).ty_at(x),
                forall|x: ExprId| final(self).nameref_at(x) == old(self).nameref_at(x), forall|x: ExprId| final(self).call_at(x) == old(self).call_at(x) { unimplemented!() }
    #[verifier::external_body] pub fn record_name_ref_elab(&mut self, e: ExprId, elab: NameRefElab)
        ensures final(self).nameref_at(e) == Some(elab), forall|x: ExprId| x != e ==> final(self).nameref_at(x) == old(self).nameref_at(x),
                forall|x: ExprId| final(self).ty_at(x) == old(self).ty_at(x), forall|x: ExprId| final(self).call_at(x) == old(self).call_at(x) { unimplemented!() }
    #[verifier::external_body] pub fn record_call_elab(&mut self, e: ExprId, elab: CallElab)
        ensures final(self).call_at(e) == Some(elab), forall|x: ExprId| x != e ==> final(self).call_at(x) == old(self).call_at(x),
                forall|x: ExprId| final(self).ty_at(x) == old(self).ty_at(x), forall|x: ExprId| final(self).nameref_at(x) == old(self).nameref_at(x) { unimplemented!() }
}
pub struct Typer { pub results: TypeckResultsBuilder }
pub open spec fn nameref_ty(n: NameRefElab) -> Ty {
    match n { NameRefElab::Var { ty, .. } => ty, NameRefElab::TraitMethod { ty, .. } => ty, NameRefElab::DynTraitMethod { ty, .. } => ty, NameRefElab::InherentMethod { ty, .. } => ty }
}
pub open spec fn callee_ty(c: CalleeElab) -> Option<Ty> {
    match c { CalleeElab::Expr(_) => None, CalleeElab::Var { ty, .. } => Some(ty), CalleeElab::TraitMethod { ty, .. } => Some(ty), CalleeElab::DynTraitMethod { ty, .. } => Some(ty),
              CalleeElab::InherentMethod { ty, .. } => Some(ty), CalleeElab::Error { ty, .. } => Some(ty) }
}
// C20: the callee expression's recorded type (hover) IS the type of its name-reference elaboration and of the call's callee elaboration (the typed AST)
pub open spec fn callee_rec_ok(r: TypeckResultsBuilder, call: ExprId, func: ExprId) -> bool {
    r.ty_at(func) matches Some(t) && (r.nameref_at(func) matches Some(n) && nameref_ty(n) == t) && (r.call_at(call) matches Some(c) && callee_ty(c.callee) == Some(t))
}
