// ---- shims / specification for U-UNIQENUM (C13: which enum an unqualified variant name means is a function of the program) ----
#[verifier::external_body] pub struct VarSet { _p: u64 }                    // HashSet<String>: the variants of one enum
impl VarSet {
    pub uninterp spec fn view(&self) -> Set<Seq<char>>;
    #[verifier::external_body] pub fn contains(&self, k: &str) -> (r: bool) ensures r == self@.contains(k@) { unimplemented!() }
}
#[verifier::external_body] pub struct EnumMap { _p: u64 }                   // HashMap<String, HashSet<String>>: enum name -> its variants
impl EnumMap {
    pub uninterp spec fn view(&self) -> Map<Seq<char>, VarSet>;
    // `iter()`: every entry exactly once, in an order NOTHING is known about (a hash map's iteration order differs from process to process)
    #[verifier::external_body]
    pub fn entries(&self) -> (r: Vec<(&String, &VarSet)>)
        ensures forall|i: int| 0 <= i < r@.len() ==> self@.contains_key(#[trigger] r@[i].0@) && *r@[i].1 == self@[r@[i].0@],
                forall|k: Seq<char>| self@.contains_key(k) ==> exists|i: int| 0 <= i < r@.len() && #[trigger] r@[i].0@ == k,
                forall|i: int, j: int| 0 <= i < j < r@.len() ==> (#[trigger] r@[i]).0@ != (#[trigger] r@[j]).0@,
    { unimplemented!() }
}
#[verifier::external_body] pub struct PackageEnums { _p: u64 }              // HashMap<String, HashMap<..>>: package -> its enums
impl PackageEnums {
    pub uninterp spec fn view(&self) -> Map<Seq<char>, EnumMap>;
    #[verifier::external_body] pub fn get(&self, k: &str) -> (r: Option<&EnumMap>)
        ensures r matches Some(m) ==> self@.contains_key(k@) && *m == self@[k@], r is None ==> !self@.contains_key(k@) { unimplemented!() }
}
pub struct ConstructorIndex { pub enums_by_package: PackageEnums }
#[verifier::external_body] pub fn string_clone(s: &String) -> (r: String) ensures r@ == s@ { unimplemented!() }
// C13 (and C05 / C06: what a bare `Circle(..)` refers to): the answer is a function of WHICH enums declare the variant, not of the order a hash map hands them out in —
// Some(e) exactly when e is the ONLY enum of the package that declares it
pub open spec fn owns(m: EnumMap, e: Seq<char>, variant: Seq<char>) -> bool { m@.contains_key(e) && m@[e]@.contains(variant) }
pub open spec fn unique_owner_ok(idx: ConstructorIndex, package: Seq<char>, variant: Seq<char>, r: Option<String>) -> bool {
    if !idx.enums_by_package@.contains_key(package) { r is None } else {
        let m = idx.enums_by_package@[package];
        match r {
            Some(e) => owns(m, e@, variant) && forall|k: Seq<char>| #[trigger] owns(m, k, variant) ==> k == e@,
            None => (forall|k: Seq<char>| !#[trigger] owns(m, k, variant)) || exists|k1: Seq<char>, k2: Seq<char>| k1 != k2 && #[trigger] owns(m, k1, variant) && #[trigger] owns(m, k2, variant),
        }
    }
}
