// ---- shims for U-SCOPE (C05): HIR side, allocation, and the recursive calls as contract-only stubs ----
// hir: ids are opaque; only the variants the verified fragments build are present (their contents are not part of the contract)
pub mod hir {
    use vstd::prelude::*;
    #[verifier::external_body] #[derive(Clone, Copy)] pub struct ExprId { _p: u64 }
    #[verifier::external_body] #[derive(Clone, Copy)] pub struct PatId { _p: u64 }
    #[verifier::external_body] #[derive(Clone, Copy)] pub struct LocalId { _p: u64 }
    #[verifier::external_body] #[derive(Clone, Copy)] pub struct DefId { _p: u64 }
    #[verifier::external_body] #[derive(Clone, Copy)] pub struct BuiltinId { _p: u64 }
    #[verifier::external_body] pub struct Path { _p: u64 }
    impl Path { #[verifier::external_body] pub fn from_ident(name: String) -> (r: Path) { unimplemented!() } }
    pub enum NameRef { Local(LocalId), Def(DefId), Builtin(BuiltinId), Unresolved(Path) }
    #[verifier::external_body] pub struct TypeExpr { _p: u64 }
    #[verifier::external_body] pub struct ClosureParam { _p: u64 }
    pub struct Arm { pub pat: PatId, pub body: ExprId }
    pub enum ConstructorRef { Unresolved(Path), Other(u8) }
    pub enum Pat { PVar { name: LocalId, astptr: super::ast::MySyntaxNodePtr }, PConstr { constructor: ConstructorRef, args: Vec<PatId> }, POther(u8) }
    pub enum Expr {
        EBlock { exprs: Vec<ExprId> },
        EMatch { expr: ExprId, arms: Vec<Arm> },
        ELet { pat: PatId, annotation: Option<TypeExpr>, value: ExprId },
        EClosure { params: Vec<ClosureParam>, body: ExprId },
        EIf { cond: ExprId, then_branch: ExprId, else_branch: ExprId },
        EWhile { cond: ExprId, body: ExprId },
        ENameRef { res: NameRef, hint: String, astptr: Option<super::ast::MySyntaxNodePtr> },
        EUnary { op: super::ast::UnaryOp, expr: ExprId },
        EBinary { op: super::ast::BinaryOp, lhs: ExprId, rhs: ExprId },
        EProj { tuple: ExprId, index: usize },
        ETuple { items: Vec<ExprId> },
        EArray { items: Vec<ExprId> },
        EGo { expr: ExprId },
        EConstr { constructor: ConstructorRef, args: Vec<ExprId> },
    }
}
#[verifier::external_body] pub struct HirTable { _p: u64 }
impl HirTable { pub uninterp spec fn expr_of(&self, id: hir::ExprId) -> hir::Expr; }      // the expression stored under an id
// HashMap<String, Id>: lookup by name (values are Copy ids)
#[verifier::external_body]
#[verifier::reject_recursive_types(V)]
pub struct NameMap<V> { _v: core::marker::PhantomData<V> }
impl<V: Copy> NameMap<V> {
    #[verifier::external_body] pub fn get_copied(&self, k: &String) -> (r: Option<V>) { unimplemented!() }     // m.get(k) matched through `Some(&v)`
}
// typer::name_resolution::ResolutionContext: the fields the identifier-use fragment reads
#[verifier::external_body] pub struct ImportSet { _p: u64 }
pub struct ResolutionContext<'a> { pub current_package: &'a str, pub def_names: &'a NameMap<hir::DefId>, pub builtin_names: &'a NameMap<hir::BuiltinId>, pub imports: &'a ImportSet }
#[verifier::external_body] pub fn full_def_name(package: &str, name: &str) -> (r: String) { unimplemented!() }
pub trait VClone: Sized { fn vclone(&self) -> (r: Self) ensures r == *self; }
impl VClone for String { #[verifier::external_body] fn vclone(&self) -> (r: Self) { unimplemented!() } }
#[verifier::external_body] pub struct NameResolution { _p: u64 }
#[verifier::external_body]
pub fn conv_annotation(a: &Option<ast::TypeExpr>) -> (r: Option<hir::TypeExpr>) { unimplemented!() }   // annotation.as_ref().map(|t| t.into())

// im::Vector<T>: a persistent vector; clone is an identical copy, push_back appends
#[verifier::external_body]
#[verifier::reject_recursive_types(T)]
pub struct ImVector<T> { _t: core::marker::PhantomData<T> }
impl<T> ImVector<T> {
    pub uninterp spec fn view(&self) -> Seq<T>;
    #[verifier::external_body] pub fn new() -> (r: Self) ensures r@ == Seq::<T>::empty() { unimplemented!() }
    #[verifier::external_body] pub fn vclone(&self) -> (r: Self) ensures r@ == self@ { unimplemented!() }
    #[verifier::external_body] pub fn push_back(&mut self, x: T) ensures final(self)@ == old(self)@.push(x) { unimplemented!() }
    #[verifier::external_body] pub fn push_front(&mut self, x: T) ensures final(self)@ == seq![x] + old(self)@ { unimplemented!() }
    #[verifier::external_body] pub fn len(&self) -> (r: usize) ensures r == self@.len() { unimplemented!() }
    #[verifier::external_body] pub fn index(&self, i: usize) -> (r: &T) requires i < self@.len() ensures *r == self@[i as int] { unimplemented!() }
}
#[verifier::external_body]
pub fn ident_clone(a: &ast::AstIdent) -> (r: ast::AstIdent) ensures r == *a { unimplemented!() }
#[verifier::external_body]
pub fn ident_eq(a: &ast::AstIdent, b: &ast::AstIdent) -> (r: bool) ensures r == (a.0@ == b.0@) { unimplemented!() }

// ---- the specification ----
pub open spec fn env_names(e: Seq<(ast::AstIdent, hir::LocalId)>) -> Seq<Seq<char>> { Seq::new(e.len(), |i: int| e[i].0.0@) }

// variables a pattern binds, left to right
pub open spec fn pat_names(p: ast::Pat) -> Seq<Seq<char>>
    decreases p,
{
    match p {
        ast::Pat::PVar { name, .. } => seq![name.0@],
        ast::Pat::PConstr { args, .. } => pats_names(args@, args@.len() as int),
        ast::Pat::PTuple { pats, .. } => pats_names(pats@, pats@.len() as int),
        ast::Pat::PStruct { fields, .. } => fields_names(fields@, fields@.len() as int),
        _ => Seq::empty(),
    }
}
pub open spec fn pats_names(ps: Seq<ast::Pat>, n: int) -> Seq<Seq<char>>
    decreases ps, n,
{
    if n <= 0 || n > ps.len() { Seq::empty() } else { pats_names(ps, n - 1) + pat_names(ps[n - 1]) }
}
pub open spec fn fields_names(fs: Seq<(ast::AstIdent, ast::Pat)>, n: int) -> Seq<Seq<char>>
    decreases fs, n,
{
    if n <= 0 || n > fs.len() { Seq::empty() } else { fields_names(fs, n - 1) + pat_names(fs[n - 1].1) }
}

// THE SCOPING RULE (C05): the names an expression leaves in scope for what FOLLOWS it in the enclosing block.
// A `let` leaves its pattern's variables; a block, a match arm and a closure body are scopes: nothing bound inside them
// escapes.  Every other form passes on what its sub-expressions leave, in evaluation order.
pub open spec fn leak(e: ast::Expr) -> Seq<Seq<char>>
    decreases e,
{
    match e {
        ast::Expr::ELet { pat, value, .. } => leak(*value) + pat_names(pat),
        ast::Expr::EBlock { .. } => Seq::empty(),
        ast::Expr::EClosure { .. } => Seq::empty(),
        ast::Expr::EMatch { expr, .. } => leak(*expr),
        ast::Expr::EIf { cond, then_branch, else_branch, .. } => leak(*cond) + leak(*then_branch) + leak(*else_branch),
        ast::Expr::EWhile { cond, body, .. } => leak(*cond) + leak(*body),
        ast::Expr::EGo { expr, .. } => leak(*expr),
        ast::Expr::ECall { func, args, .. } => leak(*func) + leaks(args@, args@.len() as int),
        ast::Expr::EUnary { expr, .. } => leak(*expr),
        ast::Expr::EBinary { lhs, rhs, .. } => leak(*lhs) + leak(*rhs),
        ast::Expr::EProj { tuple, .. } => leak(*tuple),
        ast::Expr::EField { expr, .. } => leak(*expr),
        ast::Expr::EConstr { args, .. } => leaks(args@, args@.len() as int),
        ast::Expr::ETuple { items, .. } => leaks(items@, items@.len() as int),
        ast::Expr::EArray { items, .. } => leaks(items@, items@.len() as int),
        ast::Expr::EStructLiteral { fields, .. } => field_leaks(fields@, fields@.len() as int),
        _ => Seq::empty(),
    }
}
pub open spec fn leaks(es: Seq<ast::Expr>, n: int) -> Seq<Seq<char>>
    decreases es, n,
{
    if n <= 0 || n > es.len() { Seq::empty() } else { leaks(es, n - 1) + leak(es[n - 1]) }
}
pub open spec fn field_leaks(fs: Seq<(ast::AstIdent, ast::Expr)>, n: int) -> Seq<Seq<char>>
    decreases fs, n,
{
    if n <= 0 || n > fs.len() { Seq::empty() } else { field_leaks(fs, n - 1) + leak(fs[n - 1].1) }
}

// the recursive calls, with the contract each verified arm is checked against (induction hypothesis for sub-expressions)
impl NameResolution {
    #[verifier::external_body]
    pub fn resolve_expr(&mut self, expr: &ast::Expr, env: &mut ResolveLocalEnv, ctx: &ResolutionContext, hir_table: &mut HirTable) -> (r: hir::ExprId)
        ensures env_names(final(env).0@) == env_names(old(env).0@) + leak(*expr),
    { unimplemented!() }
    #[verifier::external_body]
    pub fn resolve_pat(&mut self, pat: &ast::Pat, env: &mut ResolveLocalEnv, ctx: &ResolutionContext, hir_table: &mut HirTable) -> (r: hir::PatId)
        ensures env_names(final(env).0@) == env_names(old(env).0@) + pat_names(*pat),
    { unimplemented!() }
    // the pattern of a match arm: resolved in a scope that holds exactly the names visible where the match stands (after its scrutinee) —
    // in particular none that an EARLIER arm's pattern or body bound (C05: a binding is visible to the end of its arm only)
    #[verifier::external_body]
    pub fn resolve_arm_pat(&mut self, pat: &ast::Pat, env: &mut ResolveLocalEnv, Ghost(outer): Ghost<Seq<Seq<char>>>, ctx: &ResolutionContext, hir_table: &mut HirTable) -> (r: hir::PatId)
        requires env_names(old(env).0@) == outer,
        ensures env_names(final(env).0@) == env_names(old(env).0@) + pat_names(*pat),
    { unimplemented!() }
    #[verifier::external_body]
    pub fn resolve_closure_param(&mut self, param: &ast::ClosureParam, env: &mut ResolveLocalEnv, ctx: &ResolutionContext, hir_table: &mut HirTable) -> (r: hir::ClosureParam)
    { unimplemented!() }
    #[verifier::external_body]
    pub fn alloc_expr_with_ptr(&mut self, hir_table: &mut HirTable, astptr: ast::MySyntaxNodePtr, e: hir::Expr) -> (r: hir::ExprId)
        ensures final(hir_table).expr_of(r) == e,
    { unimplemented!() }
}

pub proof fn lemma_names_push(e: Seq<(ast::AstIdent, hir::LocalId)>, x: (ast::AstIdent, hir::LocalId))
    ensures env_names(e.push(x)) == env_names(e).push(x.0.0@),
{
    assert(env_names(e.push(x)) =~= env_names(e).push(x.0.0@));
}

// ---- resolve_fn: every parameter is a binder of its own ----
impl HirTable { pub uninterp spec fn issued(&self) -> Set<hir::LocalId>; }             // the local ids handed out so far
#[verifier::external_body] pub struct TParamSet { _p: u64 }
#[verifier::external_body] pub fn type_param_set(generics: &Vec<ast::AstIdent>) -> (r: TParamSet) { unimplemented!() }
#[verifier::external_body] pub fn string_as_str(s: &String) -> (r: &str) ensures r@ == s@ { unimplemented!() }
impl NameResolution {
    // HirTable::fresh_local: an id that has not been handed out before
    #[verifier::external_body]
    pub fn fresh_name(&self, name: &str, hir_table: &mut HirTable) -> (r: hir::LocalId)
        ensures !old(hir_table).issued().contains(r), final(hir_table).issued() == old(hir_table).issued().insert(r),
    { unimplemented!() }
    #[verifier::external_body]
    // the lowering of a type expression that checks every package it names against the imports
    pub fn lower_type_expr(&mut self, ty: &ast::TypeExpr, tparams: &TParamSet, current_package: &str, imports: &ImportSet) -> (r: hir::TypeExpr) ensures import_checked(r) { unimplemented!() }
    #[verifier::external_body] pub fn ice(&mut self, msg: String) { unimplemented!() }
}
#[verifier::external_body] pub fn rt_msg() -> (r: String) { unimplemented!() }
// the parameters of a function, as binders: one fresh id each (also for two parameters of the same name), entered into the
// environment in order (so a use sees the LAST parameter of that name)
pub open spec fn params_bound(params: Seq<(ast::AstIdent, ast::TypeExpr)>, env: Seq<(ast::AstIdent, hir::LocalId)>, out: Seq<(hir::LocalId, hir::TypeExpr)>) -> bool {
    out.len() == params.len() && env.len() == params.len()
    && (forall|i: int| 0 <= i < params.len() ==> (#[trigger] env[i]).0 == params[i].0 && env[i].1 == out[i].0)
    && (forall|i: int, j: int| 0 <= i < j < out.len() ==> (#[trigger] out[i]).0 != (#[trigger] out[j]).0)
}

// ---- resolve_pat, identifier patterns: binder or constructor ----
impl HirTable { pub uninterp spec fn pat_of(&self, id: hir::PatId) -> hir::Pat; }
impl ast::Path {
    #[verifier::external_body] pub fn from_ident(ident: ast::AstIdent) -> (r: ast::Path) ensures r.is_ident(ident.0@) { unimplemented!() }
    // a path is a non-empty list of segments: how many there are, and the name of the last one
    pub uninterp spec fn seg_len(&self) -> nat;
    pub uninterp spec fn last_name(&self) -> Option<Seq<char>>;
    pub open spec fn is_ident(&self, n: Seq<char>) -> bool { self.seg_len() == 1 && self.last_name() == Some(n) }
    #[verifier::external_body] pub fn len(&self) -> (r: usize) ensures r == self.seg_len() { unimplemented!() }
    #[verifier::external_body] pub fn vclone_path(&self) -> (r: ast::Path) ensures r == *self { unimplemented!() }
    #[verifier::external_body] pub fn last_ident(&self) -> (r: Option<&ast::AstIdent>)
        ensures r matches Some(i) ==> self.last_name() == Some(i.0@), r is None ==> self.last_name() is None { unimplemented!() }
}
impl NameResolution {
    // the constructor a (one-segment) path names in this package, if any: looked up in the PACKAGE-WIDE constructor index
    pub uninterp spec fn ctor_of(name: Seq<char>, ctx: &ResolutionContext) -> Option<hir::Path>;
    #[verifier::external_body]
    pub fn constructor_path_for(&mut self, path: &ast::Path, ctx: &ResolutionContext) -> (r: Option<hir::Path>)
        ensures forall|n: Seq<char>| path.is_ident(n) ==> r == Self::ctor_of(n, ctx),
    { unimplemented!() }
    #[verifier::external_body]
    pub fn alloc_pat_with_ptr(&mut self, hir_table: &mut HirTable, astptr: ast::MySyntaxNodePtr, p: hir::Pat) -> (r: hir::PatId)
        ensures final(hir_table).pat_of(r) == p, final(hir_table).issued() == old(hir_table).issued(),
    { unimplemented!() }
}
// an identifier pattern: a constructor of the package when the name is one (nothing is bound), otherwise a NEW binder of that name
pub open spec fn ident_pat_ok(name: ast::AstIdent, ctx: &ResolutionContext, env0: Seq<(ast::AstIdent, hir::LocalId)>, env1: Seq<(ast::AstIdent, hir::LocalId)>, p: hir::Pat) -> bool {
    match NameResolution::ctor_of(name.0@, ctx) {
        Some(c) => env1 == env0 && (p matches hir::Pat::PConstr { constructor, args } && constructor == hir::ConstructorRef::Unresolved(c) && args@.len() == 0),
        None => env1.len() == env0.len() + 1 && env1.subrange(0, env0.len() as int) == env0 && env1.last().0 == name
            && (p matches hir::Pat::PVar { name: id, astptr: _ } && id == env1.last().1),
    }
}
pub uninterp spec fn import_checked(t: hir::TypeExpr) -> bool;        // produced by lower_type_expr (as opposed to the plain `.into()` conversion)
#[verifier::external_body] pub fn empty_tparams() -> (r: TParamSet) { unimplemented!() }     // HashSet::new()
// C16: the type a `let` is annotated with went through the import-checking lowering
pub open spec fn let_annotation_import_checked(e: hir::Expr) -> bool {
    e matches hir::Expr::ELet { annotation, .. } && (annotation matches Some(a) ==> import_checked(a))
}

#[verifier::external_body] pub fn path_clone(p: &ast::Path) -> (r: ast::Path) ensures r == *p { unimplemented!() }          // derived Clone: an identical copy

// C16: the written type of every parameter of a function went through the import-checking lowering (lower_type_expr)
pub open spec fn params_import_checked(ps: Seq<(hir::LocalId, hir::TypeExpr)>) -> bool { forall|i: int| 0 <= i < ps.len() ==> import_checked((#[trigger] ps[i]).1) }
#[verifier::external_body] pub fn type_expr_into(ty: &ast::TypeExpr) -> (r: hir::TypeExpr) { unimplemented!() }      // `From<&ast::TypeExpr> for hir::TypeExpr`: the conversion WITHOUT the import gate
