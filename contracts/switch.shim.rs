// ---- shims / specification for U-SWITCH (C06: each arm of a compiled match becomes its own case, with its own literal and body) ----
impl Prim {
    pub uninterp spec fn bool_of(&self) -> Option<bool>;
    #[verifier::external_body] pub fn as_bool(&self) -> (r: Option<bool>) ensures r == self.bool_of() { unimplemented!() }
    pub uninterp spec fn str_of(&self) -> Option<Seq<char>>;
    #[verifier::external_body] pub fn as_str(&self) -> (r: Option<&str>) ensures r matches Some(s) ==> self.str_of() == Some(s@), r is None ==> self.str_of() is None { unimplemented!() }
}
impl VClone for AExpr { #[verifier::external_body] fn vclone(&self) -> (r: Self) { unimplemented!() } }
#[verifier::external_body] pub fn str_to_string(s: &str) -> (r: String) ensures r@ == s@ { unimplemented!() }
pub uninterp spec fn go_ty_of(t: Ty) -> GoType;
#[verifier::external_body] pub fn tast_ty_to_go_type(t: &Ty) -> (r: GoType) ensures r == go_ty_of(*t) { unimplemented!() }
pub uninterp spec fn imm_ty_spec(i: ImmExpr) -> Ty;
#[verifier::external_body] pub fn imm_ty2(imm: &ImmExpr) -> (r: Ty) ensures r == imm_ty_spec(*imm) { unimplemented!() }        // imm_ty
pub uninterp spec fn imm_go(goenv: &GlobalGoEnv, i: ImmExpr) -> Expr;
#[verifier::external_body] pub fn compile_imm(goenv: &GlobalGoEnv, imm: &ImmExpr) -> (r: Expr) ensures r == imm_go(goenv, *imm) { unimplemented!() }
pub uninterp spec fn variant_go_ty(goenv: &GlobalGoEnv, ty: Ty, index: usize) -> GoType;
#[verifier::external_body] pub fn variant_ty_by_index(goenv: &GlobalGoEnv, ty: &Ty, index: usize) -> (r: GoType) ensures r == variant_go_ty(goenv, *ty, index) { unimplemented!() }
// `build_branch(e)`: the caller's closure lowers one branch.  Nothing is assumed about it except that what it returns is A lowering
// of the expression it was given (the closures passed in are stateful — fresh names — so the result is not a function of e)
pub uninterp spec fn lowers(stmts: Seq<Stmt>, e: AExpr) -> bool;
#[verifier::external_body] pub fn build_branch_stub(e: AExpr) -> (r: Vec<Stmt>) ensures lowers(r@, e) { unimplemented!() }

pub open spec fn default_ok(d: Option<Block>, default: Option<Box<AExpr>>) -> bool {
    (default is None ==> d is None) && (default matches Some(b) ==> (d matches Some(blk) && lowers(blk.stmts@, *b)))
}
// switch on a literal-typed scrutinee: case i carries arm i's own literal (lit_ok) and a lowering of arm i's own body, in the arms' order
pub open spec fn lit_switch_ok(r: Seq<Stmt>, goenv: &GlobalGoEnv, scrutinee: ImmExpr, arms: Seq<Arm>, default: Option<Box<AExpr>>, lit_ok: spec_fn(Expr, ImmExpr) -> bool) -> bool {
    r.len() == 1 && (r[0] matches Stmt::SwitchExpr { expr, cases, default: d } && expr == imm_go(goenv, scrutinee) && cases@.len() == arms.len()
        && (forall|i: int| 0 <= i < arms.len() ==> lit_ok((#[trigger] cases@[i]).0, arms[i].lhs) && lowers(cases@[i].1.stmts@, arms[i].body))
        && default_ok(d, default))
}
pub open spec fn bool_case() -> spec_fn(Expr, ImmExpr) -> bool {
    |c: Expr, lhs: ImmExpr| c matches Expr::Bool { value, ty: _ } && (lhs matches ImmExpr::ImmPrim { value: p, ty: _ } && p.bool_of() == Some(value))
}
pub open spec fn string_case() -> spec_fn(Expr, ImmExpr) -> bool {
    |c: Expr, lhs: ImmExpr| c matches Expr::String { value, ty: _ } && (lhs matches ImmExpr::ImmPrim { value: p, ty: _ } && p.str_of() == Some(value@))
}
// type switch on an enum scrutinee: case i is the Go type of the variant arm i's tag names, with a lowering of arm i's body; the
// switch binds the scrutinee's own name
pub open spec fn enum_switch_ok(r: Seq<Stmt>, goenv: &GlobalGoEnv, scrutinee: ImmExpr, arms: Seq<Arm>, default: Option<Box<AExpr>>) -> bool {
    r.len() == 1 && (r[0] matches Stmt::SwitchType { bind, expr, cases, default: d }
        && (scrutinee matches ImmExpr::ImmVar { name, ty: _ } && bind matches Some(b) && b@ == name@)
        && expr == imm_go(goenv, scrutinee) && cases@.len() == arms.len()
        && (forall|i: int| 0 <= i < arms.len() ==> ((#[trigger] arms[i]).lhs matches ImmExpr::ImmTag { index, ty } && cases@[i].0 == variant_go_ty(goenv, ty, index))
                && lowers(cases@[i].1.stmts@, arms[i].body))
        && default_ok(d, default))
}
pub open spec fn int_case<E: Fn(&Prim) -> Option<String>>(extract: E) -> spec_fn(Expr, ImmExpr) -> bool {
    |c: Expr, lhs: ImmExpr| c matches Expr::Int { value, ty: _ } && (lhs matches ImmExpr::ImmPrim { value: p, ty: _ } && extract.ensures((&p,), Some(value)))
}

