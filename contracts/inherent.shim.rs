// ---- shims for U-INHERENT (C17): the method loop of typer::toplevel::define_inherent_impl ----
#[verifier::external_body] pub struct DefId { _p: u32 }
pub struct HirFn { pub name: String }                               // hir::Fn: only the name is read by the fragment
pub enum Def { Fn(HirFn), Other }                                    // hir::Def: the function definitions and everything else
#[verifier::external_body] pub struct HirTable { _p: u64 }
impl HirTable {
    pub uninterp spec fn def_of(&self, id: DefId) -> Def;
    #[verifier::external_body] pub fn def(&self, id: DefId) -> (r: &Def) ensures *r == self.def_of(id) { unimplemented!() }
}
impl Clone for DefId { #[verifier::external_body] fn clone(&self) -> (r: Self) ensures r == *self { unimplemented!() } }
impl Copy for DefId {}
pub struct ImplBlock { pub methods: Vec<DefId> }                     // hir::ImplBlock: only the method list is read by the fragment
#[verifier::external_body] pub struct NameSet { _p: u64 }            // HashSet<String>
impl View for NameSet { type V = Set<Seq<char>>; uninterp spec fn view(&self) -> Set<Seq<char>>; }
impl NameSet {
    #[verifier::external_body] pub fn new() -> (r: NameSet) ensures r@ == Set::<Seq<char>>::empty() { unimplemented!() }
    #[verifier::external_body] pub fn insert(&mut self, k: String) -> (r: bool) ensures final(self)@ == old(self)@.insert(k@), r == !old(self)@.contains(k@) { unimplemented!() }
}
// the part of the loop body that builds the method's type scheme (parameter and return types; may push diagnostics) — dropped, see the unit
#[verifier::external_body] pub fn method_scheme(env: &PackageTypeEnv, diagnostics: &mut Diagnostics) -> (r: FnScheme)
    ensures final(diagnostics).errors() >= old(diagnostics).errors() { unimplemented!() }
// `inherent_impls.entry(key).or_default()` followed by `.methods.extend(added)`: at that key the new entries are added, an entry of the
// same name being REPLACED (IndexMap::extend); nothing else changes
#[verifier::external_body] pub fn inherent_extend(env: &mut PackageTypeEnv, key: InherentImplKey, added: SchemeMap)
    ensures final(env).cur.trait_env.inherent_impls.methods(key) == old(env).cur.trait_env.inherent_impls.methods(key).union_prefer_right(added@),
            forall|k: InherentImplKey| k != key ==> final(env).cur.trait_env.inherent_impls.methods(k) == old(env).cur.trait_env.inherent_impls.methods(k),
{ unimplemented!() }

// ---- C17: a method name that is already taken for the type is ambiguous ----
pub open spec fn meth_name(t: &HirTable, b: &ImplBlock, i: int) -> Option<Seq<char>> {
    match t.def_of(b.methods@[i]) { Def::Fn(f) => Some(f.name@), _ => None }
}
// the method names of the first k entries of the block
pub open spec fn names_upto(t: &HirTable, b: &ImplBlock, k: int) -> Set<Seq<char>>
    decreases k,
{
    if k <= 0 { Set::empty() } else {
        match meth_name(t, b, k - 1) { Some(n) => names_upto(t, b, k - 1).insert(n), None => names_upto(t, b, k - 1) }
    }
}
// entry i defines a name that is taken (earlier impl block of the same key, or the other kind of key) or that an earlier entry of this block defines
pub open spec fn ambiguous_at(tb: PkgEnv, key: InherentImplKey, for_ty: Ty, t: &HirTable, b: &ImplBlock, i: int) -> bool {
    meth_name(t, b, i) matches Some(n) && (is_taken(tb, key, for_ty, n) || names_upto(t, b, i).contains(n))
}
pub open spec fn any_ambiguous(tb: PkgEnv, key: InherentImplKey, for_ty: Ty, t: &HirTable, b: &ImplBlock, k: int) -> bool
    decreases k,
{
    k > 0 && (ambiguous_at(tb, key, for_ty, t, b, k - 1) || any_ambiguous(tb, key, for_ty, t, b, k - 1))
}

// ---- overlap between an instance impl (`impl Box[int32]`, key Exact) and a generic impl (`impl[T] Box[T]`, key Constr) ----
// the type constructor a type is an instance of: the name of its enum / struct, applied or not; `Vec`, `Ref` (typer::util::try_constr_name is
// verified against this in U-INHERENT; U-TRAITNAME sees it through the stub below)
pub open spec fn constr_name_of(t: Ty) -> Option<Seq<char>>
    decreases t,
{
    match t {
        Ty::TEnum { name } => Some(name@),
        Ty::TStruct { name } => Some(name@),
        Ty::TApp { ty, .. } => constr_name_of(*ty),
        Ty::TVec { .. } => Some("Vec"@),
        Ty::TRef { .. } => Some("Ref"@),
        _ => None,
    }
}
#[verifier::external_body] pub fn lit_string(s: &'static str) -> (r: String) ensures r@ == s@ { unimplemented!() }       // "lit".to_string()
// the method name n is already defined under the OTHER kind of key for the same type constructor
pub open spec fn overlap_defined(t: InherentTable, key: InherentImplKey, for_ty: Ty, n: Seq<char>) -> bool {
    match key {
        InherentImplKey::Exact(_) => constr_name_of(for_ty) matches Some(c) && exists|k: InherentImplKey| k matches InherentImplKey::Constr(cs) && cs@ == c
            && #[trigger] t.methods(k).dom().contains(n),
        InherentImplKey::Constr(cs) => exists|k: InherentImplKey| k matches InherentImplKey::Exact(ty) && constr_name_of(ty) == Some(cs@)
            && #[trigger] t.methods(k).dom().contains(n),
    }
}
// n is taken for this impl block: defined at the same key already, or under the other kind of key for the same constructor, or the name of a
// variant of the enum the block is for (`T::n(..)` is then the constructor while `x.n(..)` would be the method)
pub open spec fn is_taken(e: PkgEnv, key: InherentImplKey, for_ty: Ty, n: Seq<char>) -> bool {
    e.trait_env.inherent_impls.methods(key).dom().contains(n) || overlap_defined(e.trait_env.inherent_impls, key, for_ty, n) || variant_named(e, for_ty, n)
}
// ---- a method named like a variant of its own enum ----
pub struct TastIdent(pub String);
impl TastIdent { #[verifier::external_body] pub fn new(name: &str) -> (r: TastIdent) ensures r.0@ == name@ { unimplemented!() } }
pub struct EnumDef { pub variants: Vec<(TastIdent, Vec<Ty>)> }      // env::EnumDef: only the variant list is read
#[verifier::external_body] pub struct EnumTable { _p: u64 }        // IndexMap<TastIdent, EnumDef>, keyed by the TEXT of the name
impl EnumTable {
    pub uninterp spec fn def_of(&self, name: Seq<char>) -> Option<EnumDef>;
    #[verifier::external_body] pub fn get(&self, k: &TastIdent) -> (r: Option<&EnumDef>)
        ensures r matches Some(d) ==> self.def_of(k.0@) == Some(*d), r is None ==> self.def_of(k.0@) is None { unimplemented!() }
}
impl EnumTable {
    #[verifier::external_body] pub fn contains_key(&self, k: &TastIdent) -> (r: bool) ensures r == (self.def_of(k.0@) is Some) { unimplemented!() }
}
#[verifier::external_body] pub struct StructTable { _p: u64 }      // IndexMap<TastIdent, StructDef>, keyed by the TEXT of the name
impl StructTable {
    pub uninterp spec fn has(&self, name: Seq<char>) -> bool;
    #[verifier::external_body] pub fn contains_key(&self, k: &TastIdent) -> (r: bool) ensures r == self.has(k.0@) { unimplemented!() }
}
impl PkgEnv {
    pub uninterp spec fn enum_table(&self) -> EnumTable;
    #[verifier::external_body] pub fn enums(&self) -> (r: &EnumTable) ensures *r == self.enum_table() { unimplemented!() }
    pub uninterp spec fn struct_table(&self) -> StructTable;
    #[verifier::external_body] pub fn structs(&self) -> (r: &StructTable) ensures *r == self.struct_table() { unimplemented!() }
}
// C17: the package declares an enum or a struct of that name (`Name::m(x)` then has two readings if a trait is called Name as well)
pub open spec fn names_a_type(e: PkgEnv, n: Seq<char>) -> bool { e.enum_table().def_of(n) is Some || e.struct_table().has(n) }
#[verifier::external_body] pub fn string_eq_str(a: &String, b: &str) -> (r: bool) ensures r == (a@ == b@) { unimplemented!() }      // `a == b` for a: String, b: &str
pub open spec fn declares_variant(d: EnumDef, n: Seq<char>) -> bool {
    exists|i: int| 0 <= i < d.variants@.len() && (#[trigger] d.variants@[i]).0.0@ == n
}
// C17: for_ty is (an instance of) an enum that declares a variant called n
pub open spec fn variant_named(e: PkgEnv, for_ty: Ty, n: Seq<char>) -> bool {
    constr_name_of(for_ty) matches Some(c) && (e.enum_table().def_of(c) matches Some(d) && declares_variant(d, n))
}
// ---- toplevel::inherent_method_overlaps itself (verified; these are its callees) ----
// `try_constr_name(ty).as_deref() == Some(constr.as_str())`
#[verifier::external_body] pub fn constr_is(t: &Ty, c: &String) -> (r: bool) ensures r == (constr_name_of(*t) == Some(c@)) { unimplemented!() }
impl SchemeMap { #[verifier::external_body] pub fn contains_str(&self, k: &str) -> (r: bool) ensures r == self@.dom().contains(k@) { unimplemented!() } }
impl InherentTable {
    // `impls.iter()`: the entries of the table (IndexMap: insertion order) — every key that has a method is among them, each with its methods
    #[verifier::external_body]
    pub fn entries_vec(&self) -> (r: Vec<(InherentImplKey, ImplDef)>)
        ensures forall|i: int| 0 <= i < r@.len() ==> (#[trigger] r@[i]).1.methods@ == self.methods(r@[i].0),
                forall|k: InherentImplKey, n: Seq<char>| #[trigger] self.methods(k).dom().contains(n) ==> exists|i: int| 0 <= i < r@.len() && (#[trigger] r@[i]).0 == k,
    { unimplemented!() }
}
// the table is keyed by the TEXT of a constructor name (IndexMap<InherentImplKey, _> hashes and compares string contents): assumed
#[verifier::external_body]
pub proof fn axiom_constr_key_by_text(t: InherentTable, a: InherentImplKey, b: InherentImplKey)
    requires a matches InherentImplKey::Constr(x) && b matches InherentImplKey::Constr(y) && x@ == y@,
    ensures t.methods(a) == t.methods(b),
{ }
