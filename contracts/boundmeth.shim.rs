// ---- shims / specification for U-BOUNDMETH (C17: `x.m(a)` through a `T: Tr` bound resolves to the trait methods of T's OWN bounds) ----
#[verifier::external_body] pub struct TypeVar { _p: u32 }
pub struct TastIdent(pub String);
#[verifier::external_body] pub struct GlobalTypeEnv { _p: u64 }
impl GlobalTypeEnv {
    // the type scheme of method m of trait tr, as this environment declares it
    pub uninterp spec fn method_of(&self, tr: Seq<char>, m: Seq<char>) -> Option<Ty>;
    #[verifier::external_body]
    pub fn lookup_trait_method(&self, trait_name: &TastIdent, method_name: &TastIdent) -> (r: Option<Ty>)
        ensures r == self.method_of(trait_name.0@, method_name.0@),
    { unimplemented!() }
}
#[verifier::external_body] pub struct PackageTypeEnv { _p: u64 }
// typer::util::resolve_trait_name: the full name and the declaring environment of a trait that is visible under this name, if any
pub uninterp spec fn trait_resolved(genv: PackageTypeEnv, name: Seq<char>) -> Option<(Seq<char>, GlobalTypeEnv)>;
#[verifier::external_body]
pub fn resolve_trait_name<'a>(genv: &'a PackageTypeEnv, name: &String) -> (r: Option<(String, &'a GlobalTypeEnv)>)
    ensures r matches Some(p) ==> trait_resolved(*genv, name@) == Some((p.0@, *p.1)), r is None ==> trait_resolved(*genv, name@) is None,
{ unimplemented!() }

// what bound number i contributes: (resolved trait, the method's scheme) when the bound names a visible trait that declares the method
pub open spec fn bound_hit(genv: PackageTypeEnv, b: TastIdent, m: Seq<char>) -> Option<(Seq<char>, Ty)> {
    match trait_resolved(genv, b.0@) {
        Some(p) => match p.1.method_of(p.0, m) { Some(t) => Some((p.0, t)), None => None },
        None => None,
    }
}
// the candidates for method m through the first n bounds, in the order the bounds are written
pub open spec fn bound_hits(genv: PackageTypeEnv, bounds: Seq<TastIdent>, m: Seq<char>, n: int) -> Seq<(Seq<char>, Ty)>
    decreases n,
{
    if n <= 0 || n > bounds.len() { Seq::empty() }
    else {
        match bound_hit(genv, bounds[n - 1], m) {
            Some(h) => bound_hits(genv, bounds, m, n - 1).push(h),
            None => bound_hits(genv, bounds, m, n - 1),
        }
    }
}
pub open spec fn hits_view(r: Seq<(TastIdent, Ty)>) -> Seq<(Seq<char>, Ty)> { Seq::new(r.len(), |i: int| (r[i].0.0@, r[i].1)) }
// ---- the call site: which bounds are asked (fragment bound_candidates of Typer::infer_call_expr) ----
#[verifier::external_body] pub struct HirIdent { _p: u64 }
impl HirIdent {
    pub uninterp spec fn text(&self) -> Seq<char>;
    #[verifier::external_body] pub fn to_ident_name(&self) -> (r: String) ensures r@ == self.text() { unimplemented!() }
}
#[verifier::external_body] pub struct LocalTypeEnv { _p: u64 }
impl LocalTypeEnv {
    // the trait bounds of the type parameter `name` of the function being checked (none recorded: no bounds)
    pub uninterp spec fn bounds_of(&self, name: Seq<char>) -> Seq<TastIdent>;
    #[verifier::external_body]
    pub fn tparam_trait_bounds(&self, name: &String) -> (r: Option<&Vec<TastIdent>>)
        ensures r matches Some(b) ==> b@ == self.bounds_of(name@), r is None ==> self.bounds_of(name@).len() == 0,
    { unimplemented!() }
}
#[verifier::external_body] pub fn no_bounds<'a>() -> (r: &'a Vec<TastIdent>) ensures r@.len() == 0 { unimplemented!() }      // `&[]`
