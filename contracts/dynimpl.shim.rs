// ---- shims / specification for U-DYNIMPL (C02, C17: the dyn wrapper of a method calls the impl function under the name it is DEFINED with) ----
pub uninterp spec fn gi(name: Seq<char>) -> Seq<char>;                                   // go::mangle::go_ident (verified by U-GOIDENT)
#[verifier::external_body] pub fn go_ident(name: &str) -> (r: String) ensures r@ == gi(name@) { unimplemented!() }
pub struct TastIdent(pub String);
// names::trait_impl_fn_name: THE name under which compile_match defines, and every static call site names, the impl function of a trait method for a type
pub uninterp spec fn impl_fn_name(tr: Seq<char>, ty: Ty, m: Seq<char>) -> Seq<char>;
#[verifier::external_body] pub fn trait_impl_fn_name(tr: &TastIdent, ty: &Ty, m: &str) -> (r: String) ensures r@ == impl_fn_name(tr.0@, *ty, m@) { unimplemented!() }
pub uninterp spec fn wrap_name(tr: Seq<char>, ty: Ty, m: Seq<char>) -> Seq<char>;       // go::compile::dyn_wrap_go_name
#[verifier::external_body] pub fn dyn_wrap_go_name(tr: &str, ty: &Ty, m: &str) -> (r: String) ensures r@ == wrap_name(tr@, *ty, m@) { unimplemented!() }
pub uninterp spec fn go_ty(t: Ty) -> GoType;                                             // go::compile::tast_ty_to_go_type
#[verifier::external_body] pub fn tast_ty_to_go_type(t: &Ty) -> (r: GoType) ensures r == go_ty(*t) { unimplemented!() }
#[verifier::external_body] pub fn any_go_type() -> (r: GoType) { unimplemented!() }
#[verifier::external_body] pub fn extend_go_types(v: &mut Vec<GoType>, params: &Vec<Ty>) { unimplemented!() }   // `v.extend(params.iter().map(tast_ty_to_go_type))`
#[verifier::external_body] pub fn gotype_clone(t: &GoType) -> (r: GoType) ensures r == *t { unimplemented!() }
#[verifier::external_body] pub fn str_to_string(s: &str) -> (r: String) ensures r@ == s@ { unimplemented!() }
pub uninterp spec fn pname(i: int) -> Seq<char>;                                         // `format!("p{}", i)`: the name of the wrapper's i-th parameter
#[verifier::external_body] pub fn fmt_p(i: usize) -> (r: String) ensures r@ == pname(i as int) { unimplemented!() }

// C17 / C02: f is the wrapper of method m of trait tr for a receiver of type for_ty whose impl was written for impl_ty: it asserts the receiver back to
// for_ty's Go type and passes it, followed by its own parameters in order, to THE impl function of (tr, impl_ty, m)
pub open spec fn is_wrap(f: Fn, tr: Seq<char>, for_ty: Ty, impl_ty: Ty, m: Seq<char>, n: int) -> bool {
    f.name@ == wrap_name(tr, for_ty, m)
    && f.params@.len() == n + 1 && f.params@[0].0@ == "self"@
    && (forall|i: int| 0 <= i < n ==> (#[trigger] f.params@[i + 1]).0@ == pname(i))
    && f.body.stmts@.len() == 1
    && (f.body.stmts@[0] matches Stmt::Return { expr: Some(e) } && (e matches Expr::Call { func, args, .. }
        && (*func matches Expr::Var { name, .. } && name@ == gi(impl_fn_name(tr, impl_ty, m)))
        && args@.len() == n + 1
        && (args@[0] matches Expr::Cast { expr: se, ty } && ty == go_ty(for_ty) && (*se matches Expr::Var { name: sn, .. } && sn@ == "self"@))
        && (forall|i: int| 0 <= i < n ==> (#[trigger] args@[i + 1] matches Expr::Var { name: an, .. } && an@ == pname(i)))))
}

