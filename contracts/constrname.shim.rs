// ---- shims / specification for U-CONSTRNAME (C04 / C20: asking a type for its constructor name does not panic on an erroneous type) ----
#[verifier::external_body] pub struct TypeVar { _p: u32 }
#[verifier::external_body] pub fn string_clone(s: &String) -> (r: String) ensures r@ == s@ { unimplemented!() }
#[verifier::external_body] pub fn str_to_string(s: &str) -> (r: String) ensures r@ == s@ { unimplemented!() }
// the type has a constructor: a nominal type, Vec / Ref, or an application of such a type.  `T[int32]` (an application of a type PARAMETER) has none:
// the parser and Ty::from_hir accept it, so it reaches the type checker of an erroneous program
pub open spec fn has_constr(t: Ty) -> bool
    decreases t,
{
    match t {
        Ty::TEnum { .. } | Ty::TStruct { .. } | Ty::TVec { .. } | Ty::TRef { .. } => true,
        Ty::TApp { ty, .. } => has_constr(*ty),
        _ => false,
    }
}
// the panicking accessor: its precondition is the no-panic obligation of every caller
impl Ty {
    #[verifier::external_body]
    pub fn get_constr_name_unsafe(&self) -> (r: String) requires has_constr(*self) { unimplemented!() }
}
#[verifier::external_body] pub struct TraitEnv { _p: u64 }
