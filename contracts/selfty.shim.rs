// ---- specification for U-SELFTY (C03 / C17: `Self` in an impl method's signature is the impl's type, at every depth) ----
#[verifier::external_body] pub struct TypeVar { _p: u32 }
impl Clone for TypeVar { #[verifier::external_body] fn clone(&self) -> (r: Self) ensures r == *self { unimplemented!() } }
impl Copy for TypeVar {}
#[verifier::external_body] pub fn ty_clone(t: &Ty) -> (r: Ty) ensures r == *t { unimplemented!() }
#[verifier::external_body] pub fn box_clone(b: &Box<Ty>) -> (r: Box<Ty>) ensures *r == **b { unimplemented!() }      // Box<Ty>::clone
#[verifier::external_body] pub fn string_clone(s: &String) -> (r: String) ensures r == *s, r@ == s@ { unimplemented!() }
#[verifier::external_body] pub fn is_self_name(s: &String) -> (r: bool) ensures r == (s@ == "Self"@) { unimplemented!() }       // name == "Self"
// r is t with every occurrence of the type named `Self` replaced by s — in tuples, applications (head and arguments), arrays, Vecs, REFS, function parameters and results
pub open spec fn self_inst(t: Ty, s: Ty, r: Ty) -> bool decreases t {
    match t {
        Ty::TStruct { name } => if name@ == "Self"@ { r == s } else { r == t },
        Ty::TTuple { typs } => r matches Ty::TTuple { typs: r2 } && all_inst(typs@, s, r2@),
        Ty::TApp { ty, args } => r matches Ty::TApp { ty: t2, args: a2 } && self_inst(*ty, s, *t2) && all_inst(args@, s, a2@),
        Ty::TArray { len, elem } => r matches Ty::TArray { len: l2, elem: e2 } && l2 == len && self_inst(*elem, s, *e2),
        Ty::TVec { elem } => r matches Ty::TVec { elem: e2 } && self_inst(*elem, s, *e2),
        Ty::TRef { elem } => r matches Ty::TRef { elem: e2 } && self_inst(*elem, s, *e2),
        Ty::TFunc { params, ret_ty } => r matches Ty::TFunc { params: p2, ret_ty: r2 } && all_inst(params@, s, p2@) && self_inst(*ret_ty, s, *r2),
        _ => r == t,
    }
}
pub open spec fn all_inst(ts: Seq<Ty>, s: Ty, rs: Seq<Ty>) -> bool decreases ts {
    rs.len() == ts.len() && forall|j: int| 0 <= j < ts.len() ==> self_inst(ts[j], s, #[trigger] rs[j])
}
