// ---- shims / specification for U-CALLLOWER (C11: a call is read as written — only operator nodes take the arguments inward) ----
#[verifier::external_body] #[derive(Clone, Copy)] pub struct TextRange { _p: u64 }
#[verifier::external_body] pub struct SyntaxNode { _p: u64 }
impl SyntaxNode { #[verifier::external_body] pub fn text_range(&self) -> (r: TextRange) { unimplemented!() } }
#[verifier::external_body] pub struct CstNode { _p: u64 }
impl CstNode { #[verifier::external_body] pub fn syntax(&self) -> (r: &SyntaxNode) { unimplemented!() } }
#[verifier::external_body] pub struct LowerCtx { _p: u64 }
// cst::Expr: the kinds of callee node the call arm distinguishes (all other kinds: Other)
pub mod cst {
    use vstd::prelude::*;
    #[verifier::external_body] pub struct BinaryExpr { _p: u64 }
    impl BinaryExpr { pub uninterp spec fn dot(&self) -> bool; }       // its operator token is `.`
    // the operands of `.` the lowering tells apart: an integer token (tuple index), a float token (`1.0` in `t.1.0`: two indices), an identifier (field)
    #[verifier::external_body] pub struct IntExpr { _p: u64 }
    #[verifier::external_body] pub struct FloatExpr { _p: u64 }
    #[verifier::external_body] pub struct IdentExpr { _p: u64 }
    pub enum Expr { PrefixExpr(super::CstNode), BinaryExpr(BinaryExpr), CallExpr(super::CstNode), ClosureExpr(super::CstNode), ParenExpr(super::CstNode),
                    IntExpr(IntExpr), FloatExpr(FloatExpr), IdentExpr(IdentExpr), Other(super::CstNode) }
}
#[verifier::external_body] pub fn bin_is_dot(b: &cst::BinaryExpr) -> (r: bool) ensures r == b.dot() { unimplemented!() }   // matches!(b.op().map(|tok| tok.kind()), Some(MySyntaxKind::Dot))
// the recursive calls and apply_trailing_args: uninterpreted results
pub uninterp spec fn lowered(e: cst::Expr) -> Option<ast::Expr>;
#[verifier::external_body] pub fn lower_expr(ctx: &mut LowerCtx, e: cst::Expr) -> (r: Option<ast::Expr>) ensures r == lowered(e) { unimplemented!() }
pub uninterp spec fn lowered_with(e: cst::Expr, args: Seq<ast::Expr>) -> Option<ast::Expr>;
#[verifier::external_body] pub fn lower_expr_with_args(ctx: &mut LowerCtx, e: cst::Expr, args: Vec<ast::Expr>) -> (r: Option<ast::Expr>) ensures r == lowered_with(e, args@) { unimplemented!() }
// apply_trailing_args on a call `f(args)`: an uninterpreted function of the callee, the argument SEQUENCE and the further argument lists
pub uninterp spec fn trailing_applied(f: ast::Expr, args: Seq<ast::Expr>, astptr: ast::MySyntaxNodePtr, trailing: Seq<ast::Expr>) -> Option<ast::Expr>;
#[verifier::external_body]
pub fn apply_trailing_args(ctx: &mut LowerCtx, expr: ast::Expr, trailing_args: Vec<ast::Expr>, range: Option<TextRange>) -> (r: Option<ast::Expr>)
    ensures expr matches ast::Expr::ECall { func, args, astptr } ==> r == trailing_applied(*func, args@, astptr, trailing_args@),
{ unimplemented!() }
#[verifier::external_body] pub fn vec_extend_exprs(v: &mut Vec<ast::Expr>, more: Vec<ast::Expr>) ensures final(v)@ == old(v)@ + more@ { unimplemented!() }
// an operator node (prefix, or binary other than `.`) is not a callee: `-f(x)` means `-(f(x))`, so the arguments go inward
pub open spec fn takes_args_inward(e: cst::Expr) -> bool {
    e is PrefixExpr || (e matches cst::Expr::BinaryExpr(b) && !b.dot())
}
// e with a call WITHOUT arguments put around its operand: through prefix operators and into the right operand of binary operators
// (`-f()` is `-(f())`, `!!g()` is `!(!(g()))`); everything else is the operand itself and becomes the callee
pub open spec fn is_nullary_call_of(r: ast::Expr, e: ast::Expr, p: ast::MySyntaxNodePtr) -> bool
    decreases e,
{
    match e {
        ast::Expr::EUnary { op, expr, astptr } =>
            r matches ast::Expr::EUnary { op: o2, expr: e2, astptr: a2 } && o2 == op && a2 == astptr && is_nullary_call_of(*e2, *expr, p),
        ast::Expr::EBinary { op, lhs, rhs, astptr } =>
            r matches ast::Expr::EBinary { op: o2, lhs: l2, rhs: r2, astptr: a2 } && o2 == op && a2 == astptr && l2 == lhs && is_nullary_call_of(*r2, *rhs, p),
        _ => r matches ast::Expr::ECall { func, args, astptr } && *func == e && args@.len() == 0 && astptr == p,
    }
}
// an operator node as "callee": the call belongs to its operand.  With arguments they travel inward as trailing arguments; a call without
// arguments is put around the operand of the lowered operator node
pub open spec fn operator_callee_lowered(r: Option<ast::Expr>, callee: cst::Expr, all_args: Seq<ast::Expr>, astptr: ast::MySyntaxNodePtr) -> bool {
    if all_args.len() == 0 {
        match lowered(callee) {
            None => r is None,
            Some(e) => r matches Some(x) && is_nullary_call_of(x, e, astptr),
        }
    } else {
        r == lowered_with(callee, all_args)
    }
}
// `callee(args)` followed by further argument lists `trailing`
pub open spec fn call_lowered(r: Option<ast::Expr>, callee: cst::Expr, args: Seq<ast::Expr>, trailing: Seq<ast::Expr>, astptr: ast::MySyntaxNodePtr) -> bool {
    if takes_args_inward(callee) {
        operator_callee_lowered(r, callee, args + trailing, astptr)
    } else {
        match lowered(callee) {
            None => r is None,
            Some(f) => r == trailing_applied(f, args, astptr, trailing),
        }
    }
}
// ---- the `.` arm: tuple projection / field access ----
#[verifier::external_body] pub struct SyntaxToken { _p: u64 }
impl SyntaxToken {
    pub uninterp spec fn text(&self) -> Seq<char>;
    #[verifier::external_body] pub fn to_string(&self) -> (r: String) ensures r@ == self.text() { unimplemented!() }
    #[verifier::external_body] pub fn text_range(&self) -> (r: TextRange) { unimplemented!() }
}
impl cst::IntExpr {
    pub uninterp spec fn token(&self) -> Option<SyntaxToken>;
    #[verifier::external_body] pub fn value(&self) -> (r: Option<SyntaxToken>) ensures r == self.token() { unimplemented!() }
    #[verifier::external_body] pub fn syntax(&self) -> (r: &SyntaxNode) { unimplemented!() }
}
impl cst::FloatExpr {
    pub uninterp spec fn token(&self) -> Option<SyntaxToken>;
    #[verifier::external_body] pub fn value(&self) -> (r: Option<SyntaxToken>) ensures r == self.token() { unimplemented!() }
    #[verifier::external_body] pub fn syntax(&self) -> (r: &SyntaxNode) { unimplemented!() }
}
impl cst::IdentExpr { #[verifier::external_body] pub fn syntax(&self) -> (r: &SyntaxNode) { unimplemented!() } }
impl cst::Expr { #[verifier::external_body] pub fn syntax(&self) -> (r: &SyntaxNode) { unimplemented!() } }
pub trait ErrMsg {}            // impl Into<String>
impl ErrMsg for String {}
impl<'a> ErrMsg for &'a str {}
impl LowerCtx { #[verifier::external_body] pub fn push_error<M: ErrMsg>(&mut self, range: Option<TextRange>, msg: M) { unimplemented!() } }
#[verifier::external_body] pub fn rt_msg() -> (r: String) { unimplemented!() }
// str::parse::<usize>: the number a digit string denotes (None for anything else)
pub uninterp spec fn usize_of(s: Seq<char>) -> Option<usize>;
#[verifier::external_body] pub fn parse_usize(s: &str) -> (r: Option<usize>) ensures r == usize_of(s@) { unimplemented!() }       // s.parse::<usize>().ok()
#[verifier::external_body] pub fn parse_usize_res(s: &String) -> (r: Result<usize, ()>) ensures (r is Ok) == (usize_of(s@) is Some), r matches Ok(v) ==> usize_of(s@) == Some(v) { unimplemented!() }   // s.parse::<usize>()
// str::split_once('.'): the text before and after the FIRST dot
pub open spec fn first_dot(s: Seq<char>) -> Option<int> {
    if exists|i: int| 0 <= i < s.len() && s[i] == '.' { Some(choose|i: int| 0 <= i < s.len() && s[i] == '.' && forall|j: int| 0 <= j < i ==> s[j] != '.') } else { None }
}
#[verifier::external_body]
pub fn str_split_once_dot<'a>(s: &'a String) -> (r: Option<(&'a str, &'a str)>)
    ensures r is None <==> first_dot(s@) is None,
            r matches Some((a, b)) ==> a@ == s@.subrange(0, first_dot(s@)->0) && b@ == s@.subrange(first_dot(s@)->0 + 1, s@.len() as int),
{ unimplemented!() }
#[verifier::external_body] pub fn token_text_or_default(t: Option<SyntaxToken>) -> (r: String) ensures t matches Some(k) ==> r@ == k.text(), t is None ==> r@.len() == 0 { unimplemented!() }   // .map(|t| t.to_string()).unwrap_or_default()
// the field-access case (identifier after the dot) is outside this fragment's claim
#[verifier::external_body] pub fn lower_field_access(ctx: &mut LowerCtx, ident_expr: cst::IdentExpr, lhs: ast::Expr, trailing_args: Vec<ast::Expr>, astptr: ast::MySyntaxNodePtr) -> (r: Option<ast::Expr>) { unimplemented!() }
// C11: `.` is left-associative and binds tightest: `t.1.0` is `(t.1).0`.  What follows the dot:
//   an integer token n            ->  EProj(lhs, n)
//   a float token spelled `a.b`   ->  EProj(EProj(lhs, a), b)      (the lexer's longest match made one token out of two indices)
pub open spec fn proj_lowered(r: Option<ast::Expr>, rhs: cst::Expr, lhs: ast::Expr, astptr: ast::MySyntaxNodePtr) -> bool {
    match rhs {
        cst::Expr::IntExpr(i) => (i.token() matches Some(t) ==> (usize_of(t.text()) matches Some(n)
            ==> r == Some(ast::Expr::EProj { tuple: Box::new(lhs), index: n, astptr }))),
        cst::Expr::FloatExpr(f) => (f.token() matches Some(t) ==> (first_dot(t.text()) matches Some(d)
            ==> (usize_of(t.text().subrange(0, d)) matches Some(a) ==> (usize_of(t.text().subrange(d + 1, t.text().len() as int)) matches Some(b)
            ==> r == Some(ast::Expr::EProj { tuple: Box::new(ast::Expr::EProj { tuple: Box::new(lhs), index: a, astptr }), index: b, astptr }))))),
        _ => true,
    }
}

