// ---- shims / specification for U-CALLLOWER (C11: a call is read as written — only operator nodes take the arguments inward) ----
#[verifier::external_body] #[derive(Clone, Copy)] pub struct TextRange { _p: u64 }
#[verifier::external_body] pub struct SyntaxNode { _p: u64 }
impl SyntaxNode { #[verifier::external_body] pub fn text_range(&self) -> (r: TextRange) { unimplemented!() } }
#[verifier::external_body] pub struct CstNode { _p: u64 }
impl CstNode { #[verifier::external_body] pub fn syntax(&self) -> (r: &SyntaxNode) { unimplemented!() } }
#[verifier::external_body] pub struct LowerCtx { _p: u64 }
// cst::Expr: the kinds of callee node the call arm distinguishes (all other kinds: Other)
pub mod cst {
    use vstd::prelude::*;
    #[verifier::external_body] pub struct BinaryExpr { _p: u64 }
    impl BinaryExpr { pub uninterp spec fn dot(&self) -> bool; }       // its operator token is `.`
    pub enum Expr { PrefixExpr(super::CstNode), BinaryExpr(BinaryExpr), CallExpr(super::CstNode), ClosureExpr(super::CstNode), ParenExpr(super::CstNode), Other(super::CstNode) }
}
#[verifier::external_body] pub fn bin_is_dot(b: &cst::BinaryExpr) -> (r: bool) ensures r == b.dot() { unimplemented!() }   // matches!(b.op().map(|tok| tok.kind()), Some(MySyntaxKind::Dot))
// the recursive calls and apply_trailing_args: uninterpreted results
pub uninterp spec fn lowered(e: cst::Expr) -> Option<ast::Expr>;
#[verifier::external_body] pub fn lower_expr(ctx: &mut LowerCtx, e: cst::Expr) -> (r: Option<ast::Expr>) ensures r == lowered(e) { unimplemented!() }
pub uninterp spec fn lowered_with(e: cst::Expr, args: Seq<ast::Expr>) -> Option<ast::Expr>;
#[verifier::external_body] pub fn lower_expr_with_args(ctx: &mut LowerCtx, e: cst::Expr, args: Vec<ast::Expr>) -> (r: Option<ast::Expr>) ensures r == lowered_with(e, args@) { unimplemented!() }
// apply_trailing_args on a call `f(args)`: an uninterpreted function of the callee, the argument SEQUENCE and the further argument lists
pub uninterp spec fn trailing_applied(f: ast::Expr, args: Seq<ast::Expr>, astptr: ast::MySyntaxNodePtr, trailing: Seq<ast::Expr>) -> Option<ast::Expr>;
#[verifier::external_body]
pub fn apply_trailing_args(ctx: &mut LowerCtx, expr: ast::Expr, trailing_args: Vec<ast::Expr>, range: Option<TextRange>) -> (r: Option<ast::Expr>)
    ensures expr matches ast::Expr::ECall { func, args, astptr } ==> r == trailing_applied(*func, args@, astptr, trailing_args@),
{ unimplemented!() }
#[verifier::external_body] pub fn vec_extend_exprs(v: &mut Vec<ast::Expr>, more: Vec<ast::Expr>) ensures final(v)@ == old(v)@ + more@ { unimplemented!() }
// an operator node (prefix, or binary other than `.`) is not a callee: `-f(x)` means `-(f(x))`, so the arguments go inward
pub open spec fn takes_args_inward(e: cst::Expr) -> bool {
    e is PrefixExpr || (e matches cst::Expr::BinaryExpr(b) && !b.dot())
}
// `callee(args)` followed by further argument lists `trailing`
pub open spec fn call_lowered(r: Option<ast::Expr>, callee: cst::Expr, args: Seq<ast::Expr>, trailing: Seq<ast::Expr>, astptr: ast::MySyntaxNodePtr) -> bool {
    if takes_args_inward(callee) {
        r == lowered_with(callee, args + trailing)
    } else {
        match lowered(callee) {
            None => r is None,
            Some(f) => r == trailing_applied(f, args, astptr, trailing),
        }
    }
}
