// Box::as_ref: a reference to the boxed value (target of rule box_as_ref)
#[verifier::external_body]
pub fn box_as_ref<T>(b: &Box<T>) -> (r: &T)
    ensures *r == **b,
{ b.as_ref() }
