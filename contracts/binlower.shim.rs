// ---- shims / specification for U-BINLOWER (C11: an operator token is the operator it writes) ----
impl SyntaxToken {
    pub uninterp spec fn kind_of(&self) -> MySyntaxKind;
    #[verifier::external_body] pub fn kind(&self) -> (r: MySyntaxKind) ensures r == self.kind_of() { unimplemented!() }
}
// the language's binary operators, by the token that writes them
pub open spec fn op_of(k: MySyntaxKind) -> Option<ast::BinaryOp> {
    match k {
        MySyntaxKind::Plus => Some(ast::BinaryOp::Add),
        MySyntaxKind::Minus => Some(ast::BinaryOp::Sub),
        MySyntaxKind::Star => Some(ast::BinaryOp::Mul),
        MySyntaxKind::Slash => Some(ast::BinaryOp::Div),
        MySyntaxKind::AndAnd => Some(ast::BinaryOp::And),
        MySyntaxKind::OrOr => Some(ast::BinaryOp::Or),
        MySyntaxKind::Less => Some(ast::BinaryOp::Less),
        MySyntaxKind::Greater => Some(ast::BinaryOp::Greater),
        MySyntaxKind::LessEq => Some(ast::BinaryOp::LessEq),
        MySyntaxKind::GreaterEq => Some(ast::BinaryOp::GreaterEq),
        MySyntaxKind::EqEq => Some(ast::BinaryOp::Eq),
        MySyntaxKind::NotEq => Some(ast::BinaryOp::NotEq),
        _ => None,
    }
}
