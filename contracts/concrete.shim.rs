// ---- specification for U-CONCRETE (C17 / C03: an overloaded call is resolved only once its receiver type is fully known) ----
#[verifier::external_body] pub struct TypeVar { _p: u32 }
// an inference variable occurs somewhere in the type
pub open spec fn has_tvar(t: Ty) -> bool decreases t {
    match t {
        Ty::TVar(_) => true,
        Ty::TTuple { typs } => any_tvar(typs@, typs@.len() as int),
        Ty::TApp { ty, args } => has_tvar(*ty) || any_tvar(args@, args@.len() as int),
        Ty::TArray { elem, .. } => has_tvar(*elem),
        Ty::TVec { elem } => has_tvar(*elem),
        Ty::TRef { elem } => has_tvar(*elem),
        Ty::TFunc { params, ret_ty } => any_tvar(params@, params@.len() as int) || has_tvar(*ret_ty),
        _ => false,
    }
}
pub open spec fn any_tvar(ts: Seq<Ty>, n: int) -> bool decreases ts, n {
    if n <= 0 || n > ts.len() { false } else { any_tvar(ts, n - 1) || has_tvar(ts[n - 1]) }
}
