// ---- shims for U-LOADPKG (C16): packages::load_package ----
#[verifier::external_body] pub struct PathBuf { _p: u64 }
#[verifier::external_body] pub struct CompilationError { _p: u64 }
#[verifier::external_body] pub struct AstRest { _p: u64 }
#[verifier::external_body]
#[verifier::reject_recursive_types(K)]
pub struct HashSet<K> { _k: std::marker::PhantomData<K> }
pub struct AstIdent(pub String);
// ast::File: only the `package` declaration is read here
pub struct AstFile { pub package: AstIdent, pub rest: AstRest }
// hir::SourceFileAst (same two fields)
pub struct SourceFileAst { pub path: PathBuf, pub ast: AstFile }
impl PathBuf {
    #[verifier::external_body] pub fn to_path_buf(&self) -> (r: PathBuf) { unimplemented!() }
}
#[verifier::external_body] pub fn compile_error(m: String) -> (r: CompilationError) { unimplemented!() }
#[verifier::external_body] pub fn rt_msg() -> (r: String) { unimplemented!() }
#[verifier::external_body] pub fn string_clone(a: &String) -> (r: String) ensures r@ == a@ { unimplemented!() }
#[verifier::external_body] pub fn string_ne(a: &String, b: &String) -> (r: bool) ensures r == (a@ != b@) { unimplemented!() }
#[verifier::external_body] pub fn read_gom_sources(dir: &PathBuf) -> (r: Result<Vec<PathBuf>, CompilationError>) { unimplemented!() }
#[verifier::external_body] pub fn fs_read_to_string(p: &PathBuf) -> (r: Result<String, CompilationError>) { unimplemented!() }   // fs::read_to_string(..).map_err(..)
#[verifier::external_body] pub fn parse_ast_file(p: &PathBuf, src: &String) -> (r: Result<AstFile, CompilationError>) { unimplemented!() }
#[verifier::external_body] pub fn collect_imports(files: &Vec<SourceFileAst>) -> (r: HashSet<String>) { unimplemented!() }
#[verifier::external_body] pub fn entry_is(entry_path: Option<&PathBuf>, path: &PathBuf) -> (r: bool) { unimplemented!() }        // entry_path.is_some_and(|entry| entry == path)

// a package unit is ONE package: every file in it declares the unit's name
pub open spec fn one_package(u: PackageUnit) -> bool {
    forall|i: int| 0 <= i < u.files@.len() ==> (#[trigger] u.files@[i]).ast.package.0@ == u.name@
}
