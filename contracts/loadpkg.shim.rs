// ---- shims for U-LOADPKG (C16): packages::load_package ----
#[verifier::external_body] pub struct PathBuf { _p: u64 }
// pipeline::CompilationError (extracted above): a Parser error carries diagnostics whose ranges are OFFSETS into the text of the file that
// was parsed; a Compile error (compile_error(..)) is a message without a range
// C12 (every position of a diagnostic lies within the text it is shown against): the drivers render Parser diagnostics against the ENTRY
// file's text, so a function that parses OTHER files must not let a Parser error out — it resolves the positions itself
pub open spec fn no_foreign_positions<T>(r: Result<T, CompilationError>) -> bool { r matches Err(e) ==> !(e is Parser) }
#[verifier::external_body] pub struct AstRest { _p: u64 }
#[verifier::external_body]
#[verifier::reject_recursive_types(K)]
pub struct HashSet<K> { _k: std::marker::PhantomData<K> }
pub struct AstIdent(pub String);
// ast::File: only the `package` declaration is read here
pub struct AstFile { pub package: AstIdent, pub rest: AstRest }
// hir::SourceFileAst (same two fields)
pub struct SourceFileAst { pub path: PathBuf, pub ast: AstFile }
impl PathBuf {
    #[verifier::external_body] pub fn to_path_buf(&self) -> (r: PathBuf) ensures r == *self { unimplemented!() }
    pub uninterp spec fn fname(&self) -> Seq<char>;          // Path::file_name: the last component
}
// `a.file_name() == b.file_name()`
#[verifier::external_body] pub fn same_file_name(a: &PathBuf, b: &PathBuf) -> (r: bool) ensures r == (a.fname() == b.fname()) { unimplemented!() }
// `a == b` on paths: component-wise equality of the spellings (`main.gom` and `./main.gom` differ)
#[verifier::external_body] pub fn path_eq(a: &PathBuf, b: &PathBuf) -> (r: bool) ensures r ==> a.fname() == b.fname() { unimplemented!() }
// C13: the pre-parsed entry file is in the unit ONCE — no file read from the directory (index >= n0) is the entry file again,
// however the entry path was spelled on the command line
pub open spec fn entry_once(files: Seq<SourceFileAst>, n0: int, entry_path: Option<&PathBuf>) -> bool {
    entry_path matches Some(e) ==> forall|i: int| n0 <= i < files.len() ==> (#[trigger] files[i]).path.fname() != e.fname()
}
#[verifier::external_body] pub fn compile_error(m: String) -> (r: CompilationError) ensures r is Compile { unimplemented!() }
#[verifier::external_body] pub fn rt_msg() -> (r: String) { unimplemented!() }
#[verifier::external_body] pub fn string_clone(a: &String) -> (r: String) ensures r@ == a@ { unimplemented!() }
#[verifier::external_body] pub fn string_ne(a: &String, b: &String) -> (r: bool) ensures r == (a@ != b@) { unimplemented!() }
#[verifier::external_body] pub fn fs_read_to_string(p: &PathBuf) -> (r: Result<String, CompilationError>) ensures r matches Err(e) ==> e is Compile { unimplemented!() }   // fs::read_to_string(..).map_err(..)
#[verifier::external_body] pub fn parse_ast_file(p: &PathBuf, src: &String) -> (r: Result<AstFile, CompilationError>) { unimplemented!() }
impl HashSet<String> { pub uninterp spec fn names(&self) -> Set<Seq<char>>; }
impl<K> HashSet<K> { #[verifier::external_body] pub fn new() -> (r: Self) { unimplemented!() } }
// the package names the `import` declarations of these files mention (collect_imports: a flat_map over the files; trusted)
pub uninterp spec fn declared_imports(files: Seq<SourceFileAst>) -> Set<Seq<char>>;
#[verifier::external_body] pub fn collect_imports(files: &Vec<SourceFileAst>) -> (r: HashSet<String>) ensures r.names() == declared_imports(files@) { unimplemented!() }
#[verifier::external_body] pub fn entry_is(entry_path: Option<&PathBuf>, path: &PathBuf) -> (r: bool) { unimplemented!() }        // entry_path.is_some_and(|entry| entry == path)

// a package unit is ONE package: every file in it declares the unit's name
pub open spec fn one_package(u: PackageUnit) -> bool {
    forall|i: int| 0 <= i < u.files@.len() ==> (#[trigger] u.files@[i]).ast.package.0@ == u.name@
}

// ---- read_gom_sources: the order of a package's files must not depend on the directory's enumeration order (C13) ----
#[verifier::external_body] pub struct ReadDir { _p: u64 }          // fs::ReadDir: entries in an OS-dependent order
#[verifier::external_body] pub struct DirEntry { _p: u64 }
impl ReadDir { #[verifier::external_body] pub fn next_entry(&mut self) -> (r: Option<Result<DirEntry, CompilationError>>) ensures r matches Some(Err(e)) ==> e is Compile { unimplemented!() } }   // Iterator::next (+ map_err)
impl DirEntry { #[verifier::external_body] pub fn path(&self) -> (r: PathBuf) { unimplemented!() } }
#[verifier::external_body] pub fn fs_read_dir(dir: &PathBuf) -> (r: Result<ReadDir, CompilationError>) ensures r matches Err(e) ==> e is Compile { unimplemented!() }    // fs::read_dir(..).map_err(..)
#[verifier::external_body] pub fn has_gom_extension(p: &PathBuf) -> (r: bool) { unimplemented!() }                            // path.extension().is_some_and(|ext| ext == "gom")
// the sequence is in the (total) order of PathBuf: its order is a function of its contents
pub uninterp spec fn paths_sorted(s: Seq<PathBuf>) -> bool;
#[verifier::external_body] pub fn vec_sort_paths(v: &mut Vec<PathBuf>) ensures paths_sorted(final(v)@) { unimplemented!() }     // <[PathBuf]>::sort
#[verifier::external_body] pub fn str_eq_lit(a: &String, b: &str) -> (r: bool) ensures r == (a@ == b@) { unimplemented!() }
// C16: `Builtin` is the compiler's own package (unqualified global names, exempt from the import gate and the orphan rule)
pub open spec fn reserved_package_name(n: Seq<char>) -> bool { n == "Builtin"@ }
// ---- separate::read_source_files (the same two clauses for the check / build drivers) ----
#[verifier::external_body] pub fn strs_eq(a: &str, b: &str) -> (r: bool) ensures r == (a@ == b@) { unimplemented!() }
#[verifier::external_body] pub fn str_ne_string(a: &String, b: &str) -> (r: bool) ensures r == (a@ != b@) { unimplemented!() }
#[verifier::external_body] pub fn sorted_dedup_paths(v: &Vec<PathBuf>) -> (r: Vec<PathBuf>) ensures paths_sorted(r@) { unimplemented!() }       // to_vec(); sort(); dedup()
// the input paths with duplicates removed but in LISTING order (a filter over a seen-set, an IndexSet, ..): nothing is known about their order
#[verifier::external_body] pub fn listing_order_paths(v: &Vec<PathBuf>) -> (r: Vec<PathBuf>) { unimplemented!() }
// the paths of the files handed on, in the order they were processed
pub open spec fn paths_of(files: Seq<SourceFileAst>) -> Seq<PathBuf> { files.map_values(|f: SourceFileAst| f.path) }
#[verifier::external_body] pub fn import_set_add(s: &mut HashSet<String>, ast: &AstFile) { unimplemented!() }          // for import in ast.imports.iter() { s.insert(import.0.clone()); }
#[verifier::external_body] pub fn new_import_set() -> (r: HashSet<String>) { unimplemented!() }
#[verifier::external_body] pub fn path_display(p: &PathBuf) -> (r: String) { unimplemented!() }

