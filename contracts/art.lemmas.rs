// ---- C15: "core files that were altered are rejected", for the single-field corruption of the Core IR itself ----
// a and b agree on every field except core_ir.  CoreUnit::validate accepts exactly the usable units (its contract), so if a is accepted
// the altered b must not be.  (This is a statement about two units — a lemma over validate's contract, not a postcondition.)
pub proof fn lemma_altered_core_ir_rejected(a: CoreUnit, b: CoreUnit)
    requires
        a.usable(),
        b.format_version == a.format_version, b.compiler_abi == a.compiler_abi, b.package == a.package, b.interface == a.interface,
        b.deps == a.deps, b.sources == a.sources,
        b.core_ir != a.core_ir,
    ensures !b.usable(),
{
}

