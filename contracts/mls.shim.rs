// Shim for logos::Lexer<'_, TokenKind> (external crate; not verified).
// View: the bytes of the not-yet-consumed input.  `bump(n)` is logos' own
// contract: n must not exceed the remainder and must fall on a UTF-8 char
// boundary (logos panics / corrupts the token slice otherwise).
#[verifier::external_body]
pub struct LogosLexer { _p: core::marker::PhantomData<()> }

pub open spec fn is_utf8_continuation(b: u8) -> bool { 0x80 <= b && b < 0xC0 }

impl LogosLexer {
    pub uninterp spec fn remainder(&self) -> Seq<u8>;

    #[verifier::external_body]
    pub fn remainder_bytes(&self) -> (r: &[u8])
        ensures r@ == self.remainder(), r@.len() <= isize::MAX,
    { unimplemented!() }

    #[verifier::external_body]
    pub fn bump(&mut self, n: usize)
        requires
            n <= old(self).remainder().len(),
            n == old(self).remainder().len() || !is_utf8_continuation(old(self).remainder()[n as int]),
        ensures
            final(self).remainder() == old(self).remainder().subrange(n as int, old(self).remainder().len() as int),
    { unimplemented!() }
}

// what the property needs of a multi-line-string bump of c bytes over remainder `rem`:
// in range, ends at end of input or just before a LINE TERMINATOR — `\n`, or the `\r` of `\r\n` (both ASCII: a char boundary) —
// and spans at least two lines (contains a newline strictly inside).
pub open spec fn mls_bump_ok(rem: Seq<u8>, c: int) -> bool {
    &&& 2 <= c <= rem.len()
    &&& (c == rem.len() || rem[c] == 10u8 || (rem[c] == 13u8 && c + 1 < rem.len() && rem[c + 1] == 10u8))
    // a two-byte terminator `\r\n` is never split: the token does not end between its bytes (the `\r` would become part of the string's last line)
    &&& !(c < rem.len() && rem[c] == 10u8 && rem[c - 1] == 13u8)
    &&& exists|k: int| 0 <= k < c && #[trigger] rem[k] == 10u8
}
