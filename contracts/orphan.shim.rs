// ---- shims for U-ORPHAN: std string functions over the text (assumed contracts) ----
#[verifier::external_body] pub struct TypeVar { _p: u32 }
// position of the first "::" in s, if any
#[verifier::opaque]     // the proofs never look inside (and a failing proof must not wander off into character arithmetic)
pub open spec fn is_sep_at(s: Seq<char>, i: int) -> bool { 0 <= i && i + 2 <= s.len() && s[i] == ':' && s[i + 1] == ':' }
pub open spec fn first_sep(s: Seq<char>) -> Option<int> {
    if exists|i: int| is_sep_at(s, i) {
        Some(choose|i: int| is_sep_at(s, i) && forall|j: int| 0 <= j < i ==> !is_sep_at(s, j))
    } else { None }
}
#[verifier::external_body]
pub fn str_split_once_colons<'a>(s: &'a str) -> (r: Option<(&'a str, &'a str)>)
    ensures r is None <==> first_sep(s@) is None,
            r matches Some((a, b)) ==> a@ == s@.subrange(0, first_sep(s@)->0) && b@ == s@.subrange(first_sep(s@)->0 + 2, s@.len() as int),
{ unimplemented!() }
#[verifier::external_body]
pub fn str_contains_colons(s: &str) -> (r: bool) ensures r == (first_sep(s@) is Some) { unimplemented!() }
#[verifier::external_body]
pub fn str_starts_with(s: &str, p: &str) -> (r: bool)
    ensures r == (p@.len() <= s@.len() && s@.subrange(0, p@.len() as int) == p@),
{ unimplemented!() }
#[verifier::external_body]
pub fn str_eq(a: &str, b: &str) -> (r: bool) ensures r == (a@ == b@) { unimplemented!() }
#[verifier::external_body]
pub fn string_as_str(a: &String) -> (r: &str) ensures r@ == a@ { unimplemented!() }

// ---- C16 (orphan rule): the package that owns a name ----
// a qualified name `Pkg::item` is owned by `Pkg` (the text before the first `::`); unqualified names belong to Main / Builtin
pub open spec fn name_is_local(current: Seq<char>, name: Seq<char>) -> bool {
    match first_sep(name) {
        Some(i) => name.subrange(0, i) == current,
        None => current == "Main"@ || current == "Builtin"@,
    }
}
pub open spec fn nominal_is_local(current: Seq<char>, t: Ty) -> bool
    decreases t,
{
    match t {
        Ty::TStruct { name } => name_is_local(current, name@),
        Ty::TEnum { name } => name_is_local(current, name@),
        Ty::TApp { ty, .. } => nominal_is_local(current, *ty),
        _ => false,
    }
}

// ---- the gates of define_trait_impl: orphan rule and in-package coherence ----
#[verifier::external_body] pub struct Diagnostics { _p: u64 }
impl Diagnostics { pub uninterp spec fn errors(&self) -> nat; }
#[verifier::external_body] pub fn push_error(d: &mut Diagnostics, msg: String) ensures final(d).errors() == old(d).errors() + 1 { unimplemented!() }   // diagnostics.push(Diagnostic::new(Stage::Typer, Severity::Error, ..))
#[verifier::external_body] pub fn rt_msg() -> (r: String) { unimplemented!() }
pub trait VClone: Sized { fn vclone(&self) -> (r: Self) ensures r == *self; }
impl VClone for String { #[verifier::external_body] fn vclone(&self) -> (r: Self) { unimplemented!() } }
impl VClone for Ty { #[verifier::external_body] fn vclone(&self) -> (r: Self) { unimplemented!() } }
// env.current().trait_env.trait_impls: the (trait, type) keys implemented so far in this package
#[verifier::external_body] pub struct ImplTable { _p: u64 }
impl ImplTable {
    pub uninterp spec fn has(&self, tr: Seq<char>, ty: Ty) -> bool;
    #[verifier::external_body] pub fn contains_key(&self, k: &(String, Ty)) -> (r: bool) ensures r == self.has(k.0@, k.1) { unimplemented!() }
}
pub struct TraitEnv { pub trait_impls: ImplTable, pub inherent_impls: InherentTable }
pub struct PkgEnv { pub trait_env: TraitEnv }
pub struct PackageTypeEnv { pub package: String, pub cur: PkgEnv }
impl PackageTypeEnv { pub fn current(&self) -> (r: &PkgEnv) ensures *r == self.cur { &self.cur } }
// env.current().trait_env.inherent_impls: per key (the type, or its constructor for a generic impl) the methods defined so far
#[verifier::external_body] pub struct FnScheme { _p: u64 }
#[verifier::external_body] pub struct SchemeMap { _p: u64 }            // IndexMap<String, FnScheme>
impl View for SchemeMap { type V = Map<Seq<char>, FnScheme>; uninterp spec fn view(&self) -> Map<Seq<char>, FnScheme>; }
impl SchemeMap {
    #[verifier::external_body] pub fn new() -> (r: SchemeMap) ensures r@ == Map::<Seq<char>, FnScheme>::empty() { unimplemented!() }
    #[verifier::external_body] pub fn contains_key(&self, k: &String) -> (r: bool) ensures r == self@.dom().contains(k@) { unimplemented!() }
    #[verifier::external_body] pub fn insert(&mut self, k: String, v: FnScheme) ensures final(self)@ == old(self)@.insert(k@, v) { unimplemented!() }
}
pub struct ImplDef { pub methods: SchemeMap }
#[verifier::external_body] pub struct InherentTable { _p: u64 }
impl InherentTable {
    pub uninterp spec fn methods(&self, k: InherentImplKey) -> Map<Seq<char>, FnScheme>;        // the empty map where the key has no entry
    #[verifier::external_body] pub fn get(&self, k: &InherentImplKey) -> (r: Option<&ImplDef>)
        ensures r matches Some(d) ==> d.methods@ == self.methods(*k), r is None ==> self.methods(*k) == Map::<Seq<char>, FnScheme>::empty() { unimplemented!() }
}

