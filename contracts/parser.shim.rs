// ---- shims for external crates used by crates/parser (not verified; assumed contracts) ----
pub assume_specification<T> [std::mem::replace] (dest: &mut T, src: T) -> (r: T)
    ensures r == *old(dest), *final(dest) == src;

// text_size::TextRange — opaque value
#[verifier::external_body]
#[derive(Clone, Copy)]
pub struct TextRange { _p: u64 }

// std::path::PathBuf — opaque
#[verifier::external_body]
pub struct PathBuf { _p: u64 }

// diagnostics::{Severity, Stage, Diagnostic, Diagnostics}: only the range of each pushed diagnostic is modelled
pub enum Severity { Error, Warning }
pub enum Stage { Parser, Typer }

#[verifier::external_body]
pub struct Diagnostic { _p: u64 }
impl Diagnostic {
    pub uninterp spec fn range(&self) -> Option<TextRange>;
    #[verifier::external_body]
    pub fn new<M>(stage: Stage, severity: Severity, message: M) -> (r: Self)
        ensures r.range() is None,
    { unimplemented!() }
    #[verifier::external_body]
    pub fn with_range(self, range: Option<TextRange>) -> (r: Self)
        ensures r.range() == range,
    { unimplemented!() }
}

#[verifier::external_body]
pub struct Diagnostics { _p: u64 }
impl Diagnostics {
    // the sequence of ranges of the diagnostics pushed so far
    pub uninterp spec fn view(&self) -> Seq<Option<TextRange>>;
    #[verifier::external_body]
    pub fn new() -> (r: Self)
        ensures r.view() == Seq::<Option<TextRange>>::empty(),
    { unimplemented!() }
    #[verifier::external_body]
    pub fn push(&mut self, diagnostic: Diagnostic)
        ensures final(self).view() == old(self).view().push(diagnostic.range()),
    { unimplemented!() }
}

// diagnostic message text is dropped (N3): an arbitrary String
#[verifier::external_body]
pub fn rt_msg() -> (r: String) { unimplemented!() }
#[verifier::external_body]
pub fn rt_string(s: &str) -> (r: String) { unimplemented!() }

// <[T]>::contains: assumed to agree with spec-level `contains`; sound only for element types whose
// PartialEq is structural equality (it is used here on TokenKind, a field-less enum with derived PartialEq).
pub assume_specification<T: PartialEq> [<[T]>::contains] (s: &[T], x: &T) -> (r: bool)
    ensures r == s@.contains(*x);
