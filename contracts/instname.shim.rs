// ---- shims / specification for U-INSTNAME (C07 / C19: distinct instantiations get distinct names) ----
#[verifier::external_body] pub struct Ty { _p: u64 }
// names::ty_compact: the type's pretty text without white space.  ASSUMED injective (the printer writes every constructor with its brackets and separators; it is out of reach)
pub uninterp spec fn compact(t: Ty) -> Seq<char>;
#[verifier::external_body] pub proof fn compact_injective(a: Ty, b: Ty) requires compact(a) == compact(b) ensures a == b { }
#[verifier::external_body] pub fn ty_compact(ty: &Ty) -> (r: String) ensures r@ == compact(*ty) { unimplemented!() }
// go::mangle::encode_ty: the Go-identifier spelling of a type.  NOT injective — `Opt[int32]` and a type named `Opt_int32` coincide, a function type's parameter list has no
// arity (and until fix 5b85282 tuples were flattened without theirs: U-ENCODETY) — so there is no injectivity lemma for it
pub uninterp spec fn encoded(t: Ty) -> Seq<char>;
#[verifier::external_body] pub fn encode_ty(ty: &Ty) -> (r: String) ensures r@ == encoded(*ty) { unimplemented!() }
pub proof fn cat_cancel(a: Seq<char>, x: Seq<char>, y: Seq<char>, b: Seq<char>) requires a + x + b == a + y + b ensures x == y {
    assert((a + x + b).len() == a.len() + x.len() + b.len());
    assert((a + y + b).len() == a.len() + y.len() + b.len());
    assert(x.len() == y.len());
    assert forall|i: int| 0 <= i < x.len() implies x[i] == y[i] by { assert((a + x + b)[a.len() + i] == x[i]); assert((a + y + b)[a.len() + i] == y[i]); }
    assert(x =~= y);
}
