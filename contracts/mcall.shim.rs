// ---- shims / specification for U-MCALL (C07: a rewritten call names an instance with exactly the call's signature) ----
#[verifier::external_body] pub struct Prim { _p: u64 }
#[verifier::external_body] pub struct Constructor { _p: u64 }
#[verifier::external_body] pub struct UnaryOp { _p: u64 }
#[verifier::external_body] pub struct BinaryOp { _p: u64 }
#[verifier::external_body] pub struct ClosureParam { _p: u64 }
#[verifier::external_body] pub struct Expr { _p: u64 }            // core::Expr (the generic callee's body is not looked at)
#[verifier::external_body] pub struct MonoFn { _p: u64 }
#[verifier::external_body] pub struct SubstKey { _p: u64 }
#[verifier::external_body] #[verifier::reject_recursive_types(T)] pub struct VecDeque<T> { _t: core::marker::PhantomData<T> }
#[verifier::external_body] #[verifier::reject_recursive_types(T)] pub struct IndexSet<T> { _t: core::marker::PhantomData<T> }

// maps of Ctx that the call path only reads through opaque lookups (orig_fns, instances, inherent_method_index, and any
// map a change may add): contents unspecified — whatever comes out of them is an arbitrary value
#[verifier::external_body]
#[verifier::reject_recursive_types(K)]
#[verifier::reject_recursive_types(V)]
pub struct AnyMap<K, V> { _k: core::marker::PhantomData<(K, V)> }
impl<K, V> AnyMap<K, V> {
    #[verifier::external_body] pub fn get(&self, k: &K) -> (r: Option<&V>) { unimplemented!() }
    #[verifier::external_body] pub fn insert(&mut self, k: K, v: V) -> (r: Option<V>) { unimplemented!() }
    #[verifier::external_body] pub fn contains_key(&self, k: &K) -> (r: bool) { unimplemented!() }
}
impl IndexMap<String, Ty> {
    #[verifier::external_body] pub fn new() -> (r: Self) ensures r@ == Map::<Seq<char>, Ty>::empty() { unimplemented!() }
}
#[verifier::external_body]
pub fn subst_any_tparam(s: &Subst) -> (r: bool) { unimplemented!() }      // `s.values().any(has_tparam)`: the answer is not used by the contract
// derived Clone: an identical copy
#[verifier::external_body]
pub fn clone_of<T>(x: &T) -> (r: T) ensures r == *x { unimplemented!() }

// the type a Mono expression carries (what MonoExpr::get_ty returns)
pub open spec fn mono_ty(e: MonoExpr) -> Ty {
    match e {
        MonoExpr::EVar { ty, .. } => ty,
        MonoExpr::EPrim { ty, .. } => ty,
        MonoExpr::EConstr { ty, .. } => ty,
        MonoExpr::ETuple { ty, .. } => ty,
        MonoExpr::EArray { ty, .. } => ty,
        MonoExpr::EClosure { ty, .. } => ty,
        MonoExpr::ELet { ty, .. } => ty,
        MonoExpr::EMatch { ty, .. } => ty,
        MonoExpr::EIf { ty, .. } => ty,
        MonoExpr::EWhile { ty, .. } => ty,
        MonoExpr::EGo { ty, .. } => ty,
        MonoExpr::EConstrGet { ty, .. } => ty,
        MonoExpr::EUnary { ty, .. } => ty,
        MonoExpr::EBinary { ty, .. } => ty,
        MonoExpr::ECall { ty, .. } => ty,
        MonoExpr::EToDyn { ty, .. } => ty,
        MonoExpr::EDynCall { ty, .. } => ty,
        MonoExpr::EProj { ty, .. } => ty,
    }
}
// the name of the instance of generic function `orig` at substitution s (Ctx::ensure_instance / spec_name_for): uninterpreted
pub uninterp spec fn inst_name(orig: Seq<char>, s: Map<Seq<char>, Ty>) -> Seq<char>;

// the signature of `callee` specialised by s is exactly the signature the call site uses:
// result type, and every parameter that has an argument
pub open spec fn sig_matches(callee: Fn, s: Map<Seq<char>, Ty>, args: Seq<MonoExpr>, call_ty: Ty) -> bool {
    &&& is_apply(callee.ret_ty, s, call_ty)
    &&& forall|i: int| #![trigger callee.params@[i]] 0 <= i < callee.params@.len() && i < args.len() ==> is_apply(callee.params@[i].1, s, mono_ty(args[i]))
}

// ---- which functions are generic (C07: a function is specialised iff its signature mentions a type parameter) ----
pub open spec fn mentions_tparam(t: Ty) -> bool
    decreases t,
{
    match t {
        Ty::TParam { .. } => true,
        Ty::TTuple { typs } => mt_list(typs@, typs@.len() as int),
        Ty::TApp { ty, args } => mentions_tparam(*ty) || mt_list(args@, args@.len() as int),
        Ty::TArray { len: _, elem } => mentions_tparam(*elem),
        Ty::TVec { elem } => mentions_tparam(*elem),
        Ty::TRef { elem } => mentions_tparam(*elem),
        Ty::TFunc { params, ret_ty } => mt_list(params@, params@.len() as int) || mentions_tparam(*ret_ty),
        _ => false,
    }
}
// ... one of the first n types of the list does
pub open spec fn mt_list(ts: Seq<Ty>, n: int) -> bool
    decreases ts, n,
{
    if n <= 0 || n > ts.len() { false } else { mt_list(ts, n - 1) || mentions_tparam(ts[n - 1]) }
}
pub proof fn lemma_mt_hit(ts: Seq<Ty>, k: int, n: int)
    requires 0 <= k < n <= ts.len(), mentions_tparam(ts[k]),
    ensures mt_list(ts, n),
    decreases n,
{
    reveal_with_fuel(mt_list, 2);
    if k < n - 1 { lemma_mt_hit(ts, k, n - 1); }
}
pub broadcast proof fn lemma_mt_any(ts: Seq<Ty>, k: int)
    requires 0 <= k < ts.len(), #[trigger] mentions_tparam(ts[k]),
    ensures mt_list(ts, ts.len() as int),
{
    lemma_mt_hit(ts, k, ts.len() as int);
}
pub open spec fn sig_mentions_tparam(f: Fn) -> bool {
    f.generics@.len() > 0 || (exists|i: int| 0 <= i < f.params@.len() && mentions_tparam((#[trigger] f.params@[i]).1)) || mentions_tparam(f.ret_ty)
}

// ---- the EVar arm: a generic function used as a VALUE (C07: every reachable instantiation is generated) ----
pub uninterp spec fn subst_res(t: Ty, s: Map<Seq<char>, Ty>) -> Ty;                                  // subst_ty (proved in U-MSUBST; opaque here)
#[verifier::external_body] pub fn subst_ty(ty: &Ty, s: &Subst) -> (r: Ty) ensures r == subst_res(*ty, s@) { unimplemented!() }
// lookup_callee: the function a name refers to (orig_fns, or the generic inherent method behind an instantiated method name)
impl Ctx { pub uninterp spec fn callee_of(&self, name: Seq<char>) -> Option<Fn>; }
#[verifier::external_body]
pub fn lookup_callee<'a>(ctx: &'a Ctx, name: &String) -> (r: Option<&'a Fn>)
    ensures r matches Some(f) ==> ctx.callee_of(name@) == Some(*f), r is None ==> ctx.callee_of(name@) is None,
{ unimplemented!() }
// mono::unify is a deterministic function of its arguments: whether it succeeds from a given substitution, and with what result
// (ASSUMED here, on top of the clauses U-MUNIFY proves: a pure function has a function as its graph)
pub uninterp spec fn unify_ok(template: Ty, actual: Ty, s0: Map<Seq<char>, Ty>) -> bool;
pub uninterp spec fn unify_out(template: Ty, actual: Ty, s0: Map<Seq<char>, Ty>) -> Map<Seq<char>, Ty>;
#[verifier::external_body]
pub fn unify_det(template: &Ty, actual: &Ty, subst: &mut Subst) -> (r: Result<(), String>)
    ensures extends(old(subst)@, final(subst)@),
            r is Ok ==> is_apply(*template, final(subst)@, *actual) && covers(*template, final(subst)@),
            (r is Ok) == unify_ok(*template, *actual, old(subst)@),
            r is Ok ==> final(subst)@ == unify_out(*template, *actual, old(subst)@),
{ unimplemented!() }
pub uninterp spec fn map_mentions_tparam(s: Map<Seq<char>, Ty>) -> bool;                               // some binding still mentions a type parameter
#[verifier::external_body] pub fn subst_any_tparam_v(s: &Subst) -> (r: bool) ensures r == map_mentions_tparam(s@) { unimplemented!() }   // s.values().any(has_tparam)
// t is the function type of f's signature: (parameter types) -> result type
pub open spec fn fn_sig_ty(f: Fn, t: Ty) -> bool {
    t matches Ty::TFunc { params, ret_ty } && params@.len() == f.params@.len() && *ret_ty == f.ret_ty
        && forall|i: int| 0 <= i < params@.len() ==> #[trigger] params@[i] == f.params@[i].1
}
// the use of `name` at type t after specialisation is `n`
pub open spec fn renamed_ok(ctx: &Ctx, name: Seq<char>, n: Seq<char>, t: Ty, f: Fn, tt: Ty, m: Map<Seq<char>, Ty>) -> bool {
    ctx.callee_of(name) == Some(f) && fn_sig_ty(f, tt) && n == inst_name(f.name@, m) && is_apply(tt, m, t)
}
pub open spec fn kept_ok(f: Fn, t: Ty, tt: Ty) -> bool {
    fn_sig_ty(f, tt) && (!unify_ok(tt, t, Map::<Seq<char>, Ty>::empty()) || map_mentions_tparam(unify_out(tt, t, Map::<Seq<char>, Ty>::empty())))
}
pub open spec fn value_use_ok(ctx: &Ctx, name: Seq<char>, n: Seq<char>, t: Ty) -> bool {
    // either the use names the instance of the function behind the name at a substitution under which its signature IS the use type ..
    ||| exists|f: Fn, tt: Ty, m: Map<Seq<char>, Ty>| #[trigger] renamed_ok(ctx, name, n, t, f, tt, m)
    // .. or the name is kept — for a generic function only where no instance can be determined: unifying its signature with the use
    // type fails or leaves a type parameter
    ||| (n == name && ((ctx.callee_of(name) is Some && sig_mentions_tparam(ctx.callee_of(name)->0))
            ==> exists|tt: Ty| #[trigger] kept_ok(ctx.callee_of(name)->0, t, tt)))
}
