// ---- shims / specification for U-TASTLIT (C10: the literal that reaches the typed AST is the one the typer accepted) ----
#[verifier::external_body] pub struct Constructor { _p: u64 }
#[verifier::external_body] pub struct MySyntaxNodePtr { _p: u64 }
#[verifier::external_body] pub struct ConstructorRef { _p: u64 }
#[verifier::external_body] pub struct QualifiedPath { _p: u64 }
#[verifier::external_body] pub struct HirIdent { _p: u64 }
#[verifier::external_body] #[derive(Clone, Copy)] pub struct LocalId { _p: u64 }
#[verifier::external_body] #[derive(Clone, Copy)] pub struct PatId { _p: u64 }
// TypeckResults: the solved type recorded for a pattern, if any
#[verifier::external_body] pub struct TypeckResults { _p: u64 }
impl TypeckResults {
    pub uninterp spec fn pat_ty_spec(&self, p: PatId) -> Option<Ty>;
    #[verifier::external_body] pub fn pat_ty_cloned(&self, p: PatId) -> (r: Option<Ty>) ensures r == self.pat_ty_spec(p) { unimplemented!() }   // results.pat_ty(p).cloned()
}
pub trait UnwrapOrTy { fn unwrap_or_ty(self, d: Ty) -> Ty; }
impl UnwrapOrTy for Option<Ty> { #[verifier::external_body] fn unwrap_or_ty(self, d: Ty) -> (r: Ty) ensures r == (if self is Some { self->0 } else { d }) { unimplemented!() } }
#[verifier::external_body] pub fn ty_unwrap_or(o: Option<Ty>, d: Ty) -> (r: Ty) ensures r == (if o is Some { o->0 } else { d }) { unimplemented!() }  // Option::unwrap_or
// `s.parse().ok()` for an integer type T: the result as a function of the text (`parsed`), with std's guarantee about Ok
pub uninterp spec fn parsed<T>(s: Seq<char>) -> Option<T>;
#[verifier::external_body]
pub fn parse_ok<T>(s: &str) -> (r: Option<T>)
    ensures r == parsed::<T>(s@), r matches Some(v) ==> decimal_ok(s@) && int_of::<T>(v) == decimal_value(s@),
{ unimplemented!() }
pub open spec fn or0_i8(o: Option<i8>) -> i8 { if o is Some { o->0 } else { 0 } }
pub open spec fn or0_i16(o: Option<i16>) -> i16 { if o is Some { o->0 } else { 0 } }
pub open spec fn or0_i32(o: Option<i32>) -> i32 { if o is Some { o->0 } else { 0 } }
pub open spec fn or0_i64(o: Option<i64>) -> i64 { if o is Some { o->0 } else { 0 } }
pub open spec fn or0_u8(o: Option<u8>) -> u8 { if o is Some { o->0 } else { 0 } }
pub open spec fn or0_u16(o: Option<u16>) -> u16 { if o is Some { o->0 } else { 0 } }
pub open spec fn or0_u32(o: Option<u32>) -> u32 { if o is Some { o->0 } else { 0 } }
pub open spec fn or0_u64(o: Option<u64>) -> u64 { if o is Some { o->0 } else { 0 } }
pub open spec fn unsigned_text(s: Seq<char>) -> bool { !(s.len() > 0 && s[0] == '-') }
#[verifier::external_body] pub fn str_starts_with_char(s: &str, c: char) -> (r: bool) ensures r == (s@.len() > 0 && s@[0] == c) { unimplemented!() }
// the Prim an integer literal with text `s` denotes AT integer type t: the variant of t holding the text parsed at t's width
// (0 if it does not parse there: such a literal has been rejected by the typer, U-INTLIT)
pub open spec fn lit_at(p: Prim, s: Seq<char>, t: Ty) -> bool {
    match t {
        Ty::TInt8 => p matches Prim::Int8 { value } && value == or0_i8(parsed::<i8>(s)),
        Ty::TInt16 => p matches Prim::Int16 { value } && value == or0_i16(parsed::<i16>(s)),
        Ty::TInt32 => p matches Prim::Int32 { value } && value == or0_i32(parsed::<i32>(s)),
        Ty::TInt64 => p matches Prim::Int64 { value } && value == or0_i64(parsed::<i64>(s)),
        Ty::TUint8 => p matches Prim::UInt8 { value } && value == (if unsigned_text(s) { or0_u8(parsed::<u8>(s)) } else { 0 }),
        Ty::TUint16 => p matches Prim::UInt16 { value } && value == (if unsigned_text(s) { or0_u16(parsed::<u16>(s)) } else { 0 }),
        Ty::TUint32 => p matches Prim::UInt32 { value } && value == (if unsigned_text(s) { or0_u32(parsed::<u32>(s)) } else { 0 }),
        Ty::TUint64 => p matches Prim::UInt64 { value } && value == (if unsigned_text(s) { or0_u64(parsed::<u64>(s)) } else { 0 }),
        _ => true,
    }
}
// the text and the declared type (None: unsuffixed) of an integer literal pattern
pub open spec fn int_pat_text(e: hir::Pat) -> Option<(Seq<char>, Option<Ty>)> {
    match e {
        hir::Pat::PInt { value } => Some((value@, None::<Ty>)),
        hir::Pat::PInt8 { value } => Some((value@, Some(Ty::TInt8))), hir::Pat::PInt16 { value } => Some((value@, Some(Ty::TInt16))),
        hir::Pat::PInt32 { value } => Some((value@, Some(Ty::TInt32))), hir::Pat::PInt64 { value } => Some((value@, Some(Ty::TInt64))),
        hir::Pat::PUInt8 { value } => Some((value@, Some(Ty::TUint8))), hir::Pat::PUInt16 { value } => Some((value@, Some(Ty::TUint16))),
        hir::Pat::PUInt32 { value } => Some((value@, Some(Ty::TUint32))), hir::Pat::PUInt64 { value } => Some((value@, Some(Ty::TUint64))),
        _ => None,
    }
}
pub open spec fn pat_text(e: hir::Pat) -> Seq<char> { (int_pat_text(e)->0).0 }
pub open spec fn pat_decl(e: hir::Pat) -> Option<Ty> { (int_pat_text(e)->0).1 }
