// ---- shims / specification for U-GOTYPE (C02 / C10: the Go type of a goml type) ----
#[verifier::external_body] pub struct TypeVar { _p: u32 }
pub uninterp spec fn tuple_name(t: Ty) -> Seq<char>;                 // go_type_name_for(tuple type)
pub uninterp spec fn ident_of(s: Seq<char>) -> Seq<char>;            // go::mangle::go_ident (U-GOIDENT)
pub uninterp spec fn dyn_name(s: Seq<char>) -> Seq<char>;            // dyn_struct_name
pub uninterp spec fn ref_name(t: Ty) -> Seq<char>;                   // ref_struct_name
pub uninterp spec fn pos_field(i: int) -> Seq<char>;                 // `_i`: the name of the i-th tuple component (U-POSFIELDS)
#[verifier::external_body] pub fn go_type_name_for(ty: &Ty) -> (r: String) ensures r@ == tuple_name(*ty) { unimplemented!() }
#[verifier::external_body] pub fn go_ident(s: &String) -> (r: String) ensures r@ == ident_of(s@) { unimplemented!() }
#[verifier::external_body] pub fn dyn_struct_name(s: &String) -> (r: String) ensures r@ == dyn_name(s@) { unimplemented!() }
#[verifier::external_body] pub fn ref_struct_name(t: &Ty) -> (r: String) ensures r@ == ref_name(*t) { unimplemented!() }
#[verifier::external_body] pub fn fmt_pos_field(i: usize) -> (r: String) ensures r@ == pos_field(i as int) { unimplemented!() }     // format!("_{}", i)
#[verifier::external_body] pub fn string_clone(s: &String) -> (r: String) ensures r@ == s@ { unimplemented!() }
#[verifier::external_body] pub fn unreached<T>() -> (r: T) requires false { unimplemented!() }
// what reaches the Go back end: no inference variable, no generic application left (C03 / C07), at any depth
pub open spec fn go_ready(t: Ty) -> bool decreases t {
    match t {
        Ty::TVar(_) => false,
        Ty::TTuple { typs } => all_ready(typs@, typs@.len() as int),
        Ty::TApp { ty, args } => args@.len() == 0 && go_ready(*ty),
        Ty::TArray { elem, .. } => go_ready(*elem),
        Ty::TVec { elem } => go_ready(*elem),
        Ty::TFunc { params, ret_ty } => all_ready(params@, params@.len() as int) && go_ready(*ret_ty),
        _ => true,
    }
}
pub open spec fn all_ready(ts: Seq<Ty>, n: int) -> bool decreases ts, n {
    if n <= 0 || n > ts.len() { true } else { all_ready(ts, n - 1) && go_ready(ts[n - 1]) }
}
pub proof fn all_ready_at(ts: Seq<Ty>) ensures all_ready(ts, ts.len() as int) ==> forall|j: int| 0 <= j < ts.len() ==> go_ready(#[trigger] ts[j]) {
    if all_ready(ts, ts.len() as int) { assert forall|j: int| 0 <= j < ts.len() implies go_ready(#[trigger] ts[j]) by { all_ready_upto(ts, ts.len() as int, j); } }
}
pub proof fn all_ready_upto(ts: Seq<Ty>, n: int, j: int) requires all_ready(ts, n), 0 <= j < n <= ts.len() ensures go_ready(ts[j]) decreases n { if j < n - 1 { all_ready_upto(ts, n - 1, j); } }
// C02 / C10: the Go type of a goml type — a numeric type is the Go type OF THE SAME WIDTH AND SIGNEDNESS, an array keeps its length, a Vec is a slice, a Ref a pointer to its cell
// struct, a function type keeps its parameters in order and its result, a tuple is the struct of its components under the positional field names
pub open spec fn go_ty_ok(t: Ty, g: GoType) -> bool decreases t {
    match t {
        Ty::TVar(_) => false,
        Ty::TUnit => g is TUnit, Ty::TBool => g is TBool,
        Ty::TInt8 => g is TInt8, Ty::TInt16 => g is TInt16, Ty::TInt32 => g is TInt32, Ty::TInt64 => g is TInt64,
        Ty::TUint8 => g is TUint8, Ty::TUint16 => g is TUint16, Ty::TUint32 => g is TUint32, Ty::TUint64 => g is TUint64,
        Ty::TFloat32 => g is TFloat32, Ty::TFloat64 => g is TFloat64, Ty::TString => g is TString,
        Ty::TTuple { typs } => g matches GoType::TStruct { name, fields } && name@ == tuple_name(t) && fields@.len() == typs@.len()
            && forall|i: int| 0 <= i < typs@.len() ==> (#[trigger] fields@[i]).0@ == pos_field(i) && go_ty_ok(typs@[i], fields@[i].1),
        Ty::TEnum { name } => g matches GoType::TName { name: n } && n@ == ident_of(name@),
        Ty::TStruct { name } => g matches GoType::TName { name: n } && n@ == ident_of(name@),
        Ty::TDyn { trait_name } => g matches GoType::TName { name: n } && n@ == dyn_name(trait_name@),
        Ty::TApp { ty, .. } => go_ty_ok(*ty, g),
        Ty::TArray { len, elem } => g matches GoType::TArray { len: l2, elem: e2 } && l2 == len && go_ty_ok(*elem, *e2),
        Ty::TVec { elem } => g matches GoType::TSlice { elem: e2 } && go_ty_ok(*elem, *e2),
        Ty::TRef { elem } => g matches GoType::TPointer { elem: e2 } && (*e2 matches GoType::TName { name: n } && n@ == ref_name(*elem)),
        Ty::TParam { name } => g matches GoType::TName { name: n } && n@ == name@,
        Ty::TFunc { params, ret_ty } => g matches GoType::TFunc { params: p2, ret_ty: r2 } && p2@.len() == params@.len()
            && (forall|i: int| 0 <= i < params@.len() ==> go_ty_ok(params@[i], #[trigger] p2@[i])) && go_ty_ok(*ret_ty, *r2),
    }
}
