// ---- shims / specification for U-CLOSTY (C08: which types hold a closure environment) ----
#[verifier::external_body] pub struct TypeVar { _p: u32 }
// State::closure_types (IndexMap<String, ClosureTypeInfo>): which struct names are closure environments
#[verifier::external_body] pub struct ClosureTypes { _p: u64 }
impl ClosureTypes {
    pub uninterp spec fn names(&self) -> Set<Seq<char>>;
    #[verifier::external_body] pub fn contains_key(&self, k: &String) -> (r: bool) ensures r == self.names().contains(k@) { unimplemented!() }
}
pub struct State { pub closure_types: ClosureTypes }
// C08: a type HOLDS a closure when it is a closure environment struct, or a tuple / array / type application with a component that holds one, or a function type
// with a parameter OR A RESULT that holds one (a function that returns a closure must be recognised: its callers go to the apply function)
pub open spec fn holds(names: Set<Seq<char>>, t: Ty) -> bool decreases t {
    match t {
        Ty::TStruct { name } => names.contains(name@),
        Ty::TTuple { typs } => any_holds(names, typs@, typs@.len() as int),
        Ty::TArray { elem, .. } => holds(names, *elem),
        Ty::TFunc { params, ret_ty } => any_holds(names, params@, params@.len() as int) || holds(names, *ret_ty),
        Ty::TApp { ty, args } => holds(names, *ty) || any_holds(names, args@, args@.len() as int),
        _ => false,
    }
}
pub open spec fn any_holds(names: Set<Seq<char>>, ts: Seq<Ty>, n: int) -> bool decreases ts, n {
    if n <= 0 || n > ts.len() { false } else { any_holds(names, ts, n - 1) || holds(names, ts[n - 1]) }
}
// Vec / Ref element types are where the KNOWN FINDING of C08 lives (closures stored in arrays / Vecs / Refs keep their pre-lifting type): the contract is stated
// for types without them
pub open spec fn vec_free(t: Ty) -> bool decreases t {
    match t {
        Ty::TVec { .. } => false,
        Ty::TRef { .. } => false,
        Ty::TTuple { typs } => all_vec_free(typs@, typs@.len() as int),
        Ty::TArray { elem, .. } => vec_free(*elem),
        Ty::TFunc { params, ret_ty } => all_vec_free(params@, params@.len() as int) && vec_free(*ret_ty),
        Ty::TApp { ty, args } => vec_free(*ty) && all_vec_free(args@, args@.len() as int),
        _ => true,
    }
}
pub open spec fn all_vec_free(ts: Seq<Ty>, n: int) -> bool decreases ts, n {
    if n <= 0 || n > ts.len() { true } else { all_vec_free(ts, n - 1) && vec_free(ts[n - 1]) }
}
pub proof fn all_vec_free_at(ts: Seq<Ty>, n: int, j: int) requires all_vec_free(ts, n), 0 <= j < n <= ts.len() ensures vec_free(ts[j]) decreases n {
    if j < n - 1 { all_vec_free_at(ts, n - 1, j); }
}
pub proof fn all_vec_free_forall(ts: Seq<Ty>) ensures all_vec_free(ts, ts.len() as int) ==> forall|j: int| 0 <= j < ts.len() ==> vec_free(#[trigger] ts[j]) {
    if all_vec_free(ts, ts.len() as int) { assert forall|j: int| 0 <= j < ts.len() implies vec_free(#[trigger] ts[j]) by { all_vec_free_at(ts, ts.len() as int, j); } }
}
pub proof fn any_holds_at(names: Set<Seq<char>>, ts: Seq<Ty>, n: int, j: int) requires 0 <= j < n <= ts.len(), holds(names, ts[j]) ensures any_holds(names, ts, n) decreases n {
    if j < n - 1 { any_holds_at(names, ts, n - 1, j); }
}
