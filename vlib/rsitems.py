"""Small token-aware Rust item scanner.

Not a parser: it masks comments, string/char literals (so braces inside them
do not count), then finds items by keyword + name and matches delimiters.
Everything is by character offsets into the original text, so the text handed
back is exactly the bytes in /repo's working tree.

Raises AnchorLost when an item is missing or ambiguous: the driver turns that
into exit 2 (UNDECIDED), never a VIOLATION.
"""
import hashlib
import re


class AnchorLost(Exception):
    pass


def mask(src: str) -> str:
    """Return a same-length string where comments and the *contents* of string
    and char literals are replaced by spaces (newlines kept)."""
    out = list(src)
    i, n = 0, len(src)

    def blank(a, b):
        for k in range(a, b):
            if out[k] != "\n":
                out[k] = " "

    while i < n:
        c = src[i]
        if c == "/" and i + 1 < n and src[i + 1] == "/":
            j = src.find("\n", i)
            j = n if j < 0 else j
            blank(i, j)
            i = j
        elif c == "/" and i + 1 < n and src[i + 1] == "*":
            depth, j = 1, i + 2
            while j < n and depth:
                if src.startswith("/*", j):
                    depth += 1
                    j += 2
                elif src.startswith("*/", j):
                    depth -= 1
                    j += 2
                else:
                    j += 1
            blank(i, j)
            i = j
        elif c == '"' or (c in "br" and re.match(r'b?r?#*"', src[i:i + 8]) and (i == 0 or not (src[i - 1].isalnum() or src[i - 1] == "_"))):
            m = re.match(r'(b?)(r?)(#*)"', src[i:i + 8 + 64])
            raw, hashes = m.group(2) == "r", m.group(3)
            j = i + m.end()
            if raw:
                end = src.find('"' + hashes, j)
                end = n if end < 0 else end
                blank(j, end)
                i = end + 1 + len(hashes)
            else:
                while j < n and src[j] != '"':
                    j += 2 if src[j] == "\\" else 1
                blank(i + m.end(), j)
                i = j + 1
        elif c == "'":
            # char literal or lifetime
            m = re.match(r"'(\\.[^']*|[^\\'])'", src[i:i + 12])
            if m:
                blank(i + 1, i + m.end() - 1)
                i += m.end()
            else:
                i += 1
        else:
            i += 1
    return "".join(out)


OPEN = {"(": ")", "[": "]", "{": "}"}
CLOSE = {v: k for k, v in OPEN.items()}


def match_delim(m: str, i: int) -> int:
    """m is masked text, m[i] an opening delimiter; return index of its closer."""
    assert m[i] in OPEN, (i, m[i - 10:i + 10])
    stack = [m[i]]
    j = i + 1
    n = len(m)
    while j < n:
        c = m[j]
        if c in OPEN:
            stack.append(c)
        elif c in CLOSE:
            if not stack or stack[-1] != CLOSE[c]:
                raise AnchorLost(f"unbalanced delimiter at offset {j}")
            stack.pop()
            if not stack:
                return j
        j += 1
    raise AnchorLost("unterminated delimiter")


def find_top_level(m: str, start: int, chars: str, stop: int = None) -> int:
    """first index >= start of any char in `chars` at delimiter depth 0
    (depth counted from `start`); angle brackets are not tracked."""
    depth = 0
    j = start
    n = len(m) if stop is None else stop
    while j < n:
        c = m[j]
        if depth == 0 and c in chars:
            return j
        if c in OPEN:
            depth += 1
        elif c in CLOSE:
            if depth == 0:
                return -1
            depth -= 1
        j += 1
    return -1


class Source:
    def __init__(self, path, text):
        self.path = path
        self.text = text
        self.m = mask(text)

    def line_of(self, off):
        return self.text.count("\n", 0, off) + 1

    # --- containers -----------------------------------------------------
    def impl_blocks(self):
        """yield (header_text, body_open, body_close) for each `impl` block at any depth"""
        for mt in re.finditer(r"(?<![A-Za-z0-9_])impl\b", self.m):
            i = mt.start()
            # must be at item position: previous non-space char is one of } ; ] or start
            k = i - 1
            while k >= 0 and self.m[k].isspace():
                k -= 1
            if k >= 0 and self.m[k] not in "};]{":
                continue
            b = find_top_level(self.m, mt.end(), "{;")
            if b < 0 or self.m[b] != "{":
                continue
            e = match_delim(self.m, b)
            yield re.sub(r"\s+", " ", self.text[i:b].strip()), b, e

    def _range_for_container(self, container):
        if container is None:
            return [(0, len(self.text))]
        rs = []
        for hdr, b, e in self.impl_blocks():
            if _impl_matches(hdr, container):
                rs.append((b + 1, e))
        if not rs:
            raise AnchorLost(f"{self.path}: no `impl` block matching {container!r}")
        return rs

    # --- items ------------------------------------------------------------
    def find_fn(self, name, container=None):
        """return (start, sig_end/body_open, body_close) of fn `name`.
        container: None = depth-0 of file or any module (not inside impl/fn);
        else a string matched against impl headers (see _impl_matches)."""
        hits = []
        nested = isinstance(container, str) and container.startswith("@nested")      # a fn item declared inside another function's body: any depth, the name must be unique in the file
        nested_range = [(0, len(self.text))]
        if nested and ":" in container:      # "@nested:<outer>": .. unique inside the body of the top-level function <outer>
            so, bo, eo = self.find_fn(container.split(":", 1)[1], None)
            nested_range = [(bo + 1, eo)]
        for (a, z) in (nested_range if nested else self._range_for_container(container)):
            for mt in re.finditer(r"(?<![A-Za-z0-9_])fn\s+" + re.escape(name) + r"\b", self.m[a:z]):
                i = a + mt.start()
                if not nested and self._depth_rel(a, i) != 0:
                    continue
                if container is None and self._inside_impl(i):
                    continue
                # extend backwards over qualifiers
                s = i
                pre = self.m[:i]
                mq = re.search(r"((pub(\s*\([^)]*\))?|const|async|unsafe|extern\s*\"[^\"]*\")\s+)+$", pre)
                if mq:
                    s = mq.start()
                b = find_top_level(self.m, i, "{;")
                if b < 0 or self.m[b] != "{":
                    continue
                e = match_delim(self.m, b)
                hits.append((s, b, e))
        if len(hits) != 1:
            raise AnchorLost(f"{self.path}: fn {name!r} in {container!r}: {len(hits)} matches")
        return hits[0]

    def _depth_rel(self, a, i):
        d = 0
        for c in self.m[a:i]:
            if c == "{":
                d += 1
            elif c == "}":
                d -= 1
        return d

    def _inside_impl(self, i):
        for _h, b, e in self.impl_blocks():
            if b < i < e:
                return True
        return False

    def find_adt(self, kw, name):
        """enum/struct/const/static/type/trait item `name` -> (start, end_exclusive)"""
        hits = []
        for mt in re.finditer(r"(?<![A-Za-z0-9_])" + kw + r"\s+" + re.escape(name) + r"\b", self.m):
            i = mt.start()
            s = i
            mq = re.search(r"(pub(\s*\([^)]*\))?\s+)$", self.m[:i])
            if mq:
                s = mq.start()
            b = find_top_level(self.m, mt.end(), "{;(" if kw == "struct" else "{;")
            if b < 0:
                continue
            if self.m[b] == ";":
                e = b
            elif self.m[b] == "(":
                e = match_delim(self.m, b)
                e = self.m.index(";", e)
            else:
                e = match_delim(self.m, b)
            hits.append((s, e + 1))
        if len(hits) != 1:
            raise AnchorLost(f"{self.path}: {kw} {name!r}: {len(hits)} matches")
        return hits[0]


def _impl_matches(hdr: str, want: str) -> bool:
    """want forms: 'Type' (inherent impl of Type, generics ignored),
    'Trait for Type'."""
    h = re.sub(r"^impl\s*(<[^>]*>)?\s*", "", hdr)
    h = re.sub(r"\s+where\b.*$", "", h)

    def base(t):
        t = t.strip()
        t = re.sub(r"<.*$", "", t)
        return t.split("::")[-1].strip()

    if " for " in want:
        if " for " not in h:
            return False
        wt, wy = want.split(" for ")
        ht, hy = h.split(" for ", 1)
        return base(ht) == base(wt) and base(hy) == base(wy)
    if " for " in h:
        return False
    return base(h) == base(want)


def sha(text: str) -> str:
    return hashlib.sha256(text.encode()).hexdigest()
