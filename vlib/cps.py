"""Call-site normal form for continuation-passing code (rule ("cps", annot)).

anf.rs is written in CPS with boxed closures: `anf(.., e, Box::new(move |c| BODY))`.  Verus has no `Box<dyn FnOnce>` but it has
generic `K: FnOnce(T) -> R` with `k.requires(..)` / `k.ensures(..)` and closures that carry `ensures`.  This rule brings every site
into a form where the closure and the call's result have NAMES a contract / proof hint can mention; it changes no evaluation:

  CALLEE(a1, .., Box::new(move |p| BODY))      (the boxed closure is the call's last argument)
      -> { let __clN = move |p: T| -> (o: R) ensures <annot> { BODY' }; let __rN = CALLEE(a1, .., __clN); proof { <annot> } __rN }
         (the closure value is built before a1.. are evaluated instead of after: building a closure has no effect and the other
          arguments cannot observe it; `Box::new` is dropped: the callee's parameter is the generic K instead of Box<dyn FnOnce>)
  k(ARG)                                        (a call OF the continuation)
      -> { let __aN = ARG; let __rN = k(__aN); proof { <annot> } __rN }
  CALLEE(a1, .., k)                             (the continuation handed on as it is)
      -> { let __rN = CALLEE(a1, .., k); proof { <annot> } __rN }
  |mut x| ..   -> |x: T| { let mut x = x; .. }

N numbers the sites in source order (an outer site before the sites inside its closure).  What goes into `ensures` and `proof { }`
comes from the unit's `annot(site)` callable; it gets the site's structure (callee, parameter names, argument texts, body text, the
sites nested in the body) and answers with texts.  An answer of None for a site the unit cannot classify raises AnchorLost (UNDECIDED).
"""
import re

from .rsitems import AnchorLost, mask, match_delim


def split_top(text, sep=","):
    """split at top-level separators (delimiters balanced, strings masked)"""
    m = mask(text)
    parts, depth, last = [], 0, 0
    for i, ch in enumerate(m):
        if ch in "([{":
            depth += 1
        elif ch in ")]}":
            depth -= 1
        elif ch == sep and depth == 0:
            parts.append(text[last:i])
            last = i + 1
    parts.append(text[last:])
    return [p for p in (x.strip() for x in parts) if p != ""]


class Site:
    def __init__(self, **kw):
        self.__dict__.update(kw)
        self.inner = []


def _enclosing_call(m, at, where):
    depth, k = 0, at - 1
    while k >= 0:
        ch = m[k]
        if ch in ")]}":
            depth += 1
        elif ch in "([{":
            if depth == 0:
                break
            depth -= 1
        k -= 1
    if k < 0 or m[k] != "(":
        raise AnchorLost(f"{where}: boxed closure is not a call argument")
    mm = re.search(r"([A-Za-z_][\w:]*)\s*$", m[:k])
    if not mm:
        raise AnchorLost(f"{where}: no callee in front of the call that takes the boxed closure")
    return mm.start(1), mm.group(1), k, match_delim(m, k)


def find_sites(seg, kname, where):
    """outermost sites of `seg`, in source order"""
    m = mask(seg)
    sites = []
    for mt in re.finditer(r"\bBox::new\(\s*(move\s+)?\|", m):
        bn = mt.start()
        bopen = m.index("(", bn)
        bclose = match_delim(m, bopen)
        cs, callee, copen, cclose = _enclosing_call(m, bn, where)
        if m[bclose + 1:cclose].strip() not in ("", ","):
            raise AnchorLost(f"{where}: the boxed closure is not the last argument of `{callee}`")
        p1 = m.index("|", bopen)
        p2 = m.index("|", p1 + 1)
        body = seg[p2 + 1:bclose].strip()
        bm = mask(body)
        if body.startswith("{") and match_delim(bm, 0) == len(body) - 1:
            body = body[1:-1].strip()
        params = []
        for p in split_top(seg[p1 + 1:p2]):
            mut = p.startswith("mut ")
            nm = p[4:].strip() if mut else p
            if not re.fullmatch(r"[A-Za-z_]\w*", nm):
                raise AnchorLost(f"{where}: closure parameter `{p}` is not a plain name")
            params.append((nm, mut))
        sites.append(Site(kind="closure", cs=cs, ce=cclose + 1, callee=callee, args=split_top(seg[copen + 1:bn]), params=params, body=body,
                          move=bool(mt.group(1))))
    for mt in re.finditer(r"(?<![\w.:])" + re.escape(kname) + r"\(", m):
        op = mt.end() - 1
        cl = match_delim(m, op)
        sites.append(Site(kind="kcall", cs=mt.start(), ce=cl + 1, callee=kname, args=split_top(seg[op + 1:cl]), params=[], body=None, move=False))
    for mt in re.finditer(r"(?<![\w.:])([A-Za-z_]\w*)\(", m):
        op = mt.end() - 1
        cl = match_delim(m, op)
        a = split_top(seg[op + 1:cl])
        if a and a[-1] == kname and mt.group(1) != kname:
            sites.append(Site(kind="kpass", cs=mt.start(), ce=cl + 1, callee=mt.group(1), args=a[:-1], params=[], body=None, move=False))
    sites.sort(key=lambda s: (s.cs, -s.ce))
    kept = []
    for s in sites:
        if kept and s.cs < kept[-1].ce:
            if s.ce > kept[-1].ce:
                raise AnchorLost(f"{where}: overlapping continuation sites")
            continue
        kept.append(s)
    return kept


def cps_normal_form(text, annot, where, kname="k"):
    counter = [0]
    n_sites = [0]

    def number(seg, parent=None):
        sites = find_sites(seg, kname, where)
        for s in sites:
            s.n = counter[0]
            s.parent = parent
            s.text = seg[s.cs:s.ce]
            counter[0] += 1
            if s.kind == "closure":
                s.inner = number(s.body, s)
        return sites

    def render(seg, sites):
        out, pos = [], 0
        for s in sites:
            out.append(seg[pos:s.cs])
            a = annot(s)
            if a is None:
                raise AnchorLost(f"{where}: continuation site #{s.n} (`{seg[s.cs:s.cs + 60].split(chr(10))[0]}`) matches no annotation rule")
            n_sites[0] += 1
            after = (a.get("after") or "").strip()
            proof = f" proof {{ {after} }}" if after else ""
            if s.kind == "closure":
                inner = render(s.body, s.inner)
                types = a["types"]
                if len(types) != len(s.params):
                    raise AnchorLost(f"{where}: closure #{s.n} takes {len(s.params)} parameters, the annotation rule knows {len(types)}")
                typed = ", ".join(f"{nm}: {t}" for (nm, _), t in zip(s.params, types))
                prologue = "".join(f"let mut {nm} = {nm}; " for nm, mut in s.params if mut)
                bh = (a.get("body_hint") or "").strip()
                if bh:
                    body = f"{{ {prologue}let __o = {{ {inner} }}; proof {{ {bh} }} __o }}"
                else:
                    body = f"{{ {prologue}{inner} }}"
                clo = f"{'move ' if s.move else ''}|{typed}| -> (o: {a.get('ret', 'AExpr')})\n ensures {a['ensures'].strip()}\n{body}"
                args = "".join(x + ", " for x in s.args)
                out.append(f"{{ let __cl{s.n} = {clo}; let __r{s.n} = {s.callee}({args}__cl{s.n});{proof} __r{s.n} }}")
            elif s.kind == "kcall":
                if len(s.args) == 1:
                    # the argument gets a name too (a hint cannot repeat an argument that calls exec functions)
                    out.append(f"{{ let __a{s.n} = {s.args[0]}; let __r{s.n} = {kname}(__a{s.n});{proof} __r{s.n} }}")
                else:
                    out.append(f"{{ let __r{s.n} = {kname}({', '.join(s.args)});{proof} __r{s.n} }}")
            else:
                out.append(f"{{ let __r{s.n} = {s.callee}({', '.join(s.args + [kname])});{proof} __r{s.n} }}")
            pos = s.ce
        out.append(seg[pos:])
        return "".join(out)

    m = mask(text)
    from .rsitems import find_top_level
    b = find_top_level(m, m.index("fn "), "{")
    head, body = text[:b + 1], text[b + 1:]
    # the continuation parameter: `k: Box<dyn FnOnce(T) -> R + 'a>` -> a generic `K: FnOnce(T) -> R` (same calls, same argument; static instead of dynamic dispatch)
    mk = re.search(r"\b" + re.escape(kname) + r":\s*Box<dyn FnOnce\(([^()]*)\)\s*->\s*([\w:<>]+)(?:\s*\+\s*'\w+)?\s*>", head)
    if mk:
        head = head[:mk.start()] + f"{kname}: K" + head[mk.end():]
        mg = re.search(r"\bfn\s+\w+\s*<([^>]*)>", head)
        bound = f"K: FnOnce({mk.group(1)}) -> {mk.group(2)}"
        if mg:
            head = head[:mg.end() - 1] + ", " + bound + head[mg.end() - 1:]
        else:
            head = re.sub(r"\b(fn\s+\w+)\s*\(", r"\1<" + bound + ">(", head, count=1)
    sites = number(body)
    return head + render(body, sites), n_sites[0]


def spec_text(t):
    """exec expression text -> the same value as a spec expression: clones are the value itself"""
    return re.sub(r"\.\s*v?clone\(\)", "", t)
