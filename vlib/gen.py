"""Generate one Verus file per unit from /repo's working tree.

A unit module (units/<name>.py) defines UNIT = Unit(...). The generated file is

    use vstd::prelude::*;  verus! {  <prelude shims> <spec text> <extracted items> }  fn main(){}

Extracted items are the real source text with
  (a) generic, counted normalisation rules (rules.py),
  (b) exact site rewrites listed in the unit (each must match exactly `count` times),
  (c) contract text spliced in: result name, requires/ensures before the body,
      invariants/decreases before the k-th loop body, ghost `proof{}`/`assert()`
      lines at exact anchors.
Nothing else is changed.  Every rewrite is recorded for the evidence file.
"""
import os
import re
from dataclasses import dataclass, field

from . import rsitems
from .rsitems import AnchorLost, Source, find_top_level, match_delim, mask, sha

REPO = os.environ.get("VERIF_REPO", "/repo")


ADAPTER_RE = re.compile(
    r"\.\s*(?:iter|into_iter|iter_mut|keys|values|values_mut|chars|bytes|drain|lines|split|char_indices)\s*\([^()]*\)\s*\.\s*"
    r"(?:map|filter|rev|any|all|zip|enumerate|fold|for_each|find|chain|flat_map|filter_map|skip|take|cloned|copied|sum|count|position|"
    r"last|max|min|collect|next|peekable|step_by|find_map|take_while|skip_while|max_by_key|min_by_key|partition|unzip|flatten|map_while|"
    r"rposition|nth|product|inspect|scan|cmp|eq|sorted)\b")


class Unsupported(Exception):
    """extraction met a construct no rule covers -> UNDECIDED"""


@dataclass
class Fn:
    file: str
    name: str
    container: str = None
    rename: str = None            # name in the generated file (default: same)
    optional: bool = False        # the function may be absent from the source (then the item is skipped; a call to it would not compile)
    ret: str = None               # name for the result  `-> (ret: T)`
    contract: str = ""            # requires/ensures/decreases text
    loops: dict = field(default_factory=dict)   # ordinal -> invariant text
    # alternative to ordinals: callable(k, header_text, keyword) -> invariant text | None, deciding from the loop HEADER (e.g. the
    # collection it walks).  Invariants chosen this way survive added/removed/reordered loops, so the proof-skeleton guard is off.
    loop_fn: object = None
    rewrites: list = field(default_factory=list)  # (old, new[, count])
    ghost: list = field(default_factory=list)     # (anchor, 'before'|'after', text[, nth])
    rules: list = None            # override unit rules
    attrs: str = ""
    as_method_of: str = None      # wrap in `impl X { }` (default: container if inherent)
    drop_self_impl: bool = False
    obligation: str = None        # human name of what the ensures states
    contract_only: bool = False   # emit signature + contract with an external_body stub: the contract is *assumed* in this unit
                                  # (it is the identical text proved against the real body in another unit)
    cut_before: str = None        # fragment extraction: keep the body up to (excluding) the statement starting with this text,
    cut_tail: str = ""            # ... and continue with this (opaque) tail expression; the dropped part is NOT verified
    pre_rewrites: list = field(default_factory=list)   # site rewrites applied BEFORE the generic rules (to bring a construct into a rule's reach)
    cut_inside: bool = False      # cut_from names a block header `.. {`: the fragment is the INSIDE of that block
    cut_from: str = None          # fragment extraction: drop the body text before the statement starting with this text; the fragment
    sig: str = ""                 # ... becomes the body of a function with this synthetic signature (the dropped prefix's live variables
                                  # become parameters).  The dropped part is NOT verified.
    as_spec: bool = False         # emit the *same body* as `pub open spec fn <name>_spec` (pure match/if code only):
                                  # lemmas over <name>_spec are then statements about the real code's table


@dataclass
class Adt:
    file: str
    kw: str        # enum | struct | const | type
    name: str
    rewrites: list = field(default_factory=list)
    rules: list = None
    attrs: str = ""


@dataclass
class Raw:
    """hand-written *specification* text (spec fns, lemmas, shims); never code"""
    path: str = None
    text: str = None
    item: str = None     # set when the text is DERIVED from /repo's sources on every run: it then counts as an extracted item (hashed for the baseline guard)


@dataclass
class Unit:
    name: str
    properties: list
    items: list
    rules: list = field(default_factory=lambda: ["T"])
    prelude: list = field(default_factory=lambda: ["contracts/prelude.rs"])
    verus_args: list = field(default_factory=list)
    describe: str = ""
    expected_fail: list = field(default_factory=list)
    trusted: list = field(default_factory=list)  # unit-specific assumption lines
    uses: list = field(default_factory=list)     # `use` lines of the source files the items rely on (e.g. "use std::mem;")
    # when set: only failed obligations whose verifier text mentions one of these fragments count for this unit's property;
    # any other failure (clauses the unit shares with another property's unit) makes the unit UNDECIDED, never an alarm
    clause_scope: list = field(default_factory=list)
    # determinism units (C13): the contract pins ONE function of the input; a failed proof refutes determinism only when the verified text
    # walks a collection in an unspecified order (one of these stub names occurs in it) — otherwise the code still computes *a* function of
    # its input, just not the recorded one, and the honest answer is UNDECIDED
    alarm_only_with: list = field(default_factory=list)


_src_cache = {}
VACUITY = False      # set by report.vacuity_probe while it generates the probe variant of a unit


def load_source(rel):
    p = os.path.join(REPO, rel)
    if p not in _src_cache:
        try:
            with open(p, encoding="utf-8") as f:
                _src_cache[p] = Source(rel, f.read())
        except OSError as e:
            raise AnchorLost(f"{rel}: {e}")
    return _src_cache[p]


def apply_site_rewrites(text, rewrites, log, where):
    for rw in rewrites:
        old, new = rw[0], rw[1]
        if callable(new):
            # a computed replacement (its docstring says what it does); logged by that description
            fn_ = new
            desc = (fn_.__doc__ or "<computed replacement>").strip()
            cnt = rw[2] if len(rw) > 2 else 1
            found = len(old.findall(text))
            if cnt != "*" and found != cnt:
                raise AnchorLost(f"{where}: site pattern {old.pattern!r} matches {found}x, expected {cnt}")
            text = old.sub(fn_, text)
            if found:
                log.append({"where": where, "kind": "site-computed", "old": old.pattern, "new": desc, "count": found})
            continue
        cnt = rw[2] if len(rw) > 2 else 1
        if cnt == "*":      # optional rewrite: any number of occurrences, including none
            if isinstance(old, re.Pattern):
                k = len(old.findall(text))
                text = old.sub(new, text)
            else:
                k = text.count(old)
                text = text.replace(old, new)
            if k:
                log.append({"where": where, "kind": "site-optional", "old": old.pattern if isinstance(old, re.Pattern) else old, "new": new, "count": k})
            continue
        if isinstance(old, re.Pattern):
            found = len(old.findall(text))
            if found != cnt:
                raise AnchorLost(f"{where}: site pattern {old.pattern!r} matches {found}x, expected {cnt}")
            text = old.sub(new, text)
            log.append({"where": where, "kind": "site-regex", "old": old.pattern, "new": new, "count": cnt})
        else:
            found = text.count(old)
            if found != cnt:
                raise AnchorLost(f"{where}: site text {old!r} occurs {found}x, expected {cnt}")
            text = text.replace(old, new)
            log.append({"where": where, "kind": "site", "old": old, "new": new, "count": cnt})
    return text


CUT_MARK = "/*@verif-cut@*/"
# functions whose optional proof hints ("?anchor") found no anchor during the current generate() call
DROPPED_HINTS = []


_KEEP_WORDS = {"let", "mut", "if", "else", "match", "return", "for", "while", "in", "loop", "break", "continue", "Some", "None", "Ok", "Err", "self", "Self", "true", "false", "as", "ref"}


def _renamed_only(anchor, text):
    """does `text` still contain the anchor's statement up to a renaming of plain identifiers (locals / receivers)?  Names that are
    called (`name(`), path segments (`a::b`), receivers (`name.`: the contracts name them anyway), field/method names after a `.` and
    keywords stay literal."""
    out, i = [], 0
    for mt in re.finditer(r"[A-Za-z_]\w*", anchor):
        out.append(re.escape(anchor[i:mt.start()]))
        w = mt.group(0)
        after = anchor[mt.end():mt.end() + 2]
        before = anchor[max(0, mt.start() - 2):mt.start()]
        literal = (w in _KEEP_WORDS or after.startswith("(") or after.startswith("::") or after.startswith("!") or after.startswith(".") or before.endswith("::")
                   or before.endswith(".") or w[0].isupper())
        out.append(re.escape(w) if literal else r"[A-Za-z_]\w*")
        i = mt.end()
    out.append(re.escape(anchor[i:]))
    pat = "".join(out).replace("\\ ", r"\s*")
    try:
        return re.search(pat, text) is not None
    except re.error:
        return True

LOOP_RE = re.compile(r"(?<![A-Za-z0-9_.])(while|loop|for)\b")


def find_loops(masked_body):
    """offsets of loop keywords (source order) and their body-open brace"""
    res = []
    for mt in LOOP_RE.finditer(masked_body):
        kw = mt.group(1)
        if kw == "for":
            # exclude `for<'a>` HRTB and `impl X for Y`
            rest = masked_body[mt.end():mt.end() + 2]
            if rest.lstrip().startswith("<"):
                continue
        b = find_top_level(masked_body, mt.end(), "{")
        if b < 0:
            continue
        res.append((mt.start(), b, kw))
    return res


def annotate_fn(text, item: Fn, log, where):
    """text: function source starting at qualifiers, ending at closing brace"""
    m = mask(text)
    body_open = find_top_level(m, m.index("fn "), "{")
    if body_open < 0:
        raise AnchorLost(f"{where}: no body")
    inserts = []  # (offset, text)

    # loops (ordinals counted on the original body text)
    loops = find_loops(m[body_open:])
    for k, inv in item.loops.items():
        if k >= len(loops):
            raise AnchorLost(f"{where}: loop #{k} not found ({len(loops)} loops)")
        _s, b, _kw = loops[k]
        inserts.append((body_open + b, "\n" + inv.strip() + "\n"))
    if item.loop_fn is not None:
        for k, (s_, b, kw) in enumerate(loops):
            if k in item.loops:
                continue
            import inspect as _insp
            if len(_insp.signature(item.loop_fn).parameters) >= 4:
                inv = item.loop_fn(k, text[body_open + s_:body_open + b], kw, text[body_open + b:match_delim(m, body_open + b) + 1])
            else:
                inv = item.loop_fn(k, text[body_open + s_:body_open + b], kw)
            if inv is None:
                raise AnchorLost(f"{where}: loop #{k} (`{text[body_open + s_:body_open + b].strip()[:60]}`) has no invariant rule")
            inserts.append((body_open + b, "\n" + inv.strip() + "\n"))
    n_loops = len(loops)

    # ghost inserts.  anchor forms:
    #   "@entry"                 start of the function body
    #   "@exit"                  end of the function body (unit functions)
    #   "@loop:k:body"           start of the k-th loop's body
    #   "@loop-body:REGEX"       start of the body of the first loop whose header matches REGEX
    #   text, pos 'before'/'after'            exact offsets around the exact text
    #   text, pos 'line-before'/'line-after'  text is a fragment; insert at the start of its line / after the end of its line
    for g in item.ghost:
        anchor, pos, gtext = g[0], g[1], g[2]
        nth = g[3] if len(g) > 3 else None
        gt = gtext.strip()
        if not (gt.startswith("proof {") or gt.startswith("assert(") or gt.startswith("assert ") or gt.startswith("let ghost ") or gt.startswith("let tracked ")):
            raise ValueError(f"{where}: ghost insert must be proof/assert/let ghost: {gt[:40]!r}")
        if anchor == "@entry":
            inserts.append((body_open + 1, "\n" + gt + "\n"))
            continue
        if anchor == "@exit":
            # end of the function body, in front of its closing brace (for functions that return unit: the body's tail becomes a statement)
            inserts.append((match_delim(m, body_open), "\n" + gt + "\n"))
            continue
        mb = re.match(r"@loop:(\d+):before$", anchor)
        if mb:
            k = int(mb.group(1))
            if k >= len(loops):
                raise AnchorLost(f"{where}: loop #{k} not found for ghost anchor")
            inserts.append((body_open + loops[k][0], "\n" + gt + "\n"))
            continue
        ml = re.match(r"@loop:(\d+):body$", anchor)
        if ml:
            k = int(ml.group(1))
            if k >= len(loops):
                raise AnchorLost(f"{where}: loop #{k} not found for ghost anchor")
            inserts.append((body_open + loops[k][1] + 1, "\n" + gt + "\n"))
            continue
        me = re.match(r"@loop:(\d+):end$", anchor)
        if me:
            # just before the closing brace of the k-th loop's body (the normal end of an iteration)
            k = int(me.group(1))
            if k >= len(loops):
                raise AnchorLost(f"{where}: loop #{k} not found for ghost anchor")
            close_k = match_delim(m, body_open + loops[k][1])
            inserts.append((close_k, "\n" + gt + "\n"))
            # ... and in front of every `continue` that ends an iteration of THIS loop early (not one of a nested loop): the same bookkeeping step
            for mc in re.finditer(r"\bcontinue\b", m[body_open + loops[k][1]:close_k]):
                at = body_open + loops[k][1] + mc.start()
                inner = [lp for lp in loops if lp is not loops[k] and body_open + lp[1] > body_open + loops[k][1]
                         and body_open + lp[1] < at < match_delim(m, body_open + lp[1])]
                if inner:
                    continue
                inserts.append((at, "{ " + gt + " "))
                inserts.append((at + len("continue"), " }"))
            continue
        mh = re.match(r"@loop-body:(.+)$", anchor)
        if mh:
            # start of the body of the first loop whose header matches the regex (independent of the loop's ordinal)
            hit = [lp for lp in loops if re.search(mh.group(1), text[body_open + lp[0]:body_open + lp[1]])]
            if not hit:
                raise AnchorLost(f"{where}: no loop header matches {mh.group(1)!r} for ghost anchor")
            inserts.append((body_open + hit[0][1] + 1, "\n" + gt + "\n"))
            continue
        ma = re.match(r"@after-loop:(.+)$", anchor)
        if ma:
            # after the closing brace of the first loop whose header matches the regex
            hit = [lp for lp in loops if re.search(ma.group(1), text[body_open + lp[0]:body_open + lp[1]])]
            if not hit:
                raise AnchorLost(f"{where}: no loop header matches {ma.group(1)!r} for ghost anchor")
            close = match_delim(m, body_open + hit[0][1])
            inserts.append((close + 1, "\n" + gt + "\n"))
            continue
        optional = anchor.startswith("?")      # "?text": a hint that is simply dropped when its anchor is gone
        if optional:
            anchor = anchor[1:]
        occ = [mt.start() for mt in re.finditer(re.escape(anchor), text)]
        if optional and len(occ) != 1 and nth is None:
            # the hint is dropped.  If its statement is still there up to a renaming of locals, a failed proof is the hint's loss
            # (UNDECIDED); if the statement is gone, the code changed and the failure is reported as such
            if len(occ) == 0 and _renamed_only(anchor, text):
                DROPPED_HINTS.append(where)
            continue
        if nth is None:
            if len(occ) != 1:
                raise AnchorLost(f"{where}: ghost anchor {anchor!r} occurs {len(occ)}x")
            o = occ[0]
        else:
            if nth >= len(occ):
                if optional:
                    if _renamed_only(anchor, text) and len(occ) == 0:
                        DROPPED_HINTS.append(where)
                    continue
                raise AnchorLost(f"{where}: ghost anchor {anchor!r} #{nth} missing")
            o = occ[nth]
        if pos == "before":
            at = o
        elif pos == "after":
            at = o + len(anchor)
        elif pos == "line-before":
            at = text.rfind("\n", 0, o) + 1
        elif pos == "line-after":
            e = text.find("\n", o + len(anchor))
            at = len(text) if e < 0 else e + 1
        else:
            raise ValueError(pos)
        inserts.append((at, "\n" + gt + "\n"))

    # contract + result name
    sig = text[:body_open]
    msig = m[:body_open]
    new_sig = sig
    if item.ret:
        arrow = _find_ret_arrow(msig)
        if arrow >= 0:
            w = re.search(r"\bwhere\b", msig[arrow:])
            end = arrow + w.start() if w else len(sig)
            ty = sig[arrow + 2:end].strip()
            new_sig = sig[:arrow] + f"-> ({item.ret}: {ty}) " + (sig[end:] if w else "")
    if item.rename:
        new_sig = re.sub(r"\bfn\s+" + re.escape(item.name) + r"\b", "fn " + item.rename, new_sig, count=1)
    # a HELPER's contract may be a function of its signature text (e.g. name the parameter the signature has): the top-level postconditions stay fixed text
    ctext0 = (item.contract(sig) if callable(item.contract) else item.contract).strip()
    contract = ("\n" + ctext0 + "\n") if ctext0 else ""
    if VACUITY and not item.contract_only:
        # vacuity probe: same preconditions, postcondition `false` — the verifier must REFUSE it (see report.vacuity_probe)
        ctext = ctext0
        me = re.search(r"(?m)(^|[\s,])ensures\b", ctext)
        pre = ctext[:me.start() + len(me.group(1))] if me else (ctext + ("\n" if ctext else ""))
        md = re.search(r"(?m)(^|[\s,])decreases\b.*$", ctext[me.end():] if me else "", re.S)
        dec = (md.group(0).lstrip(" ,\n") if md else "")
        contract = "\n" + pre.rstrip() + ("\n" if pre.strip() else "") + "ensures false,\n" + (dec + "\n" if dec else "")

    out = []
    last = body_open
    for off, t in sorted(inserts, key=lambda x: x[0]):
        out.append(text[last:off])
        out.append(t)
        last = off
    out.append(text[last:])
    body = "".join(out)
    res = (item.attrs + "\n" if item.attrs else "") + new_sig.rstrip() + contract + body
    return res, n_loops


def to_spec_fn(text, item, where):
    m = mask(text)
    i = m.index("fn ")
    if LOOP_RE.search(m[find_top_level(m, i, "{"):]):
        raise Unsupported(f"{where}: as_spec on a function with loops")
    head = re.sub(r"\bfn\s+" + re.escape(item.name) + r"\b", "fn " + item.name + "_spec", text[i:], count=1)
    return "pub open spec " + head


def _find_ret_arrow(msig):
    # last `->` at paren depth 0 after the parameter list
    i = msig.index("fn ")
    mg = re.match(r"fn\s+\w+\s*<", msig[i:])
    if mg:
        # generic parameters may contain parentheses and arrows themselves (`K: FnOnce(T) -> R`): skip the balanced `<..>`
        depth, j = 1, i + mg.end()
        while j < len(msig) and depth:
            if msig[j] == "<":
                depth += 1
            elif msig[j] == ">" and msig[j - 1] != "-":
                depth -= 1
            j += 1
        i = j
    p = msig.index("(", i)
    e = match_delim(msig, p)
    a = msig.find("->", e)
    return a


def generate(unit: Unit, root, rules_mod):
    """returns (text, meta) ; meta has per-item records and line map"""
    parts = ["// GENERATED by /verif/vlib/gen.py from /repo's working tree — do not edit\n",
             "#![allow(unused_imports, unused_variables, unused_mut, dead_code, unused_parens, unreachable_code, unused_assignments, non_camel_case_types, unused_braces)]\n",
             "use vstd::prelude::*;\n" + "".join(u + "\n" for u in unit.uses) + "verus! {\n"]
    meta = {"items": [], "rewrites": [], "rule_counts": {}, "linemap": []}
    del DROPPED_HINTS[:]
    ctx = rules_mod.Context()

    def cur_line():
        return "".join(parts).count("\n") + 1

    for p in unit.prelude:
        with open(os.path.join(root, p)) as f:
            t = f.read()
        start = cur_line()
        parts.append(f"// ---- prelude {p}\n" + t + "\n")
        meta["linemap"].append({"kind": "prelude", "name": p, "start": start, "end": cur_line()})

    _gen_one = None
    def _gen_fn_item(it):
            if it.optional:
                try:
                    src.find_fn(it.name, it.container)
                except AnchorLost:
                    meta["rewrites"].append({"where": f"{it.file}::{it.name}", "kind": "optional-item-absent", "old": "", "new": "", "count": 0})
                    return
            s, b, e = src.find_fn(it.name, it.container)
            orig = src.text[s:e + 1]
            where = f"{it.file}::{(it.container + '::') if it.container else ''}{it.name}"
            orig_unmarked = orig
            if isinstance(it.cut_from, re.Pattern):
                # a start anchor given as a pattern: it must match exactly once; the matched text is the anchor
                hits = [mt for mt in it.cut_from.finditer(orig)]
                if len(hits) != 1:
                    raise AnchorLost(f"{where}: cut_from pattern {it.cut_from.pattern!r} matches {len(hits)}x")
                import copy as _copy2
                it = _copy2.copy(it)
                # the matched TEXT may occur elsewhere too (the pattern can use look-ahead): mark the matched position
                orig_unmarked = orig
                orig = orig[:hits[0].start()] + CUT_MARK + orig[hits[0].start():]
                it.cut_from = CUT_MARK + hits[0].group(0)
            if it.cut_before == "@block-end":
                # middle fragment ending where the block that encloses the start anchor ends (e.g. one match arm `=> { .. }`)
                if not it.cut_from or orig.count(it.cut_from) != 1:
                    raise AnchorLost(f"{where}: cut_from anchor {it.cut_from!r} occurs {orig.count(it.cut_from or '')}x")
                mo = mask(orig)
                pos = orig.index(it.cut_from) + (len(it.cut_from) if it.cut_inside else 0)
                depth, k = 0, pos
                while k > 0:
                    k -= 1
                    if mo[k] == "}":
                        depth += 1
                    elif mo[k] == "{":
                        if depth == 0:
                            break
                        depth -= 1
                end = match_delim(mo, k)
                orig_kept = orig[:end] + it.cut_tail + "\n}"
                meta["rewrites"].append({"where": where, "kind": "fragment", "old": f"<everything after the block that starts at line {src.line_of(s + k)}>", "new": it.cut_tail, "count": 1})
            elif it.cut_before:
                if it.cut_from:
                    # middle fragment: the end anchor is its first occurrence AFTER the (unique) start anchor
                    if orig.count(it.cut_from) != 1:
                        raise AnchorLost(f"{where}: cut_from anchor {it.cut_from!r} occurs {orig.count(it.cut_from)}x")
                    cut = orig.find(it.cut_before, orig.index(it.cut_from))
                    if cut < 0:
                        raise AnchorLost(f"{where}: cut anchor {it.cut_before!r} does not occur after {it.cut_from!r}")
                else:
                    k = orig.count(it.cut_before)
                    if k != 1:
                        raise AnchorLost(f"{where}: cut anchor {it.cut_before!r} occurs {k}x")
                    cut = orig.index(it.cut_before)
                dropped = orig[cut:]
                orig_kept = orig[:cut] + it.cut_tail + "\n}"
                meta["rewrites"].append({"where": where, "kind": "fragment", "old": f"<{dropped.count(chr(10))} lines from `{it.cut_before}` to the end of the function>",
                                         "new": it.cut_tail, "count": 1})
            else:
                orig_kept = orig
            if it.cut_from:
                k = orig_kept.count(it.cut_from)
                if k != 1:
                    raise AnchorLost(f"{where}: cut_from anchor {it.cut_from!r} occurs {k}x")
                cut = orig_kept.index(it.cut_from)
                if it.cut_inside:
                    cut = cut + len(it.cut_from)          # anchor is a block header: the fragment is the inside of that block
                else:
                    cut = orig_kept.rfind("\n", 0, cut) + 1
                meta["rewrites"].append({"where": where, "kind": "fragment", "old": f"<signature and {orig_kept[:cut].count(chr(10))} lines before `{it.cut_from}`>",
                                         "new": it.sig, "count": 1})
                orig_kept = it.sig.rstrip() + " {\n" + orig_kept[cut:]
            orig_kept = orig_kept.replace(CUT_MARK, "")
            if it.pre_rewrites:
                orig_kept = apply_site_rewrites(orig_kept, it.pre_rewrites, meta["rewrites"], where)
            t = rules_mod.apply_rules(orig_kept, rules, ctx, meta["rule_counts"], where)
            # loop ordinals and ghost anchors refer to the text after generic rules and site rewrites
            t = apply_site_rewrites(t, it.rewrites, meta["rewrites"], where)
            if it.as_spec:
                t = to_spec_fn(t, it, where)
                n_loops = 0
                meta["rewrites"].append({"where": where, "kind": "as-spec", "old": "fn " + it.name, "new": "pub open spec fn " + it.name + "_spec (same body)", "count": 1})
            elif it.contract_only:
                import copy as _copy
                it2 = _copy.copy(it)
                it2.loops, it2.ghost = {}, []
                t, n_loops = annotate_fn(t, it2, meta["rewrites"], where)
                mt_ = mask(t)
                end_ = len(mt_.rstrip()) - 1
                bo = find_top_level(mt_, mt_.index("fn "), "{")
                while bo >= 0 and match_delim(mt_, bo) != end_:   # braces inside the contract (if/let/match expressions) are not the body
                    bo = find_top_level(mt_, match_delim(mt_, bo) + 1, "{")
                if bo < 0:
                    raise AnchorLost(f"{where}: body of contract-only function not found")
                t = "#[verifier::external_body]\n" + t[:bo] + "{ unimplemented!() }"
                meta["rewrites"].append({"where": where, "kind": "contract-only", "old": "<body>", "new": "external_body stub (contract proved in its own unit)", "count": 1})
            else:
                # Verus type-checks std iterator adapter chains but has no specification for their results: a function that still
                # contains one after the rules ran would fail its contract for lack of a spec, not because of the code.  That is an
                # unsupported construct (UNDECIDED), never an alarm.
                ad = ADAPTER_RE.search(mask(t))
                if ad:
                    raise Unsupported(f"{where}: std iterator adapter chain `{ad.group(0)}` is covered by no extraction rule (no specification for its result)")
                t, n_loops = annotate_fn(t, it, meta["rewrites"], where)
            wrap = it.as_method_of if it.as_method_of else (it.container if (it.container and " for " not in it.container and not it.drop_self_impl) else None)
            start = cur_line()
            hdr = f"// ---- {where} (lines {src.line_of(s)}-{src.line_of(e)})\n"
            if wrap:
                parts.append(hdr + f"impl {wrap} {{\n" + t + "\n}\n")
            else:
                parts.append(hdr + t + "\n")
            meta["linemap"].append({"kind": "fn", "name": it.rename or it.name, "container": wrap, "start": start, "end": cur_line(), "where": where})
            meta["items"].append({"item": where, "lines": [src.line_of(s), src.line_of(e)], "sha256": sha(orig_unmarked), "kind": "fn",
                                  "loops": n_loops, "loops_with_invariant": (n_loops if it.loop_fn is not None else len(it.loops)),
                                  "loops_by_header": it.loop_fn is not None,
                                  "has_contract": bool(it.contract if callable(it.contract) else it.contract.strip()), "obligation": it.obligation, "rename": it.rename, "contract_only": bool(it.contract_only)})
    _gen_one = _gen_fn_item
    for it in unit.items:
        if isinstance(it, Raw):
            if it.path:
                with open(os.path.join(root, it.path)) as f:
                    t = f.read()
                nm = it.path
            else:
                t, nm = (it.text() if callable(it.text) else it.text), "inline-spec"
            start = cur_line()
            parts.append(f"// ---- spec {nm}\n" + t + "\n")
            meta["linemap"].append({"kind": "spec", "name": nm, "start": start, "end": cur_line()})
            if it.item:
                meta["items"].append({"item": it.item, "lines": [0, 0], "sha256": sha(t), "kind": "derived"})
            continue
        src = load_source(it.file)
        rules = it.rules if it.rules is not None else unit.rules
        if isinstance(it, Adt):
            s, e = src.find_adt(it.kw, it.name)
            orig = src.text[s:e]
            where = f"{it.file}::{it.kw} {it.name}"
            if it.kw == "struct" and "pubfields" not in rules:
                rules = list(rules) + ["pubfields"]
            t = rules_mod.apply_rules(orig, rules, ctx, meta["rule_counts"], where)
            t = apply_site_rewrites(t, it.rewrites, meta["rewrites"], where)
            start = cur_line()
            parts.append(f"// ---- {where} (lines {src.line_of(s)}-{src.line_of(e)})\n" + (it.attrs + "\n" if it.attrs else "") + t + "\n")
            meta["linemap"].append({"kind": "adt", "name": it.name, "start": start, "end": cur_line()})
            meta["items"].append({"item": where, "lines": [src.line_of(s), src.line_of(e)], "sha256": sha(orig), "kind": it.kw})
            continue
        assert isinstance(it, Fn)
        if it.cut_from and not it.contract_only and _gen_one is not None:
            # a FRAGMENT is a leaf of its unit (nothing else calls it): when its anchors are lost the other items are still generated and verified, so that a
            # lost anchor in one fragment does not hide a failing obligation in another; the unit can then no longer be green (report.run_unit)
            try:
                _gen_one(it)
            except (AnchorLost, Unsupported) as e_:
                meta.setdefault("lost_items", []).append({"item": f"{it.file}::{it.rename or it.name}", "reason": str(e_)})
            continue
        _gen_fn_item(it)
    parts.append("\n} // verus!\nfn main() {}\n")
    meta["dropped_hints"] = sorted(set(DROPPED_HINTS))
    return "".join(parts), meta
