"""Run units, classify outcomes, write evidence, print VIOLATION / KNOWN-FINDING lines."""
import hashlib
import importlib
import json
import os
import re
import time
import traceback

from . import gen, rules, verus
from .rsitems import AnchorLost

CANARY = "verif_canary"

GLOBAL_TRUSTED = [
    "Verus 0.2026.09.13 (rust_verify, VIR/AIR encoding), its bundled Z3, and rustc are trusted",
    "machine integers follow Verus' fixed-width model (overflow/underflow are obligations, not assumed away)",
    "extraction (vlib/rsitems.py, gen.py) hands Verus the item text found in /repo's working tree; "
    "normalisation rules and site rewrites listed under coverage.units[].rewrites are argued, not machine-checked, to preserve semantics",
    "diagnostic message *texts*, Debug/Display output, file-system behaviour and the Go toolchain are outside every contract",
]


def out_dir(root, prop):
    """generated files: one directory per property (C04 and C12 share units and may be checked concurrently); runs against a
    scratch tree (VERIF_REPO set: mutation self-test) get a private directory so they never clobber a run on /repo"""
    if os.environ.get("VERIF_REPO"):
        return os.path.join(root, "out", f"scratch-{os.getpid()}")
    return os.path.join(root, "out", prop)


def load_unit(module):
    m = importlib.import_module("units." + module)
    return m


def scan_assumptions(text):
    out = []
    lines = text.splitlines()
    for i, l in enumerate(lines):
        s = l.strip()
        if s.startswith("//"):
            continue
        if re.search(r"\bassume\s*\(|\badmit\s*\(|external_body|assume_specification|\buninterp\b|external_type_specification|#\[verifier::external\b", s):
            # describe with the next fn/struct name
            ctx = s
            for j in range(i, min(i + 4, len(lines))):
                mt = re.search(r"\b(fn|struct|enum)\s+(\w+)", lines[j])
                if mt:
                    ctx = f"{s}  [{mt.group(1)} {mt.group(2)}]" if j != i else s
                    break
            out.append(ctx)
    return out


def run_unit(root, module, prop, tier, seed, rebaseline=False):
    t0 = time.time()
    rec = {"module": module, "status": "undecided", "reason": "", "failed": [], "functions": [], "wall_s": 0}
    try:
        um = load_unit(module)
        if getattr(um, "KIND", "verus") == "kani":
            from . import kani
            rec = kani.run_unit(root, um, module, prop, tier, seed)
            rec["wall_s"] = time.time() - t0
            return rec
        unit = um.UNIT
        rec["unit"] = unit.name
        rec["describe"] = unit.describe
        rec["trusted"] = list(unit.trusted)
        rec["alarm_only_with"] = list(getattr(unit, "alarm_only_with", []) or [])
        cs = getattr(unit, "clause_scope", [])
        # list: fragments that are this unit's own clauses; dict: per property {"only": [...]} or {"except": [...]}
        rec["clause_scope"] = (cs.get(prop) or {}) if isinstance(cs, dict) else ({"only": list(cs)} if cs else {})
        text, meta = gen.generate(unit, root, rules)
    except (AnchorLost, gen.Unsupported) as e:
        rec["reason"] = f"anchor lost / unsupported construct: {e}"
        rec["wall_s"] = time.time() - t0
        rec.setdefault("unit", module)
        return rec
    except Exception as e:  # machinery bug: never an alarm
        rec["reason"] = f"internal error in generator: {e!r}\n{traceback.format_exc()}"
        rec["wall_s"] = time.time() - t0
        rec.setdefault("unit", module)
        return rec
    outdir = out_dir(root, prop)
    os.makedirs(outdir, exist_ok=True)
    path = os.path.join(outdir, f"{module}.rs")
    with open(path, "w") as f:
        f.write(text)
    rec["generated"] = path
    rec["items"] = meta["items"]
    rec["rule_counts"] = meta["rule_counts"]
    rec["rewrites"] = meta["rewrites"]
    rec["assumptions"] = scan_assumptions(text)
    fp = {it["item"]: it["sha256"] for it in meta["items"]}
    fp["__loops__"] = {it["item"]: it.get("loops", 0) for it in meta["items"] if it.get("kind") == "fn"}
    fp["__dropped_hints__"] = list(meta.get("dropped_hints", []))
    rec["fingerprint"] = fp
    base = load_baseline(root).get(module, {})
    changed = sorted(k for k in set(fp) | set(base) if k not in ("__loops__", "__dropped_hints__") and fp.get(k) != base.get(k))
    # optional proof hints that found their anchor on the validated tree but not on this one
    rec["hints_lost"] = sorted(set(fp["__dropped_hints__"]) - set(base.get("__dropped_hints__", []))) if base else []
    bl = base.get("__loops__", {})
    by_header = {it["item"] for it in meta["items"] if it.get("loops_by_header")}
    rec["skeleton_changed"] = sorted(k for k, v in fp["__loops__"].items() if k in bl and bl[k] != v and k not in by_header)
    rec["changed_items"] = changed if base else ["<no baseline recorded>"]
    rec["baseline_present"] = bool(base)

    r = verus.run(path, unit.verus_args, timeout=900 if tier == "thorough" else 420)
    if r["status"] == "compile-error":
        # a call to a function the unit does not contain: try to pull the helper in (spec + exec form) and run again
        try:
            u2, helpers = _auto_helpers(unit, root, r)
            if u2 is not None:
                text2, meta2 = gen.generate(u2, root, rules)
                with open(path, "w") as f:
                    f.write(text2)
                r2 = verus.run(path, unit.verus_args, timeout=900 if tier == "thorough" else 420)
                if r2["status"] != "compile-error":
                    text, meta, r = text2, meta2, r2
                    rec["auto_helpers"] = helpers
                    rec["items"] = meta["items"]
                    rec["rewrites"] = meta["rewrites"]
                    rec["assumptions"] = scan_assumptions(text)
        except Exception:
            pass
    if r["status"] == "compile-error":
        # the helper has no spec form (or was not found that way): replace its calls by its body, when that is meaning-preserving
        try:
            prior, rk = [], r
            for _round in range(3):        # a helper may call another new helper: up to three rounds
                u3, helpers = _inline_helpers(unit, root, rk, prior)
                if u3 is None:
                    break
                text3, meta3 = gen.generate(u3, root, rules)
                with open(path, "w") as f:
                    f.write(text3)
                r3 = verus.run(path, unit.verus_args, timeout=900 if tier == "thorough" else 420)
                if r3["status"] != "compile-error":
                    text, meta, r = text3, meta3, r3
                    rec["inlined_helpers"] = helpers
                    rec["items"] = meta["items"]
                    rec["rewrites"] = meta["rewrites"]
                    rec["assumptions"] = scan_assumptions(text)
                    break
                if list(u3._inlined) == list(prior):
                    break
                prior, rk = list(u3._inlined), r3
            if r["status"] == "compile-error":
                with open(path, "w") as f:
                    f.write(text)
        except Exception:
            pass
    attempts = [r]
    # retry policy: rlimit / flaky -> one retry with larger rlimit and a different seed
    real_fail = any((not f["success"]) and not f["function"].endswith(CANARY) for f in r.get("functions", []))
    if r["status"] == "verification-failed" and real_fail and (any(e.get("kind") == "rlimit" for e in r["errors"]) or (base and not changed)):
        r2 = verus.run(path, unit.verus_args, timeout=900, rlimit=40, seed=seed + 17)
        attempts.append(r2)
        if r2["status"] == "ok" or not (base and not changed):
            r = r2
        else:
            r = r2
    rec["checker_cmd"] = r["cmd"]
    rec["smt_ms"] = sum(a.get("smt_ms", 0) for a in attempts[-1:])
    rec["verus_wall_s"] = round(sum(a["wall_s"] for a in attempts), 2)
    rec["attempts"] = len(attempts)
    rec["prop"] = prop
    rec["known_names"] = {k.get("obligation") for k in load_known(root)[0] if k.get("property") == prop}
    classify_unit(rec, r, meta, base, changed, text)
    rec.pop("known_names", None)
    if meta.get("lost_items"):
        # fragments whose anchors were lost were left out of the generated file: what remains was verified (a failing obligation there is still reported), but the
        # unit cannot be green
        rec["lost_items"] = meta["lost_items"]
        if rec["status"] == "ok":
            rec["status"] = "undecided"
            rec["reason"] = "anchor lost / unsupported construct: " + "; ".join(f"{x['item']}: {x['reason']}" for x in meta["lost_items"])
    if rec.get("known_failed"):
        # hand the known-finding obligations to finish(); they never turn an otherwise green unit red by themselves
        if rec["status"] == "ok":
            rec["status"] = "failed"
            rec["failed"] = list(rec["known_failed"])
        elif rec["status"] == "failed":
            rec["failed"] = list(rec.get("failed", [])) + list(rec["known_failed"])
    rec["wall_s"] = round(time.time() - t0, 2)
    return rec


MISSING_RE = [re.compile(r"cannot find function `(\w+)` in this scope"),
              re.compile(r"no method named `(\w+)` found for"),
              re.compile(r"no function or associated item named `(\w+)` found for")]


def _auto_helpers(unit, root, r):
    """The generated file does not compile because it calls a function that is not in the unit (typically a helper a change
    introduced).  Look the function up in the repository files the unit's items come from; a unique, loop-free definition is added
    to the unit TWICE: as `<name>_spec` (the same body as an open spec fn) and as the exec fn with `ensures r == <name>_spec(..)`,
    so callers see exactly what it computes.  Returns (new_unit, [names]) or (None, [])."""
    import copy as _copy
    names = []
    for d in r.get("diagnostics", []):
        if d["level"] != "error":
            continue
        for rx in MISSING_RE:
            mt = rx.search(d["msg"])
            if mt and mt.group(1) not in names:
                names.append(mt.group(1))
    if not names:
        return None, []
    files = []
    for it in unit.items:
        f = getattr(it, "file", None)
        if f and f not in files:
            files.append(f)
    # sibling files of the same directory are searched too (a helper method on a type defined next door)
    repo = os.environ.get("VERIF_REPO", "/repo")
    extra = []
    for f in list(files):
        dname = os.path.dirname(os.path.join(repo, f))
        if os.path.isdir(dname):
            for fn_ in sorted(os.listdir(dname)):
                rel = os.path.join(os.path.dirname(f), fn_)
                if fn_.endswith(".rs") and rel not in files and rel not in extra:
                    extra.append(rel)
    new_items = []
    for name in names:
        found = []
        for f in files + extra:
            try:
                src = gen.load_source(f)
            except Exception:
                continue
            for mt in re.finditer(r"(?<![A-Za-z0-9_])fn\s+" + re.escape(name) + r"\b", src.m):
                cont = None
                for hdr, b, e in src.impl_blocks():
                    if b < mt.start() < e:
                        mh = re.match(r"impl(?:<[^>]*>)?\s+(?:[\w:]+\s+for\s+)?([A-Za-z_]\w*)", hdr)
                        cont = mh.group(1) if mh else None
                found.append((f, cont))
        if len(found) != 1:
            return None, []
        f, cont = found[0]
        src = gen.load_source(f)
        try:
            s0, b0, e0 = src.find_fn(name, cont)
        except Exception:
            return None, []
        sig = src.text[s0:b0]
        mp = re.search(r"\((.*)\)", sig, re.S)
        params = []
        if mp:
            for part in re.split(r",(?![^<>()]*[>)])", mp.group(1)):
                part = part.strip()
                if not part:
                    continue
                if part in ("&self", "self", "&mut self"):
                    continue
                params.append(part.split(":")[0].strip().replace("mut ", ""))
        if "&mut" in sig or "->" not in sig:
            return None, []
        call = (f"self.{name}_spec(" if cont and "self" in sig else f"{name}_spec(") + ", ".join(params) + ")"
        new_items.append(gen.Fn(file=f, name=name, container=cont, as_spec=True, rules=list(unit.rules)))
        new_items.append(gen.Fn(file=f, name=name, container=cont, ret="r", contract=f"ensures r == {call},", rules=list(unit.rules),
                                obligation="(helper added automatically: the function computes what its own body says)"))
    u2 = _copy.copy(unit)
    items = list(unit.items)
    k = next((i for i, it in enumerate(items) if isinstance(it, gen.Fn)), len(items))
    u2.items = items[:k] + new_items + items[k:]
    return u2, names


def _find_helper(unit, name):
    """the unique definition of free function / method `name` in the files the unit's items come from (and their siblings): (file, container) or None"""
    files = []
    for it in unit.items:
        f = getattr(it, "file", None)
        if f and f not in files:
            files.append(f)
    repo = os.environ.get("VERIF_REPO", "/repo")
    extra = []
    for f in list(files):
        dname = os.path.dirname(os.path.join(repo, f))
        if os.path.isdir(dname):
            for fn_ in sorted(os.listdir(dname)):
                rel = os.path.join(os.path.dirname(f), fn_)
                if fn_.endswith(".rs") and rel not in files and rel not in extra:
                    extra.append(rel)
    found = []
    for f in files + extra:
        try:
            src = gen.load_source(f)
        except Exception:
            continue
        for mt in re.finditer(r"(?<![A-Za-z0-9_])fn\s+" + re.escape(name) + r"\b", src.m):
            cont = None
            for hdr, b, e in src.impl_blocks():
                if b < mt.start() < e:
                    mh = re.match(r"impl(?:<[^>]*>)?\s+(?:[\w:]+\s+for\s+)?([A-Za-z_]\w*)", hdr)
                    cont = mh.group(1) if mh else None
            found.append((f, cont))
    return found[0] if len(found) == 1 else None


def _let_else_return(body):
    """a helper body that OPENS with `let PAT = E else { return R; };` and has no other `return`: the same as `match E { PAT => { REST } _ => { R } }` (the early
    return leaves the helper, which is what the second arm's value does).  Anything else is handed back unchanged."""
    from vlib.rsitems import mask, match_delim
    m = mask(body)
    mt = re.match(r"\s*let\s+", m)
    if not mt:
        return body
    ke = re.search(r"\belse\s*\{", m)
    if not ke:
        return body
    head = m[mt.end():ke.start()]
    if ";" in head or head.count("=") < 1 or "{" in head.split("=", 1)[0]:
        return body
    b = ke.end() - 1
    e = match_delim(m, b)
    inner = body[b + 1:e].strip()
    mr = re.fullmatch(r"return\b\s*(.*?);?", inner, re.S)
    if not mr or not re.match(r"\s*;", m[e + 1:]):
        return body
    semi = e + 1 + m[e + 1:].index(";")
    rest = body[semi + 1:]
    if re.search(r"\breturn\b", mask(rest)) or re.search(r"\breturn\b", mask(mr.group(1))):
        return body
    k = head.index("=")
    pat, expr = body[mt.end():mt.end() + k].strip(), body[mt.end() + k + 1:ke.start()].strip()
    return f" match {expr} {{ {pat} => {{ {rest} }} _ => {{ {mr.group(1) or '()'} }} }} "


def _inline_helpers(unit, root, r, prior=()):
    """Second fallback for a call to a function the unit does not contain (a helper a change introduced), when the helper has no spec form:
    the call is replaced, mechanically, by the helper's body as a block — `h(a, b)` becomes `{ let p: P = a; let q: Q = b; BODY }` — in every
    function item of the unit.  Meaning-preserving for a FREE function — or a method called on `self`, whose `self` is then the caller's — that is non-recursive and whose body has no `return` and no `?` (both would leave the
    caller instead of the helper); anything else is refused.  Returns (new_unit, [names]) or (None, [])."""
    import copy as _copy
    from vlib.rsitems import mask, match_delim
    from vlib.cps import split_top
    names, methods = [], set()
    for d in r.get("diagnostics", []):
        if d["level"] != "error":
            continue
        mt = MISSING_RE[0].search(d["msg"])
        if mt and mt.group(1) not in names:
            names.append(mt.group(1))
        mt = MISSING_RE[1].search(d["msg"])
        if mt and mt.group(1) not in names:
            names.append(mt.group(1))
            methods.add(mt.group(1))      # a method: only calls on `self` are followed (the helper's `self` is then the caller's)
    if not names:
        return None, []
    # helpers inlined in an earlier round come first: a helper that the body of an inlined helper calls appears in the text only after that inlining
    for pn, pm in reversed(list(prior)):
        if pn not in names:
            names.insert(0, pn)
            if pm:
                methods.add(pn)
    helpers = {}
    for name in names:
        hit = _find_helper(unit, name)
        if not hit or (hit[1] is not None) != (name in methods):
            return None, []
        src = gen.load_source(hit[0])
        s0, b0, e0 = src.find_fn(name, hit[1])
        sig, body = src.text[s0:b0], src.text[b0 + 1:e0]
        body = _let_else_return(body)
        mb = mask(body)
        if re.search(r"\breturn\b", mb) or "?" in mb or re.search(r"\b" + re.escape(name) + r"\s*\(", mb):
            return None, []
        mg = re.search(r"fn\s+" + re.escape(name) + r"\s*(<[^>(]*>)?\s*\(", sig)
        if not mg or (mg.group(1) and re.search(r"[A-Za-z]", re.sub(r"'\w+", "", mg.group(1)))):
            return None, []          # generic over types: refused
        op = sig.index("(", mg.start())
        cl = match_delim(mask(sig), op)
        params = []
        for part in split_top(sig[op + 1:cl]):
            if name in methods and re.fullmatch(r"&(?:'\w+\s+)?(?:mut\s+)?self", part.strip()):
                continue
            mp = re.fullmatch(r"(?:mut\s+)?([A-Za-z_]\w*)\s*:\s*(.+)", part, re.S)
            if not mp or "self" == mp.group(1):
                return None, []
            params.append((("mut " if part.startswith("mut ") else "") + mp.group(1), re.sub(r"'\w+\s*", "", mp.group(2)).strip()))
        helpers[name] = (hit[0], params, body)

    def make(name):
        f, params, body = helpers[name]

        def inline_calls(mt):
            text = mt.group(0)
            while True:
                m = mask(text)
                pat = (r"\bself\s*\.\s*" if name in methods else r"(?<![\w\.:])") + re.escape(name) + r"\s*\("
                hits = [x for x in re.finditer(pat, m) if not re.search(r"\bfn\s+$", m[:x.start()])]
                if not hits:
                    return text
                x = hits[-1]
                op = x.end() - 1
                cl = match_delim(m, op)
                args = split_top(text[op + 1:cl])
                if len(args) != len(params):
                    raise AnchorLost(f"call of helper {name} with {len(args)} arguments, {len(params)} parameters")
                lets = " ".join(f"let {pn}: {pt} = ({a});" for (pn, pt), a in zip(params, args))
                text = text[:x.start()] + "{ " + lets + " " + body.strip() + " }" + text[cl + 1:]
        inline_calls.__doc__ = (f"every call `{name}(..)` is replaced by the body of {f}::{name} as a block with its parameters let-bound to the arguments "
                                f"(free, non-recursive helper without `return` / `?`: the call and the block mean the same)")
        return inline_calls
    u2 = _copy.copy(unit)
    items = []
    for it in unit.items:
        if isinstance(it, gen.Fn) and not it.contract_only:
            it2 = _copy.copy(it)
            it2.pre_rewrites = [(re.compile(r"(?s)\A.*\Z"), make(n), "*") for n in names] + list(it.pre_rewrites or [])
            items.append(it2)
        else:
            items.append(it)
    u2.items = items
    u2._inlined = [(n, n in methods) for n in names]
    return u2, names


def fn_for_line(meta, line):
    for lm in meta["linemap"]:
        if lm["start"] <= line < lm["end"]:
            return lm
    return None


def classify_unit(rec, r, meta, base, changed, text):
    st = r["status"]
    if st in ("timeout", "compile-error"):
        rec["status"] = "undecided"
        msgs = [d["msg"] for d in r.get("diagnostics", []) if d["level"] == "error"][:5]
        rec["reason"] = f"verus {st}: " + " | ".join(msgs)
        rec["verifier_output"] = r.get("stderr", "")[-6000:]
        return
    funcs = r["functions"]
    can = [f for f in funcs if f["function"].endswith(CANARY)]
    if not can or can[0]["success"]:
        rec["status"] = "undecided"
        rec["reason"] = "vacuity canary did not fail: shim axioms may be inconsistent (or canary missing)"
        return
    real = [f for f in funcs if not f["function"].endswith(CANARY)]
    rec["functions"] = real
    rec["obligations"] = len(real)
    rec["discharged"] = sum(1 for f in real if f["success"])
    lines = text.splitlines()
    failed = []
    for e in r["errors"]:
        ln = None
        for (fpath, l) in e["spans"]:
            if os.path.basename(fpath) == os.path.basename(rec["generated"]):
                ln = l
                break
        lm = fn_for_line(meta, ln) if ln else None
        if lm and lm["kind"] == "prelude" and ln and CANARY in "\n".join(lines[max(0, ln - 4):ln + 2]):
            continue  # the canary's own expected failure
        name = lm["name"] if lm else "?"
        if lm and lm.get("kind") not in ("fn",) and ln:
            # a lemma / proof fn inside a contract file: name the obligation after the function, not after the file
            for k in range(min(ln, len(lines)) - 1, max(0, ln - 80), -1):
                mfn = re.match(r"\s*(?:pub\s+)?(?:broadcast\s+)?(?:proof\s+|exec\s+)?fn\s+(\w+)", lines[k])
                if mfn:
                    name = mfn.group(1)
                    break
        src_line = lines[ln - 1].strip() if ln and ln <= len(lines) else ""
        failed.append({"function": name, "where": (lm or {}).get("where", (lm or {}).get("name", "?")), "kind": e.get("kind", "other"),
                       "msg": e["msg"], "gen_line": ln, "text": src_line, "verifier": "\n".join(e["text"])[:3000]})
    # obligations listed as KNOWN findings (known_findings.txt, `finding:` lines) are genuine, recorded defects of the unchanged tree: they are
    # set aside here — the guards below (baseline, scope, ..) speak about the OTHER failed obligations — and handed to finish(), which prints
    # the KNOWN-FINDING line while the witness still reproduces
    kn = rec.get("known_names") or set()
    known_part = [x for x in failed if f"{rec.get('prop')}.{rec.get('unit')}.{x['function']}.{x['kind']}" in kn]
    if known_part:
        rec["known_failed"] = known_part
        failed = [x for x in failed if x not in known_part]
        kf_funcs = {x["function"] for x in known_part}
        if not failed and all(f["success"] or any(f["function"].endswith(k) for k in kf_funcs) for f in real):
            rec["status"] = "ok"
            return
    if not failed and all(f["success"] for f in real):
        rec["status"] = "ok"
        return
    if not failed:
        # a function failed without a parsed error (e.g. rlimit note)
        for f in real:
            if not f["success"]:
                failed.append({"function": f["function"], "where": f["function"], "kind": "unknown", "msg": "function not verified", "gen_line": None, "text": "", "verifier": r.get("stderr", "")[-3000:]})
    scope = rec.get("clause_scope") or {}
    if scope:
        def _clause_text(x):
            """the source text of the clause the verifier marks as failed (`failed this postcondition` / `failed precondition` /
            `failed this invariant` label, else the primary `^^^` marker): the context lines a rendered diagnostic shows around it
            belong to OTHER clauses and must not decide whose clause failed"""
            lines = (x.get("verifier") or "").splitlines()
            def src_of(k):
                # the source line a marker line refers to is the nearest line above it that carries a line number
                for j in range(k - 1, max(-1, k - 6), -1):
                    if re.match(r"\s*\d+\s*\|", lines[j]):
                        return re.sub(r"^\s*\d+\s*\|", "", lines[j])
                return ""
            for k, l in enumerate(lines):
                if re.search(r"failed (this postcondition|precondition|this invariant)", l):
                    return src_of(k)
            for k, l in enumerate(lines):
                if re.match(r"\s*\|\s*\^+", l):
                    return src_of(k)
            return ""

        def _hit(x, frags):
            ct = _clause_text(x)
            hay = ct if ct.strip() else (x.get("verifier", "") + x.get("text", ""))
            return any(frag in hay for frag in frags)
        if scope.get("only"):
            inside = [x for x in failed if _hit(x, scope["only"])]
        else:
            inside = [x for x in failed if not _hit(x, scope.get("except", []))]
        if not inside:
            rec["failed"] = failed
            rec["status"] = "undecided"
            rec["reason"] = ("the failed obligations are not this property's clauses (they are the shared context clauses, decided by the "
                             "units of other properties): " + "; ".join(sorted({x["function"] + ": " + x["msg"] for x in failed}))[:400])
            return
        failed = inside
    rec["failed"] = failed
    if all(x["kind"] == "rlimit" for x in failed):
        rec["status"] = "undecided"
        rec["reason"] = "resource limit exceeded (after retry)"
        return
    # a function on which the solver gave up says nothing about the code: only the obligations it actually refuted are reported
    failed = [x for x in failed if x["kind"] != "rlimit"]
    rec["failed"] = failed
    if not base:
        rec["status"] = "undecided"
        rec["reason"] = ("obligation failed and no validated baseline is recorded for this unit (contracts/baseline.json): a unit is only "
                         "trusted to raise alarms after it has verified the unchanged tree once (./check <ID> --rebaseline)")
        return
    if base and not changed:
        rec["status"] = "undecided"
        rec["reason"] = "obligation failed although every extracted item is byte-identical to the validated baseline: solver instability, not the code"
        return
    marks = list(rec.get("alarm_only_with") or [])
    if marks:
        if not any(mk in (text or "") for mk in marks):
            rec["status"] = "undecided"
            rec["reason"] = ("the extracted code no longer computes the function of its input recorded in the contract, but it walks no collection in an "
                             "unspecified order (none of " + ", ".join(marks) + " occurs in the verified text): its output is still a function of "
                             "the program — determinism is not refuted; the contract has to be re-stated for the new order")
            return
    # proof-skeleton guard: loop invariants are keyed by loop ordinal; if a function's number of loops differs from the
    # validated baseline, its invariants no longer describe its loops and a failed proof says nothing about the property.
    hl = set(rec.get("hints_lost", []))
    if hl:
        # a proof hint lost its anchor (e.g. a renamed local): a failed proof in that function says nothing about the property
        keep = [x for x in failed if x.get("where") not in hl]
        if not keep:
            rec["status"] = "undecided"
            rec["reason"] = ("an optional proof hint of " + ", ".join(sorted(hl)) + " no longer finds its anchor: the failed obligations there "
                             "are unproven, not violated (the hint must be re-anchored)")
            return
        failed = keep
        rec["failed"] = keep
    sk = set(rec.get("skeleton_changed", []))
    if sk:
        keep = [x for x in failed if x.get("where") not in sk]
        dropped = [x for x in failed if x.get("where") in sk]
        if dropped and not keep:
            rec["status"] = "undecided"
            rec["reason"] = ("loop structure of " + ", ".join(sorted(sk)) + " differs from the validated baseline: the loop invariants no longer apply "
                             "(new invariants needed); failed obligations there are not reported as violations")
            return
        rec["failed"] = keep
    rec["status"] = "failed"


def load_baseline(root):
    p = os.path.join(root, "contracts", "baseline.json")
    if os.path.exists(p):
        with open(p) as f:
            return json.load(f)
    return {}


def save_baseline(root, results):
    b = load_baseline(root)
    for r in results:
        # a unit whose only failed obligations are recorded known findings has verified everything else: it gets its baseline too
        only_known = bool(r.get("known_failed")) and all(x in r["known_failed"] for x in r.get("failed", []))
        if (r.get("status") == "ok" or only_known) and "fingerprint" in r:
            b[r["module"]] = r["fingerprint"]
    with open(os.path.join(root, "contracts", "baseline.json"), "w") as f:
        json.dump(b, f, indent=1, sort_keys=True)


def load_known(root):
    findings, fixed = [], []
    p = os.path.join(root, "known_findings.txt")
    if not os.path.exists(p):
        return findings, fixed
    for line in open(p):
        line = line.strip()
        if line.startswith("finding:"):
            d = dict(re.findall(r"(\w+)=(\S+)", line))
            d["line"] = line
            d["what"] = line.split(" -- ", 1)[1] if " -- " in line else line
            findings.append(d)
        elif line.startswith("fixed:"):
            fixed.append(line)
    return findings, fixed


def obligation_name(prop, rec, f):
    return f"{prop}.{rec.get('unit', rec['module'])}.{f['function']}.{f['kind']}"


def mutation_selftest(root, prop, unit_names):
    """thorough tier: the fixed edit list of tools/mutants.py restricted to this property's units, each applied to a scratch
    copy of /repo's sources; every edit must give its expected outcome (1 alarm / 0 quiet / 2 undecided).  A mismatch means the
    *machinery* lost sensitivity or became brittle: reported as UNDECIDED (exit 2), never as a violation of the property."""
    import subprocess, sys
    names = []
    sys.path.insert(0, root)
    from tools.mutants import MUTANTS
    for m in MUTANTS:
        if m["prop"] == prop or set(m.get("units", [])) & set(unit_names):
            names.append(m["name"])
    if not names:
        return {"mutants": 0, "unexpected": 0, "lines": []}
    r = subprocess.run([sys.executable, os.path.join(root, "tools", "mutest.py")] + names, capture_output=True, text=True)
    lines = [l for l in r.stdout.splitlines() if l.startswith(("ok ", "BAD", "SKIP"))]
    return {"mutants": len(lines), "unexpected": sum(1 for l in lines if not l.startswith("ok ")), "lines": [l[:160] for l in lines]}


def finish(root, prop, tier, seed, results, wall, no_evidence=False, extra=None):
    findings, _fixed = load_known(root)
    violations, known_seen, undecided = [], [], []
    rdir = os.path.join(out_dir(root, prop), "replay") if os.environ.get("VERIF_REPO") else os.path.join(root, "out", "replay")
    os.makedirs(rdir, exist_ok=True)
    for old in os.listdir(rdir):
        if old.startswith(prop + "-"):
            try:
                os.remove(os.path.join(rdir, old))
            except OSError:
                pass
    for rec in results:
        if rec["status"] == "undecided":
            undecided.append({"unit": rec.get("unit", rec["module"]), "reason": rec["reason"]})
        elif rec["status"] == "failed":
            for f in rec["failed"]:
                name = obligation_name(prop, rec, f)
                f["obligation"] = name
                kf = [k for k in findings if k.get("property") == prop and k.get("obligation") == name]
                if kf and known_still_reproduces(root, kf[0]):
                    known_seen.append({"obligation": name, "what": kf[0]["what"]})
                    continue
                violations.append((rec, f))
    # evidence
    units_ev = []
    obligations = discharged = 0
    smt_s = 0.0
    assumptions = list(GLOBAL_TRUSTED)
    fns_under_contract = []
    samples = []
    bounded = []
    for rec in results:
        obligations += rec.get("obligations", 0)
        discharged += rec.get("discharged", 0)
        smt_s += rec.get("smt_ms", 0) / 1000.0
        for a in rec.get("assumptions", []):
            assumptions.append(f"[{rec.get('unit', rec['module'])}] {a}")
        for a in rec.get("trusted", []):
            assumptions.append(f"[{rec.get('unit', rec['module'])}] {a}")
        for it in rec.get("items", []):
            if it.get("kind") == "fn":
                fns_under_contract.append(it["item"])
                if it.get("obligation") and len(samples) < 12:
                    samples.append({"unit": rec.get("unit"), "function": it["item"], "obligation": it["obligation"]})
        if rec.get("bounded"):
            bounded.append(rec["bounded"])
        units_ev.append({k: rec.get(k) for k in ("unit", "module", "status", "reason", "describe", "backend", "checker_cmd", "obligations", "discharged",
                                                  "smt_ms", "verus_wall_s", "wall_s", "attempts", "items", "rule_counts", "rewrites",
                                                  "functions", "changed_items", "bounded", "harnesses", "vacuity_probe") if rec.get(k) is not None})
    # known-finding obligations are not counted as obligations of the proof claim
    n_known = len(known_seen)
    ev = {
        "property_id": prop, "tier": tier if tier in ("quick", "thorough") else "quick", "seed": seed, "level": "proof",
        "wall_s": round(wall, 2), "violations": len(violations),
        "coverage": {
            "obligations": max(obligations - n_known, 0), "discharged": discharged,
            "checker_cmd": "; ".join(sorted({u.get("checker_cmd", "") for u in units_ev if u.get("checker_cmd")}))[:4000] or "verus <generated unit file> --output-json --time",
            "trusted_base": sorted(set(assumptions)),
            "explanation": "one obligation = one function-level verification query reported by the back end (Verus function-breakdown entry / Kani harness) "
                           "for a function extracted from /repo's working tree or a lemma over its contracts; the vacuity canary is excluded",
            "functions_under_contract": fns_under_contract,
            "solver_time_s": round(smt_s, 3),
            "units": units_ev, "samples": samples or [{"note": "no unit produced obligations"}],
            "bounded_units": bounded, "known_findings_seen": known_seen, "undecided": undecided,
            "mutation_selftest": extra,
            "exhaustive": False,
        },
        "assumptions": sorted(set(assumptions)),
    }
    rc = 0
    for k in known_seen:
        print(f"KNOWN-FINDING: property={prop} {k['what']}")
    for i, (rec, f) in enumerate(violations):
        rp = os.path.join(rdir, f"{prop}-{rec['module']}-{i}.json")
        payload = {"property": prop, "obligation": f["obligation"], "unit": rec.get("unit"), "function": f["where"], "kind": f["kind"],
                   "verifier_message": f["msg"], "verifier_output": f["verifier"], "generated_file": rec.get("generated"), "generated_line": f["gen_line"],
                   "source_text_at_failure": f["text"], "changed_items_vs_validated_baseline": rec.get("changed_items"),
                   "checker_cmd": rec.get("checker_cmd"), "failing_input": None}
        tail = " no-failing-input-found"
        try:
            from . import replaysearch
            w = replaysearch.search(root, prop, rec, f)
            if w:
                payload["failing_input"] = w
                tail = ""
        except Exception as e:  # replay machinery must never mask the violation
            payload["replay_search_error"] = repr(e)
        with open(rp, "w") as fh:
            json.dump(payload, fh, indent=1)
        print(f"VIOLATION property={prop} replay={rp}{tail}")
        rc = 1
    if extra and extra.get("unexpected"):
        undecided.append({"unit": "mutation-selftest", "reason": f"{extra['unexpected']} of {extra['mutants']} fixed edits did not give the expected outcome"})
    if rc == 0 and undecided:
        for u in undecided:
            print(f"UNDECIDED property={prop} unit={u['unit']}: {u['reason'][:300]}")
        rc = 2
    if not no_evidence:
        os.makedirs(os.path.join(root, "evidence"), exist_ok=True)
        with open(os.path.join(root, "evidence", f"{prop}.json"), "w") as fh:
            json.dump(ev, fh, indent=1)
    ok_units = sum(1 for r in results if r["status"] == "ok")
    print(f"{prop}: units ok {ok_units}/{len(results)}; obligations {ev['coverage']['obligations']} discharged {discharged}; "
          f"violations {len(violations)}; known {n_known}; undecided {len(undecided)}; {wall:.1f}s")
    return rc


def known_still_reproduces(root, kf):
    """a known finding only suppresses its obligation while its witness still reproduces on the real code"""
    w = kf.get("witness")
    if not w:
        return True
    try:
        from . import replaysearch
        return replaysearch.witness_reproduces(root, kf)
    except Exception:
        return True


def replay(prop, path):
    with open(path) as f:
        d = json.load(f)
    print(json.dumps({k: d.get(k) for k in ("property", "obligation", "function", "kind", "verifier_message", "failing_input")}, indent=1))
    try:
        from . import replaysearch
        return replaysearch.replay(d)
    except Exception as e:
        print("replay: no executable witness recorded; re-run ./check", prop, "to re-check the obligation", repr(e))
        return 1

def vacuity_probe(root, module, prop):
    """Thorough tier, sequential (the generator flag is global): the unit is generated once more with every postcondition replaced by `false`
    (same preconditions, same stubs).  Each function under contract must then FAIL to verify; one that verifies has a contradictory
    precondition or calls a contradictory trusted stub on every path — its real proof would be vacuous.  Returns the list of such functions."""
    um = load_unit(module)
    if getattr(um, "KIND", "verus") != "verus":
        return []
    gen.VACUITY = True
    try:
        text, meta = gen.generate(um.UNIT, root, rules)
    except Exception:
        return []
    finally:
        gen.VACUITY = False
    outdir = out_dir(root, prop)
    os.makedirs(outdir, exist_ok=True)
    path = os.path.join(outdir, f"{module}.vac.rs")
    with open(path, "w") as f:
        f.write(text)
    r = verus.run(path, um.UNIT.verus_args, timeout=600, rlimit=3)
    if r["status"] in ("timeout", "compile-error"):
        return []
    names = {it["item"].split("::")[-1] for it in meta["items"] if it.get("kind") == "fn" and it.get("has_contract") and not it.get("contract_only")}
    renamed = {it.get("rename") for it in meta["items"] if it.get("rename")}
    vac = []
    for fb in r.get("functions", []):
        short = fb["function"].split("::")[-1]
        if fb["success"] and (short in names or short in renamed):
            vac.append(fb["function"])
    return vac

